import PwVerif.Proofs.Signal
import PwVerif.Proofs.Signal2
import PwVerif.Proofs.BridgeC02C06
/-!
# C02 — Execution signals: any-of / all-of triggers fire exactly once; flows follow them

"A node wired to run on any of several upstream completions runs once per such completion; a node
wired to run on all of them runs exactly once per complete round, never early, and then starts a
fresh round. A composite with hand-specified execution flow (including conditional branches and loops
that exit) executes its children in exactly the order a plain queue-based interpretation of those
signal connections prescribes, and computes the same values."

Part A quantifies over every labelling of emitters, every initial connection list and EVERY history
of `arrive e | poke | connect e | disconnect e` (induction over the history, `Proofs.inv_both`).
`hist[k]` is event number `k`, `before … k` the trigger just before it, `firedAt … k` whether the
callback fired at it. "Since the previous firing" is expressed without a `lastFire` function: an
arrival at `j ≤ k` with no firing at `j, …, k-1`.

Part C is the macro constructor's treatment of a hand-made wiring (`Wiring.reconfigure`): every wiring, every
list of children.

Part B quantifies over every signal graph `g` (cycles allowed), every node behaviour `sem` (the
reaction of a child to `run()` is an arbitrary function of a node-local store: term functions, `If`,
accumulators, failing children, caching …), every initial store and every fuel.
-/
namespace PwVerif.C02
open PwVerif PwVerif.Signal

/-- a trigger at the start of a round -/
def fresh (conns : List Nat) : Acc := { conns := conns, received := [] }

/-! ## any-of -/

/-- an any-of trigger (`run`) fires once per call that reaches it, whatever is connected -/
theorem C02_any (conns : List Nat) (hist : List Ev) :
    anyFirings conns hist = (hist.filter Ev.isCall).length :=
  anyFirings_eq conns hist

example : anyFirings [] [.arrive 0, .connect 1, .arrive 1, .poke, .disconnect 1, .arrive 1] = 4 := by decide

/-- one upstream completion calls a connected receiver exactly once (connection lists are duplicate
free — `connect` skips a channel that is already there), an unconnected one not at all -/
theorem C02_any_once_per_completion (conns : List Nat) (e : Nat) (h : conns.Nodup) :
    callsFrom conns e = if conns.contains e then 1 else 0 :=
  callsFrom_nodup conns e h

example : callsFrom [2, 0, 1] 0 = 1 ∧ callsFrom [2, 0, 1] 5 = 0 := by decide

/-! ## all-of -/

/-- the statement without any hypothesis on labels -/
def NeverEarlyStatement : Prop :=
  ∀ (lab : Nat → Label) (conns0 : List Nat) (hist : List Ev) (k : Nat),
    (fresh conns0).firedAt lab hist k = true →
    ∀ e ∈ ((fresh conns0).before lab hist k).conns,
      ∃ j, j ≤ k ∧ hist[j]? = some (.arrive e) ∧
        ∀ i, j ≤ i → i < k → (fresh conns0).firedAt lab hist i = false

/-- NEVER EARLY: if the callback fires at event `k`, every emitter connected at that moment has
arrived since the previous firing — provided a connected emitter shares its scoped label with no
other emitter that calls the trigger (`hinj`; inside one parent sibling labels are unique) -/
theorem C02_all_never_early (lab : Nat → Label) (conns0 : List Nat) (hist : List Ev) (k : Nat)
    (hinj : ∀ e e', e ∈ ((fresh conns0).before lab hist k).conns → Ev.arrive e' ∈ hist →
      lab e = lab e' → e = e')
    (hfire : (fresh conns0).firedAt lab hist k = true) :
    ∀ e ∈ ((fresh conns0).before lab hist k).conns,
      ∃ j, j ≤ k ∧ hist[j]? = some (.arrive e) ∧
        ∀ i, j ≤ i → i < k → (fresh conns0).firedAt lab hist i = false := by
  intro e he
  have hlt := fired_lt lab _ hist k hfire
  obtain ⟨hS, _⟩ := inv_both lab (fresh conns0) rfl hist k (by omega)
  obtain ⟨other, hev, hc⟩ := fired_cases lab _ hist k hfire
  have hcov := (covered_iff.1 hc) e he
  have fromRec : lab e ∈ ((fresh conns0).before lab hist k).received →
      ∃ j, j ≤ k ∧ hist[j]? = some (.arrive e) ∧
        ∀ i, j ≤ i → i < k → (fresh conns0).firedAt lab hist i = false := by
    intro hl
    obtain ⟨j, e', hj, hje, hl', hq⟩ := hS _ hl
    have : e = e' := hinj e e' he (List.mem_of_getElem? hje) hl'.symm
    subst this
    exact ⟨j, by omega, hje, hq⟩
  rcases hev with ⟨e0, hev, rfl⟩ | ⟨hev, rfl⟩
  · simp only [heard, mem_insertL] at hcov
    rcases hcov with h1 | h1
    · have : e = e0 := hinj e e0 he (List.mem_of_getElem? hev) h1
      subst this
      exact ⟨k, Nat.le_refl k, hev, fun i h1 h2 => by omega⟩
    · exact fromRec h1
  · exact fromRec hcov

/-- non-vacuity: three distinctly labelled emitters, the trigger fires at the third arrival -/
example : (fresh [2, 1, 0]).firedAt id [.arrive 0, .arrive 2, .arrive 0, .arrive 1] 3 = true := by decide

/-- FIRES AT COMPLETION: a call at which every connected emitter has arrived since the previous
firing fires — at that very call (no hypothesis on labels needed) -/
theorem C02_all_complete_fires (lab : Nat → Label) (conns0 : List Nat) (hist : List Ev) (k : Nat) (ev : Ev)
    (hev : hist[k]? = some ev) (hcall : ev.isCall = true)
    (hall : ∀ e ∈ ((fresh conns0).before lab hist k).conns,
      ∃ j, j ≤ k ∧ hist[j]? = some (.arrive e) ∧
        ∀ i, j ≤ i → i < k → (fresh conns0).firedAt lab hist i = false) :
    (fresh conns0).firedAt lab hist k = true := by
  have hlt : k < hist.length := (List.getElem?_eq_some_iff.1 hev).1
  obtain ⟨_, hC⟩ := inv_both lab (fresh conns0) rfl hist k (by omega)
  have key : ∀ other, ((∃ e, hist[k]? = some (.arrive e) ∧ other = some e) ∨ (hist[k]? = some .poke ∧ other = none)) →
      (fresh conns0).firedAt lab hist k = true := by
    intro other ho
    apply call_fires lab _ hist k other ho
    rw [covered_iff]
    intro c hc
    obtain ⟨j, hj, hje, hq⟩ := hall c hc
    by_cases hjk : j = k
    · subst hjk
      rcases ho with ⟨e0, h0, rfl⟩ | ⟨h0, rfl⟩
      · rw [h0] at hje
        cases hje
        simp [heard, mem_insertL]
      · rw [h0] at hje; cases hje
    · have := hC j c (by omega) hje hq
      cases other with
      | none => exact this
      | some e0 => simp only [heard, mem_insertL]; exact Or.inr this
  cases ev with
  | arrive e => exact key (some e) (Or.inl ⟨e, hev, rfl⟩)
  | poke => exact key none (Or.inr ⟨hev, rfl⟩)
  | connect e => cases hcall
  | disconnect e => cases hcall

example : (fresh [1, 0]).firedAt id [.arrive 1, .disconnect 1, .poke] 2 = false ∧
          (fresh [1, 0]).firedAt id [.arrive 1, .disconnect 0, .poke] 2 = true := by decide

/-- FRESH ROUND: a firing empties the memory -/
theorem C02_all_resets (lab : Nat → Label) (conns0 : List Nat) (hist : List Ev) (k : Nat)
    (hfire : (fresh conns0).firedAt lab hist k = true) :
    ((fresh conns0).before lab hist (k + 1)).received = [] :=
  fired_resets lab _ hist k hfire

/-- ONCE PER ROUND: between two firings every emitter connected at the second one has arrived again -/
theorem C02_all_round (lab : Nat → Label) (conns0 : List Nat) (hist : List Ev) (k1 k2 : Nat) (hk : k1 < k2)
    (hinj : ∀ e e', e ∈ ((fresh conns0).before lab hist k2).conns → Ev.arrive e' ∈ hist →
      lab e = lab e' → e = e')
    (h1 : (fresh conns0).firedAt lab hist k1 = true) (h2 : (fresh conns0).firedAt lab hist k2 = true) :
    ∀ e ∈ ((fresh conns0).before lab hist k2).conns,
      ∃ j, k1 < j ∧ j ≤ k2 ∧ hist[j]? = some (.arrive e) := by
  intro e he
  obtain ⟨j, hj, hje, hq⟩ := C02_all_never_early lab conns0 hist k2 hinj h2 e he
  refine ⟨j, ?_, hj, hje⟩
  apply Classical.byContradiction
  intro hn
  have := hq k1 (by omega) hk
  rw [h1] at this; cases this

example : (fresh [1, 0]).firedAt id [.arrive 0, .arrive 1, .arrive 1, .arrive 0] 1 = true ∧
          (fresh [1, 0]).firedAt id [.arrive 0, .arrive 1, .arrive 1, .arrive 0] 3 = true := by decide

/-- THE PINNED CODE FIRES EARLY without label injectivity: two distinct emitters `0`, `1` with the
same scoped label (parentless nodes of the same class), `c << (a, b)`, `a` alone completes — `c`
fires, although `b` has not arrived -/
theorem C02_all_early_witness : ¬ NeverEarlyStatement := by
  intro h
  have hf : (fresh [1, 0]).firedAt (fun _ => 0) [.arrive 0, .arrive 1] 0 = true := by decide
  obtain ⟨j, hj, hje, _⟩ := h (fun _ => 0) [1, 0] [.arrive 0, .arrive 1] 0 hf 1 (by decide)
  have : j = 0 := by omega
  subst this
  simp at hje

/-- … and once more when `b` completes: two runs for one round -/
theorem C02_all_early_witness_twice :
    (fresh [1, 0]).firedAt (fun _ => 0) [.arrive 0, .arrive 1] 0 = true ∧
    (fresh [1, 0]).firedAt (fun _ => 0) [.arrive 0, .arrive 1] 1 = true := by decide

/-- THE REPAIR (`fixes/C02-accumulate-by-identity.patch`: remember the emitter, not its label — in
the model every emitter is its own label, `lab = id`): never early for every history, no hypothesis -/
theorem C02_all_never_early_repaired (conns0 : List Nat) (hist : List Ev) (k : Nat)
    (hfire : (fresh conns0).firedAt id hist k = true) :
    ∀ e ∈ ((fresh conns0).before id hist k).conns,
      ∃ j, j ≤ k ∧ hist[j]? = some (.arrive e) ∧
        ∀ i, j ≤ i → i < k → (fresh conns0).firedAt id hist i = false :=
  C02_all_never_early id conns0 hist k (fun _ _ _ _ h => h) hfire

/-- … and exactly one run per complete round -/
theorem C02_all_round_repaired (conns0 : List Nat) (hist : List Ev) (k1 k2 : Nat) (hk : k1 < k2)
    (h1 : (fresh conns0).firedAt id hist k1 = true) (h2 : (fresh conns0).firedAt id hist k2 = true) :
    ∀ e ∈ ((fresh conns0).before id hist k2).conns,
      ∃ j, k1 < j ∧ j ≤ k2 ∧ hist[j]? = some (.arrive e) :=
  C02_all_round id conns0 hist k1 k2 hk (fun _ _ _ _ h => h) h1 h2

/-- on the witness history of the defect the repaired trigger waits for `b` and fires once -/
example : (fresh [1, 0]).firedAt id [.arrive 0, .arrive 1] 0 = false ∧
          (fresh [1, 0]).firedAt id [.arrive 0, .arrive 1] 1 = true := by decide

/-- RELABELLING AN EMITTER IN THE MIDDLE OF A ROUND (same root cause as `C02_all_early_witness`: the memory holds
label strings): `a` (emitter 0) arrives, is then relabelled (its label 0 becomes 7 — the theorems above fix `lab` for a
whole history, so this is outside them), `b` arrives: both connected emitters have signalled since the last firing,
yet the pinned trigger does not fire; keyed by identity (labels never consulted, `lab = id` throughout) it does -/
theorem C02_relabel_midround_witness :
    let a1 := ((fresh [1, 0]).step id (.arrive 0)).1
    (a1.step (fun e => if e = 0 then 7 else e) (.arrive 1)).2 = false ∧ (a1.step id (.arrive 1)).2 = true := by decide

/-! ## whatever the callback does (returns, raises, comes back to its own trigger)

`execTop true` is the pinned trigger (`reset()` before `callback()`) driven by a script of acts: every event
carries what the callback does if the event fires it — a list of further acts on the same trigger (to any depth:
parentless nodes fire depth-first) and whether it then raises; exceptions leave all enclosing callbacks and are
caught by whoever performed the top-level event. All statements are about the events that were really performed
(`evs`) and the firing flags observed (`fires`), for EVERY script and every fuel. -/

/-- the trigger has lived through the flat history `evs`; flag `k` is `firedAt evs k` -/
theorem C02_callback_outcomes_are_histories (lab : Nat → Label) (conns0 : List Nat) (fuel : Nat) (script : List Act) :
    let t := execTop true lab fuel (fresh conns0) script
    t.acc = (fresh conns0).run lab t.evs ∧
      ∀ k, k < t.evs.length → t.fires[k]? = some ((fresh conns0).firedAt lab t.evs k) := by
  intro t
  obtain ⟨h1, h2⟩ := execTop_flat lab fuel script (fresh conns0)
  refine ⟨h1, fun k hk => ?_⟩
  have h2' : t.fires = (fresh conns0).flags lab t.evs := h2
  rw [h2']
  exact Acc.flags_get lab _ _ k hk

theorem fired_of_flag {lab : Nat → Label} {conns0 : List Nat} {fuel : Nat} {script : List Act} {k : Nat}
    (h : (execTop true lab fuel (fresh conns0) script).fires[k]? = some true) :
    (fresh conns0).firedAt lab (execTop true lab fuel (fresh conns0) script).evs k = true := by
  obtain ⟨_, h2⟩ := execTop_flat lab fuel script (fresh conns0)
  have hk : k < (execTop true lab fuel (fresh conns0) script).evs.length := by
    have := (List.getElem?_eq_some_iff.1 h).1
    rw [h2, Acc.flags_length] at this
    exact this
  have := (C02_callback_outcomes_are_histories lab conns0 fuel script).2 k hk
  rw [h] at this
  exact (Option.some.inj this).symm

/-- NEVER EARLY, for every pattern of callback outcomes -/
theorem C02_all_never_early_any_outcome (lab : Nat → Label) (conns0 : List Nat) (fuel : Nat) (script : List Act) (k : Nat) :
    let t := execTop true lab fuel (fresh conns0) script
    (∀ e e', e ∈ ((fresh conns0).before lab t.evs k).conns → Ev.arrive e' ∈ t.evs → lab e = lab e' → e = e') →
    t.fires[k]? = some true →
    ∀ e ∈ ((fresh conns0).before lab t.evs k).conns,
      ∃ j, j ≤ k ∧ t.evs[j]? = some (.arrive e) ∧
        ∀ i, j ≤ i → i < k → (fresh conns0).firedAt lab t.evs i = false := by
  intro t hinj hfire
  exact C02_all_never_early lab conns0 t.evs k hinj (fired_of_flag hfire)

/-- ONCE PER ROUND, for every pattern of callback outcomes — in particular after a callback that raised -/
theorem C02_all_round_any_outcome (lab : Nat → Label) (conns0 : List Nat) (fuel : Nat) (script : List Act)
    (k1 k2 : Nat) (hk : k1 < k2) :
    let t := execTop true lab fuel (fresh conns0) script
    (∀ e e', e ∈ ((fresh conns0).before lab t.evs k2).conns → Ev.arrive e' ∈ t.evs → lab e = lab e' → e = e') →
    t.fires[k1]? = some true → t.fires[k2]? = some true →
    ∀ e ∈ ((fresh conns0).before lab t.evs k2).conns, ∃ j, k1 < j ∧ j ≤ k2 ∧ t.evs[j]? = some (.arrive e) := by
  intro t hinj h1 h2
  exact C02_all_round lab conns0 t.evs k1 k2 hk hinj (fired_of_flag h1) (fired_of_flag h2)

/-- FRESH ROUND: a firing leaves an empty memory behind, also when its callback raises: what is heard while the
callback runs already belongs to the next round -/
theorem C02_all_resets_any_outcome (lab : Nat → Label) (conns0 : List Nat) (fuel : Nat) (script : List Act) (k : Nat) :
    let t := execTop true lab fuel (fresh conns0) script
    t.fires[k]? = some true → ((fresh conns0).before lab t.evs (k + 1)).received = [] := by
  intro t h
  exact C02_all_resets lab conns0 t.evs k (fired_of_flag h)

/-- FIRES AT COMPLETION, for every pattern of callback outcomes -/
theorem C02_all_complete_fires_any_outcome (lab : Nat → Label) (conns0 : List Nat) (fuel : Nat) (script : List Act)
    (k : Nat) (ev : Ev) :
    let t := execTop true lab fuel (fresh conns0) script
    t.evs[k]? = some ev → ev.isCall = true →
    (∀ e ∈ ((fresh conns0).before lab t.evs k).conns,
      ∃ j, j ≤ k ∧ t.evs[j]? = some (.arrive e) ∧ ∀ i, j ≤ i → i < k → (fresh conns0).firedAt lab t.evs i = false) →
    t.fires[k]? = some true := by
  intro t hev hcall hall
  have hk : k < t.evs.length := (List.getElem?_eq_some_iff.1 hev).1
  rw [(C02_callback_outcomes_are_histories lab conns0 fuel script).2 k hk,
    C02_all_complete_fires lab conns0 t.evs k ev hev hcall hall]

/-- a round completed by `b`, whose callback raises; then `b` again (one of two), then `a` (two of two) -/
def raisingScript : List Act := [.mk (.arrive 0) false [], .mk (.arrive 1) true [], .mk (.arrive 1) false [], .mk (.arrive 0) false []]

/-- a callback that hears `a` again while it runs (depth-first self loop), then `b`: the round is complete -/
def reenteringScript : List Act := [.mk (.arrive 0) false [], .mk (.arrive 1) false [.mk (.arrive 0) false []], .mk (.arrive 1) false []]

example : (execTop true id 20 (fresh [1, 0]) raisingScript).fires = [false, true, false, true] ∧
          (execTop true id 20 (fresh [1, 0]) reenteringScript).fires = [false, true, false, true] := by decide

/-- RESETTING AFTER THE CALLBACK (seeded change C02-1) breaks it: a raising callback leaves the completed round in
the memory, so the next single arrival fires early (flags `[_, fire, fire, …]` although `a` has not signalled
again), the memory is not empty after a firing, and what a re-entering callback heard is wiped, so a complete
round does not fire -/
theorem C02_reset_after_callback_witness :
    (execTop false id 20 (fresh [1, 0]) raisingScript).fires = [false, true, true, false] ∧
    (execTop false id 20 (fresh [1, 0]) [.mk (.arrive 0) false [], .mk (.arrive 1) true []]).acc.received ≠ [] ∧
    (execTop false id 20 (fresh [1, 0]) reenteringScript).fires = [false, true, true, false] := by decide

/-! ## flows -/

/-- REFINEMENT, from any related pair of trigger memories: for every signal graph satisfying `WF`
(mirror-image connection lists, distinct labels among the emitters wired to one all-of trigger), every node
behaviour, every related pair of initial trigger memories and every fuel, the transcribed loops (starting
loop, then `fuel` deliveries) and the plain queue interpreter (one FIFO seeded with start tokens,
`|starters| + fuel` steps) have invoked the same children in the same order, hold the same store (outputs,
call log, provenance …), collected the same errors and have the same pending entries. No termination needed. -/
theorem C02_refines_queue_from {σ} (sem : Sem σ) (g : Graph) (wf : WF g) (st : σ)
    (rec0 : Nat → List Label) (seen0 : Nat → List Sig)
    (h0 : ∀ r l, l ∈ rec0 r ↔ ∃ s, s ∈ seen0 r ∧ g.lab s = l)
    (h1 : ∀ r s, s ∈ seen0 r → s ∈ g.accConns r) (fuel : Nat) :
    let m := compositeRunFrom sem g fuel (S.init st rec0)
    let q := Spec.queueInterp sem g (g.starters.length + fuel) (Spec.init g st seen0)
    m.fired = q.fired ∧ m.store = q.store ∧ m.errs = q.errs ∧
      q.fifo = m.queue.map (fun p => (some p.1, p.2)) := by
  intro m q
  have hrel : Rel g (S.init st rec0) (Spec.init g st seen0) g.starters :=
    ⟨rfl, rfl, rfl, by simp [Spec.init, S.init, lift, tok], h0, h1, by simp [S.init]⟩
  obtain ⟨q', hq', hrel'⟩ := start_rel sem g fuel g.starters _ _ hrel
  have := drain_rel sem g wf fuel _ _ hrel'
  have hq : q = Spec.queueInterp sem g fuel q' := hq'
  have hm : m = drain sem g fuel (startAll sem g (S.init st rec0) g.starters) := rfl
  rw [hq, hm]
  exact ⟨this.fired, this.store, this.errs, by simpa [lift] using this.fifo⟩

/-- REFINEMENT for `Composite._on_run` as it is: WHATEVER the all-of triggers held before the run
(`rec0` arbitrary — left-overs of an interrupted run, arrivals from outside), a fresh run is the plain queue
interpreter started with empty memories -/
theorem C02_refines_queue {σ} (sem : Sem σ) (g : Graph) (wf : WF g) (st : σ)
    (rec0 : Nat → List Label) (fuel : Nat) :
    let m := compositeRun sem g fuel (S.init st rec0)
    let q := Spec.queueInterp sem g (g.starters.length + fuel) (Spec.init g st (fun _ => []))
    m.fired = q.fired ∧ m.store = q.store ∧ m.errs = q.errs ∧
      q.fifo = m.queue.map (fun p => (some p.1, p.2)) :=
  C02_refines_queue_from sem g wf st (fun _ => []) (fun _ => []) (by simp) (by simp) fuel

/-- the same for a first run (all trigger memories empty) of concrete children: same execution
order (`provenance_by_execution`), same calls of the wrapped functions with the same arguments, same
output values -/
theorem C02_refines_queue_values (nodes : Nat → Node) (g : Graph) (wf : WF g) (st : Store)
    (rec0 : Nat → List Label) (fuel : Nat) :
    let m := compositeRun (nodeSem nodes) g fuel (S.init st rec0)
    let q := Spec.queueInterp (nodeSem nodes) g (g.starters.length + fuel) (Spec.init g st (fun _ => []))
    m.store.execLog = q.store.execLog ∧ m.store.callLog = q.store.callLog ∧
      (∀ i, m.store.out i = q.store.out i) ∧ (m.queue = [] ↔ q.fifo = []) := by
  intro m q
  obtain ⟨_, hs, _, hf⟩ := C02_refines_queue (nodeSem nodes) g wf st rec0 fuel
  have hs' : m.store = q.store := hs
  have hf' : q.fifo = m.queue.map (fun p => (some p.1, p.2)) := hf
  refine ⟨by rw [hs'], by rw [hs'], fun i => by rw [hs'], ?_⟩
  rw [hf']; simp

/-- what one run of a ready, uncached child computes: the wrapped function applied to the fetched
inputs (first connection holding data, else the channel's own value); nothing else changes -/
theorem C02_value (nodes : Nat → Node) (st : Store) (i : Nat) (v : Val)
    (hc : (nodes i).useCache = false) (hf : st.failed i = false)
    (hargs : (fetchArgs nodes st.out i).any Val.isNd = false)
    (hfa : (nodes i).failAt.contains (st.attempts i + 1) = false)
    (hev : eval (nodes i).kind (fetchArgs nodes st.out i) = some v) :
    (runNode nodes st i).1.out i = v ∧ (runNode nodes st i).2.1 = false ∧
    (runNode nodes st i).1.execLog = st.execLog ++ [i] ∧
    (runNode nodes st i).1.callLog = st.callLog ++ [(i, fetchArgs nodes st.out i)] ∧
    ∀ j, j ≠ i → (runNode nodes st i).1.out j = st.out j := by
  unfold runNode
  simp only [hc, hf, hargs, hfa, hev, Bool.false_and, Bool.false_eq_true, ↓reduceIte, Bool.not_false,
    Bool.and_self, Bool.not_true]
  refine ⟨by simp, trivial, trivial, trivial, ?_⟩
  intro j hj
  simp [updF, hj]

/-! ### non-vacuity: a counter loop and an accumulate-then-branch flow evaluated in the model -/

/-- `body = Add(obj ← body | 0, other = 1)`, `cond = LessThan(body, 3)`, `switch = If(cond)`,
`hist = AppendToList(existing ← hist | None, new ← body)`;
`body >> cond >> switch`, `switch.true >> body`, `body >> hist`; starting node `body` -/
def loopNodes : Nat → Node
  | 0 => { kind := .add, slots := [⟨.nat 0, [0]⟩, ⟨.nat 1, []⟩], useCache := true, failAt := [] }
  | 1 => { kind := .lt, slots := [⟨.nd, [0]⟩, ⟨.nat 3, []⟩], useCache := true, failAt := [] }
  | 2 => { kind := .ifk, slots := [⟨.nd, [1]⟩], useCache := true, failAt := [] }
  | _ => { kind := .append, slots := [⟨.none, [3]⟩, ⟨.nd, [0]⟩], useCache := false, failAt := [] }

def loopGraph : FinGraph :=
  { conns := [[⟨3, false⟩, ⟨1, false⟩], [], [], [],   [⟨2, false⟩], [], [], [],   [], [], [⟨0, false⟩], [],
              [], [], [], []],
    accConns := [[], [], [], []], labs := List.range 16, starters := [0] }

example : WF loopGraph.toGraph := FinGraph.check_sound _ (by decide)

example :
    (compositeRun (nodeSem loopNodes) loopGraph.toGraph 100 (S.init Store.init (fun _ => []))).store.execLog
      = [0, 3, 1, 2, 0, 3, 1, 2, 0, 3, 1, 2] := by decide +kernel

example :
    (Spec.queueInterp (nodeSem loopNodes) loopGraph.toGraph 100
      (Spec.init loopGraph.toGraph Store.init (fun _ => []))).store.execLog
      = [0, 3, 1, 2, 0, 3, 1, 2, 0, 3, 1, 2] := by decide +kernel

/-- HYPOTHESIS `WF.inj` CANNOT BE DROPPED from `C02_refines_queue`: a diamond `0 >> 1`, `0 >> 2`,
`3 << (1, 2)` in which the emitters `1.ran` and `2.ran` carry the same scoped label — the transcribed loop
runs `3` twice (early, and again), the plain interpreter once.
Status on the real code: children of ONE parent always have distinct labels (C13), so this graph cannot be
built from siblings and every flow the harness builds satisfies `FinGraph.check` (re-checked on the live
channel objects of every case). Equal scoped labels do occur (a) for parentless nodes (default label = class
name; `C02_all_early_witness`, corpus case 1, finding KF-C02-1) and (b) inside a RUNNING workflow when a
signal connection crosses scopes (`c << (wf.a, wf.m.a)`: corpus case `xscope`, confirmed: `c` runs after
`wf.a` alone); (b) involves two composites, i.e. two queues, and is outside this single-composite model. -/
def clashGraph : FinGraph :=
  { conns := [[⟨2, false⟩, ⟨1, false⟩], [], [], [],   [⟨3, true⟩], [], [], [],   [⟨3, true⟩], [], [], [],
              [], [], [], []],
    accConns := [[], [], [], [8, 4]], labs := [0, 1, 2, 3, 7, 5, 6, 7, 7, 9, 10, 11, 12, 13, 14, 15],
    starters := [0] }

def termNodes : Nat → Node := fun i =>
  { kind := .term i, slots := [⟨.d, []⟩, ⟨.d, []⟩, ⟨.d, []⟩], useCache := false, failAt := [] }

theorem C02_flow_early_witness :
    (compositeRun (nodeSem termNodes) clashGraph.toGraph 100 (S.init Store.init (fun _ => []))).fired
      = [0, 2, 1, 3, 3] ∧
    (Spec.queueInterp (nodeSem termNodes) clashGraph.toGraph 100
      (Spec.init clashGraph.toGraph Store.init (fun _ => []))).fired = [0, 2, 1, 3] ∧
    clashGraph.check = false := by decide +kernel

/-- stale trigger memory does not leak into a fresh run: the left-over `[7]` at child 3 (it would complete
the round of `clashGraph` at once) is dropped before the starting nodes run -/
example :
    (compositeRun (nodeSem termNodes) clashGraph.toGraph 0 (S.init Store.init (fun r => if r = 3 then [7] else []))).received 3 = [] ∧
    (compositeRunFrom (nodeSem termNodes) clashGraph.toGraph 0 (S.init Store.init (fun r => if r = 3 then [7] else []))).received 3 = [7] := by
  decide +kernel

/-! ## running a hand-wired flow again after a failure -/

/-- RE-RUN: whatever an earlier run `p` left behind — it may have stopped anywhere (`p` is ANY state: pending queue
entries, half-filled all-of triggers, failed children) — and whatever is repaired in between (`heal`: clearing
`failed` flags, new input values …), the next fresh run is the plain queue interpreter started on the healed store
with empty memories: nothing of the interrupted round leaks (commit bc0a763) -/
theorem C02_rerun_refines_queue {σ} (sem : Sem σ) (g : Graph) (wf : WF g) (p : S σ) (heal : σ → σ) (fuel : Nat) :
    let m := compositeRun sem g fuel (S.init (heal p.store) p.received)
    let q := Spec.queueInterp sem g (g.starters.length + fuel) (Spec.init g (heal p.store) (fun _ => []))
    m.fired = q.fired ∧ m.store = q.store ∧ m.errs = q.errs ∧
      q.fifo = m.queue.map (fun p => (some p.1, p.2)) :=
  C02_refines_queue sem g wf (heal p.store) p.received fuel

/-- `0 >> 1 >> 4`, `0 >> 2`, `3 << (4, 2)` (distinct labels); child 2 fails at its first attempt -/
def diamondGraph : FinGraph :=
  { conns := [[⟨2, false⟩, ⟨1, false⟩], [], [], [],   [⟨4, false⟩], [], [], [],   [⟨3, true⟩], [], [], [],
              [], [], [], [],   [⟨3, true⟩], [], [], []],
    accConns := [[], [], [], [16, 8], []], labs := List.range 20, starters := [0] }

example : diamondGraph.check = true := by decide

def failingNodes : Nat → Node := fun i =>
  { kind := .term i, slots := [⟨.d, []⟩, ⟨.d, []⟩, ⟨.d, []⟩], useCache := true, failAt := if i = 2 then [1] else [] }

/-- clear `failed` of child 2 and the provenance, as between two runs -/
def healed (st : Store) : Store := { st with failed := updF st.failed 2 false, execLog := [], doneLog := [] }

/-- WITNESS that the reset is needed: run 1 — child 2 fails, the join 3 has heard `4.ran` only. Run 2 after healing:
with the reset the join runs last, once; continuing with the stale memory (`compositeRunFrom`, the tree before
bc0a763) it runs as soon as 2 has run — before 4 has run in this run -/
theorem C02_rerun_stale_memory_witness :
    let p := compositeRun (nodeSem failingNodes) diamondGraph.toGraph 100 (S.init Store.init (fun _ => []))
    p.received 3 = [16] ∧
    (compositeRun (nodeSem failingNodes) diamondGraph.toGraph 100 (S.init (healed p.store) p.received)).fired = [0, 2, 1, 4, 3] ∧
    (compositeRunFrom (nodeSem failingNodes) diamondGraph.toGraph 100 (S.init (healed p.store) p.received)).fired = [0, 2, 1, 3, 4] := by
  decide +kernel

/-! ## two composites: a hand-wired macro as one child of a hand-wired workflow, signals crossing the boundary

`runTwo T` (Model/Signal2.lean) is the workflow `W` with the macro child `M`: two queues, `M` running only during its
own `run()`, a finishing child hands its signals to its parent's queue if the parent is running and otherwise serves
its receivers itself, depth-first, an exception in there leaving its `run()`. `labelTrig` is the library's all-of
trigger, `identTrig` the plain interpreter's. -/

/-- REFINEMENT for two composites: for every wiring (any signal may cross the boundary, in both directions, cycles
allowed) that satisfies `WF`, every child behaviour, every fuel and number of deliveries — the transcribed machine
and the plain two-queue interpreter invoke the same `run()`s in the same order (all scopes interleaved), hold the
same store, report the same errors at both levels and have the same entries pending in both queues -/
theorem C02_two_composites_refine {σ} (sem : Sem σ) (w : Two) (wf : WF w.g) (fuel steps : Nat) (st : σ) :
    let m := runTwo labelTrig sem w fuel steps st
    let q := runTwo identTrig sem w fuel steps st
    m.fired = q.fired ∧ m.store = q.store ∧ m.errs0 = q.errs0 ∧ m.errs1 = q.errs1 ∧ m.q0 = q.q0 ∧ m.q1 = q.q1 ∧
      m.mFailed = q.mFailed := by
  intro m q
  have h := runTwo_sim sem w wf fuel steps st
  exact ⟨h.fired, h.store, h.errs0, h.errs1, h.q0, h.q1, h.mFailed⟩

/-- `W`: children 0, 1, 2 and the macro 5 with children 3 >> 4 (starting node 3); `0 >> 5 >> 1`; across the boundary
`4 >> 2` (out of the running macro) and `1 >> 3` (into the idle macro) -/
def twoExample : Two :=
  { g := ({ conns := [[⟨5, false⟩], [], [], [],   [⟨3, false⟩], [], [], [],   [], [], [], [],   [⟨4, false⟩], [], [], [],
                      [⟨2, false⟩], [], [], [],   [⟨1, false⟩], [], [], []],
            accConns := [[], [], [], [], [], []], labs := List.range 24, starters := [0] } : FinGraph).toGraph,
    owner := fun i => if i = 3 ∨ i = 4 then 1 else 0, macroNode := 5, mStarters := [3], mChildren := [3, 4] }

/-- non-vacuity, and exactly what the real objects do (probed, and a corpus case of the check): 2 runs inside the
macro's run because 4's signal is served by the macro's loop; after the macro, 1 runs and reaches INTO the idle macro:
3 and 4 run depth-first, 4 reaches 2 again -/
example : (runTwo labelTrig (nodeSem termNodes) twoExample 50 50 Store.init).fired = [0, 5, 3, 4, 2, 1, 3, 4, 2] ∧
          (runTwo identTrig (nodeSem termNodes) twoExample 50 50 Store.init).fired = [0, 5, 3, 4, 2, 1, 3, 4, 2] := by
  decide +kernel

/-! ## hand-wired macros (`Macro._configure_graph_execution`) -/

/-- the pinned macro — disconnect every run signal, reconnect pair by pair — keeps every hand-made
connection AS A SET, on both sides (mirror image kept), for every wiring among its children … -/
theorem C02_macro_edges_kept (w : Wiring) (hm : w.Mir) (children : List Nat)
    (hc : ∀ s r, r ∈ w.out s → r.node ∈ children) :
    (w.reconfigure true children).Mir ∧
      ∀ s r, r ∈ (w.reconfigure true children).out s ↔ r ∈ w.out s := by
  obtain ⟨h1, h2⟩ := Wiring.connectAll_spec (w.runPairs children) Wiring.empty Wiring.empty_mir
  refine ⟨by simpa [Wiring.reconfigure] using h1, ?_⟩
  intro s r
  simp only [Wiring.reconfigure, ↓reduceIte]
  rw [h2, Wiring.mem_runPairs, ← hm s r]
  simp only [Wiring.empty, List.not_mem_nil, false_or]
  exact ⟨fun h => h.2, fun h => ⟨hc s r h, h⟩⟩

/-- `a >> c` then `a >> b` among children created in the order a, b, c -/
def abcWiring : Wiring :=
  (Wiring.empty.connect (sigRan 0) { node := 2, acc := false }).connect (sigRan 0) { node := 1, acc := false }

example : abcWiring.Mir := Wiring.connect_mir _ (Wiring.connect_mir _ Wiring.empty_mir _ _) _ _

/-- … but NOT THEIR ORDER: as written `a.ran` reaches b before c (newest first) and the flow runs a, b, c
(that is what the same wiring does in a `Workflow(automate_execution=False)`); after the pinned
reconfiguration it reaches c first and the macro runs a, c, b -/
theorem C02_macro_reorders_witness :
    abcWiring.out (sigRan 0) = [{ node := 1, acc := false }, { node := 2, acc := false }] ∧
    (abcWiring.reconfigure true [0, 1, 2]).out (sigRan 0) = [{ node := 2, acc := false }, { node := 1, acc := false }] ∧
    (compositeRun (nodeSem termNodes) (abcWiring.toGraph id [0] (List.range 12)) 100
      (S.init Store.init (fun _ => []))).fired = [0, 1, 2] ∧
    (compositeRun (nodeSem termNodes) ((abcWiring.reconfigure true [0, 1, 2]).toGraph id [0] (List.range 12)) 100
      (S.init Store.init (fun _ => []))).fired = [0, 2, 1] := by decide +kernel

/-- the repaired macro (`fixes/C02-macro-keep-signal-order.patch`: look, do not disconnect) leaves every
list as it was written -/
theorem C02_macro_order_repaired (w : Wiring) (children : List Nat) : w.reconfigure false children = w := rfl

/-- putting the UI nodes upstream only ever adds `ui.ran → starter.accumulate_and_run` connections: what a
non-starting child listens to is untouched -/
theorem C02_macro_ui_only_touches_starters (ui : List Nat) (starters : List Nat) (w : Wiring) (n : Nat)
    (hn : n ∉ starters) : (w.putUiFirst ui starters).accIn n = w.accIn n ∧ (w.putUiFirst ui starters).runIn n = w.runIn n := by
  induction starters generalizing w with
  | nil => exact ⟨rfl, rfl⟩
  | cons m rest ih =>
    have hm : n ≠ m := fun e => hn (e ▸ List.mem_cons_self)
    have hr : n ∉ rest := fun h => hn (List.mem_cons_of_mem _ h)
    have key : ∀ (ui : List Nat) (w : Wiring), (w.waitFor m ui).accIn n = w.accIn n ∧ (w.waitFor m ui).runIn n = w.runIn n := by
      intro ui
      induction ui with
      | nil => intro w; exact ⟨rfl, rfl⟩
      | cons u us ih2 =>
        intro w
        obtain ⟨h1, h2⟩ := ih2 (w.connect (sigRan u) { node := m, acc := true })
        simp only [Wiring.waitFor]
        rw [h1, h2]
        unfold Wiring.connect
        split <;> simp [updF, hm]
    obtain ⟨h1, h2⟩ := ih (w.waitFor m ui) hr
    obtain ⟨k1, k2⟩ := key ui w
    simp only [Wiring.putUiFirst]
    exact ⟨h1.trans k1, h2.trans k2⟩

/-! ## a state round trip (pickle, save + load, return from an executor) between wiring and running -/

/-- ROUND TRIP KEEPS THE FLOW: for every wiring among the children (mirror image; `sigs` = their emitting channels, each
once), `__getstate__` + `__setstate__` give every emitter its receivers back IN THE SAME ORDER and every receiving channel
the same set of emitters — so the queue discipline prescribes the same execution before and after -/
theorem C02_roundtrip_keeps_firing_order (w : Wiring) (hm : w.Mir) (children : List Nat) (sigs : List Sig)
    (hn : sigs.Nodup) (hc : ∀ s r, r ∈ w.out s → r.node ∈ children ∧ s ∈ sigs) :
    (∀ s, (w.roundtrip false children sigs).out s = w.out s) ∧
    (∀ r s, s ∈ (w.roundtrip false children sigs).inList r ↔ s ∈ w.inList r) :=
  roundtrip_spec w hm children sigs hn hc

example : (abcWiring.roundtrip false [0, 1, 2] (List.range 12)).out (sigRan 0) = abcWiring.out (sigRan 0) := by decide

/-- `a >> b` then `a >> c` among children created in the order a, b, c: `a.ran` reaches c (the newest) first -/
def acbWiring : Wiring :=
  (Wiring.empty.connect (sigRan 0) { node := 1, acc := false }).connect (sigRan 0) { node := 2, acc := false }

/-- SEEDED CHANGE C02-4 (the firing order "derived" from the receiving-side list, i.e. child order): `a.ran → [c, b]`
comes back as `[b, c]`; the flow that ran a, c, b runs a, b, c after the round trip -/
theorem C02_roundtrip_transposed_witness :
    acbWiring.out (sigRan 0) = [{ node := 2, acc := false }, { node := 1, acc := false }] ∧
    (acbWiring.roundtrip true [0, 1, 2] (List.range 12)).out (sigRan 0) = [{ node := 1, acc := false }, { node := 2, acc := false }] ∧
    (compositeRun (nodeSem termNodes) ((acbWiring.roundtrip false [0, 1, 2] (List.range 12)).toGraph id [0] (List.range 12)) 100
      (S.init Store.init (fun _ => []))).fired = [0, 2, 1] ∧
    (compositeRun (nodeSem termNodes) ((acbWiring.roundtrip true [0, 1, 2] (List.range 12)).toGraph id [0] (List.range 12)) 100
      (S.init Store.init (fun _ => []))).fired = [0, 1, 2] := by decide +kernel

/-- A ROUND SURVIVES A STATE ROUND TRIP: pickling / saving the graph between any two events of a history changes neither
the trigger's memory nor anything it does afterwards — the history `h1`, a round trip, `h2` is the history `h1 ++ h2`
(same final state, same firing flags), for every labelling, every trigger state and all histories -/
theorem C02_roundtrip_keeps_round (lab : Nat → Label) (a : Acc) (h1 h2 : List Ev) :
    ((a.run lab h1).roundtrip false).received = (a.run lab h1).received ∧
    ((a.run lab h1).roundtrip false).run lab h2 = a.run lab (h1 ++ h2) ∧
    a.flags lab h1 ++ ((a.run lab h1).roundtrip false).flags lab h2 = a.flags lab (h1 ++ h2) := by
  refine ⟨rfl, ?_, ?_⟩
  · rw [Acc.run_append]; rfl
  · rw [Acc.flags_append]; rfl

/-- SEEDED CHANGE C02-14 (the saved channel forgets what it has heard): `join << (a, b)`; `a` arrives; round trip; `b`
arrives — the join does not fire, and the next round fires one arrival out of phase (at `a` alone) -/
theorem C02_roundtrip_forgets_round_witness :
    let t := (((fresh [1, 0]).step id (.arrive 0)).1).roundtrip true
    (t.step id (.arrive 1)).2 = false ∧ (((t.step id (.arrive 1)).1).step id (.arrive 0)).2 = true ∧
    ((((fresh [1, 0]).step id (.arrive 0)).1).roundtrip false |>.step id (.arrive 1)).2 = true := by decide

/-! ## edits between wiring and running: `pull()` of a child, `replace_child` -/

/-- PULL KEEPS THE WIRING: for every wiring and every pulled data tree, after `child.pull()` every emitter has its
receiver list and every trigger its member list exactly as before — the temporary linear wiring leaves no trace -/
theorem C02_pull_keeps_wiring (w : Wiring) (tree : List Nat) :
    (∀ s, (w.pull true tree).out s = w.out s) ∧ (∀ r, (w.pull true tree).runIn r = w.runIn r) ∧
    (∀ r, (w.pull true tree).accIn r = w.accIn r) :=
  pull_spec w tree

/-- `0 >> 1`, `0 >> 2`, `3 << (1, 2)` -/
def joinWiring : Wiring :=
  (((Wiring.empty.connect (sigRan 0) { node := 1, acc := false }).connect (sigRan 0) { node := 2, acc := false }).connect
    (sigRan 1) { node := 3, acc := true }).connect (sigRan 2) { node := 3, acc := true }

/-- SEEDED CHANGE C02-9 (only the pulled tree's own lists are put back), `1.pull()`: the join forgets 1 although `1.ran`
still lists the join, 0 no longer reaches 1 — the next run is 0, 2, 3 (join early, 1 never) instead of 0, 2, 1, 3 -/
theorem C02_pull_partial_restore_witness :
    (joinWiring.pull false [1]).accIn 3 = [sigRan 2] ∧ (joinWiring.pull false [1]).out (sigRan 1) = [{ node := 3, acc := true }] ∧
    (joinWiring.pull false [1]).out (sigRan 0) = [{ node := 2, acc := false }] ∧
    (compositeRun (nodeSem termNodes) ((joinWiring.pull true [1]).toGraph id [0] (List.range 16)) 100
      (S.init Store.init (fun _ => []))).fired = [0, 2, 1, 3] ∧
    (compositeRun (nodeSem termNodes) ((joinWiring.pull false [1]).toGraph id [0] (List.range 16)) 100
      (S.init Store.init (fun _ => []))).fired = [0, 2, 3] := by decide +kernel

/-- REPLACE KEEPS THE ORDER: for every wiring, replacing child `i` (not connected to itself) by the fresh object `j`
yields the image of the wiring under the renaming `i ↦ j`: every emitter's receiver list and every trigger's member list,
in order — the replacement's own lists included -/
theorem C02_replace_keeps_order (w : Wiring) (i j : Nat) (hij : i ≠ j)
    (hself : ∀ s r, sigNode s = i → r ∈ w.out s → r.node ≠ i)
    (hselfIn : ∀ s, (s ∈ w.runIn i ∨ s ∈ w.accIn i) → sigNode s ≠ i) :
    (∀ s, sigNode s ≠ j → (w.replace false i j).out (renSig i j s) = (w.out s).map (renRecv i j)) ∧
    (∀ r, r ≠ j → (w.replace false i j).runIn (if r = i then j else r) = (w.runIn r).map (renSig i j)) ∧
    (∀ r, r ≠ j → (w.replace false i j).accIn (if r = i then j else r) = (w.accIn r).map (renSig i j)) :=
  replace_spec w i j hij hself hselfIn

example : (joinWiring.replace false 0 4).out (sigRan 4) = [{ node := 2, acc := false }, { node := 1, acc := false }] ∧
          (joinWiring.replace false 3 4).accIn 4 = [sigRan 2, sigRan 1] ∧
          (joinWiring.replace false 3 4).out (sigRan 1) = [{ node := 4, acc := true }] := by decide

/-- SEEDED CHANGE C02-8 (the replacement keeps the lists `copy_io` built by prepending): after replacing the emitter 0 by
4 its receivers come back as `[1, 2]`; the flow that ran 0, 2, 1, 3 runs 4, 1, 2, 3 -/
theorem C02_replace_reversed_witness :
    (joinWiring.replace true 0 4).out (sigRan 4) = [{ node := 1, acc := false }, { node := 2, acc := false }] ∧
    (compositeRun (nodeSem termNodes) ((joinWiring.replace false 0 4).toGraph id [4] (List.range 20)) 100
      (S.init Store.init (fun _ => []))).fired = [4, 2, 1, 3] ∧
    (compositeRun (nodeSem termNodes) ((joinWiring.replace true 0 4).toGraph id [4] (List.range 20)) 100
      (S.init Store.init (fun _ => []))).fired = [4, 1, 2, 3] := by decide +kernel

/-! ## children on executors in a hand-wired flow: completions interleaved anywhere, also inside a local child's run

`FlowExec.xstep` (Model/FlowExec.lean, built on `callRun` / `deliver` of this model) is the composite's loop with children
out on an executor: `start`, `deliver`, `complete k` (the done-callback of `k`: result processed, signals QUEUED), `finish`.
`XAct2` adds landings while a local child's function is running (`startMid ks`, `deliverMid ks`), `flat` lists them in the
order in which they touch the queue. `qstep` is the plain queue interpreter with the same actions. -/

open PwVerif.FlowExec in
/-- QUEUE DISCIPLINE FOR EVERY INTERLEAVING OF COMPLETIONS: for every signal graph satisfying `WF`, every set of executor
children, every initial store and EVERY sequence of actions the loop can perform — completions at any point, also in the
middle of a local child's run — the transcribed loop and the plain interpreter (signals of a landing job enter the one FIFO
at the moment it lands) have invoked the same `run()`s in the same order, hold the same store (outputs, calls, both
provenances, what is still out), recorded the same errors and have the same entries pending -/
theorem C02_exec_refines_queue {E : Type} (nodes : Nat → Node) (onExec : Nat → Bool) (exc : Nat → Nat → E) (refusal : Nat → E)
    (g : Graph) (wf : WF g) (st : Store) (acts : List XAct2) (x' : X E)
    (hx : xrun nodes onExec exc refusal g (X.init st) (flat acts) = some x') :
    ∃ q', qrun nodes onExec exc refusal g (QX.init st) (flat acts) = some q' ∧
      x'.s.fired = q'.s.fired ∧ x'.s.store = q'.s.store ∧ x'.s.errs = q'.s.errs ∧
      q'.s.fifo = x'.s.queue.map (fun p => (some p.1, p.2)) ∧ x'.phase = q'.phase := by
  obtain ⟨q', hq, hrel⟩ := xrun_sim nodes onExec exc refusal g wf (flat acts) _ x' _ (relX_init g st) hx
  exact ⟨q', hq, hrel.rel.fired, hrel.rel.store, hrel.rel.errs, by simpa [lift] using hrel.rel.fifo, hrel.phase⟩

/-- `slow` (0, on the executor) `>> after_slow` (3); `tick` (1) `>> work` (2) `>> after_work` (4); starting nodes 0, 1 -/
def execGraph : FinGraph :=
  { conns := [[⟨3, false⟩], [], [], [],   [⟨2, false⟩], [], [], [],   [⟨4, false⟩], [], [], [],
              [], [], [], [],   [], [], [], []],
    accConns := [[], [], [], [], []], labs := List.range 20, starters := [0, 1] }

/-- `slow` lands while `work`'s function is running -/
def execActs : List FlowExec.XAct2 :=
  [.base .begin, .base .start, .base .start, .deliverMid [0], .base .deliver, .base .deliver, .base .finish]

open PwVerif.FlowExec in
/-- non-vacuity and SEEDED CHANGE C02-12 (signals of a landing on another thread are parked until the top of the loop's
next iteration): `slow` completed before `work` did, so the queue prescribes slow, tick, work, after_slow, after_work;
with parking, `work`'s own signal gets ahead: …, after_work, after_slow -/
theorem C02_parked_emissions_witness :
    ((xrun termNodes (fun i => i == 0) (fun _ _ => 0) (fun _ => 0) execGraph.toGraph (X.init Store.init : X Nat)
        (flat execActs)).map fun x => (x.s.fired, x.phase)) = some ([0, 1, 2, 3, 4], 2) ∧
    ((prun termNodes (fun i => i == 0) (fun _ _ => 0) (fun _ => 0) execGraph.toGraph
        ({ x := X.init Store.init, parked := [] } : PX Nat) execActs).map fun p => (p.x.s.fired, p.x.phase))
      = some ([0, 1, 2, 4, 3], 2) := by decide +kernel

end PwVerif.C02

#print axioms PwVerif.C02.C02_any
#print axioms PwVerif.C02.C02_any_once_per_completion
#print axioms PwVerif.C02.C02_all_never_early
#print axioms PwVerif.C02.C02_all_complete_fires
#print axioms PwVerif.C02.C02_all_resets
#print axioms PwVerif.C02.C02_all_round
#print axioms PwVerif.C02.C02_all_early_witness
#print axioms PwVerif.C02.C02_all_early_witness_twice
#print axioms PwVerif.C02.C02_all_never_early_repaired
#print axioms PwVerif.C02.C02_all_round_repaired
#print axioms PwVerif.C02.C02_relabel_midround_witness
#print axioms PwVerif.C02.C02_callback_outcomes_are_histories
#print axioms PwVerif.C02.C02_all_never_early_any_outcome
#print axioms PwVerif.C02.C02_all_round_any_outcome
#print axioms PwVerif.C02.C02_all_resets_any_outcome
#print axioms PwVerif.C02.C02_all_complete_fires_any_outcome
#print axioms PwVerif.C02.C02_reset_after_callback_witness
#print axioms PwVerif.C02.C02_refines_queue_from
#print axioms PwVerif.C02.C02_refines_queue
#print axioms PwVerif.C02.C02_refines_queue_values
#print axioms PwVerif.C02.C02_value
#print axioms PwVerif.C02.C02_flow_early_witness
#print axioms PwVerif.C02.C02_rerun_refines_queue
#print axioms PwVerif.C02.C02_rerun_stale_memory_witness
#print axioms PwVerif.C02.C02_two_composites_refine
#print axioms PwVerif.C02.C02_macro_edges_kept
#print axioms PwVerif.C02.C02_macro_reorders_witness
#print axioms PwVerif.C02.C02_macro_order_repaired
#print axioms PwVerif.C02.C02_macro_ui_only_touches_starters
#print axioms PwVerif.C02.C02_roundtrip_keeps_firing_order
#print axioms PwVerif.C02.C02_roundtrip_transposed_witness
#print axioms PwVerif.C02.C02_pull_keeps_wiring
#print axioms PwVerif.C02.C02_pull_partial_restore_witness
#print axioms PwVerif.C02.C02_replace_keeps_order
#print axioms PwVerif.C02.C02_replace_reversed_witness
#print axioms PwVerif.C02.C02_exec_refines_queue
#print axioms PwVerif.C02.C02_parked_emissions_witness
#print axioms PwVerif.C02.C02_roundtrip_keeps_round
#print axioms PwVerif.C02.C02_roundtrip_forgets_round_witness
