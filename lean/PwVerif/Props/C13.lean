import PwVerif.Proofs.Tree
/-!
# C13 — Ownership forms a tree: one parent, unique labels, no cycles, both sides agree

"Every node has at most one parent; a composite lists a node as its child under the node's
label exactly when the node names that composite as its parent; sibling labels are unique and
never collide with the composite's own attributes; following parents always ends at a root; a
workflow never acquires a parent; starting nodes are always current children. A rejected
operation (name clash, second parent, cyclic adoption) leaves everything as it was."

The model (`Model/Tree.lean`) transcribes `add_child` ↔ `_set_parent`, `remove_child`,
`replace_child`, `__setattr__` and the `Workflow.parent` setter with the state each leaves behind
when it raises.  `Cfg` has one flag per repaired statement: all `false` is the pinned code,
`Cfg.sixFixes` is the tree after the `fix:` commits d3d68f8 c218405 8702aee 53801cf (F1–F6),
`Cfg.head` has in addition 02da358 (F7, the replace pre-check), `Cfg.repaired` also 6b8c053 (F8,
constructors that raise let go of what they took) and dcaa030 (F9, `load()` in place keeps the
owner): that is /repo now.

* For the **repaired** variant the full statements are theorems (`C13_step`, `C13_history`,
  `C13_rejected_unchanged`, …), for histories of any length and every entry point, `replace_child`
  included.
* For the tree at 02da358 (**`Cfg.head`**, F1–F7; theorems named `…_current`) the first statement
  and the history theorem hold as well, the second one for every entry point but the constructors
  that raise after `Lexical.__init__` (`C13_ctor_zombie_witness`, `C13_workflow_ctor_witness`); for
  F1–F6 it is false for `replace_child` too (`C13_replace_ancestor_witness`,
  `C13_replace_workflow_witness`).
* The ancestor walk of `_ensure_path_is_not_cyclic` terminates in every reachable state
  (`C13_walk_terminates…`).
* For the **pinned** variant the two full statements are *false*; each defect is a
  machine-checked counterexample (`…_witness`).  What holds
  in every variant is proved without the `Repaired` hypothesis (`C13_cycle_caught`,
  `C13_remove_any_variant`, `C13_replace_refused_unchanged`).

`RecursionError` (Python's recursion limit hit inside `lexical_path`, modelled by `cfg.fuel`; for the repaired identity walk: its loop bound)
is outside the statements: a history is `Admissible` when no step ends that way.
Only property theorems live here; the lemmas are in `Proofs/Tree.lean`.
-/
namespace PwVerif.C13
open PwVerif PwVerif.Tree

/-- an empty world for the small examples -/
def exEmptyTree : Tree := empty (fun _ => .leaf) (fun _ => true) (fun _ => [])

/-- the invariant of the property; `WFTree` has one field per clause of the English text
(`agree`, `keysNodup`, `noClash`, `acyclic`, `wfRoots`, `starters`) -/
abbrev Inv := WFTree

/-- FULL STATEMENT 1: every accepted operation preserves the invariant -/
def StepStatement (cfg : Cfg) : Prop :=
  ∀ (t : Tree) (op : Op), WFTree t → OpPre t op → (step cfg t op).2 = .ok → WFTree (step cfg t op).1

/-- FULL STATEMENT 2: a rejected operation — any entry point, `replace_child` included (its
ownership side; connections and values are property C14) — leaves everything as it was -/
def RejectedStatement (cfg : Cfg) : Prop :=
  ∀ (t : Tree) (op : Op), WFTree t → OpPre t op →
    (step cfg t op).2 ≠ .ok → (step cfg t op).2 ≠ .recursionError → (step cfg t op).1 = t

theorem C13_init (kind : Nat → Kind) (strict : Nat → Bool) (reserved : Nat → List Str) :
    WFTree (empty kind strict reserved) := wf_empty kind strict reserved

/-- repaired variant: an accepted operation (any entry point) preserves the invariant -/
theorem C13_step (fuel : Nat) : StepStatement (Cfg.repaired fuel) := by
  intro t op h hpre hok
  exact step_wf (repaired_repaired fuel) h op hpre (by rw [hok]; decide)

/-- repaired variant: … and so does a rejected one -/
theorem C13_state_always_wf (fuel : Nat) (t : Tree) (op : Op) (h : WFTree t) (hpre : OpPre t op)
    (hrec : (step (Cfg.repaired fuel) t op).2 ≠ .recursionError) :
    WFTree (step (Cfg.repaired fuel) t op).1 := step_wf (repaired_repaired fuel) h op hpre hrec

/-- repaired variant: every state reached by any history of operations, accepted or rejected,
starting with no node alive, satisfies the invariant -/
theorem C13_history (fuel : Nat) (kind : Nat → Kind) (strict : Nat → Bool) (reserved : Nat → List Str)
    (ops : List Op) (ha : Admissible (Cfg.repaired fuel) (empty kind strict reserved) ops) :
    WFTree (run (Cfg.repaired fuel) (empty kind strict reserved) ops) :=
  run_wf (repaired_repaired fuel) ops _ (wf_empty kind strict reserved) ha

/-- repaired variant: a rejected operation leaves everything as it was -/
theorem C13_rejected_unchanged (fuel : Nat) : RejectedStatement (Cfg.repaired fuel) := by
  intro t op h hpre hne hrec
  exact (step_good (repaired_repaired fuel) rfl rfl h op hpre).2 hne hrec

/-! ### the tree at 02da358 (`Cfg.head`): F1–F7 without the constructor rollback (F8)

Everything but "a constructor that raises after `Lexical.__init__` changes nothing" already holds. -/

/-- current tree: an accepted operation (any entry point) preserves the invariant -/
theorem C13_step_current (fuel : Nat) : StepStatement (Cfg.head fuel) := by
  intro t op h hpre hok
  exact step_wf (head_repaired fuel) h op hpre (by rw [hok]; decide)

/-- current tree: every state reached by any history, accepted or rejected steps alike (also the
state a raising constructor leaves behind), satisfies the invariant -/
theorem C13_history_current (fuel : Nat) (kind : Nat → Kind) (strict : Nat → Bool)
    (reserved : Nat → List Str) (ops : List Op)
    (ha : Admissible (Cfg.head fuel) (empty kind strict reserved) ops) :
    WFTree (run (Cfg.head fuel) (empty kind strict reserved) ops) :=
  run_wf (head_repaired fuel) ops _ (wf_empty kind strict reserved) ha

/-- current tree: a rejected operation other than a constructor that raises after
`Lexical.__init__` leaves everything as it was -/
theorem C13_rejected_unchanged_current (fuel : Nat) (t : Tree) (op : Op) (h : WFTree t)
    (hpre : OpPre t op) (hnc : op.isCtorFail = false)
    (hne : (step (Cfg.head fuel) t op).2 ≠ .ok)
    (hrec : (step (Cfg.head fuel) t op).2 ≠ .recursionError) :
    (step (Cfg.head fuel) t op).1 = t :=
  (step_good_nonctor (head_repaired fuel) rfl h op hpre hnc).2 hne hrec

/-- the tree with F1–F6 only: the same but for `replace_child` -/
theorem C13_history_sixFixes (fuel : Nat) (kind : Nat → Kind) (strict : Nat → Bool)
    (reserved : Nat → List Str) (ops : List Op)
    (ha : Admissible (Cfg.sixFixes fuel) (empty kind strict reserved) ops) :
    WFTree (run (Cfg.sixFixes fuel) (empty kind strict reserved) ops) :=
  run_wf (sixFixes_repaired fuel) ops _ (wf_empty kind strict reserved) ha

/-! ### the ancestor walk of `_ensure_path_is_not_cyclic` terminates because the state is acyclic

`while isinstance(ancestor, Lexical) and ancestor is not child: ancestor = ancestor.parent` has no
bound of its own; on a parent cycle that does not contain `child` it would never return. -/

/-- in every state satisfying the invariant the walk started anywhere ends within `rank x + 1`
iterations (`n` below), and the hardened walk with a visited set
(`fixes/C13-cycle-walk-visited.patch`) never meets a node twice, i.e. computes the same -/
theorem C13_walk_terminates (t : Tree) (h : WFTree t) (c x : Nat) :
    ∃ n, ∀ m, n ≤ m → ancWalk t c m x ≠ .recursionError ∧ ancWalkSeen t c m [] x = ancWalk t c m x := by
  obtain ⟨rank, hr⟩ := exists_rank_of_wf h.acyclic
  refine ⟨rank x + 1, fun m hm => ⟨ancWalk_terminates_of_rank t rank hr c m x (by omega), ?_⟩⟩
  exact ancWalkSeen_eq t rank hr c m [] x (by simp)

/-- hence in every reachable state (any history, current tree or repaired) -/
theorem C13_walk_terminates_reachable (fuel : Nat) (kind : Nat → Kind) (strict : Nat → Bool)
    (reserved : Nat → List Str) (ops : List Op)
    (ha : Admissible (Cfg.head fuel) (empty kind strict reserved) ops) (c x : Nat) :
    ∃ n, ∀ m, n ≤ m →
      ancWalk (run (Cfg.head fuel) (empty kind strict reserved) ops) c m x ≠ .recursionError ∧
      ancWalkSeen (run (Cfg.head fuel) (empty kind strict reserved) ops) c m [] x =
        ancWalk (run (Cfg.head fuel) (empty kind strict reserved) ops) c m x :=
  C13_walk_terminates _ (C13_history_current fuel kind strict reserved ops ha) c x

/-- two nodes that are each other's parent (not reachable, see above) -/
def cycT : Tree :=
  { exEmptyTree with parent := fun n => if n = 1 then some 2 else if n = 2 then some 1 else none }

/-- the dependency is real: on a parent cycle that does not contain the child the plain walk
exhausts every bound, the hardened one stops -/
theorem C13_walk_needs_acyclic :
    (∀ n, ancWalk cycT 7 n 1 = .recursionError) ∧ ancWalkSeen cycT 7 64 [] 1 = .cyclicPathError := by
  refine ⟨?_, by decide⟩
  intro n
  suffices h : ∀ n, ancWalk cycT 7 n 1 = .recursionError ∧ ancWalk cycT 7 n 2 = .recursionError from (h n).1
  intro n
  induction n with
  | zero => exact ⟨rfl, rfl⟩
  | succ n ih =>
    have p1 : cycT.parent 1 = some 2 := rfl
    have p2 : cycT.parent 2 = some 1 := rfl
    exact ⟨by simp [ancWalk, p1, ih.2], by simp [ancWalk, p2, ih.1]⟩

/-- `replace_child` refused up front (not the owner, replacement already owned, ownership
pre-check where present): unchanged, in every variant -/
theorem C13_replace_refused_unchanged (cfg : Cfg) (t : Tree) (p old new : Nat)
    (hpre : (t.kind p).isComposite = false ∨ t.parent old ≠ some p ∨ t.parent new ≠ none ∨
      replacePre cfg t p new ≠ .ok) :
    (step cfg t (.replace p old new)).1 = t ∧ (step cfg t (.replace p old new)).2 ≠ .ok :=
  replaceChild_refused cfg t p old new hpre

/-- at most one parent, read off the composites: a node is listed by one composite, once -/
theorem C13_one_parent (t : Tree) (h : WFTree t) (p q c : Nat) (l l' : Str)
    (h1 : (l, c) ∈ t.children p) (h2 : (l', c) ∈ t.children q) : p = q ∧ l = l' :=
  h.one_parent h1 h2

/-- "following parents always ends at a root" is the existence of a rank that strictly
decreases towards the parent -/
theorem C13_rank (t : Tree) :
    WellFounded (Par t) ↔ ∃ rank : Nat → Nat, ∀ c p, t.parent c = some p → rank p < rank c :=
  ⟨exists_rank_of_wf, fun ⟨rank, h⟩ => wf_of_rank rank h⟩

/-- key lemma, every variant: the lexical path of a proper ancestor followed by the delimiter
is a prefix of the descendant's path, so the *string* test of `_ensure_path_is_not_cyclic`
refuses every adoption that would close a real cycle — and the refusal changes nothing -/
theorem C13_cycle_caught (cfg : Cfg) (t : Tree) (p c : Nat) (hanc : Anc t c p) :
    (∀ n m sc sp, pathF t n c = some sc → pathF t m p = some sp → (sc ++ ['/']) <+: sp) ∧
    cyclicCheck cfg t p c ≠ .ok ∧
    ∀ lbl sa, (addChild cfg t p c lbl sa).1 = t ∧ (addChild cfg t p c lbl sa).2 ≠ .ok :=
  ⟨path_prefix_of_anc t hanc, fun h => not_anc_of_cyclicCheck_ok cfg t p c h hanc,
   fun lbl sa => addChild_ancestor_refused cfg t p c lbl sa hanc⟩

/-- every variant (also the pinned code): removal by node or by label preserves the invariant
when accepted and changes nothing when rejected -/
theorem C13_remove_any_variant (cfg : Cfg) (t : Tree) (h : WFTree t) (q c : Nat) (l : Str) :
    Good t (step cfg t (.remove q c)) ∧ Good t (step cfg t (.removeLabel q l)) :=
  ⟨removeChild_good cfg h q c, removeChildLabel_good cfg h q l⟩

/-! ## Non-vacuity and the pinned behaviour: concrete worlds

ids 0, 1: workflows (1 with `strict_naming=False`); 2, 3: leaf nodes; 4, 5: macros. -/

def exKind : Nat → Kind
  | 0 => .workflow | 1 => .workflow | 4 => .macro | 5 => .macro | _ => .leaf
def exEmpty : Tree := empty exKind (fun n => n != 1) (fun _ => [['r', 'u', 'n'], ['i', 'n', 'p', 'u', 't', 's']])
abbrev rep : Cfg := Cfg.repaired 64
abbrev pin : Cfg := Cfg.pinned 64
/-- /repo after the four `fix:` commits, without the replace pre-check -/
abbrev cur : Cfg := Cfg.sixFixes 64
/-- /repo at 02da358 (F1–F7) -/
abbrev hd : Cfg := Cfg.head 64

/-- a healthy history through every entry point: constructor with `parent=`, three nesting
levels, a name clash resolved by suffixing, refused attempts (attribute clash, second parent,
cyclic adoption, workflow as child, self adoption), re-parenting, re-labelling, removal,
replacement by node and by label, refused replacements (by an ancestor, by a workflow, by an
owned node, of a missing label), starting nodes -/
def exOps : List Op :=
  [.new 0 ['w'] none, .new 4 ['m'] (some 0), .new 5 ['x'] (some 4), .new 2 ['a'] (some 5),
   .new 1 ['v'] none, .new 3 ['a'] none, .add 1 3 none none, .new 6 ['a'] none, .add 1 6 none none,
   .add 1 6 (some ['r', 'u', 'n']) none, .add 0 6 none none, .add 5 0 none none, .add 0 1 none none,
   .add 4 4 none none, .setparent 6 (some 5), .add 5 6 (some ['b']) none, .setStarting 5 [6, 2],
   .remove 5 2, .new 7 ['q'] none, .replace 5 6 7, .setparent 5 none, .setattr 0 ['y'] 5,
   .new 8 ['z'] none, .replaceLabel 5 ['b'] 8, .replace 5 8 0, .replace 5 8 1, .replace 5 8 5,
   .replaceLabel 5 ['n', 'o'] 7]
def exT : Tree := run rep exEmpty exOps

example : Admissible rep exEmpty exOps := by decide
example : WFTree exT := C13_history 64 _ _ _ exOps (by decide)
example : exT.children 1 = [(['a'], 3)] ∧ exT.children 0 = [(['m'], 4), (['y'], 5)] ∧
    exT.children 5 = [(['b'], 8)] ∧ exT.starting 5 = [8] ∧ exT.label 6 = ['q'] ∧ exT.parent 6 = none ∧
    exT.label 7 = ['z'] ∧ exT.parent 7 = none ∧ exT.children 4 = [] := by decide +kernel
/-- the rejected attempts of that history, with their reasons -/
example : (exOps.take 16).length = 16 ∧
    (step rep (run rep exEmpty (exOps.take 9)) (.add 1 6 (some ['r', 'u', 'n']) none)).2 = .attributeError ∧
    (step rep (run rep exEmpty (exOps.take 10)) (.add 0 6 none none)).2 = .valueError ∧
    (step rep (run rep exEmpty (exOps.take 11)) (.add 5 0 none none)).2 = .cyclicPathError ∧
    (step rep (run rep exEmpty (exOps.take 12)) (.add 0 1 none none)).2 = .parentMostError ∧
    (step rep (run rep exEmpty (exOps.take 13)) (.add 4 4 none none)).2 = .cyclicPathError := by decide
/-- the refused replacements of that history: nothing changed (`C13_rejected_unchanged`) -/
example :
    (step rep (run rep exEmpty (exOps.take 24)) (.replace 5 8 0)).2 = .cyclicPathError ∧
    (step rep (run rep exEmpty (exOps.take 25)) (.replace 5 8 1)).2 = .typeError ∧
    (step rep (run rep exEmpty (exOps.take 26)) (.replace 5 8 5)).2 = .valueError ∧
    (step rep (run rep exEmpty (exOps.take 27)) (.replaceLabel 5 ['n', 'o'] 7)).2 = .keyError ∧
    (run rep exEmpty (exOps.take 24)).children 5 = [(['b'], 8)] := by decide +kernel
/-- the second `a` offered to the non-strict workflow 1 was suffixed -/
example : (run rep exEmpty (exOps.take 9)).children 1 = [(['a'], 3), (['a', '0'], 6)] := by decide
/-- `C13_cycle_caught` is not vacuous: workflow 0 is a proper ancestor of macro 5 -/
example : Anc (run rep exEmpty (exOps.take 11)) 0 5 :=
  Anc.step (q := 4) (by decide) (Anc.base (by decide))

/-! ## The pinned code violates both full statements: machine-checked counterexamples -/

def base1 : List Op := [.new 0 ['w', '1'] none, .new 1 ['w', '2'] none, .new 2 ['a'] none, .add 0 2 none none]
def t1 : Tree := run rep exEmpty base1
theorem t1_wf : WFTree t1 := C13_history 64 _ _ _ base1 (by decide)

/-- KF-C13-1 (P19): `child.parent = w2` for a child of `w1` is accepted and leaves the child
listed by both; the repaired variant moves it -/
theorem C13_reparent_witness : ¬ StepStatement pin := by
  intro hS
  have hw := hS t1 (.setparent 2 (some 1)) t1_wf trivial (by decide)
  have h1 : (['a'], 2) ∈ (step pin t1 (.setparent 2 (some 1))).1.children 0 := by decide
  have h2 : (['a'], 2) ∈ (step pin t1 (.setparent 2 (some 1))).1.children 1 := by decide
  have := (hw.one_parent h1 h2).1
  cases this

example : (step rep t1 (.setparent 2 (some 1))).2 = .ok ∧
    (step rep t1 (.setparent 2 (some 1))).1.children 0 = [] ∧
    (step rep t1 (.setparent 2 (some 1))).1.children 1 = [(['a'], 2)] := by decide

/-- KF-C13-2: `child.parent = None` is accepted but the old parent keeps listing the child -/
theorem C13_unparent_witness : ¬ StepStatement pin := by
  intro hS
  have hw := hS t1 (.setparent 2 none) t1_wf trivial (by decide)
  have h1 : (['a'], 2) ∈ (step pin t1 (.setparent 2 none)).1.children 0 := by decide
  have := ((hw.agree 0 2 ['a']).mp h1).1
  have h2 : (step pin t1 (.setparent 2 none)).1.parent 2 = none := by decide
  rw [h2] at this; cases this

def base3 : List Op := base1 ++ [.new 3 ['a'] none]
def t3 : Tree := run rep exEmpty base3
theorem t3_wf : WFTree t3 := C13_history 64 _ _ _ base3 (by decide)

/-- KF-C13-3 (P20): a parent assignment refused for a name clash leaves `child.parent` set -/
theorem C13_rejected_reparent_witness : ¬ RejectedStatement pin := by
  intro hR
  have he := hR t3 (.setparent 3 (some 0)) t3_wf trivial (by decide) (by decide)
  have h1 : (step pin t3 (.setparent 3 (some 0))).1.parent 3 = some 0 := by decide
  rw [he] at h1
  exact absurd h1 (by decide)

example : (step pin t3 (.setparent 3 (some 0))).2 = .attributeError ∧
    (step rep t3 (.setparent 3 (some 0))).2 = .attributeError := by decide

def base4 : List Op := [.new 1 ['w', '2'] none, .new 2 ['a'] none, .add 1 2 none none, .new 3 ['a'] none]
def t4 : Tree := run rep exEmpty base4
theorem t4_wf : WFTree t4 := C13_history 64 _ _ _ base4 (by decide)

/-- KF-C13-4: parent assignment into a non-strict composite with a clash raises `KeyError`
and leaves `child.parent` set; the repaired variant suffixes the label as `add_child` does -/
theorem C13_nonstrict_reparent_witness : ¬ RejectedStatement pin := by
  intro hR
  have he := hR t4 (.setparent 3 (some 1)) t4_wf trivial (by decide) (by decide)
  have h1 : (step pin t4 (.setparent 3 (some 1))).1.parent 3 = some 1 := by decide
  rw [he] at h1
  exact absurd h1 (by decide)

example : (step pin t4 (.setparent 3 (some 1))).2 = .keyError ∧
    (step rep t4 (.setparent 3 (some 1))).2 = .ok ∧
    (step rep t4 (.setparent 3 (some 1))).1.children 1 = [(['a'], 2), (['a', '0'], 3)] := by decide

/-- KF-C13-5 (P21): re-labelling an owned child to an invalid label is refused, but the child
has already been popped from `children` -/
theorem C13_relabel_witness : ¬ RejectedStatement pin := by
  intro hR
  have he := hR t1 (.add 0 2 (some ['b', '/', 'c']) none) t1_wf trivial (by decide) (by decide)
  have h1 : (step pin t1 (.add 0 2 (some ['b', '/', 'c']) none)).1.children 0 = [] := by decide
  rw [he] at h1
  exact absurd h1 (by decide)

/-- KF-C13-6: a workflow offered as a child is refused (`ParentMostError`) but stays listed -/
theorem C13_workflow_child_witness : ¬ RejectedStatement pin := by
  intro hR
  have he := hR t1 (.add 0 1 none none) t1_wf trivial (by decide) (by decide)
  have h1 : (step pin t1 (.add 0 1 none none)).1.children 0 = [(['a'], 2), (['w', '2'], 1)] := by decide
  rw [he] at h1
  exact absurd h1 (by decide)

def base7 : List Op := [.new 4 ['m'] none]
def t7 : Tree := run rep exEmpty base7
theorem t7_wf : WFTree t7 := C13_history 64 _ _ _ base7 (by decide)

/-- KF-C13-7: a macro offered to itself: the string test does not see the cycle of length one,
the macro becomes its own parent and child, the nested call dies of `RecursionError`; the
repaired variant refuses with `CyclicPathError` before anything changes -/
theorem C13_self_adoption_witness :
    (step pin t7 (.add 4 4 none none)).2 = .recursionError ∧
    (step pin t7 (.add 4 4 none none)).1.parent 4 = some 4 ∧
    ¬ WFTree (step pin t7 (.add 4 4 none none)).1 ∧
    (step rep t7 (.add 4 4 none none)).2 = .cyclicPathError := by
  refine ⟨by decide, by decide, ?_, by decide⟩
  intro hw
  have hp : (step pin t7 (.add 4 4 none none)).1.parent 4 = some 4 := by decide
  obtain ⟨rank, hr⟩ := exists_rank_of_wf hw.acyclic
  exact Nat.lt_irrefl _ (hr 4 4 hp)

def base8 : List Op := [.new 0 ['w'] none, .new 4 ['m'] (some 0), .new 5 ['x'] none]
def t8 : Tree := run rep exEmpty base8
theorem t8_wf : WFTree t8 := C13_history 64 _ _ _ base8 (by decide)

/-- KF-C13-8: an orphan adopted under a new label that equals the root's label: the first
string test passes (old label), the one inside the reflexive `child.parent = self` fires after
the child has been re-labelled and inserted -/
theorem C13_false_cycle_witness : ¬ RejectedStatement pin := by
  intro hR
  have he := hR t8 (.add 4 5 (some ['w']) none) t8_wf trivial (by decide) (by decide)
  have h1 : (step pin t8 (.add 4 5 (some ['w']) none)).1.label 5 = ['w'] := by decide
  rw [he] at h1
  exact absurd h1 (by decide)

/-- the repaired check compares objects, not path strings: the adoption is legal and accepted -/
example : (step pin t8 (.add 4 5 (some ['w']) none)).2 = .cyclicPathError ∧
    (step rep t8 (.add 4 5 (some ['w']) none)).2 = .ok ∧
    (step rep t8 (.add 4 5 (some ['w']) none)).1.children 4 = [(['w'], 5)] := by decide

def base9 : List Op :=
  [.new 0 ['w'] none, .new 4 ['m'] (some 0), .new 2 ['a'] (some 4), .add 4 2 (some ['w']) none,
   .new 3 ['b'] none]
def t9 : Tree := run rep exEmpty base9
theorem t9_wf : WFTree t9 := C13_history 64 _ _ _ base9 (by decide)

/-- KF-C13-9 on the pinned code: `replace_child` removes the old child and swaps the labels before
`add_child` can refuse the newcomer — here through a false positive of the string test.  With the
identity check this replacement goes through. -/
theorem C13_replace_false_cycle_witness :
    (step pin t9 (.replace 4 2 3)).2 = .cyclicPathError ∧ (step pin t9 (.replace 4 2 3)).1.children 4 = [] ∧
    t9.children 4 = [(['w'], 2)] ∧
    (step rep t9 (.replace 4 2 3)).2 = .ok ∧ (step rep t9 (.replace 4 2 3)).1.children 4 = [(['w'], 3)] := by
  decide

def base11 : List Op := [.new 4 ['r'] none, .new 5 ['p'] (some 4), .new 2 ['a'] (some 5)]
def t11 : Tree := run rep exEmpty base11
theorem t11_wf : WFTree t11 := C13_history 64 _ _ _ base11 (by decide)

example : Admissible cur exEmpty exOps ∧ WFTree (run cur exEmpty exOps) :=
  ⟨by decide +kernel, C13_history_sixFixes 64 _ _ _ exOps (by decide +kernel)⟩
example : Admissible hd exEmpty exOps ∧ WFTree (run hd exEmpty exOps) :=
  ⟨by decide +kernel, C13_history_current 64 _ _ _ exOps (by decide +kernel)⟩

/-- KF-C13-9 with the four `fix:` commits (F1–F6): the replacement is an ancestor of the
composite (macro 4 owns macro 5 owns node 2; `m5.replace_child(n2, m4)`).  The old child is
removed and the labels are swapped before `add_child` raises `CyclicPathError`; the tree stays
well-formed but is not the one before.  With the pre-check (F7) the same error is raised before
anything changes. -/
theorem C13_replace_ancestor_witness : ¬ RejectedStatement cur := by
  intro hR
  have he := hR t11 (.replace 5 2 4) t11_wf trivial (by decide) (by decide)
  have h1 : (step cur t11 (.replace 5 2 4)).1.children 5 = [] := by decide
  rw [he] at h1
  exact absurd h1 (by decide)

example : (step cur t11 (.replace 5 2 4)).2 = .cyclicPathError ∧
    (step cur t11 (.replace 5 2 4)).1.label 4 = ['a'] ∧ (step cur t11 (.replace 5 2 4)).1.label 2 = ['r'] ∧
    (step cur t11 (.replace 5 2 4)).1.parent 2 = none ∧
    (step rep t11 (.replace 5 2 4)).2 = .cyclicPathError ∧ t11.children 5 = [(['a'], 2)] := by decide

def base12 : List Op := [.new 0 ['w'] none, .new 1 ['v'] none, .new 2 ['a'] (some 0)]
def t12 : Tree := run rep exEmpty base12
theorem t12_wf : WFTree t12 := C13_history 64 _ _ _ base12 (by decide)

/-- KF-C13-9b with F1–F6: the replacement is a workflow (`w.replace_child(a, other_workflow)`):
`ParentMostError` from the reflexive `child.parent = self` after the old child is gone; the
adoption itself is undone (F4) but not the removal and the label swap -/
theorem C13_replace_workflow_witness : ¬ RejectedStatement cur := by
  intro hR
  have he := hR t12 (.replace 0 2 1) t12_wf trivial (by decide) (by decide)
  have h1 : (step cur t12 (.replace 0 2 1)).1.children 0 = [] := by decide
  rw [he] at h1
  exact absurd h1 (by decide)

example : (step cur t12 (.replace 0 2 1)).2 = .parentMostError ∧
    (step cur t12 (.replace 0 2 1)).1.label 1 = ['a'] ∧
    (step rep t12 (.replace 0 2 1)).2 = .typeError ∧ t12.children 0 = [(['a'], 2)] := by decide

/-! ### constructors that raise after `Lexical.__init__` (current tree: F1–F7) -/

def base13 : List Op := [.new 1 ['w'] none, .new 2 ['a'] none, .new 3 ['a'] none]
def t13 : Tree := run rep exEmpty base13
theorem t13_wf : WFTree t13 := C13_history 64 _ _ _ base13 (by decide)

/-- KF-C13-11: `UserInput(label="x", parent=wf, bogus=1)`, a macro whose graph creator raises, …:
the constructor raises but the workflow keeps listing the half-built object; with the rollback
(F8) the tree is the one before -/
theorem C13_ctor_zombie_witness : ¬ RejectedStatement hd := by
  intro hR
  have he := hR t13 (.newFail 6 ['x'] (some 1)) t13_wf (by decide) (by decide) (by decide)
  have h1 : (step hd t13 (.newFail 6 ['x'] (some 1))).1.children 1 = [(['x'], 6)] := by decide
  rw [he] at h1
  exact absurd h1 (by decide)

example : (step hd t13 (.newFail 6 ['x'] (some 1))).2 = .setupError ∧
    (step rep t13 (.newFail 6 ['x'] (some 1))).2 = .setupError ∧
    (step rep t13 (.newFail 6 ['x'] (some 1))).1.children 1 = [] := by decide

/-- KF-C13-12: `Workflow("v", a, b)` with equally labelled `a`, `b`: the constructor raises after
`a` has been adopted; `a` stays owned by the unreachable workflow -/
theorem C13_workflow_ctor_witness : ¬ RejectedStatement hd := by
  intro hR
  have he := hR t13 (.newWith 0 ['v'] [2, 3] false) t13_wf (by decide) (by decide) (by decide)
  have h1 : (step hd t13 (.newWith 0 ['v'] [2, 3] false)).1.parent 2 = some 0 := by decide
  rw [he] at h1
  exact absurd h1 (by decide)

example : (step hd t13 (.newWith 0 ['v'] [2, 3] false)).2 = .attributeError ∧
    (step rep t13 (.newWith 0 ['v'] [2, 3] false)).2 = .attributeError ∧
    (step rep t13 (.newWith 0 ['v'] [2, 3] false)).1.parent 2 = none ∧
    (step rep t13 (.newWith 0 ['v'] [2] false)).2 = .ok ∧
    (step rep t13 (.newWith 0 ['v'] [2] false)).1.children 0 = [(['a'], 2)] ∧
    (step rep t13 (.newWith 0 ['v'] [2] true)).2 = .setupError ∧
    (step rep t13 (.newWith 0 ['v'] [2] true)).1.parent 2 = none := by decide

/-- KF-C13-13 (`Node.load()` is not an operation of the property's list, its invariant is stated
for all times): loading in place on an owned node purges its owner, the composite keeps listing
it; with `fixes/C13-load-keeps-owner.patch` (F9) the ownership is untouched (the re-owning of the
loaded children by `LexicalParent.__setstate__` is the identity where both sides agree) -/
theorem C13_load_orphans_witness :
    WFTree t1 ∧ ¬ WFTree (loadInPlace hd t1 2) ∧ ∀ t c, WFTree t → loadInPlace rep t c = t := by
  refine ⟨t1_wf, ?_, fun t c h => by simp only [loadInPlace]; exact reown_id h _ c⟩
  intro hw
  have h1 : (['a'], 2) ∈ (loadInPlace hd t1 2).children 0 := by decide
  have := ((hw.agree 0 2 ['a']).mp h1).1
  have h2 : (loadInPlace hd t1 2).parent 2 = none := by decide
  rw [h2] at this; cases this

/-- the theorem behind `C13_rejected_unchanged` for `Workflow(label, *nodes)`, spelled out: for
EVERY argument list (orphans with equal labels, owned nodes, workflows, repeated nodes, the
workflow's own children), either naming mode and EVERY point of rejection (the k-th adoption, or
anything after the loop: an unknown input keyword, a failing autoload / autorun) the construction
is all-or-nothing — accepted with the invariant intact, or the tree is literally the one before -/
theorem C13_construct_all_or_nothing (fuel : Nat) (t : Tree) (h : WFTree t) (c : Nat) (l : Str)
    (kids : List Nat) (fails : Bool) (hfresh : t.parent c = none)
    (hrec : (step (Cfg.repaired fuel) t (.newWith c l kids fails)).2 ≠ .recursionError) :
    ((step (Cfg.repaired fuel) t (.newWith c l kids fails)).2 = .ok ∧
      WFTree (step (Cfg.repaired fuel) t (.newWith c l kids fails)).1) ∨
    ((step (Cfg.repaired fuel) t (.newWith c l kids fails)).2 ≠ .ok ∧
      (step (Cfg.repaired fuel) t (.newWith c l kids fails)).1 = t) := by
  have s := newWorkflowWith_spec (repaired_repaired fuel) h c l kids fails hfresh
  by_cases hok : (step (Cfg.repaired fuel) t (.newWith c l kids fails)).2 = .ok
  · exact .inl ⟨hok, s.1 hrec⟩
  · exact .inr ⟨hok, s.2 rfl hok hrec⟩

def base14 : List Op := [.new 2 ['x'] none, .new 3 ['x'] none, .new 6 ['x'] none, .new 0 ['o'] none,
  .new 7 ['t'] (some 0)]
def t14 : Tree := run rep exEmpty base14
theorem t14_wf : WFTree t14 := C13_history 64 _ _ _ base14 (by decide)

/-- seeded change C13-9 (the undo log records the label *after* `add_child`): the non-strict
workflow 1 is handed three orphans labelled `x` and then a node that somebody else owns; the
roll-back gives the orphans back as `x`, `x0`, `x1`.  The log of the real code (label before)
restores the tree (`C13_construct_all_or_nothing`). -/
theorem C13_construct_log_order_witness :
    let r := adoptAllLate rep 1 (fresh t14 1 ['v']) [] [2, 3, 6, 7]
    r.2.2 = .valueError ∧ (undoAdopt 1 r.1 r.2.1).label 3 = ['x', '0'] ∧
    (undoAdopt 1 r.1 r.2.1).label 6 = ['x', '1'] ∧ t14.label 3 = ['x'] ∧
    (step rep t14 (.newWith 1 ['v'] [2, 3, 6, 7] false)).2 = .valueError ∧
    (step rep t14 (.newWith 1 ['v'] [2, 3, 6, 7] false)).1.label 3 = ['x'] ∧
    (step rep t14 (.newWith 1 ['v'] [2, 3, 6, 7] false)).1.label 6 = ['x'] ∧
    (step rep t14 (.newWith 1 ['v'] [2, 3, 6] true)).2 = .setupError ∧
    (step rep t14 (.newWith 1 ['v'] [2, 3, 6] true)).1.label 6 = ['x'] ∧
    (step rep t14 (.newWith 1 ['v'] [2, 3, 6] false)).1.children 1 =
      [(['x'], 2), (['x', '0'], 3), (['x', '1'], 6)] := by
  decide +kernel

/-! ### state-carrying operations and node states -/

/-- `copy.copy(composite)` / a composite coming back from a by-value executor: as a history of
re-parenting steps it is covered by `C13_history`; spelled out: after it (whatever was accepted on
the way) the invariant holds — in particular no node is listed by the original and the copy -/
theorem C13_copy_wf (fuel : Nat) (t : Tree) (h : WFTree t) (c c' : Nat)
    (ha : Admissible (Cfg.repaired fuel) t (copyOps t c c')) :
    WFTree (run (Cfg.repaired fuel) t (copyOps t c c')) :=
  run_wf (repaired_repaired fuel) _ t h ha

def base15 : List Op := [.new 4 ['m'] none, .new 2 ['a'] (some 4), .new 3 ['b'] (some 4), .setStarting 4 [2]]
def t15 : Tree := run rep exEmpty base15
theorem t15_wf : WFTree t15 := C13_history 64 _ _ _ base15 (by decide)

example : Admissible rep t15 (copyOps t15 4 5) ∧
    (run rep t15 (copyOps t15 4 5)).children 5 = [(['a'], 2), (['b'], 3)] ∧
    (run rep t15 (copyOps t15 4 5)).children 4 = [] ∧ (run rep t15 (copyOps t15 4 5)).starting 5 = [2] ∧
    (run rep t15 (copyOps t15 4 5)).starting 4 = [] := by decide +kernel

/-- seeded change C13-12 (`LexicalParent.__setstate__` writes `child._parent = self` instead of
asking through the parent setter): the copy and the original both list the children -/
theorem C13_setstate_raw_witness : WFTree t15 ∧ ¬ WFTree (copyRaw t15 4 5) := by
  refine ⟨t15_wf, fun hw => ?_⟩
  have h1 : (['a'], 2) ∈ (copyRaw t15 4 5).children 4 := by decide
  have h2 : (['a'], 2) ∈ (copyRaw t15 4 5).children 5 := by decide
  have := (hw.one_parent h1 h2).1
  cases this

/-- seeded change C13-10 (a running node refuses to change parent, `remove_child` pops first): the
refusal arrives half-way; asking first makes it all-or-nothing, for every run state -/
theorem C13_running_guard (cfg : Cfg) (running : Nat → Bool) (t : Tree) (h : WFTree t) (q c : Nat) :
    Good t (removeChildGuarded cfg true running t q c) := by
  unfold removeChildGuarded
  split
  · exact good_same h _
  · split
    · exact good_same h _
    · split
      · exact removeChild_good cfg h q c
      · simp only [if_true]; exact good_same h _

theorem C13_running_pop_first_witness :
    (removeChildGuarded rep false (fun _ => true) t15 4 2).2 = .runtimeError ∧
    ¬ WFTree (removeChildGuarded rep false (fun _ => true) t15 4 2).1 := by
  refine ⟨by decide, fun hw => ?_⟩
  have hp : (removeChildGuarded rep false (fun _ => true) t15 4 2).1.parent 2 = some 4 := by decide
  have := (hw.agree 4 2 ['a']).mpr ⟨hp, by decide⟩
  exact absurd this (by decide)

def base10 : List Op := [.new 0 ['u'] none]
def t10 : Tree := run rep exEmpty base10
/-- KF-C13-10: a macro whose graph creator adds a child labelled like the root workflow cannot
be constructed inside that workflow (`Macro(parent=wf)`, `wf.create…`): `Lexical.__init__` has
already made it a child of the workflow when the creator's `self.u = …` trips the string test,
so the workflow keeps listing a half-built macro.  (Constructor = `new`, then `new` + `setattr`
of the inner child.)  The identity check accepts all three steps. -/
theorem C13_constructor_zombie_witness :
    let s1 := (step pin t10 (.new 4 ['m'] (some 0))).1
    let s2 := (step pin s1 (.new 2 ['U'] none)).1
    (step pin s2 (.setattr 4 ['u'] 2)).2 = .cyclicPathError ∧
    (step pin s2 (.setattr 4 ['u'] 2)).1.children 0 = [(['m'], 4)] ∧ t10.children 0 = [] ∧
    (step rep (step rep (step rep t10 (.new 4 ['m'] (some 0))).1 (.new 2 ['U'] none)).1
      (.setattr 4 ['u'] 2)).2 = .ok := by
  decide

end PwVerif.C13

#print axioms PwVerif.C13.C13_init
#print axioms PwVerif.C13.C13_step
#print axioms PwVerif.C13.C13_state_always_wf
#print axioms PwVerif.C13.C13_history
#print axioms PwVerif.C13.C13_rejected_unchanged
#print axioms PwVerif.C13.C13_step_current
#print axioms PwVerif.C13.C13_history_current
#print axioms PwVerif.C13.C13_rejected_unchanged_current
#print axioms PwVerif.C13.C13_history_sixFixes
#print axioms PwVerif.C13.C13_walk_terminates
#print axioms PwVerif.C13.C13_walk_terminates_reachable
#print axioms PwVerif.C13.C13_walk_needs_acyclic
#print axioms PwVerif.C13.C13_ctor_zombie_witness
#print axioms PwVerif.C13.C13_workflow_ctor_witness
#print axioms PwVerif.C13.C13_load_orphans_witness
#print axioms PwVerif.C13.C13_construct_all_or_nothing
#print axioms PwVerif.C13.C13_construct_log_order_witness
#print axioms PwVerif.C13.C13_copy_wf
#print axioms PwVerif.C13.C13_setstate_raw_witness
#print axioms PwVerif.C13.C13_running_guard
#print axioms PwVerif.C13.C13_running_pop_first_witness
#print axioms PwVerif.C13.C13_replace_refused_unchanged
#print axioms PwVerif.C13.C13_one_parent
#print axioms PwVerif.C13.C13_rank
#print axioms PwVerif.C13.C13_cycle_caught
#print axioms PwVerif.C13.C13_remove_any_variant
#print axioms PwVerif.C13.C13_reparent_witness
#print axioms PwVerif.C13.C13_unparent_witness
#print axioms PwVerif.C13.C13_rejected_reparent_witness
#print axioms PwVerif.C13.C13_nonstrict_reparent_witness
#print axioms PwVerif.C13.C13_relabel_witness
#print axioms PwVerif.C13.C13_workflow_child_witness
#print axioms PwVerif.C13.C13_self_adoption_witness
#print axioms PwVerif.C13.C13_false_cycle_witness
#print axioms PwVerif.C13.C13_replace_false_cycle_witness
#print axioms PwVerif.C13.C13_constructor_zombie_witness
#print axioms PwVerif.C13.C13_replace_ancestor_witness
#print axioms PwVerif.C13.C13_replace_workflow_witness
