import PwVerif.Proofs.ForLoop
/-!
# C16 — A for-loop node computes exactly the nested-times-zipped table of its body

"A for-loop node returns one row per combination of the looped inputs - the Cartesian product
over the iterated inputs, combined with lock-step traversal of the zipped inputs truncated to
the shortest, in that nesting order - where each row holds those input values together with
what the body node computes for them and the broadcast values of the remaining inputs. This
holds for either output form (table or per-column lists), for any column renaming, when the
same loop node is run again with inputs of different lengths, and when body nodes run on an
executor."

Model: `Model/ForLoop.lean` (`indexMaps` = `dictionary_to_index_maps`, `run` = one run of a
`For` node incl. cache test, `_on_cache_miss`, `_build_body`, evaluation). Reference:
`refMaps` (index level), `combos`/`refTable`/`refOuts` (value level, `itertools.product` ×
`zip`, no indices, no `NOT_DATA`). Labels `κ`, values `ν`, the body function, the column map
and the broadcast-list embedding are arbitrary (uninterpreted) in every theorem; lists have
arbitrary lengths; histories and completion orders are arbitrary.

Guard (what the pinned code really does, proved below as error branches): looped inputs must
be non-empty lists — an empty one is *refused* (`ValueError`, or the empty loop silently
drops out of the index maps and the run dies on unwired channels), never turned into rows.

Only property theorems live here; lemmas are in `Proofs/ForLoop.lean`.
-/
namespace PwVerif.C16
open PwVerif PwVerif.ForLoop

section
variable {κ ν : Type} [DecidableEq κ]

/-! ## index maps -/

/-- for distinct keys and positive lengths `dictionary_to_index_maps` returns exactly
`[ n ++ z | n ∈ ∏ range lenᵢ (last key fastest), z ∈ range (min zipped lengths) ]`, in that order -/
theorem C16_maps_spec (nested zipped : List (κ × Nat)) (g : Guard nested zipped) :
    indexMaps nested zipped = .ok (refMaps nested zipped) := indexMaps_spec nested zipped g

/-- ... which has `∏ nested lengths × min zipped lengths` rows -/
theorem C16_maps_length (nested zipped : List (κ × Nat)) :
    (refMaps nested zipped).length = prodLens (nested.map (·.2)) * zipCount zipped :=
  length_refMaps nested zipped

/-- one row per combination: the maps are exactly the pairs (valid nested index tuple, common
zipped index), and none occurs twice -/
theorem C16_maps_combinations (nested zipped : List (κ × Nat)) :
    (refMaps nested zipped).Nodup ∧
    ∀ m, m ∈ refMaps nested zipped ↔
      ∃ idx z, Below idx (nested.map (·.2)) ∧ z < zipCount zipped ∧
        m = (nested.map (·.1)).zip idx ++ zipped.map fun kz => (kz.1, z) :=
  ⟨nodup_refMaps nested zipped, mem_refMaps nested zipped⟩

/-- nesting order: the nested index tuples come in strictly increasing lexicographic order
(first key slowest), the zipped index runs inside (by the shape of `refMaps`) -/
theorem C16_maps_order (lens : List Nat) : (product lens).Pairwise lexLt := product_sorted lens

/-- closed form of the order: row `r` pairs the mixed-radix digits of `r / Z` over the nested
lengths (first key most significant, last key fastest) with the zipped index `r % Z`, where `Z`
is the number of zipped steps — nested product outside, zip inside -/
theorem C16_maps_row (nested zipped : List (κ × Nat)) (r : Nat) (hr : r < rowCount nested zipped) :
    (refMaps nested zipped)[r]? =
      some ((nested.map (·.1)).zip (digits (nested.map (·.2)) (r / zipCount zipped))
        ++ zipped.map fun kz => (kz.1, r % zipCount zipped)) :=
  getElem?_refMaps nested zipped r hr

/-- for ANY key lists (duplicates, a key in both loops, empty lists, `None`) every entry of every
index map the code returns is an index into the list of its key: the injected get-item nodes
never raise `IndexError` -/
theorem C16_maps_in_range (data : κ → DLen) (nested zipped : Option (List κ)) (maps : List (Dict κ))
    (h : indexMapsOf data nested zipped = .ok maps) (m : Dict κ) (hm : m ∈ maps) (k : κ) (i : Nat)
    (hki : (k, i) ∈ m) : ∃ n, data k = .len n ∧ i < n :=
  indexMapsOf_in_range data nested zipped maps h m hm k i hki

/-- the same through the front end that reads the lengths off the data -/
theorem C16_maps_of_spec (data : κ → DLen) (nk zk : List κ) (f : κ → Nat)
    (hd : ∀ k ∈ nk ++ zk, data k = .len (f k))
    (g : Guard (nk.map fun k => (k, f k)) (zk.map fun k => (k, f k))) :
    indexMapsOf data (some nk) (some zk)
      = .ok (refMaps (nk.map fun k => (k, f k)) (zk.map fun k => (k, f k))) :=
  indexMapsOf_spec data nk zk f hd g

/-- error branches: no keys at all, or every loop empty / containing an empty list ⇒ the
documented `ValueError`s, no maps -/
theorem C16_maps_refusals (data : κ → DLen) (nested zipped : List (κ × Nat))
    (hn : nested = [] ∨ 0 ∈ nested.map (·.2)) (hz : zipped = [] ∨ 0 ∈ zipped.map (·.2)) :
    indexMaps nested zipped = .error .allZero ∧
    indexMapsOf data none none = .error .noKeys ∧
    indexMapsOf data (some []) (some []) = .error .allZero :=
  ⟨indexMaps_allZero nested zipped hn hz, indexMapsOf_none data, indexMapsOf_empty data⟩

/-- the guard is needed: an empty iterated list next to non-empty zipped ones (or vice versa)
does not yield an empty table — that loop silently drops out of the index maps -/
theorem C16_maps_zero_fallthrough (nested zipped : List (κ × Nat)) :
    (0 ∈ nested.map (·.2) → indexMaps nested zipped = indexMaps [] zipped) ∧
    (0 ∈ zipped.map (·.2) → indexMaps nested zipped = indexMaps nested []) :=
  ⟨indexMaps_zero_nested nested zipped, indexMaps_zero_zipped nested zipped⟩

/-! ## the table -/

variable [DecidableEq ν]

/-- one (cache-missing) run on good inputs, from ANY state of the node and for ANY completion
order of the body nodes that completes them all: the node returns the reference table — rows
in product-outside / zip-inside order, each with its looped values, and `bodyFn` applied to
looped ⊕ broadcast values under the mapped column names — in either output form -/
theorem C16_table (s : Spec κ ν) (st : St κ ν) (cur : Cur κ ν) (order : List Nat) (v : Valid s)
    (g : Good s cur) (hc : Covers order (combos s cur).length)
    (hmiss : isHit s st cur = false) :
    (run s st cur order).2 = .ok ∧ (run s st cur order).1.outs = refOuts s cur := by
  rw [run_good s st cur order v g hc hmiss]; exact ⟨rfl, rfl⟩

/-- every history of runs of the SAME node (any inputs: good, empty lists, unset; any lengths;
cache hits and misses; any completion orders) followed by a run on good inputs: that run returns
the reference table for the CURRENT inputs, and the node's children are its input nodes plus
what the current lengths dictate -/
theorem C16_history (s : Spec κ ν) (v : Valid s) (hs : List (Cur κ ν × List Nat))
    (hcov : ∀ h ∈ hs, Good s h.1 → Covers h.2 (combos s h.1).length)
    (cur : Cur κ ν) (order : List Nat) (g : Good s cur) (hc : Covers order (combos s cur).length) :
    let st := runs s (init s) hs
    (run s st cur order).2 = .ok ∧ (run s st cur order).1.outs = refOuts s cur ∧
    (run s st cur order).1.children = s.bodyInputs.map .input
      ++ freshChildren s (refMaps (lensOfCur cur s.iterOn) (lensOfCur cur s.zipOn)) :=
  run_good_inv s _ cur order v g hc (runs_inv s (init s) hs v hcov (inv_init s))

omit [DecidableEq ν] in
/-- no leftovers: a build keeps exactly the input nodes and adds children that are a function of
the index maps alone -/
theorem C16_rebuild (s : Spec κ ν) (maps : List (Dict κ)) (cs : List (Child κ)) :
    build s maps cs = cs.filter Child.isInput ++ freshChildren s maps := build_eq s maps cs

/-- ... hence after two arbitrary histories the children agree as soon as the current lengths
agree (values, earlier lengths, cache hits, failures in between are irrelevant) -/
theorem C16_rerun (s : Spec κ ν) (v : Valid s) (hs hs' : List (Cur κ ν × List Nat))
    (hcov : ∀ h ∈ hs, Good s h.1 → Covers h.2 (combos s h.1).length)
    (hcov' : ∀ h ∈ hs', Good s h.1 → Covers h.2 (combos s h.1).length)
    (cur cur' : Cur κ ν) (order order' : List Nat) (g : Good s cur) (g' : Good s cur')
    (hc : Covers order (combos s cur).length) (hc' : Covers order' (combos s cur').length)
    (hlen : ∀ k ∈ s.iterOn ++ s.zipOn, (listOf cur k).length = (listOf cur' k).length) :
    (run s (runs s (init s) hs) cur order).1.children
      = (run s (runs s (init s) hs') cur' order').1.children := by
  rw [(C16_history s v hs hcov cur order g hc).2.2, (C16_history s v hs' hcov' cur' order' g' hc').2.2]
  have e : ∀ ks : List κ, (∀ k ∈ ks, k ∈ s.iterOn ++ s.zipOn) → lensOfCur cur ks = lensOfCur cur' ks := by
    intro ks hks
    unfold lensOfCur
    apply List.map_congr_left
    intro k hk
    rw [hlen k (hks k hk)]
  rw [e s.iterOn (fun k hk => by simp [hk]), e s.zipOn (fun k hk => by simp [hk])]

omit [DecidableEq ν] in
/-- ... and their number has the closed form  inputs + rows + Σ nested lengths + |zipped|·min +
collectors (rows + 1 for a table, outputs + looped inputs for lists) -/
theorem C16_child_count (s : Spec κ ν) (nested zipped : List (κ × Nat)) (g : Guard nested zipped) :
    (s.bodyInputs.map Child.input ++ freshChildren s (refMaps nested zipped)).length
      = childCount s nested zipped := length_freshChildren_ref s nested zipped g

end

/-! ## Non-vacuity: a concrete layout (two iterated, one zipped, one broadcast input; renamed
column), concrete inputs, a history with an empty list and a shrinking re-run -/

def exSpec (df : Bool) : Spec String (List Nat) :=
  { bodyInputs := ["a", "b", "c", "d"], bodyDefault := fun _ => none, outputs := ["o"],
    iterOn := ["a", "b"], zipOn := ["c"], asDf := df, useCache := true, gateCache := false, clearOnFail := false, startAbort := true,
    colmap := fun _ => "O", bodyFn := fun _ args => 99 :: args.flatten, listVal := List.flatten }

def exSpec0 : Spec String (List Nat) :=
  { exSpec true with bodyInputs := ["a", "b", "c", "d", "e"], iterOn := ["a", "b"], zipOn := ["c", "d"] }

def exCur (a b c : List (List Nat)) : Cur String (List Nat) :=
  [("a", .many a), ("b", .many b), ("c", .many c), ("d", .one [7])]

example : Guard [("a", 2), ("b", 3)] [("c", 2), ("d", 5)] := ⟨by decide, by decide, by decide⟩
example : indexMaps [("a", 2), ("b", 1)] [("c", 2)] =
    .ok [[("a", 0), ("b", 0), ("c", 0)], [("a", 0), ("b", 0), ("c", 1)],
         [("a", 1), ("b", 0), ("c", 0)], [("a", 1), ("b", 0), ("c", 1)]] := by rfl
example : indexMaps [("a", 0)] [("c", 2)] = .ok [[("c", 0)], [("c", 1)]] := by rfl
example : rowCount [("a", 2), ("b", 3)] [("c", 2), ("d", 5)] = 12 := by decide
example : digits [2, 3] (7 / 2) = [1, 0] ∧ 7 % 2 = 1 := by decide
/-- the docstring example of `for_node`: 48 children, 12 after the re-run with shorter lists -/
example : childCount (exSpec0) [("a", 2), ("b", 4)] [("c", 2), ("d", 3)] = 48 ∧
    childCount (exSpec0) [("a", 1), ("b", 1)] [("c", 2), ("d", 1)] = 12 := by decide

theorem exValid (df : Bool) : Valid (exSpec df) := by
  cases df <;> exact ⟨by decide, by decide, by decide⟩

theorem exGood (df : Bool) (a b c : List (List Nat)) (ha : a ≠ []) (hb : b ≠ []) (hc : c ≠ []) :
    Good (exSpec df) (exCur a b c) where
  keys := rfl
  data := by intro kv h; simp [exCur] at h; rcases h with rfl | rfl | rfl | rfl <;> simp
  lists := by
    intro k hk
    simp [exSpec] at hk
    rcases hk with rfl | rfl | rfl
    · exact ⟨a, rfl, ha⟩
    · exact ⟨b, rfl, hb⟩
    · exact ⟨c, rfl, hc⟩

/-- the hypotheses of `C16_history` are met by a history that contains a good run, a refused run
(empty list) and is followed by a run with other lengths -/
example :
    let hs : List (Cur String (List Nat) × List Nat) :=
      [(exCur [[1], [2]] [[3]] [[4], [5]], [3, 1, 0, 2]), (exCur [] [[3]] [[4], [5]], [0, 1])]
    (run (exSpec true) (runs (exSpec true) (init (exSpec true)) hs) (exCur [[1]] [[3], [8]] [[4]]) [1, 0]).2 = .ok :=
  (C16_history (exSpec true) (exValid true) _
    (by
      intro h hh g
      simp only [List.mem_cons, List.mem_nil_iff, or_false] at hh
      rcases hh with rfl | rfl
      · intro n hn; have : n < 4 := hn; simp; omega
      · exact absurd g (fun g => by
          obtain ⟨vs, h1, h2⟩ := g.lists "a" (by decide)
          simp [exCur, valOf] at h1; exact h2 h1))
    _ [1, 0] (exGood true _ _ _ (by simp) (by simp) (by simp))
    (by intro n hn; have : n < 2 := hn; simp; omega)).1

example : (run (exSpec false) (init (exSpec false)) (exCur [[1], [2]] [[3]] [[4], [5]]) [0, 1, 2, 3]).2 = .ok := by
  decide
example : (run (exSpec true) (init (exSpec true)) (exCur [] [[3]] [[4], [5]]) [0, 1]).2 = .failedChild := by
  decide
example : (run (exSpec true) (init (exSpec true)) (exCur [] [[3]] []) []).2 = .raised .allZero := by decide

end PwVerif.C16

#print axioms PwVerif.C16.C16_maps_spec
#print axioms PwVerif.C16.C16_maps_length
#print axioms PwVerif.C16.C16_maps_combinations
#print axioms PwVerif.C16.C16_maps_order
#print axioms PwVerif.C16.C16_maps_row
#print axioms PwVerif.C16.C16_maps_in_range
#print axioms PwVerif.C16.C16_maps_of_spec
#print axioms PwVerif.C16.C16_maps_refusals
#print axioms PwVerif.C16.C16_maps_zero_fallthrough
#print axioms PwVerif.C16.C16_table
#print axioms PwVerif.C16.C16_history
#print axioms PwVerif.C16.C16_rebuild
#print axioms PwVerif.C16.C16_rerun
#print axioms PwVerif.C16.C16_child_count
