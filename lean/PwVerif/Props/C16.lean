import PwVerif.Proofs.ForLoop
import PwVerif.Proofs.BridgeC16C01
/-!
# C16 — A for-loop node computes exactly the nested-times-zipped table of its body

"A for-loop node returns one row per combination of the looped inputs - the Cartesian product
over the iterated inputs, combined with lock-step traversal of the zipped inputs truncated to
the shortest, in that nesting order - where each row holds those input values together with
what the body node computes for them and the broadcast values of the remaining inputs. This
holds for either output form (table or per-column lists), for any column renaming, when the
same loop node is run again with inputs of different lengths, and when body nodes run on an
executor."

Model: `Model/ForLoop.lean` (`indexMaps` = `dictionary_to_index_maps`, `run` = one run of a
`For` node incl. cache test, `_on_cache_miss`, `_build_body`, evaluation). Reference:
`refMaps` (index level), `combos`/`refTable`/`refOuts` (value level, `itertools.product` ×
`zip`, no indices, no `NOT_DATA`). Labels `κ`, values `ν`, the body function, the column map
and the broadcast-list embedding are arbitrary (uninterpreted) in every theorem; lists have
arbitrary lengths; histories and completion orders are arbitrary.

Guard (what the pinned code really does, proved below as error branches): looped inputs must
be non-empty lists — an empty one is *refused* (`ValueError`, or the empty loop silently
drops out of the index maps and the run dies on unwired channels), never turned into rows.

Column renaming: the table theorems need `ColsDistinct` (the column names — looped inputs and
mapped outputs — are pairwise distinct, i.e. the renaming IS a renaming). The pinned code accepts
maps that break this (`{"o": "a"}` with `a` looped) and then returns a table in which the output
has overwritten the input column (table form) or dies with a label clash (lists form): the
unrestricted `C16Statement` is false for the pinned class-creation check (`C16_pinned_witness`)
and true once class creation refuses such maps (`C16_statement_repaired`, `Spec.checkCols`).

Only property theorems live here; lemmas are in `Proofs/ForLoop.lean`.
-/
namespace PwVerif.C16
open PwVerif PwVerif.ForLoop

section
variable {κ ν : Type} [DecidableEq κ]

/-! ## index maps -/

/-- for distinct keys and positive lengths `dictionary_to_index_maps` returns exactly
`[ n ++ z | n ∈ ∏ range lenᵢ (last key fastest), z ∈ range (min zipped lengths) ]`, in that order -/
theorem C16_maps_spec (nested zipped : List (κ × Nat)) (g : Guard nested zipped) :
    indexMaps nested zipped = .ok (refMaps nested zipped) := indexMaps_spec nested zipped g

/-- ... which has `∏ nested lengths × min zipped lengths` rows -/
theorem C16_maps_length (nested zipped : List (κ × Nat)) :
    (refMaps nested zipped).length = prodLens (nested.map (·.2)) * zipCount zipped :=
  length_refMaps nested zipped

/-- one row per combination: the maps are exactly the pairs (valid nested index tuple, common
zipped index), and none occurs twice -/
theorem C16_maps_combinations (nested zipped : List (κ × Nat)) :
    (refMaps nested zipped).Nodup ∧
    ∀ m, m ∈ refMaps nested zipped ↔
      ∃ idx z, Below idx (nested.map (·.2)) ∧ z < zipCount zipped ∧
        m = (nested.map (·.1)).zip idx ++ zipped.map fun kz => (kz.1, z) :=
  ⟨nodup_refMaps nested zipped, mem_refMaps nested zipped⟩

/-- nesting order: the nested index tuples come in strictly increasing lexicographic order
(first key slowest), the zipped index runs inside (by the shape of `refMaps`) -/
theorem C16_maps_order (lens : List Nat) : (product lens).Pairwise lexLt := product_sorted lens

/-- closed form of the order: row `r` pairs the mixed-radix digits of `r / Z` over the nested
lengths (first key most significant, last key fastest) with the zipped index `r % Z`, where `Z`
is the number of zipped steps — nested product outside, zip inside -/
theorem C16_maps_row (nested zipped : List (κ × Nat)) (r : Nat) (hr : r < rowCount nested zipped) :
    (refMaps nested zipped)[r]? =
      some ((nested.map (·.1)).zip (digits (nested.map (·.2)) (r / zipCount zipped))
        ++ zipped.map fun kz => (kz.1, r % zipCount zipped)) :=
  getElem?_refMaps nested zipped r hr

/-- for ANY key lists (duplicates, a key in both loops, empty lists, `None`) every entry of every
index map the code returns is an index into the list of its key: the injected get-item nodes
never raise `IndexError` -/
theorem C16_maps_in_range (data : κ → DLen) (nested zipped : Option (List κ)) (maps : List (Dict κ))
    (h : indexMapsOf data nested zipped = .ok maps) (m : Dict κ) (hm : m ∈ maps) (k : κ) (i : Nat)
    (hki : (k, i) ∈ m) : ∃ n, data k = .len n ∧ i < n :=
  indexMapsOf_in_range data nested zipped maps h m hm k i hki

/-- the same through the front end that reads the lengths off the data -/
theorem C16_maps_of_spec (data : κ → DLen) (nk zk : List κ) (f : κ → Nat)
    (hd : ∀ k ∈ nk ++ zk, data k = .len (f k))
    (g : Guard (nk.map fun k => (k, f k)) (zk.map fun k => (k, f k))) :
    indexMapsOf data (some nk) (some zk)
      = .ok (refMaps (nk.map fun k => (k, f k)) (zk.map fun k => (k, f k))) :=
  indexMapsOf_spec data nk zk f hd g

/-- error branches: no keys at all, or every loop empty / containing an empty list ⇒ the
documented `ValueError`s, no maps -/
theorem C16_maps_refusals (data : κ → DLen) (nested zipped : List (κ × Nat))
    (hn : nested = [] ∨ 0 ∈ nested.map (·.2)) (hz : zipped = [] ∨ 0 ∈ zipped.map (·.2)) :
    indexMaps nested zipped = .error .allZero ∧
    indexMapsOf data none none = .error .noKeys ∧
    indexMapsOf data (some []) (some []) = .error .allZero :=
  ⟨indexMaps_allZero nested zipped hn hz, indexMapsOf_none data, indexMapsOf_empty data⟩

/-- the guard is needed: an empty iterated list next to non-empty zipped ones (or vice versa)
does not yield an empty table — that loop silently drops out of the index maps -/
theorem C16_maps_zero_fallthrough (nested zipped : List (κ × Nat)) :
    (0 ∈ nested.map (·.2) → indexMaps nested zipped = indexMaps [] zipped) ∧
    (0 ∈ zipped.map (·.2) → indexMaps nested zipped = indexMaps nested []) :=
  ⟨indexMaps_zero_nested nested zipped, indexMaps_zero_zipped nested zipped⟩

/-! ## the table -/

variable [DecidableEq ν]

/-- one (cache-missing) run on good inputs, from ANY state of the node and for ANY completion
order of the body nodes that completes them all: the node returns the reference table — rows
in product-outside / zip-inside order, each with its looped values, and `bodyFn` applied to
looped ⊕ broadcast values under the mapped column names — in either output form -/
theorem C16_table (s : Spec κ ν) (st : St κ ν) (cur : Cur κ ν) (order : List Nat) (v : Valid s)
    (g : Good s cur) (hc : Covers order (combos s cur).length)
    (hmiss : isHit s st cur = false) :
    (run s st cur order).2 = .ok ∧ (run s st cur order).1.outs = refOuts s cur := by
  rw [run_good s st cur order v g hc hmiss]; exact ⟨rfl, rfl⟩

/-- every history of runs of the SAME node (any inputs: good, empty lists, unset; any lengths;
cache hits and misses; any completion orders) followed by a run on good inputs: that run returns
the reference table for the CURRENT inputs, and the node's children are its input nodes plus
what the current lengths dictate -/
theorem C16_history (s : Spec κ ν) (v : Valid s) (hs : List (Cur κ ν × List Nat))
    (hcov : ∀ h ∈ hs, Good s h.1 → Covers h.2 (combos s h.1).length)
    (cur : Cur κ ν) (order : List Nat) (g : Good s cur) (hc : Covers order (combos s cur).length) :
    let st := runs s (init s) hs
    (run s st cur order).2 = .ok ∧ (run s st cur order).1.outs = refOuts s cur ∧
    (run s st cur order).1.children = s.bodyInputs.map .input
      ++ freshChildren s (refMaps (lensOfCur cur s.iterOn) (lensOfCur cur s.zipOn)) :=
  run_good_inv s _ cur order v g hc (runs_inv s (init s) hs v hcov (inv_init s))

omit [DecidableEq ν] in
/-- the number of rows of the reference table, on values: the product of the lengths of the iterated
lists times the length of the SHORTEST zipped list (1 if nothing is zipped) — for any number of
iterated and zipped inputs and any lengths -/
theorem C16_row_count (s : Spec κ ν) (cur : Cur κ ν) :
    (combos s cur).length
      = prodLens (s.iterOn.map fun k => (listOf cur k).length)
        * (match s.zipOn with
           | [] => 1
           | zs => minLens (zs.map fun k => (listOf cur k).length)) := by
  rw [length_combos, length_refMaps]
  congr 1
  · simp [lensOfCur, Function.comp_def]
  · cases h : s.zipOn with
    | nil => simp [lensOfCur, zipCount]
    | cons z zs => simp [lensOfCur, zipCount, Function.comp_def]

/-- the property for ONE loop class, WITHOUT any restriction on the column map: if the class can be
created, then after every history a run on good inputs returns the reference table -/
def C16Statement (s : Spec κ ν) : Prop :=
  Layout s → (∀ k i k' i', s.itemLabel k i = s.itemLabel k' i' → k = k' ∧ i = i') → ∀ st0, mk s = .ok st0 →
    ∀ (hs : List (Cur κ ν × List Nat)), (∀ h ∈ hs, Good s h.1 → Covers h.2 (combos s h.1).length) →
    ∀ (cur : Cur κ ν) (order : List Nat), Good s cur → Covers order (combos s cur).length →
      (run s (runs s st0 hs) cur order).2 = .ok ∧ (run s (runs s st0 hs) cur order).1.outs = refOuts s cur

/-- a class that was created is the initial node; with the repaired creation check its column
names are pairwise distinct -/
theorem C16_mk (s : Spec κ ν) (st0 : St κ ν) (h : mk s = .ok st0) :
    st0 = init s ∧ (s.checkCols = true → ColsDistinct s) := by
  unfold mk at h
  split at h
  · cases h
  · split at h
    · cases h
    · split at h
      · cases h
      · rename_i hc
        simp only [Except.ok.injEq] at h
        refine ⟨h.symm, fun hcc => ?_⟩
        simp only [hcc, Bool.true_and, Bool.not_eq_eq_eq_not, Bool.not_true, decide_eq_false_iff_not,
          Classical.not_not] at hc
        exact hc

/-- with the repaired class-creation check the statement holds for EVERY column map -/
theorem C16_statement_repaired (s : Spec κ ν) (hc : s.checkCols = true) : C16Statement s := by
  intro lay hl st0 hmk hs hcov cur order g hcv
  obtain ⟨rfl, hd⟩ := C16_mk s st0 hmk
  have v : Valid s := ⟨lay, hd hc, hl⟩
  have := C16_history s v hs hcov cur order g hcv
  exact ⟨this.1, this.2.1⟩

/-- for any class-creation policy: the statement holds for every column map that is a renaming
(named hypothesis `ColsDistinct`) -/
theorem C16_statement_partial (s : Spec κ ν) (hd : ColsDistinct s) : C16Statement s := by
  intro lay hl st0 hmk hs hcov cur order g hcv
  obtain ⟨rfl, _⟩ := C16_mk s st0 hmk
  have := C16_history s ⟨lay, hd, hl⟩ hs hcov cur order g hcv
  exact ⟨this.1, this.2.1⟩

/-- PICKLING AND BY-VALUE EXECUTION. After EVERY history of runs (any inputs, any completion orders), runs
of the loop node ITSELF on a by-value executor (`Ev.rrun`: pickled, run on the copy, merged back), pickle / save-load
round trips of the node at rest (`Ev.reload`: between runs, after refused or failed runs) and copies
restored from a pickle taken WHILE body nodes were out (`Ev.snap`, running flag cleared by hand), a run
on good inputs returns the reference table for the CURRENT inputs, and the children are the input
nodes plus what the current lengths dictate -/
theorem C16_roundtrip (s : Spec κ ν) (v : Valid s) (hs : List (Ev κ ν))
    (hcov : ∀ cur order, (Ev.run cur order ∈ hs ∨ Ev.rrun cur order ∈ hs) → Good s cur →
      Covers order (combos s cur).length)
    (cur : Cur κ ν) (order : List Nat) (g : Good s cur) (hc : Covers order (combos s cur).length) :
    let st := evs s (init s) hs
    (run s st cur order).2 = .ok ∧ (run s st cur order).1.outs = refOuts s cur ∧
    (run s st cur order).1.children = s.bodyInputs.map .input
      ++ freshChildren s (refMaps (lensOfCur cur s.iterOn) (lensOfCur cur s.zipOn)) :=
  run_good_inv s _ cur order v g hc (evs_inv s (init s) hs v hcov (inv_init s))

/-- … so the table of a later run is unchanged by round trips at any point of the history: whatever
two histories (with or without round trips and snapshots, whatever happened in between) precede it,
the run on the same good inputs gives the same result, the same outputs and the same children -/
theorem C16_roundtrip_unchanged (s : Spec κ ν) (v : Valid s) (hs hs' : List (Ev κ ν))
    (hcov : ∀ cur order, (Ev.run cur order ∈ hs ∨ Ev.rrun cur order ∈ hs) → Good s cur →
      Covers order (combos s cur).length)
    (hcov' : ∀ cur order, (Ev.run cur order ∈ hs' ∨ Ev.rrun cur order ∈ hs') → Good s cur →
      Covers order (combos s cur).length)
    (cur : Cur κ ν) (order order' : List Nat) (g : Good s cur)
    (hc : Covers order (combos s cur).length) (hc' : Covers order' (combos s cur).length) :
    (run s (evs s (init s) hs) cur order).2 = (run s (evs s (init s) hs') cur order').2 ∧
    (run s (evs s (init s) hs) cur order).1.outs = (run s (evs s (init s) hs') cur order').1.outs ∧
    (run s (evs s (init s) hs) cur order).1.children = (run s (evs s (init s) hs') cur order').1.children := by
  have h1 := C16_roundtrip s v hs hcov cur order g hc
  have h2 := C16_roundtrip s v hs' hcov' cur order' g hc'
  exact ⟨h1.1.trans h2.1.symm, h1.2.1.trans h2.2.1.symm, h1.2.2.trans h2.2.2.symm⟩

/-- what a copy restored from a mid-run pickle looks like: the sub-graph of the run in flight, outputs
as delivered with NO body completed, no input cache — so it has to run, a repetition of the same
inputs is no hit -/
theorem C16_midrun_copy (s : Spec κ ν) (st st' : St κ ν) (cur : Cur κ ν) (h : midRun s st cur = some st') :
    st'.outs = evalOuts s cur st'.maps [] ∧ st'.children = build s st'.maps st.children ∧
    st'.cached = none ∧ ∀ cur', isHit s st' cur' = false := by
  unfold midRun at h
  split at h
  · cases h
  · split at h
    · split at h
      · cases h
      · split at h
        · cases h
        · simp only [Option.some.injEq] at h
          subst h
          exact ⟨rfl, rfl, rfl, fun cur' => by simp [isHit]⟩
    · cases h

/-- ROWS HOLD THEIR OWN CELLS — where the injective-labels hypothesis is used. The loop reads cell `i` of
looped input `k` through an injected get-item node that it finds BY LABEL (`Spec.itemLabel`); cells whose
labels coincide share the node created first. Under `Valid.labels` (different cells, different labels)
every lookup returns the cell's own node, so what row `m` is wired to is exactly `wires cur m`: its own
input values. All table theorems above are stated under `Valid` and go through this lemma -/
theorem C16_rows_hold_own_cells (s : Spec κ ν) (v : Valid s) (cur : Cur κ ν) (maps : List (Dict κ)) :
    labelsOk s maps = true ∧ (∀ c, ownerOf s maps c = c) ∧ ∀ m, wiresA s cur maps m = wires cur m :=
  ⟨labelsOk_true s v maps, ownerOf_self s v maps, wiresA_eq s v cur maps⟩

/-- HAND EDITS OF THE SUB-GRAPH. `C16_roundtrip`, `C16_roundtrip_unchanged`, `C16_by_value` and
`C16_history_failures` range over histories that also contain `Ev.tamper o` — a body copy edited and run by
hand together with its collectors, leaving ANY outputs `o` behind. In particular: right after such an
edit a run with UNCHANGED good inputs is no cache hit and returns the table of the loop's own inputs -/
theorem C16_after_edit (s : Spec κ ν) (v : Valid s) (hs : List (Ev κ ν))
    (hcov : ∀ cur order, (Ev.run cur order ∈ hs ∨ Ev.rrun cur order ∈ hs) → Good s cur →
      Covers order (combos s cur).length)
    (o : Outs κ ν) (cur : Cur κ ν) (order : List Nat) (g : Good s cur) (hc : Covers order (combos s cur).length) :
    isHit s (tamper (evs s (init s) hs) o) cur = false ∧
    (run s (tamper (evs s (init s) hs) o) cur order).2 = .ok ∧
    (run s (tamper (evs s (init s) hs) o) cur order).1.outs = refOuts s cur := by
  have inv : Inv s (tamper (evs s (init s) hs) o) :=
    ⟨(evs_inv s (init s) hs v hcov (inv_init s)).inputs, fun c _ hcache _ => by simp [tamper] at hcache⟩
  have := run_good_inv s _ cur order v g hc inv
  exact ⟨by simp [isHit, tamper], this.1, this.2.1⟩

/-- the run that is ITSELF by-value: after every such history, the loop node shipped to a by-value
executor with good inputs comes back with the reference table of the CURRENT inputs (never an earlier
run's lists), and so does every later local run (`C16_roundtrip` with the event appended) -/
theorem C16_by_value (s : Spec κ ν) (v : Valid s) (hs : List (Ev κ ν))
    (hcov : ∀ cur order, (Ev.run cur order ∈ hs ∨ Ev.rrun cur order ∈ hs) → Good s cur →
      Covers order (combos s cur).length)
    (cur : Cur κ ν) (order : List Nat) (g : Good s cur) (hc : Covers order (combos s cur).length) :
    (runByValue s (evs s (init s) hs) cur order).2 = .ok ∧
    (runByValue s (evs s (init s) hs) cur order).1.outs = refOuts s cur ∧
    (runByValue s (evs s (init s) hs) cur order).1.children = s.bodyInputs.map .input
      ++ freshChildren s (refMaps (lensOfCur cur s.iterOn) (lensOfCur cur s.zipOn)) :=
  C16_roundtrip s v hs hcov cur order g hc

/-- LOOP AS LOOP BODY (for in for, zip inside iterate; likewise any macro). The body of a loop is an
arbitrary function in every theorem above, so a nested loop is the instance in which that function is
"run the inner loop node on what arrives": `unlist` says how a value is seen as an input of the inner
node (a list to loop over, or a plain value), `embed` how the inner node's outputs are one value -/
def nestedBody (inner : Spec κ ν) (unlist : ν → InVal ν) (embed : Outs κ ν → ν) : κ → List ν → ν :=
  fun _ args =>
    let cur := inner.bodyInputs.zip (args.map unlist)
    embed (run inner (init inner) cur (List.range (combos inner cur).length)).1.outs

/-- … and that body function IS "the reference table of the inner loop" wherever the inner inputs are
good: every cell of the outer table holds the inner loop's nested-times-zipped table, for every
layout of both loops and all lengths at both levels -/
theorem C16_nested (inner : Spec κ ν) (vi : Valid inner) (unlist : ν → InVal ν) (embed : Outs κ ν → ν)
    (o : κ) (args : List ν) (g : Good inner (inner.bodyInputs.zip (args.map unlist))) :
    nestedBody inner unlist embed o args = embed (refOuts inner (inner.bodyInputs.zip (args.map unlist))) := by
  unfold nestedBody
  simp only
  rw [(C16_table inner (init inner) _ _ vi g (by intro n hn; simpa using hn) (by simp [isHit, init])).2]

/-- the outer loop over such a body: after every history, each row of the outer table holds its looped
values and, for every output, the inner loop's reference outputs for that row's arguments -/
theorem C16_nested_table (outer inner : Spec κ ν) (vo : Valid outer) (vi : Valid inner) (unlist : ν → InVal ν)
    (embed : Outs κ ν → ν) (hb : outer.bodyFn = nestedBody inner unlist embed)
    (hs : List (Cur κ ν × List Nat)) (hcov : ∀ h ∈ hs, Good outer h.1 → Covers h.2 (combos outer h.1).length)
    (cur : Cur κ ν) (order : List Nat) (g : Good outer cur) (hc : Covers order (combos outer cur).length) :
    (run outer (runs outer (init outer) hs) cur order).1.outs = refOuts outer cur ∧
    ∀ vd ∈ combos outer cur, ∀ o,
      Good inner (inner.bodyInputs.zip ((outer.bodyInputs.map (env outer cur vd)).map unlist)) →
      refBody outer cur vd o
        = embed (refOuts inner (inner.bodyInputs.zip ((outer.bodyInputs.map (env outer cur vd)).map unlist))) := by
  refine ⟨(C16_history outer vo hs hcov cur order g hc).2.1, ?_⟩
  intro vd _ o gi
  unfold refBody
  rw [hb]
  exact C16_nested inner vi unlist embed o _ gi

/-- A BODY COPY THAT FAILS (or never completes) at row `n`. The statement promises a row for every
combination the body computes something for; when it does not, what must NOT happen is a table with
that row missing or the rows shifted. Proved: the run ends with `FailedChildError`, the outputs are
incomplete — table form: no table at all; lists form: no output column (`Outs.complete = false`) —
whatever the other copies did and in whatever order, and nothing is cached when failures clear the cache -/
theorem C16_body_failure (s : Spec κ ν) (st : St κ ν) (cur : Cur κ ν) (order : List Nat) (v : Valid s)
    (g : Good s cur) (hmiss : isHit s st cur = false) (n : Nat) (hn : n < (combos s cur).length)
    (hnot : n ∉ order) (hout : s.outputs ≠ []) :
    (run s st cur order).2 = .failedChild ∧ (run s st cur order).1.outs.complete = false ∧
    (s.asDf = true → (run s st cur order).1.outs = .df none) ∧
    (s.clearOnFail = true → (run s st cur order).1.cached = none) := by
  rw [run_fail s st cur order v g hmiss n hn hnot hout]
  have hinc := evalOuts_incomplete s cur (refMaps (lensOfCur cur s.iterOn) (lensOfCur cur s.zipOn)) order n
    (by rw [← length_combos]; exact hn) hnot hout
  refine ⟨rfl, hinc, fun hdf => ?_, fun hcl => by simp [hcl]⟩
  simp only
  unfold evalOuts at hinc ⊢
  simp only [hdf, ↓reduceIte, Outs.complete] at hinc ⊢
  cases h : optAll ((enum 0 (refMaps (lensOfCur cur s.iterOn) (lensOfCur cur s.zipOn))).map
      fun nm => rowAt s cur order nm.1 (wires cur nm.2)) with
  | none => rfl
  | some x => rw [h] at hinc; simp at hinc

/-- … and failures do not poison later runs: with failures clearing the input cache (the library's
policy since its C05 repair) EVERY history — runs in which any body copies fail at any iteration or
never complete, by-value runs, round trips, snapshots; NO completeness assumption about earlier runs —
is followed, on good inputs whose bodies all deliver, by the reference table of the current inputs and
the children the current lengths dictate -/
theorem C16_history_failures (s : Spec κ ν) (v : Valid s) (hcl : s.clearOnFail = true) (hout : s.outputs ≠ [])
    (hs : List (Ev κ ν)) (cur : Cur κ ν) (order : List Nat) (g : Good s cur)
    (hc : Covers order (combos s cur).length) :
    let st := evs s (init s) hs
    (run s st cur order).2 = .ok ∧ (run s st cur order).1.outs = refOuts s cur ∧
    (run s st cur order).1.children = s.bodyInputs.map .input
      ++ freshChildren s (refMaps (lensOfCur cur s.iterOn) (lensOfCur cur s.zipOn)) :=
  run_good_inv s _ cur order v g hc (evs_inv_any s (init s) hs v hcl hout (inv_init s))

omit [DecidableEq ν] in
/-- no leftovers: a build keeps exactly the input nodes and adds children that are a function of
the index maps alone -/
theorem C16_rebuild (s : Spec κ ν) (maps : List (Dict κ)) (cs : List (Child κ)) :
    build s maps cs = cs.filter Child.isInput ++ freshChildren s maps := build_eq s maps cs

/-- ... hence after two arbitrary histories the children agree as soon as the current lengths
agree (values, earlier lengths, cache hits, failures in between are irrelevant) -/
theorem C16_rerun (s : Spec κ ν) (v : Valid s) (hs hs' : List (Cur κ ν × List Nat))
    (hcov : ∀ h ∈ hs, Good s h.1 → Covers h.2 (combos s h.1).length)
    (hcov' : ∀ h ∈ hs', Good s h.1 → Covers h.2 (combos s h.1).length)
    (cur cur' : Cur κ ν) (order order' : List Nat) (g : Good s cur) (g' : Good s cur')
    (hc : Covers order (combos s cur).length) (hc' : Covers order' (combos s cur').length)
    (hlen : ∀ k ∈ s.iterOn ++ s.zipOn, (listOf cur k).length = (listOf cur' k).length) :
    (run s (runs s (init s) hs) cur order).1.children
      = (run s (runs s (init s) hs') cur' order').1.children := by
  rw [(C16_history s v hs hcov cur order g hc).2.2, (C16_history s v hs' hcov' cur' order' g' hc').2.2]
  have e : ∀ ks : List κ, (∀ k ∈ ks, k ∈ s.iterOn ++ s.zipOn) → lensOfCur cur ks = lensOfCur cur' ks := by
    intro ks hks
    unfold lensOfCur
    apply List.map_congr_left
    intro k hk
    rw [hlen k (hks k hk)]
  rw [e s.iterOn (fun k hk => by simp [hk]), e s.zipOn (fun k hk => by simp [hk])]

omit [DecidableEq ν] in
/-- ... and their number has the closed form  inputs + rows + Σ nested lengths + |zipped|·min +
collectors (rows + 1 for a table, outputs + looped inputs for lists) -/
theorem C16_child_count (s : Spec κ ν) (nested zipped : List (κ × Nat)) (g : Guard nested zipped) :
    (s.bodyInputs.map Child.input ++ freshChildren s (refMaps nested zipped)).length
      = childCount s nested zipped := length_freshChildren_ref s nested zipped g

end

/-! ## executors: bridge to C01's scheduler model (`Proofs/BridgeC16C01.lean`) -/
section
open PwVerif.Exec PwVerif.BridgeC16C01
variable {κ ν : Type} [DecidableEq κ]

/-- the sub-graph the loop builds (user-input nodes, injected get-item nodes, body copies, row
collectors, dataframe node; `forSlots`) is, for EVERY layout, EVERY list of index maps, EVERY
assignment of children to executors and any left-over outputs, a well-formed acyclic C01 composite:
`Exec.WF` holds and the layer `id % 5` is a ranking -/
theorem C16_graph_wf (s : Spec κ ν) (maps : List (Dict κ)) (onExec : Nat → Bool) (out0 : Nat → Exec.Val) :
    Exec.WF (forDag s maps onExec out0) ∧ (forDag s maps onExec out0).slots = forSlots s maps ∧
    BridgeC16C01.NoFaults (forDag s maps onExec out0) ∧
    ∀ i j, j ∈ (forDag s maps onExec out0).deps i → j % 5 < i % 5 := sched_wf s maps onExec out0

/-- SCHEDULE INDEPENDENCE (table form). For good inputs, ANY well-formed C01 composite `d` over the
loop's sub-graph (any order of `ran` connections / starting nodes, ANY executor assignment, any
outputs left by earlier runs of the input nodes) and ANY schedule — any interleaving of starts, signal
deliveries and executor completions, i.e. every completion order of executor-run body nodes — that
runs it to the end: the value the dataframe node holds denotes exactly the reference table, and every
body copy has been executed exactly once. Proof: `C01_once` + `C01_value` determine the term,
`evalOuts_ref` its meaning. -/
theorem C16_schedule_independent (s : Spec κ ν) (v : Valid s) (hdf : s.asDf = true) (cur : Cur κ ν)
    (g : Good s cur) {cfg : Exec.Cfg} {d : Exec.Dag} {t : Exec.S}
    (h : Sched s (refMaps (lensOfCur cur s.iterOn) (lensOfCur cur s.zipOn)) cfg d t) :
    evalV (sem s cur) (t.out dfId) = .table (some (refTable s cur)) ∧
    ∀ n, n < (combos s cur).length → t.calls (bodyId n) = 1 ∧ t.st (bodyId n) = .done :=
  schedule_independent s v hdf cur g h

/-- two runs of the same sub-graph under different executor assignments, signal orders and schedules
end with the same value at the dataframe node -/
theorem C16_schedule_pair (s : Spec κ ν) (maps : List (Dict κ)) (w : Wired s maps) (hdf : s.asDf = true)
    (hne : maps ≠ []) {cfg cfg' : Exec.Cfg} {d d' : Exec.Dag} {t t' : Exec.S} (h : Sched s maps cfg d t)
    (h' : Sched s maps cfg' d' t') : t.out dfId = t'.out dfId :=
  schedule_independent_pair s maps w hdf hne h h'

/-- SCHEDULE INDEPENDENCE (lists form). Same quantification; the sub-graph now ends in one column
collector per body output and per looped input (`colSlots`). After ANY schedule the collector of every
output holds, row by row in reference order, what the body computes for the reference combinations, the
collector of every looped input holds that input's value row by row, every body copy ran exactly once -/
theorem C16_schedule_independent_lists (s : Spec κ ν) (v : Valid s) (hdf : s.asDf = false) (cur : Cur κ ν)
    (g : Good s cur) {cfg : Exec.Cfg} {d : Exec.Dag} {t : Exec.S}
    (h : Sched s (refMaps (lensOfCur cur s.iterOn) (lensOfCur cur s.zipOn)) cfg d t) :
    (∀ j o, s.outputs[j]? = some o →
      evalV (sem s cur) (t.out (rowId j)) = .col (some ((combos s cur).map fun vd => refBody s cur vd o))) ∧
    (∀ c k, (s.zipOn ++ s.iterOn)[c]? = some k →
      evalV (sem s cur) (t.out (rowId (s.outputs.length + c)))
        = .col (some ((combos s cur).map fun vd => env s cur vd k))) ∧
    ∀ n, n < (combos s cur).length → t.calls (bodyId n) = 1 ∧ t.st (bodyId n) = .done :=
  schedule_independent_lists s v hdf cur g h

end

/-! ### non-vacuity of the bridge: a concrete sub-graph (one iterated input of length 2, one broadcast
input), both body copies on an executor, the SECOND body completing first -/
namespace BridgeEx
open PwVerif.Exec PwVerif.BridgeC16C01

def sp : Spec Nat Nat :=
  { bodyInputs := [0, 1], bodyDefault := fun _ => none, outputs := [7], iterOn := [0], zipOn := [], asDf := true,
    useCache := true, gateCache := true, clearOnFail := true, startAbort := false, colmap := fun _ => 9,
    mapKeys := [7], checkCols := true, bodyFn := fun _ args => args.sum, listVal := List.sum }
def cu : Cur Nat Nat := [(0, .many [10, 20]), (1, .one 5)]
def D : Dag :=
  forDag sp (refMaps (lensOfCur cu sp.iterOn) (lensOfCur cu sp.zipOn)) (fun i => i % 5 == 2) (fun _ => .nd)
/-- inputs 0, 5 start; get-items 1, 11; bodies 2, 7 are submitted; body 7 (row 1) completes BEFORE
body 2 (row 0); rows 3, 8; dataframe 4 -/
def acts : List Act := [.start, .start, .deliver, .deliver, .deliver, .deliver, .deliver, .deliver, .complete 7,
  .deliver, .deliver, .complete 2, .deliver, .deliver, .exit]
def tEx : S := (runActs Cfg.repaired D (init D) acts).getD (init D)

theorem reach : runActs Cfg.repaired D (init D) acts = some tEx := by
  have hsome : (runActs Cfg.repaired D (init D) acts).isSome = true := by decide
  unfold tEx
  cases h : runActs Cfg.repaired D (init D) acts with
  | some x => rfl
  | none => rw [h] at hsome; cases hsome

theorem sched : Sched sp (refMaps (lensOfCur cu sp.iterOn) (lensOfCur cu sp.zipOn)) Cfg.repaired D tEx :=
  ⟨rfl, forDag_wf _ _ _ _, fun _ => rfl, ⟨acts, reach⟩, by decide⟩

theorem valid : Valid sp := ⟨⟨by decide, by decide, by decide⟩, by unfold ColsDistinct; decide, fun _ _ _ _ h => Prod.mk.inj h⟩
theorem good : Good sp cu where
  keys := rfl
  data := by intro kv h; simp [cu] at h; rcases h with rfl | rfl <;> simp
  lists := by
    intro k hk
    simp [sp] at hk
    subst hk
    exact ⟨[10, 20], rfl, by simp⟩

/-- the theorem applies to this run … -/
example : evalV (sem sp cu) (tEx.out dfId) = .table (some (refTable sp cu)) :=
  (C16_schedule_independent sp valid rfl cu good sched).1
/-- … whose completion log really has row 1's body (7) before row 0's (2), and whose table is -/
example : tEx.doneLog = [0, 5, 1, 11, 7, 8, 2, 3, 4] := by decide
example : refTable sp cu = [[(0, 10), (9, 15)], [(0, 20), (9, 25)]] := by decide
/-- the same loop in the LISTS form: collectors 3 (column of output `7`) and 8 (column of input `0`); the
input column is delivered before any body completes, body 7 completes before body 2 -/
def spL : Spec Nat Nat := { sp with asDf := false }
def DL : Dag :=
  forDag spL (refMaps (lensOfCur cu spL.iterOn) (lensOfCur cu spL.zipOn)) (fun i => i % 5 == 2) (fun _ => .nd)
def actsL : List Act := [.start, .start, .deliver, .deliver, .deliver, .deliver, .deliver, .deliver, .complete 7,
  .deliver, .complete 2, .deliver, .exit]
def tExL : S := (runActs Cfg.repaired DL (init DL) actsL).getD (init DL)

theorem reachL : runActs Cfg.repaired DL (init DL) actsL = some tExL := by
  have hsome : (runActs Cfg.repaired DL (init DL) actsL).isSome = true := by decide
  unfold tExL
  cases h : runActs Cfg.repaired DL (init DL) actsL with
  | some x => rfl
  | none => rw [h] at hsome; cases hsome

theorem schedL : Sched spL (refMaps (lensOfCur cu spL.iterOn) (lensOfCur cu spL.zipOn)) Cfg.repaired DL tExL :=
  ⟨rfl, forDag_wf _ _ _ _, fun _ => rfl, ⟨actsL, reachL⟩, by decide⟩

theorem validL : Valid spL := ⟨⟨by decide, by decide, by decide⟩, by unfold ColsDistinct; decide, fun _ _ _ _ h => Prod.mk.inj h⟩
theorem goodL : Good spL cu where
  keys := rfl
  data := by intro kv h; simp [cu] at h; rcases h with rfl | rfl <;> simp
  lists := by
    intro k hk
    simp [spL, sp] at hk
    subst hk
    exact ⟨[10, 20], rfl, by simp⟩

example : evalV (sem spL cu) (tExL.out (rowId 0)) = .col (some [15, 25]) :=
  ((C16_schedule_independent_lists spL validL rfl cu goodL schedL).1 0 7 rfl).trans (by rfl)
example : evalV (sem spL cu) (tExL.out (rowId 1)) = .col (some [10, 20]) :=
  ((C16_schedule_independent_lists spL validL rfl cu goodL schedL).2.1 0 0 rfl).trans (by rfl)
example : tExL.doneLog = [0, 5, 1, 11, 8, 7, 2, 3] := by decide
end BridgeEx

/-! ## Non-vacuity: a concrete layout (two iterated, one zipped, one broadcast input; renamed
column), concrete inputs, a history with an empty list and a shrinking re-run -/

def exSpec (df : Bool) : Spec String (List Nat) :=
  { bodyInputs := ["a", "b", "c", "d"], bodyDefault := fun _ => none, outputs := ["o"],
    iterOn := ["a", "b"], zipOn := ["c"], asDf := df, useCache := true, gateCache := false, clearOnFail := false, startAbort := true,
    colmap := fun _ => "O", mapKeys := ["o"], checkCols := false,
    bodyFn := fun _ args => 99 :: args.flatten, listVal := List.flatten }

/-- the pinned defect: the output is mapped ONTO the looped label `a` -/
def exCollide : Spec String (List Nat) :=
  { exSpec true with iterOn := ["a"], zipOn := [], colmap := fun _ => "a" }

def exSpec0 : Spec String (List Nat) :=
  { exSpec true with bodyInputs := ["a", "b", "c", "d", "e"], iterOn := ["a", "b"], zipOn := ["c", "d"] }

def exCur (a b c : List (List Nat)) : Cur String (List Nat) :=
  [("a", .many a), ("b", .many b), ("c", .many c), ("d", .one [7])]

example : Guard [("a", 2), ("b", 3)] [("c", 2), ("d", 5)] := ⟨by decide, by decide, by decide⟩
example : indexMaps [("a", 2), ("b", 1)] [("c", 2)] =
    .ok [[("a", 0), ("b", 0), ("c", 0)], [("a", 0), ("b", 0), ("c", 1)],
         [("a", 1), ("b", 0), ("c", 0)], [("a", 1), ("b", 0), ("c", 1)]] := by rfl
example : indexMaps [("a", 0)] [("c", 2)] = .ok [[("c", 0)], [("c", 1)]] := by rfl
example : rowCount [("a", 2), ("b", 3)] [("c", 2), ("d", 5)] = 12 := by decide
example : digits [2, 3] (7 / 2) = [1, 0] ∧ 7 % 2 = 1 := by decide
/-- the docstring example of `for_node`: 48 children, 12 after the re-run with shorter lists -/
example : childCount (exSpec0) [("a", 2), ("b", 4)] [("c", 2), ("d", 3)] = 48 ∧
    childCount (exSpec0) [("a", 1), ("b", 1)] [("c", 2), ("d", 1)] = 12 := by decide

theorem exValid (df : Bool) : Valid (exSpec df) := by
  cases df <;> exact ⟨⟨by decide, by decide, by decide⟩, by unfold ColsDistinct; decide, fun _ _ _ _ h => Prod.mk.inj h⟩

theorem exGood (df : Bool) (a b c : List (List Nat)) (ha : a ≠ []) (hb : b ≠ []) (hc : c ≠ []) :
    Good (exSpec df) (exCur a b c) where
  keys := rfl
  data := by intro kv h; simp [exCur] at h; rcases h with rfl | rfl | rfl | rfl <;> simp
  lists := by
    intro k hk
    simp [exSpec] at hk
    rcases hk with rfl | rfl | rfl
    · exact ⟨a, rfl, ha⟩
    · exact ⟨b, rfl, hb⟩
    · exact ⟨c, rfl, hc⟩

/-- the hypotheses of `C16_history` are met by a history that contains a good run, a refused run
(empty list) and is followed by a run with other lengths -/
example :
    let hs : List (Cur String (List Nat) × List Nat) :=
      [(exCur [[1], [2]] [[3]] [[4], [5]], [3, 1, 0, 2]), (exCur [] [[3]] [[4], [5]], [0, 1])]
    (run (exSpec true) (runs (exSpec true) (init (exSpec true)) hs) (exCur [[1]] [[3], [8]] [[4]]) [1, 0]).2 = .ok :=
  (C16_history (exSpec true) (exValid true) _
    (by
      intro h hh g
      simp only [List.mem_cons, List.mem_nil_iff, or_false] at hh
      rcases hh with rfl | rfl
      · intro n hn; have : n < 4 := hn; simp; omega
      · exact absurd g (fun g => by
          obtain ⟨vs, h1, h2⟩ := g.lists "a" (by decide)
          simp [exCur, valOf] at h1; exact h2 h1))
    _ [1, 0] (exGood true _ _ _ (by simp) (by simp) (by simp))
    (by intro n hn; have : n < 2 := hn; simp; omega)).1

example : (run (exSpec false) (init (exSpec false)) (exCur [[1], [2]] [[3]] [[4], [5]]) [0, 1, 2, 3]).2 = .ok := by
  decide
example : (run (exSpec true) (init (exSpec true)) (exCur [] [[3]] [[4], [5]]) [0, 1]).2 = .failedChild := by
  decide
example : (run (exSpec true) (init (exSpec true)) (exCur [] [[3]] []) []).2 = .raised .allZero := by decide

/-! ### further non-vacuity examples (one per theorem whose hypotheses are not trivially met) -/

/-- `C16_table`: a cache-missing run from the initial state, completion order 3,1,0,2 -/
example : (run (exSpec true) (init (exSpec true)) (exCur [[1], [2]] [[3]] [[4], [5]]) [3, 1, 0, 2]).1.outs
    = refOuts (exSpec true) (exCur [[1], [2]] [[3]] [[4], [5]]) :=
  (C16_table (exSpec true) (init (exSpec true)) _ [3, 1, 0, 2] (exValid true)
    (exGood true _ _ _ (by simp) (by simp) (by simp))
    (by intro n hn; have : n < 4 := hn; simp; omega) (by decide)).2
/-- ... and what that reference table is, literally (rows in product-outside / zip-inside order) -/
example : refOuts (exSpec true) (exCur [[1], [2]] [[3]] [[4], [5]]) = .df (some
    [[("a", [1]), ("b", [3]), ("c", [4]), ("O", [99, 1, 3, 4, 7])],
     [("a", [1]), ("b", [3]), ("c", [5]), ("O", [99, 1, 3, 5, 7])],
     [("a", [2]), ("b", [3]), ("c", [4]), ("O", [99, 2, 3, 4, 7])],
     [("a", [2]), ("b", [3]), ("c", [5]), ("O", [99, 2, 3, 5, 7])]]) := by decide
/-- `C16_rerun`: two different histories, same current lengths (values differ) ⇒ same children -/
example :
    (run (exSpec false) (runs (exSpec false) (init (exSpec false))
        [(exCur [[1], [2], [3]] [[3]] [[4], [5]], [0, 1, 2, 3, 4, 5])]) (exCur [[1]] [[3], [8]] [[4]]) [1, 0]).1.children
    = (run (exSpec false) (runs (exSpec false) (init (exSpec false)) [])
        (exCur [[9]] [[6], [7]] [[5]]) [0, 1]).1.children :=
  C16_rerun (exSpec false) (exValid false) _ []
    (by
      intro h hh _
      simp only [List.mem_cons, List.mem_nil_iff, or_false] at hh
      subst hh
      intro n hn; have : n < 6 := hn; simp; omega)
    (by intro h hh; cases hh)
    _ _ [1, 0] [0, 1]
    (exGood false _ _ _ (by simp) (by simp) (by simp)) (exGood false _ _ _ (by simp) (by simp) (by simp))
    (by intro n hn; have : n < 2 := hn; simp; omega) (by intro n hn; have : n < 2 := hn; simp; omega)
    (by
      intro k hk
      simp [exSpec] at hk
      rcases hk with rfl | rfl | rfl <;> rfl)
/-- `C16_roundtrip`: a good run, a round trip, a snapshot taken during a run with other lengths (the history
continues on the copy), a refused run (empty list), another round trip — then a run with new lengths -/
example :
    let hs : List (Ev String (List Nat)) :=
      [.rrun (exCur [[1], [2]] [[3]] [[4], [5]]) [3, 1, 0, 2], .reload, .snap (exCur [[1]] [[3]] [[4], [5]]),
       .run (exCur [] [[3]] [[4], [5]]) [0, 1], .reload]
    (run (exSpec true) (evs (exSpec true) (init (exSpec true)) hs) (exCur [[1]] [[3], [8]] [[4]]) [1, 0]).2 = .ok :=
  (C16_roundtrip (exSpec true) (exValid true) _
    (by
      intro cur order hh g
      simp only [List.mem_cons, List.mem_nil_iff, or_false, reduceCtorEq, false_or, or_false, Ev.run.injEq,
        Ev.rrun.injEq] at hh
      rcases hh with ⟨rfl, rfl⟩ | ⟨rfl, rfl⟩
      · exact absurd g (fun g => by
          obtain ⟨vs, h1, h2⟩ := g.lists "a" (by decide)
          simp [exCur, valOf] at h1; exact h2 h1)
      · intro n hn; have : n < 4 := hn; simp; omega)
    _ [1, 0] (exGood true _ _ _ (by simp) (by simp) (by simp))
    (by intro n hn; have : n < 2 := hn; simp; omega)).1
/-- `C16_body_failure` / `C16_history_failures`: body 2 of 4 fails in the first run (table form: nothing comes
out), then the same inputs again with every body delivering -/
example : (run { exSpec true with clearOnFail := true } (init { exSpec true with clearOnFail := true })
    (exCur [[1], [2]] [[3]] [[4], [5]]) [0, 1, 3]).1.outs = .df none ∧
    (run { exSpec true with clearOnFail := true } (init { exSpec true with clearOnFail := true })
    (exCur [[1], [2]] [[3]] [[4], [5]]) [0, 1, 3]).2 = .failedChild := by decide
example : (run { exSpec true with clearOnFail := true }
    (evs { exSpec true with clearOnFail := true } (init { exSpec true with clearOnFail := true })
      [.run (exCur [[1], [2]] [[3]] [[4], [5]]) [0, 1, 3]])
    (exCur [[1], [2]] [[3]] [[4], [5]]) [2, 0, 1, 3]).2 = .ok :=
  (C16_history_failures { exSpec true with clearOnFail := true }
    ⟨⟨by decide, by decide, by decide⟩, by unfold ColsDistinct; decide, fun _ _ _ _ h => Prod.mk.inj h⟩ rfl (by decide) _ _ [2, 0, 1, 3]
    ⟨rfl, by intro kv h; simp [exCur] at h; rcases h with rfl | rfl | rfl | rfl <;> simp,
     by
      intro k hk
      simp [exSpec] at hk
      rcases hk with rfl | rfl | rfl
      · exact ⟨_, rfl, by simp⟩
      · exact ⟨_, rfl, by simp⟩
      · exact ⟨_, rfl, by simp⟩⟩
    (by intro n hn; have : n < 4 := hn; simp; omega)).1
/-- `C16_nested`: the inner loop is the example layout; a value `[1, 2]` arriving at the inner node is seen as the
list of values `[[1], [2]]`; the inner outputs are embedded as their number of rows -/
def exUnlist (v : List Nat) : InVal (List Nat) := .many (v.map fun x => [x])
def exEmbed : Outs String (List Nat) → List Nat
  | .df (some t) => [t.length]
  | _ => [0]
example : nestedBody (exSpec true) exUnlist exEmbed "o" [[1, 2], [3], [4, 5], [7]] = [4] :=
  (C16_nested (exSpec true) (exValid true) exUnlist exEmbed "o" [[1, 2], [3], [4, 5], [7]]
    { keys := rfl
      data := by intro kv h; simp [exSpec, exUnlist] at h; rcases h with rfl | rfl | rfl | rfl <;> simp
      lists := by
        intro k hk
        simp [exSpec] at hk
        rcases hk with rfl | rfl | rfl
        · exact ⟨[[1], [2]], rfl, by simp⟩
        · exact ⟨[[3]], rfl, by simp⟩
        · exact ⟨[[4], [5]], rfl, by simp⟩ }).trans (by rfl)
/-- `C16_after_edit`: run, hand edit leaving a wrong table behind, the same inputs again -/
example : (run (exSpec true) (tamper (evs (exSpec true) (init (exSpec true))
      [.run (exCur [[1]] [[3]] [[4]]) [0]]) (.df (some [[("a", [9])]]))) (exCur [[1]] [[3]] [[4]]) [0]).1.outs
    = refOuts (exSpec true) (exCur [[1]] [[3]] [[4]]) :=
  (C16_after_edit (exSpec true) (exValid true) _
    (by
      intro cur order hh _
      simp only [List.mem_cons, List.mem_nil_iff, or_false, reduceCtorEq, Ev.run.injEq] at hh
      obtain ⟨rfl, rfl⟩ := hh
      intro n hn; have : n < 1 := hn; simp; omega)
    _ _ [0] (exGood true _ _ _ (by simp) (by simp) (by simp))
    (by intro n hn; have : n < 1 := hn; simp; omega)).2.2
/-- `C16_midrun_copy`: a snapshot exists exactly when a run is in flight -/
example : (midRun (exSpec true) (init (exSpec true)) (exCur [[1], [2]] [[3]] [[4], [5]])).isSome = true := by decide
example : (midRun (exSpec true) (run (exSpec true) (init (exSpec true)) (exCur [[1]] [[3]] [[4]]) [0]).1
    (exCur [[1]] [[3]] [[4]])).isSome = false := by decide

/-- `C16_maps_in_range` / `C16_maps_of_spec`: the helper succeeds on a duplicated key and on a plain layout -/
example : indexMapsOf (fun k => if k = "a" then DLen.len 2 else if k = "c" then .len 3 else .missing)
    (some ["a", "a"]) (some ["c", "a"])
    = .ok [[("a", 0), ("c", 0)], [("a", 1), ("c", 1)], [("a", 0), ("c", 0)], [("a", 1), ("c", 1)],
           [("a", 0), ("c", 0)], [("a", 1), ("c", 1)], [("a", 0), ("c", 0)], [("a", 1), ("c", 1)]] := by
  rfl
example : Guard (["a", "b"].map fun k => (k, if k = "a" then 2 else 3)) (["c"].map fun k => (k, 2)) :=
  ⟨by decide, by decide, by decide⟩
/-- `C16_maps_refusals`: an empty iterated list next to an empty zipped one -/
example : indexMaps [("a", 0), ("b", 2)] [("c", 0)] = .error .allZero :=
  (C16_maps_refusals (fun _ => DLen.missing) [("a", 0), ("b", 2)] [("c", 0)] (Or.inr (by decide)) (Or.inr (by decide))).1
/-- `C16_row_count`: 2·3 iterated combinations × min(2,5) zipped steps -/
example : (combos exSpec0 [("a", .many [[1], [2]]), ("b", .many [[1], [2], [3]]), ("c", .many [[1], [2]]),
    ("d", .many [[1], [2], [3], [4], [5]]), ("e", .one [0])]).length = 12 := by decide
/-- `C16_mk`: the example class can be created; the colliding one only under the pinned check -/
example : mk (exSpec true) = .ok (init (exSpec true)) := by rfl
example : mk exCollide = .ok (init exCollide) ∧ mk { exCollide with checkCols := true } = .error .columns := ⟨by rfl, by rfl⟩
example : mk { exSpec true with mapKeys := ["zz"] } = .error .nonexistent := by rfl
example : mk { exSpec true with outputs := ["a"], mapKeys := [] } = .error .unmapped := by rfl

/-- the hypotheses of `C16Statement` are satisfiable for the colliding class (pinned check) -/
theorem exCollideLayout : Layout exCollide := ⟨by decide, by decide, by decide⟩

theorem exCollideGood : Good exCollide (exCur [[1], [2]] [[3]] [[4]]) where
  keys := rfl
  data := by intro kv h; simp [exCur] at h; rcases h with rfl | rfl | rfl | rfl <;> simp
  lists := by
    intro k hk
    simp [exCollide, exSpec] at hk
    subst hk
    exact ⟨[[1], [2]], rfl, by simp⟩

/-- what the pinned code returns for the colliding map: ONE column `a`, holding the body's result —
the iterated values are gone -/
example : (run exCollide (init exCollide) (exCur [[1], [2]] [[3]] [[4]]) [0, 1]).1.outs
    = .df (some [[("a", [99, 1, 3, 4, 7])], [("a", [99, 2, 3, 4, 7])]]) := by decide
/-- the same map in the lists form dies while the collectors are created -/
example : (run { exCollide with asDf := false } (init { exCollide with asDf := false })
    (exCur [[1], [2]] [[3]] [[4]]) [0, 1]).2 = .labelClash := by decide

/-- the labels hypothesis is NEEDED: a label that forgets the index (all cells of one input share a node —
the extreme case of a colliding digest) makes every row of `a = [[1], [2]]` read `a[0]` -/
def exAlias : Spec String (List Nat) := { exSpec true with itemLabel := fun k _ => (k, 0) }

theorem C16_labels_witness :
    (run exAlias (init exAlias) (exCur [[1], [2]] [[3]] [[4]]) [0, 1]).2 = .ok ∧
    (run exAlias (init exAlias) (exCur [[1], [2]] [[3]] [[4]]) [0, 1]).1.outs
      = .df (some [[("a", [1]), ("b", [3]), ("c", [4]), ("O", [99, 1, 3, 4, 7])],
                   [("a", [1]), ("b", [3]), ("c", [4]), ("O", [99, 1, 3, 4, 7])]]) ∧
    (run exAlias (init exAlias) (exCur [[1], [2]] [[3]] [[4]]) [0, 1]).1.outs
      ≠ refOuts exAlias (exCur [[1], [2]] [[3]] [[4]]) ∧
    (run exAlias (init exAlias) (exCur [[1], [2]] [[3]] [[4]]) [0, 1]).1.children.length = 12 := by
  decide

/-- the unrestricted statement is FALSE for the pinned class-creation check: `{"o": "a"}` with `a`
iterated is accepted and the table returned has lost the input column -/
theorem C16_pinned_witness : ¬ C16Statement exCollide := by
  intro h
  have := (h exCollideLayout (fun _ _ _ _ h => Prod.mk.inj h) (init exCollide) (by rfl) [] (by intro h hh; cases hh)
    (exCur [[1], [2]] [[3]] [[4]]) [0, 1] exCollideGood
    (by intro n hn; have : n < 2 := hn; simp; omega)).2
  revert this
  decide

end PwVerif.C16

#print axioms PwVerif.C16.C16_maps_spec
#print axioms PwVerif.C16.C16_maps_length
#print axioms PwVerif.C16.C16_maps_combinations
#print axioms PwVerif.C16.C16_maps_order
#print axioms PwVerif.C16.C16_maps_row
#print axioms PwVerif.C16.C16_maps_in_range
#print axioms PwVerif.C16.C16_maps_of_spec
#print axioms PwVerif.C16.C16_maps_refusals
#print axioms PwVerif.C16.C16_maps_zero_fallthrough
#print axioms PwVerif.C16.C16_table
#print axioms PwVerif.C16.C16_history
#print axioms PwVerif.C16.C16_rebuild
#print axioms PwVerif.C16.C16_rerun
#print axioms PwVerif.C16.C16_child_count
#print axioms PwVerif.C16.C16_row_count
#print axioms PwVerif.C16.C16_mk
#print axioms PwVerif.C16.C16_statement_repaired
#print axioms PwVerif.C16.C16_statement_partial
#print axioms PwVerif.C16.C16_pinned_witness
#print axioms PwVerif.C16.C16_graph_wf
#print axioms PwVerif.C16.C16_schedule_independent
#print axioms PwVerif.C16.C16_schedule_pair
#print axioms PwVerif.C16.C16_roundtrip
#print axioms PwVerif.C16.C16_roundtrip_unchanged
#print axioms PwVerif.C16.C16_midrun_copy
#print axioms PwVerif.C16.C16_by_value
#print axioms PwVerif.C16.C16_schedule_independent_lists
#print axioms PwVerif.C16.C16_body_failure
#print axioms PwVerif.C16.C16_history_failures
#print axioms PwVerif.C16.C16_nested
#print axioms PwVerif.C16.C16_nested_table
#print axioms PwVerif.C16.C16_after_edit
#print axioms PwVerif.C16.C16_rows_hold_own_cells
#print axioms PwVerif.C16.C16_labels_witness
