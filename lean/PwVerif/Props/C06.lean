import PwVerif.Proofs.Exec
import PwVerif.Proofs.ExecFin
/-!
# C06 — A failing node is contained, reported, and leaves consistent statuses

"If a node's function raises during a run, the error reaches the caller of the outermost run (unless
the caller asked for suppression), carrying the original exception; the failing node and every
composite above it end marked failed and not running, no node is left running, the failing node's
outputs keep their previous values, and it announces failure instead of completion so that no node
depending on its completion executes. This holds wherever in the graph the failure occurs and whether
the failing node ran locally or on an executor."

Quantification: every wired DAG, every fault set `d.fails`, every executor assignment, every schedule.
`Cfg.pinned` is the code as pinned, `Cfg.repaired` the code with (a) failures of executor-run children
reported to the composite and (b) a failing starting node no longer aborting the drain loop.
The composite "raises and is marked failed" iff `compositeFailed`.
-/
namespace PwVerif.C06
open PwVerif PwVerif.Exec

def Reach (cfg : Cfg) (d : Dag) (s : S) : Prop := ∃ acts, runActs cfg d (init d) acts = some s

theorem reach_inv {cfg d s} (wf : WF d) (h : Reach cfg d s) : Inv cfg d s := by
  obtain ⟨acts, ha⟩ := h
  exact runActs_inv cfg d wf acts _ _ (init_inv cfg d wf) ha

/-- the composite raises to its caller and ends marked failed -/
def compositeFailed (s : S) : Prop := s.errs ≠ [] ∨ s.phase = .aborted

/-- no node depending on a failed (or unfinished) node's completion ever executes -/
theorem C06_no_downstream {cfg d s} (wf : WF d) (h : Reach cfg d s) (i j : Nat) (hj : j ∈ d.deps i)
    (hf : s.st j ≠ .done) : s.calls i = 0 ∧ s.st i = .idle := by
  have hinv := reach_inv wf h
  have hi : s.st i = .idle := by
    apply Classical.byContradiction
    intro hn
    exact hf (hinv.core.order i j hn hj)
  have := hinv.core.calls1 i
  simp [hi] at this
  exact ⟨this, hi⟩

/-- a failed node's output keeps its previous value: the value it held when the run started
(`d.out0 i`: `NOT_DATA` in a fresh graph, whatever an earlier run left otherwise) -/
theorem C06_outputs_kept {cfg d s} (wf : WF d) (h : Reach cfg d s) (i : Nat) (hf : s.st i = .failed) :
    s.out i = d.out0 i :=
  (reach_inv wf h).core.valNot i (by simp [hf])

/-- a node whose function raises is, once its job is over, marked failed (never "done"), exactly the
nodes marked failed are nodes whose function raised, and each was invoked once -/
theorem C06_failed_marked {cfg d s} (wf : WF d) (h : Reach cfg d s) (i : Nat) :
    (d.fails i = true → s.st i ≠ .done) ∧ (s.st i = .failed → d.fails i = true ∧ s.calls i = 1) := by
  have hinv := reach_inv wf h
  refine ⟨?_, ?_⟩
  · intro hf hd
    have := hinv.core.doneOk i hd
    simp [hf] at this
  · intro hf
    have := hinv.core.calls1 i
    simp [hf] at this
    exact ⟨hinv.core.failedFails i hf, this⟩

/-- when the run has returned normally-or-with-collected-errors nobody is running -/
theorem C06_nobody_running_exited {cfg d s} (wf : WF d) (h : Reach cfg d s) (hex : s.phase = .exited) :
    s.running = [] ∧ ∀ i, s.st i ≠ .out := by
  have hinv := reach_inv wf h
  obtain ⟨_, hr, _⟩ := hinv.phase.exited hex
  refine ⟨hr, ?_⟩
  intro i hi
  have := (hinv.core.running i).mpr hi
  rw [hr] at this; cases this

/-- REPAIRED code: the run never aborts with children still out, and at the end the composite is
failed exactly when some child failed — wherever it ran -/
theorem C06_reported_repaired {d s} (wf : WF d) (h : Reach Cfg.repaired d s) :
    s.phase ≠ .aborted ∧ ((∃ i, s.st i = .failed) ↔ s.errs ≠ []) := by
  have hinv := reach_inv wf h
  have hna : s.phase ≠ .aborted := by
    intro hab
    have := hinv.err.abortedCfg hab
    simp [Cfg.repaired] at this
  refine ⟨hna, ?_, ?_⟩
  · rintro ⟨i, hi⟩
    rcases hinv.err.failedSeen i hi with h1 | h1 | h1
    · intro he; rw [he] at h1; cases h1
    · exact absurd h1 hna
    · simp [Cfg.repaired] at h1
  · intro he
    cases hl : s.errs with
    | nil => exact absurd hl he
    | cons x xs => exact ⟨x, hinv.core.errsFailed x (by simp [hl])⟩

/-- the full statement of the reporting clause for an arbitrary configuration -/
def ReportedStatement (cfg : Cfg) : Prop :=
  ∀ d s, WF d → Reach cfg d s → s.phase = .exited → ((∃ i, s.st i = .failed) → compositeFailed s)

/-- PINNED code, partial: holds when no failing node is on an executor -/
theorem C06_reported_partial {d s} (wf : WF d) (h : Reach Cfg.pinned d s)
    (hloc : ∀ i, d.fails i = true → d.onExec i = false) :
    (∃ i, s.st i = .failed) → compositeFailed s := by
  have hinv := reach_inv wf h
  rintro ⟨i, hi⟩
  rcases hinv.err.failedSeen i hi with h1 | h1 | h1
  · left; intro he; rw [he] at h1; cases h1
  · right; exact h1
  · have := hloc i (hinv.core.failedFails i hi)
    simp [this] at h1

/-! ### machine-checked counterexamples for the pinned code -/

/-- `a → b`, `b` on an executor and raising: the loop exits with NO error collected -/
def wExec : FinDag :=
  { n := 2, slots := [[], [[0]]], down := [[1], []], starters := [0], onExec := [false, true],
    fails := [false, true], rank := [0, 1] }

def actsExec : List Act := [.start, .deliver, .complete 1, .exit]
theorem someExec : (runActs Cfg.pinned wExec.toDag (init wExec.toDag) actsExec).isSome = true := by decide
def sExec : S := (runActs Cfg.pinned wExec.toDag (init wExec.toDag) actsExec).get someExec
theorem reachExec : Reach Cfg.pinned wExec.toDag sExec := ⟨actsExec, (Option.some_get someExec).symm⟩

theorem C06_exec_failure_unreported_witness : ¬ ReportedStatement Cfg.pinned := by
  intro hS
  have hwf := (FinDag.check_sound wExec (by decide)).1
  have hcf := hS _ _ hwf reachExec (by decide) ⟨1, by decide⟩
  have : ¬ compositeFailed sExec := by
    simp only [compositeFailed]
    decide
  exact this hcf

/-- starters `[a (executor), b (raises)]`: the run aborts while `a` is still out -/
def wStart : FinDag :=
  { n := 2, slots := [[], []], down := [[], []], starters := [0, 1], onExec := [true, false],
    fails := [false, true], rank := [0, 0] }

def actsStart : List Act := [.start, .start]
theorem someStart : (runActs Cfg.pinned wStart.toDag (init wStart.toDag) actsStart).isSome = true := by decide
def sStart : S := (runActs Cfg.pinned wStart.toDag (init wStart.toDag) actsStart).get someStart

theorem C06_abort_leaves_running_witness :
    ∃ s, Reach Cfg.pinned wStart.toDag s ∧ s.phase = .aborted ∧ s.running = [0] ∧ s.st 0 = .out :=
  ⟨sStart, ⟨actsStart, (Option.some_get someStart).symm⟩, by decide, by decide, by decide⟩

example : WF wStart.toDag := (FinDag.check_sound wStart (by decide)).1

/-- the same two scenarios on the repaired code are reported / drained -/
example : ((runActs Cfg.repaired wExec.toDag (init wExec.toDag) [.start, .deliver, .complete 1, .exit]).map
    (fun s => (s.phase, s.errs))) = some (.exited, [1]) := by decide
example : ((runActs Cfg.repaired wStart.toDag (init wStart.toDag) [.start, .start, .complete 0, .exit]).map
    (fun s => (s.phase, s.errs, s.running))) = some (.exited, [1], []) := by decide

end PwVerif.C06

#print axioms PwVerif.C06.C06_no_downstream
#print axioms PwVerif.C06.C06_outputs_kept
#print axioms PwVerif.C06.C06_failed_marked
#print axioms PwVerif.C06.C06_nobody_running_exited
#print axioms PwVerif.C06.C06_reported_repaired
#print axioms PwVerif.C06.C06_reported_partial
#print axioms PwVerif.C06.C06_exec_failure_unreported_witness
#print axioms PwVerif.C06.C06_abort_leaves_running_witness
