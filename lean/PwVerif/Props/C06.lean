import PwVerif.Proofs.Exec
import PwVerif.Proofs.ExecFin
import PwVerif.Proofs.ExecNest
import PwVerif.Proofs.ExecFine
import PwVerif.Proofs.FlowFail
import PwVerif.Proofs.FlowExec
/-!
# C06 — A failing node is contained, reported, and leaves consistent statuses

"If a node's function raises during a run, the error reaches the caller of the outermost run (unless
the caller asked for suppression), carrying the original exception; the failing node and every
composite above it end marked failed and not running, no node is left running, the failing node's
outputs keep their previous values, and it announces failure instead of completion so that no node
depending on its completion executes. This holds wherever in the graph the failure occurs and whether
the failing node ran locally or on an executor."

Quantification: every wired DAG, every fault set `d.fails`, every executor assignment, every schedule.
`Cfg.pinned` is the code as pinned, `Cfg.repaired` the code with (a) failures of executor-run children
reported to the composite and (b) a failing starting node no longer aborting the drain loop.
The composite "raises and is marked failed" iff `compositeFailed`.
-/
namespace PwVerif.C06
open PwVerif PwVerif.Exec

def Reach (cfg : Cfg) (d : Dag) (s : S) : Prop := ∃ acts, runActs cfg d (init d) acts = some s

theorem reach_inv {cfg d s} (wf : WF d) (h : Reach cfg d s) : Inv cfg d s := by
  obtain ⟨acts, ha⟩ := h
  exact runActs_inv cfg d wf acts _ _ (init_inv cfg d wf) ha

/-- the composite raises to its caller and ends marked failed -/
def compositeFailed (s : S) : Prop := s.errs ≠ [] ∨ s.phase = .aborted

/-- no node depending on a failed (or unfinished) node's completion ever executes -/
theorem C06_no_downstream {cfg d s} (wf : WF d) (h : Reach cfg d s) (i j : Nat) (hj : j ∈ d.deps i)
    (hf : s.st j ≠ .done) : s.calls i = 0 ∧ s.st i = .idle := by
  have hinv := reach_inv wf h
  have hi : s.st i = .idle := by
    apply Classical.byContradiction
    intro hn
    exact hf (hinv.core.order i j hn hj)
  have := hinv.core.calls1 i
  simp [hi] at this
  exact ⟨this, hi⟩

/-- a failed node's output keeps its previous value: the value it held when the run started
(`d.out0 i`: `NOT_DATA` in a fresh graph, whatever an earlier run left otherwise) -/
theorem C06_outputs_kept {cfg d s} (wf : WF d) (h : Reach cfg d s) (i : Nat) (hf : s.st i = .failed) :
    s.out i = d.out0 i :=
  (reach_inv wf h).core.valNot i (by simp [hf])

/-- a node whose function raises is, once its job is over, marked failed (never "done"), exactly the
nodes marked failed are nodes whose function raised, and each was invoked once -/
theorem C06_failed_marked {cfg d s} (wf : WF d) (h : Reach cfg d s) (i : Nat) :
    (d.fails i = true → s.st i ≠ .done) ∧ (s.st i = .failed → d.fails i = true ∧ s.calls i = 1) := by
  have hinv := reach_inv wf h
  refine ⟨?_, ?_⟩
  · intro hf hd
    have := hinv.core.doneOk i hd
    simp [hf] at this
  · intro hf
    have := hinv.core.calls1 i
    simp [hf] at this
    exact ⟨hinv.core.failedFails i hf, this⟩

/-- when the run has returned normally-or-with-collected-errors nobody is running -/
theorem C06_nobody_running_exited {cfg d s} (wf : WF d) (h : Reach cfg d s) (hex : s.phase = .exited) :
    s.running = [] ∧ ∀ i, s.st i ≠ .out := by
  have hinv := reach_inv wf h
  obtain ⟨_, hr, _⟩ := hinv.phase.exited hex
  refine ⟨hr, ?_⟩
  intro i hi
  have := (hinv.core.running i).mpr hi
  rw [hr] at this; cases this

/-- REPAIRED code: the run never aborts with children still out, and at the end the composite is
failed exactly when some child failed — wherever it ran -/
theorem C06_reported_repaired {d s} (wf : WF d) (h : Reach Cfg.repaired d s) :
    s.phase ≠ .aborted ∧ ((∃ i, s.st i = .failed) ↔ s.errs ≠ []) := by
  have hinv := reach_inv wf h
  have hna : s.phase ≠ .aborted := by
    intro hab
    have := hinv.err.abortedCfg hab
    simp [Cfg.repaired] at this
  refine ⟨hna, ?_, ?_⟩
  · rintro ⟨i, hi⟩
    rcases hinv.err.failedSeen i hi with h1 | h1 | h1
    · intro he; rw [he] at h1; cases h1
    · exact absurd h1 hna
    · simp [Cfg.repaired] at h1
  · intro he
    cases hl : s.errs with
    | nil => exact absurd hl he
    | cons x xs => exact ⟨x, hinv.core.errsFailed x (by simp [hl])⟩

/-- the full statement of the reporting clause for an arbitrary configuration -/
def ReportedStatement (cfg : Cfg) : Prop :=
  ∀ d s, WF d → Reach cfg d s → s.phase = .exited → ((∃ i, s.st i = .failed) → compositeFailed s)

/-- PINNED code, partial: holds when no failing node is on an executor -/
theorem C06_reported_partial {d s} (wf : WF d) (h : Reach Cfg.pinned d s)
    (hloc : ∀ i, d.fails i = true → d.onExec i = false) :
    (∃ i, s.st i = .failed) → compositeFailed s := by
  have hinv := reach_inv wf h
  rintro ⟨i, hi⟩
  rcases hinv.err.failedSeen i hi with h1 | h1 | h1
  · left; intro he; rw [he] at h1; cases h1
  · right; exact h1
  · have := hloc i (hinv.core.failedFails i hi)
    simp [this] at h1

/-! ### machine-checked counterexamples for the pinned code -/

/-- `a → b`, `b` on an executor and raising: the loop exits with NO error collected -/
def wExec : FinDag :=
  { n := 2, slots := [[], [[0]]], down := [[1], []], starters := [0], onExec := [false, true],
    fails := [false, true], rank := [0, 1] }

def actsExec : List Act := [.start, .deliver, .complete 1, .exit]
theorem someExec : (runActs Cfg.pinned wExec.toDag (init wExec.toDag) actsExec).isSome = true := by decide
def sExec : S := (runActs Cfg.pinned wExec.toDag (init wExec.toDag) actsExec).get someExec
theorem reachExec : Reach Cfg.pinned wExec.toDag sExec := ⟨actsExec, (Option.some_get someExec).symm⟩

theorem C06_exec_failure_unreported_witness : ¬ ReportedStatement Cfg.pinned := by
  intro hS
  have hwf := (FinDag.check_sound wExec (by decide)).1
  have hcf := hS _ _ hwf reachExec (by decide) ⟨1, by decide⟩
  have : ¬ compositeFailed sExec := by
    simp only [compositeFailed]
    decide
  exact this hcf

/-- starters `[a (executor), b (raises)]`: the run aborts while `a` is still out -/
def wStart : FinDag :=
  { n := 2, slots := [[], []], down := [[], []], starters := [0, 1], onExec := [true, false],
    fails := [false, true], rank := [0, 0] }

def actsStart : List Act := [.start, .start]
theorem someStart : (runActs Cfg.pinned wStart.toDag (init wStart.toDag) actsStart).isSome = true := by decide
def sStart : S := (runActs Cfg.pinned wStart.toDag (init wStart.toDag) actsStart).get someStart

theorem C06_abort_leaves_running_witness :
    ∃ s, Reach Cfg.pinned wStart.toDag s ∧ s.phase = .aborted ∧ s.running = [0] ∧ s.st 0 = .out :=
  ⟨sStart, ⟨actsStart, (Option.some_get someStart).symm⟩, by decide, by decide, by decide⟩

example : WF wStart.toDag := (FinDag.check_sound wStart (by decide)).1

/-- the same two scenarios on the repaired code are reported / drained -/
example : ((runActs Cfg.repaired wExec.toDag (init wExec.toDag) [.start, .deliver, .complete 1, .exit]).map
    (fun s => (s.phase, s.errs))) = some (.exited, [1]) := by decide
example : ((runActs Cfg.repaired wStart.toDag (init wStart.toDag) [.start, .start, .complete 0, .exit]).map
    (fun s => (s.phase, s.errs, s.running))) = some (.exited, [1], []) := by decide

/-! ## Nesting and exception classes

The statement is about failures "wherever in the graph", "including nodes inside nested macros", and
about "the original exception" whatever its class. `ExecNest.Tree E` is a composite whose children may
be composites to any depth (`E` = exception classes; the machine cannot look at them). `NReach cfg t₀ t`:
`t` is reachable from the fresh, properly wired tree `t₀` by any interleaving of the actions of the
composites of all levels (and therefore by every interleaving a real run can produce, whether a macro
runs locally — its parent waits — or on an executor). A composite at child-index path `p` is
`t.sub p = .comp d exc s kids`; `kids i = .leaf` says child `i` is a function node. -/

open PwVerif.ExecNest

variable {E : Type}

def NReach (cfg : Cfg) (t₀ t : Tree E) : Prop :=
  NWF t₀ ∧ Fresh t₀ ∧ ∃ acts, nrun cfg t₀ acts = some t

theorem nreach_inv {cfg : Cfg} {t₀ t : Tree E} (h : NReach cfg t₀ t) : NInv cfg t ∧ NWF t := by
  obtain ⟨wf, hf, acts, ha⟩ := h
  exact nrun_inv cfg acts t₀ t wf (fresh_ninv cfg t₀ wf hf) ha

/-- CONTAINED, every depth: in whatever composite of the tree, a child with an upstream that has not
completed successfully (failed function node, failed macro, or anything not yet done) has not been
invoked — and if that child is a macro, nothing inside it, at any depth, has been invoked either -/
theorem C06_nest_no_downstream {cfg : Cfg} {t₀ t : Tree E} (h : NReach cfg t₀ t)
    (p : List Nat) (d : Dag) (exc : Nat → E) (s : S) (kids : Nat → Tree E) (hs : t.sub p = .comp d exc s kids)
    (i j : Nat) (hj : j ∈ d.deps i) (hf : s.st j ≠ .done) :
    s.calls i = 0 ∧ s.st i = .idle ∧
    ∀ q d' exc' s' kids', (kids i).sub q = .comp d' exc' s' kids' → ∀ x, s'.calls x = 0 ∧ s'.st x = .idle := by
  have hinv := ninv_sub cfg t p (nreach_inv h).1
  rw [hs] at hinv
  obtain ⟨hI, _, hL⟩ := hinv
  have hi : s.st i = .idle := by
    apply Classical.byContradiction
    intro hn
    exact hf (hI.core.order i j hn hj)
  have hc := hI.core.calls1 i
  simp [hi] at hc
  refine ⟨hc, hi, ?_⟩
  intro q d' exc' s' kids' hq x
  have := fresh_sub _ q ((hL i).1 hi)
  rw [hq] at this
  obtain ⟨rfl, _⟩ := this
  simp [init]

/-- REPORTED, every depth: when the outermost loop has ended, its run raises (and the composite is marked
failed) iff some function node — at whatever depth — ended failed -/
theorem C06_nest_reported {t₀ : Tree E} {d : Dag} {exc : Nat → E} {s : S} {kids : Nat → Tree E}
    (h : NReach Cfg.repaired t₀ (.comp d exc s kids)) (ho : phaseOver s.phase = true) :
    compFailed s = true ↔ ∃ p i, FailedLeafAt (.comp d exc s kids) p i :=
  (over_failed_iff Cfg.repaired rfl rfl _ d exc s kids rfl (nreach_inv h).1 ho).1

/-- NOBODY LEFT RUNNING, every depth: when the error (or the result) reaches the caller of the outermost
run, in every composite of the tree no child is out — whatever sibling was in flight when the failure
happened — and every composite is either through with its loop or was never started -/
theorem C06_nest_nobody_running {t₀ t : Tree E} (h : NReach Cfg.repaired t₀ t) (ho : t.over = true)
    (p : List Nat) (d : Dag) (exc : Nat → E) (s : S) (kids : Nat → Tree E) (hs : t.sub p = .comp d exc s kids) :
    s.running = [] ∧ (∀ i, s.st i ≠ .out) ∧ (phaseOver s.phase = true ∨ s = init d) := by
  have := settled_sub t p (over_settled Cfg.repaired rfl t (nreach_inv h).1 ho)
  rw [hs] at this
  exact ⟨this.1, this.2.1, this.2.2.1⟩

/-- MARKED, every depth: when the outermost loop has ended, in every composite of the tree a macro child
is marked failed iff some function node below it failed (so: every composite on the path to a failing
function node, and no other composite); a function child is marked failed only if its function raises,
it was then invoked exactly once, and a child whose function raises is never marked done -/
theorem C06_nest_failed_exactly {t₀ t : Tree E} (h : NReach Cfg.repaired t₀ t) (ho : t.over = true)
    (p : List Nat) (d : Dag) (exc : Nat → E) (s : S) (kids : Nat → Tree E) (hs : t.sub p = .comp d exc s kids) :
    (∀ k, kids k ≠ .leaf → (s.st k = .failed ↔ ∃ q i, FailedLeafAt (kids k) q i)) ∧
    (∀ i, kids i = .leaf → s.st i = .failed → d.fails i = true ∧ s.calls i = 1) ∧
    (∀ i, kids i = .leaf → d.fails i = true → s.st i ≠ .done) := by
  have hinv := ninv_sub Cfg.repaired t p (nreach_inv h).1
  have hset := settled_sub t p (over_settled Cfg.repaired rfl t (nreach_inv h).1 ho)
  rw [hs] at hinv hset
  have hI := hinv.1
  refine ⟨?_, ?_, ?_⟩
  · rcases hset.2.2.1 with hov | hinit
    · exact (over_failed_iff Cfg.repaired rfl rfl _ d exc s kids rfl hinv hov).2
    · intro k _
      have hidle : s.st k = .idle := by rw [hinit]; rfl
      constructor
      · intro hf; rw [hidle] at hf; cases hf
      · rintro ⟨q, i, hq⟩
        exact absurd hq (fresh_no_failed _ ((hinv.2.2 k).1 hidle) q i)
  · intro i hl hf
    have h1 := hI.core.failedFails i hf
    have h2 := hI.core.calls1 i
    simp [hf] at h2
    simp only [effDag, hl] at h1
    exact ⟨h1, h2⟩
  · intro i hl hf hd
    have := hI.core.doneOk i hd
    simp only [effDag, hl] at this
    rw [hf] at this; cases this

/-- OUTPUTS KEPT, every depth: a failed child's output holds the value it had when the run started -/
theorem C06_nest_outputs_kept {cfg : Cfg} {t₀ t : Tree E} (h : NReach cfg t₀ t)
    (p : List Nat) (d : Dag) (exc : Nat → E) (s : S) (kids : Nat → Tree E) (hs : t.sub p = .comp d exc s kids)
    (i : Nat) (hf : s.st i = .failed) : s.out i = d.out0 i := by
  have hinv := ninv_sub cfg t p (nreach_inv h).1
  rw [hs] at hinv
  exact hinv.1.core.valNot i (by simp [hf])

/-- ORIGINAL EXCEPTION, every depth, every exception class: if exactly one function node failed — child `i`
of the composite at path `p` — then what the caller of the outermost run gets is a chain of
`FailedChildError`s, exactly one per composite on the path, and at its bottom the very exception `exc i`
that function raised; `E` is arbitrary -/
theorem C06_nest_cause {t₀ t : Tree E} (h : NReach Cfg.repaired t₀ t) (ho : t.over = true)
    (p : List Nat) (i : Nat) (hfl : FailedLeafAt t p i)
    (huniq : ∀ p' i', FailedLeafAt t p' i' → p' = p ∧ i' = i) :
    ∃ e d exc s kids, raised t = some e ∧ t.sub p = .comp d exc s kids ∧ e.root = some (exc i) ∧
      e.depth = p.length + 1 :=
  raised_unique Cfg.repaired rfl rfl t p i (nreach_inv h).1 ho hfl huniq

/-- CLASS INDEPENDENCE: renaming the exception classes by any `f` commutes with running any schedule and
with what the caller sees — the control flow of the executor does not depend on what is raised -/
theorem C06_nest_class_independent {E' : Type} (cfg : Cfg) (f : E → E') (t : Tree E)
    (acts : List (List Nat × Act)) :
    nrun cfg (t.mapExc f) acts = (nrun cfg t acts).map (Tree.mapExc f) ∧
    raised (t.mapExc f) = (raised t).map (Err.map f) :=
  ⟨nrun_mapExc cfg f acts t, raised_mapExc f t⟩

/-- PROGRESS: until the outermost loop has ended some action of some level is enabled (in particular a
composite child whose completion the parent waits for can itself move) -/
theorem C06_nest_progress {cfg : Cfg} {t₀ t : Tree E} (h : NReach cfg t₀ t) (hno : t.over = false) :
    ∃ p a t', nstep cfg t p a = some t' :=
  nprogress cfg t (nreach_inv h).1 hno

/-- the flat machine of the theorems above is the depth-0 case of the nested one -/
theorem C06_nest_flat (cfg : Cfg) (d : Dag) (exc : Nat → E) (s : S) (a : Act) :
    nstep cfg (.comp d exc s (fun _ => .leaf)) [] a =
      (step cfg d s a).map (fun s' => .comp d exc s' (fun _ => .leaf)) :=
  nstep_flat cfg d exc s a

/-! ### a concrete three-level run (non-vacuity of the nested theorems)

outermost: `slow` (0, on an executor), `pre` (1) → macro `mid` (2) → `post` (3);
`mid`: `a` (0) → macro `inner` (1) → `z` (2);   `inner`: `x` (0) → `boom` (1, raises class 7) → `y` (2).
The macros are not starting nodes; `slow` is still out when the failure comes up and completes late. -/

def wInner : FinDag :=
  { n := 3, slots := [[], [[0]], [[1]]], down := [[1], [2], []], starters := [0],
    onExec := [false, false, false], fails := [false, true, false], rank := [0, 1, 2] }
def wMid : FinDag :=
  { n := 3, slots := [[], [[0]], [[1]]], down := [[1], [2], []], starters := [0],
    onExec := [false, false, false], fails := [false, false, false], rank := [0, 1, 2] }
def wTop : FinDag :=
  { n := 4, slots := [[], [], [[1]], [[2]]], down := [[], [2], [3], []], starters := [0, 1],
    onExec := [true, false, false, false], fails := [false, false, false, false], rank := [0, 0, 1, 2] }

def excTab : Nat → Nat := fun i => 7 + i

def tInner : Tree Nat := mkComp wInner.toDag excTab []
def tMid : Tree Nat := mkComp wMid.toDag excTab [(1, tInner)]
def tTop : Tree Nat := mkComp wTop.toDag excTab [(2, tMid)]

def actsNest : List (List Nat × Act) :=
  [([], .start), ([], .start), ([], .deliver),            -- slow submitted, pre done, mid started
   ([2], .start), ([2], .deliver),                         -- a done, inner started
   ([2, 1], .start), ([2, 1], .deliver), ([2, 1], .exit),  -- x done, boom raises, inner's loop ends
   ([2], .complete 1), ([2], .exit),                       -- inner finishes failed; mid's loop ends
   ([], .complete 2),                                      -- mid finishes failed — slow is still out
   ([], .complete 0), ([], .exit)]                         -- the outermost loop waits for slow, then ends

theorem someNest : (nrun Cfg.repaired tTop actsNest).isSome = true := by decide
def tEnd : Tree Nat := (nrun Cfg.repaired tTop actsNest).get someNest

theorem nwfTop : NWF tTop :=
  nwf_mkComp _ _ _ (FinDag.check_sound wTop (by decide)).1 (by
    intro x hx; simp at hx; subst hx
    exact nwf_mkComp _ _ _ (FinDag.check_sound wMid (by decide)).1 (by
      intro y hy; simp at hy; subst hy
      exact nwf_mkComp _ _ _ (FinDag.check_sound wInner (by decide)).1 (by intro z hz; cases hz)))

theorem freshTop : Fresh tTop :=
  fresh_mkComp _ _ _ (by
    intro x hx; simp at hx; subst hx
    exact fresh_mkComp _ _ _ (by
      intro y hy; simp at hy; subst hy
      exact fresh_mkComp _ _ _ (by intro z hz; cases hz)))

theorem reachNest : NReach Cfg.repaired tTop tEnd :=
  ⟨nwfTop, freshTop, actsNest, (Option.some_get someNest).symm⟩

example : tEnd.over = true := by decide
example : FailedLeafAt tEnd [2, 1] 1 := ⟨_, _, _, _, rfl, rfl, by decide⟩
/-- what the caller sees: three `FailedChildError`s (outermost, mid, inner) and at the bottom class 8 = `excTab 1` -/
example : (raised tEnd).map (fun e => (e.root, e.depth)) = some (some 8, 3) := by decide
/-- while `mid` has already failed, `slow` is still out and the outermost loop cannot end -/
example : ((nrun Cfg.repaired tTop (actsNest.take 11)).bind (fun t => nstep Cfg.repaired t [] .exit)).isNone = true := by
  decide
/-- `post`, `z`, `y` (downstream of the failure at the three levels) were never invoked -/
example : (match tEnd with | .comp _ _ s _ => s.calls 3 | .leaf => 1) = 0 := by decide
example : (match tEnd.sub [2] with | .comp _ _ s _ => (s.calls 2, s.st 1) | .leaf => (1, .idle)) = (0, .failed) := by
  decide
example : (match tEnd.sub [2, 1] with | .comp _ _ s _ => (s.calls 2, s.st 1, s.running) | .leaf => (1, .idle, [])) =
    (0, .failed, []) := by decide


/-! ### termination of the nested machine -/

/-- TERMINATES, every depth: along ANY nested schedule from a fresh tree the number of actions (of all levels together)
is at most `nbound` — a number that depends on the wiring and the shape of the tree only (`nl p` lists the children of
the composite at path `p`). With `C06_nest_progress` every maximal schedule therefore ends with the outermost loop over. -/
theorem C06_nest_terminates {cfg : Cfg} {t₀ t : Tree E} (wf : NWF t₀) (hf : Fresh t₀) (nl : List Nat → List Nat)
    (hc : Covered t₀ nl) (acts : List (List Nat × Act)) (hr : nrun cfg t₀ acts = some t) :
    acts.length ≤ nbound t₀ nl := by
  have := nrun_bounded cfg acts t₀ t nl wf (fresh_ninv cfg t₀ wf hf) (fresh_nmem t₀ hf) hc hr
  rw [fresh_npot t₀ hf nl] at this
  omega

def nlTop : List Nat → List Nat
  | [] => [0, 1, 2, 3]
  | [2] => [0, 1, 2]
  | [2, 1] => [0, 1, 2]
  | _ => []

theorem coveredTop : Covered tTop nlTop :=
  covered_mkComp wTop (by decide) _ _ _ rfl (by
    intro x hx; simp at hx; subst hx
    exact covered_mkComp wMid (by decide) _ _ _ rfl (by
      intro y hy; simp at hy; subst hy
      exact covered_mkComp wInner (by decide) _ _ _ rfl (by intro z hz; cases hz)))

/-- the three-level example: at most 29 actions, the schedule shown has 13 -/
example : nbound tTop nlTop = 29 ∧ actsNest.length = 13 := by decide

/-! ### pieces of the exception path outside the tree machine (each a finding on the pinned code) -/

/-- repaired book-keeping: however often the child is asked before (any outcomes) and however often it is refused
afterwards, once a run of it raised `e`, `e` is what is recorded — for every exception type `E` -/
theorem C06_collect_keeps_original {E : Type} (pre post : List (Ask E)) (e : E)
    (hpost : ∀ a ∈ post, a.isRefusal = true) :
    (pre ++ [Ask.ran e] ++ post).foldl collectRepaired none = some e := by
  rw [List.foldl_append, List.foldl_append]
  simp only [List.foldl_cons, List.foldl_nil, collectRepaired]
  induction post with
  | nil => rfl
  | cons a rest ih =>
    have ha := hpost a (by simp)
    cases a with
    | ran x => simp [Ask.isRefusal] at ha
    | refused r =>
      simp only [List.foldl_cons, collectRepaired]
      exact ih (fun b hb => hpost b (by simp [hb]))

/-- pinned book-keeping: asked again after its run raised `1`, the refusal `2` is what remains -/
theorem C06_collect_pinned_witness :
    [Ask.ran 1, Ask.refused 2].foldl collectPinned none = some 2 ∧
    [Ask.ran 1, Ask.refused 2].foldl collectRepaired none = some 1 := by decide

/-- repaired `If`: a failed run announces `failed` and nothing else, whatever an earlier run left in `truth` -/
theorem C06_if_failed_announces_failure_only (truth : Option Bool) : ifEmits true true truth = [.failed] := by
  cases truth <;> simp [ifEmits]

/-- pinned `If`: after an earlier run that found `True`, a failing run still fires the `true` branch -/
theorem C06_if_pinned_witness : Sig.branch true ∈ ifEmits false true (some true) := by decide

/-- repaired: the done-callback processes exactly what the local path processes -/
theorem C06_callback_handles_what_local_handles (k : Kind) : handledInCallback true k = handledLocally k := by
  cases k <;> rfl

/-- pinned: a `KeyboardInterrupt` is a failure of a local run but not of an executor run -/
theorem C06_callback_pinned_witness :
    handledLocally .keyboardInterrupt = true ∧ handledInCallback false .keyboardInterrupt = false := by decide

/-! ### kinds of raised objects × the two exception paths, at every depth

`propagate c k execs`: a function (or `If` condition …) raises an object of kind `k`; `execs` says for the raising node
and for every composite above it whether it was handed to an executor (innermost first). The result lists how every
node on that path ends and what the caller of the outermost run gets. What the statement demands of every kind it
covers: every node on the path `failed` (marked failed, not running, failure announced) and the object reaches the
caller, as itself or at the bottom of a chain of `FailedChildError`s. -/

def KindStatement (c : KCfg) : Prop :=
  ∀ (k : Kind) (execs : List Bool), execs ≠ [] →
    (∀ s ∈ (propagate c k execs).stats, s = .failed) ∧ (propagate c k execs).stats.length = execs.length ∧
    ((propagate c k execs).hand.caller = .raw k ∨ ∃ n, (propagate c k execs).hand.caller = .chain k n)

/-- both paths processing every `BaseException`: the full statement, for every kind, every depth, every placement -/
theorem C06_kinds_proposed : KindStatement KCfg.proposed := by
  intro k execs hne
  have hl : KCfg.proposed.local k = true := by cases k <;> rfl
  have hc : KCfg.proposed.callback k = true := by cases k <;> rfl
  obtain ⟨h1, h2, h3⟩ := propagate_handled _ k hl hc execs hne
  exact ⟨h1, h3, carries_caller k _ h2⟩

/-- the tree as it is (after f3b0474): the statement for `Exception`s and `KeyboardInterrupt`, every depth, every
placement of executors -/
theorem C06_kinds_head_partial (k : Kind) (hk : k ≠ .otherBase) (execs : List Bool) (hne : execs ≠ []) :
    (∀ s ∈ (propagate KCfg.head k execs).stats, s = .failed) ∧ (propagate KCfg.head k execs).stats.length = execs.length ∧
    ((propagate KCfg.head k execs).hand.caller = .raw k ∨ ∃ n, (propagate KCfg.head k execs).hand.caller = .chain k n) := by
  have hl : KCfg.head.local k = true := by cases k <;> first | rfl | exact absurd rfl hk
  have hc : KCfg.head.callback k = true := by cases k <;> first | rfl | exact absurd rfl hk
  obtain ⟨h1, h2, h3⟩ := propagate_handled _ k hl hc execs hne
  exact ⟨h1, h3, carries_caller k _ h2⟩

/-- … and not for the other `BaseException`s (`SystemExit`, `GeneratorExit`, …): raised locally, the node is left
marked running -/
theorem C06_kinds_head_witness : ¬ KindStatement KCfg.head := by
  intro h
  have := (h .otherBase [false] (by simp)).1 .leftRunning (by decide)
  cases this

/-- raised on an executor inside a macro: the node announces completion, everybody above carries on, the caller gets
nothing; one level up (a local node inside an executor-run macro) the node is left running and the macro completes -/
theorem C06_kinds_vanish_witness :
    propagate KCfg.head .otherBase [true, false, false] =
      { stats := [.falselyDone, .fine, .fine], aborted := [false, false], hand := .gone } ∧
    (propagate KCfg.head .otherBase [false, true, false]).stats = [.leftRunning, .falselyDone, .fine] ∧
    (propagate KCfg.head .otherBase [false, true, false]).hand.caller = .nothing := by decide

/-- before f3b0474 the same happened to a `KeyboardInterrupt` on an executor -/
example : (propagate KCfg.pinned .keyboardInterrupt [true, false]).hand.caller = .nothing := by decide
/-- an `Exception` three levels down, everything local: three `FailedChildError`s... two composites above the node -/
example : (propagate KCfg.head .exception [false, false, false]).hand.caller = .chain .exception 2 := by decide
/-- a `KeyboardInterrupt` in a local node of an executor-run macro: the macro's loop is left at once, its callback
processes the interrupt, the workflow collects it and drains -/
example : propagate KCfg.head .keyboardInterrupt [false, true, false] =
    { stats := [.failed, .failed, .failed], aborted := [true, false], hand := .collect .keyboardInterrupt 1 } := by decide

/-! ### re-run histories at every nesting level

The outermost composite is run again and again; between two runs the user clears the failed flags and may change,
anywhere in the tree, what fails, what runs on an executor and what is raised (`Edit`). A run may stop anywhere (it
failed, or not). `nrestart` restarts EVERY level the way `Exec.restart` does (outputs as the last run left them), each
with its own switch `reset`: do the all-of triggers of this composite's children start empty? On the tree as it is
they do at every level — a workflow re-wires on every run, and every composite's fresh start resets them (bc0a763). -/

/-- RUN NUMBER n OF ANY HISTORY IS A RUN FROM A FRESH TREE: with every level resetting, the state at any moment of the
last run of any history — whatever the earlier runs did and wherever they stopped — is reachable from a fresh, properly
wired tree. Hence every `C06_nest_*` theorem holds for every run of every history. -/
theorem C06_nest_rerun {cfg : Cfg} (hist : List ((List Nat → Edit E) × List (List Nat × Act))) :
    ∀ (t₀ t : Tree E), NWF t₀ → hist ≠ [] → (∀ h ∈ hist, ∀ p, (h.1 p).reset = true) →
      nhistory cfg t₀ hist = some t → ∃ t₁, NReach cfg t₁ t := by
  induction hist with
  | nil => intro _ _ _ hne; exact absurd rfl hne
  | cons h rest ih =>
    intro t₀ t wf _ hr hh
    obtain ⟨ed, acts⟩ := h
    simp only [nhistory] at hh
    obtain ⟨wf1, fr1⟩ := nrestart_fresh t₀ ed wf (hr (ed, acts) (by simp))
    cases h1 : nrun cfg (nrestart t₀ ed) acts with
    | none => simp [h1] at hh
    | some t' =>
      simp only [h1] at hh
      cases rest with
      | nil =>
        simp only [nhistory, Option.some.injEq] at hh
        subst hh
        exact ⟨nrestart t₀ ed, wf1, fr1, acts, h1⟩
      | cons h2 rest' =>
        have wf' := (nrun_inv cfg acts _ t' wf1 (fresh_ninv cfg _ wf1 fr1) h1).2
        exact ih t' t wf' (by simp) (fun x hx => hr x (by simp [hx])) hh

/-- … for instance CONTAINED, in run n of any history, at every level -/
theorem C06_nest_rerun_no_downstream {cfg : Cfg} (hist : List ((List Nat → Edit E) × List (List Nat × Act)))
    (t₀ t : Tree E) (wf : NWF t₀) (hne : hist ≠ []) (hr : ∀ h ∈ hist, ∀ p, (h.1 p).reset = true)
    (hh : nhistory cfg t₀ hist = some t)
    (p : List Nat) (d : Dag) (exc : Nat → E) (s : S) (kids : Nat → Tree E) (hs : t.sub p = .comp d exc s kids)
    (i j : Nat) (hj : j ∈ d.deps i) (hf : s.st j ≠ .done) : s.calls i = 0 ∧ s.st i = .idle := by
  obtain ⟨t₁, h1⟩ := C06_nest_rerun hist t₀ t wf hne hr hh
  exact ⟨(C06_nest_no_downstream h1 p d exc s kids hs i j hj hf).1, (C06_nest_no_downstream h1 p d exc s kids hs i j hj hf).2.1⟩

/-! a macro level that keeps what its triggers collected (the reset only where the wiring is made — a macro is wired
once): workflow ⊃ macro ⊃ `left` (0), `right` (1) → `combine` (2). Run 1: `right` raises after `left` completed. Run 2:
`left` raises, `right` completes — `combine` is invoked although `left` failed. -/
def wJoin (fails : List Bool) : FinDag :=
  { n := 3, slots := [[], [], [[0], [1]]], down := [[2], [2], []], starters := [0, 1],
    onExec := [false, false, false], fails := fails, rank := [0, 0, 1] }
def wOne : FinDag :=
  { n := 1, slots := [[]], down := [[]], starters := [0], onExec := [false], fails := [false], rank := [0] }
def tJoin : Tree Nat := mkComp wOne.toDag (fun _ => 0) [(0, mkComp (wJoin [false, true, false]).toDag (fun i => i) [])]

def run1 : List (List Nat × Act) :=
  [([], .start), ([0], .start), ([0], .start), ([0], .deliver), ([0], .exit), ([], .complete 0), ([], .exit)]
def run2 : List (List Nat × Act) :=
  [([], .start), ([0], .start), ([0], .start), ([0], .deliver), ([0], .exit), ([], .complete 0), ([], .exit)]
/-- second run: `left` raises; the macro level resets its triggers or not -/
def edit2 (macroResets : Bool) : List Nat → Edit Nat
  | [0] => { fails := fun i => i == 0, onExec := fun _ => false, exc := fun i => i, reset := macroResets }
  | _ => { fails := fun _ => false, onExec := fun _ => false, exc := fun _ => 0, reset := true }

/-- first run: `right` raises -/
def edit1 : List Nat → Edit Nat
  | [0] => { fails := fun i => i == 1, onExec := fun _ => false, exc := fun i => i, reset := true }
  | _ => { fails := fun _ => false, onExec := fun _ => false, exc := fun _ => 0, reset := true }

def joinAfter (macroResets : Bool) : Option (Nat × St × St × St) :=
  (nhistory Cfg.repaired tJoin [(edit1, run1), (edit2 macroResets, run2)]).map fun t =>
    match t.sub [0] with
    | .comp _ _ s _ => (s.calls 2, s.st 0, s.st 1, s.st 2)
    | .leaf => (9, .idle, .idle, .idle)

/-- `combine` executed in a run in which `left` failed — never with the reset -/
theorem C06_nest_rerun_pinned_witness :
    joinAfter false = some (1, .failed, .done, .done) ∧ joinAfter true = some (0, .failed, .done, .idle) := by
  decide

/-! ### suppression: `raise_run_exceptions=False`

Children of a composite are always run raising; only the caller of the OUTERMOST run can suppress. `runCycle` is that
outermost runnable's own run cycle around its body; for a composite the body is its whole nested run (`raised t`), which
has no suppression parameter at all: every status at every level below is the same with and without suppression. -/

/-- SAME BOOK-KEEPING: with and without suppression the outermost runnable ends with the same status, the same signals
fired, the same (un)touched outputs — wherever it ran, whatever it emits; and a failed run is not running, fired
`failed` at most once, never `ran`, and left its outputs alone -/
theorem C06_suppress_bookkeeping (onExec emits hasRecovery : Bool) (body : Option E) :
    let a := runCycle false true onExec emits hasRecovery body
    let b := runCycle false false onExec emits hasRecovery body
    a.running = b.running ∧ a.failed = b.failed ∧ a.failedSignals = b.failedSignals ∧ a.ranSignals = b.ranSignals ∧
    a.outputsWritten = b.outputsWritten ∧
    (a.failed = true → a.running = false ∧ a.failedSignals ≤ 1 ∧ a.ranSignals = 0 ∧ a.outputsWritten = false) ∧
    (a.failed = true ↔ body.isSome = true) := by
  cases body <;> cases onExec <;> cases emits <;> simp [runCycle]

/-- WHAT DIFFERS: suppressed — nothing is raised (`None` is returned, or the future) and no recovery file is written;
not suppressed and local — exactly what the body raised is raised, and the recovery file is written iff configured -/
theorem C06_suppress_result (onExec emits hasRecovery : Bool) (body : Option E) :
    (∀ e, (runCycle false true onExec emits hasRecovery body).ret ≠ .raised e) ∧
    (runCycle false true onExec emits hasRecovery body).recovery = false ∧
    (∀ e, body = some e → (runCycle false false false emits hasRecovery body).ret = .raised e ∧
      (runCycle false true false emits hasRecovery body).ret = .none ∧
      (runCycle false false onExec emits hasRecovery body).recovery = hasRecovery) := by
  refine ⟨?_, ?_, ?_⟩
  · intro e; cases body <;> cases onExec <;> simp [runCycle]
  · cases body <;> cases onExec <;> simp [runCycle]
  · intro e he; subst he; cases onExec <;> simp [runCycle]

/-- AT THE TOP OF ANY TREE: the outermost composite of any nested run (every depth, fault set, schedule), when its loop
has ended, is marked failed iff some function node at some depth failed — suppressed or not; unsuppressed and local it
raises exactly `raised t` -/
theorem C06_suppress_nest {t₀ : Tree E} {d : Dag} {exc : Nat → E} {s : S} {kids : Nat → Tree E}
    (h : NReach Cfg.repaired t₀ (.comp d exc s kids)) (ho : phaseOver s.phase = true)
    (suppress onExec emits hasRecovery : Bool) :
    ((runCycle false suppress onExec emits hasRecovery (raised (.comp d exc s kids))).failed = true ↔
      ∃ p i, FailedLeafAt (.comp d exc s kids) p i) ∧
    (∀ e, raised (.comp d exc s kids) = some e →
      (runCycle false false false emits hasRecovery (raised (.comp d exc s kids))).ret = .raised e) := by
  have hrep := C06_nest_reported h ho
  have hbk := (C06_suppress_bookkeeping onExec emits hasRecovery (raised (.comp d exc s kids))).2.2.2.2.2.2
  have hsame := (C06_suppress_bookkeeping onExec emits hasRecovery (raised (.comp d exc s kids))).2.1
  have hraised : (raised (.comp d exc s kids)).isSome = true ↔ compFailed s = true := by
    have hex := over_exited Cfg.repaired rfl _ s (nreach_inv h).1.1 ho
    simp only [raised, compFailed, hex]
    cases hl : s.errs with
    | nil => simp
    | cons k rest =>
      simp only [List.isEmpty_cons, Bool.not_false, Bool.true_or, iff_true]
      split
      · cases kids k <;> simp
      · simp
  refine ⟨?_, ?_⟩
  · cases suppress
    · rw [← hsame, hbk, hraised, hrep]
    · rw [hbk, hraised, hrep]
  · intro e he; rw [he]; simp [runCycle]

/-- before bc92c66 a suppressed local failure fired `failed` twice and overwrote the outputs -/
theorem C06_suppress_pinned_witness :
    (runCycle true true false true true (some 7)).failedSignals = 2 ∧
    (runCycle true true false true true (some 7)).outputsWritten = true ∧
    (runCycle false true false true true (some 7)) =
      { running := false, failed := true, failedSignals := 1, ranSignals := 0, outputsWritten := false,
        recovery := false, ret := .none } := by decide

/-- the three-level example run by a caller who suppresses: marked failed, nothing raised, no recovery file -/
example : (runCycle false true false false true (raised tEnd)).failed = true ∧
    (match (runCycle false true false false true (raised tEnd)).ret with | .none => true | _ => false) = true ∧
    (runCycle false false false false true (raised tEnd)).recovery = true := by decide

/-! ### the fine interleaving inside nested composites

Every composite of the tree steps the done-callbacks of ITS executor children in two halves (`nstepF`), at every level
at once; `TreeF.core` forgets the half-way callbacks. -/

def NReachF (cfg : Cfg) (t₀ : Tree E) (tf : TreeF E) : Prop :=
  NWF t₀ ∧ Fresh t₀ ∧ ∃ acts, nrunF cfg t₀.fine acts = some tf

/-- REFINEMENT, every depth: the core of every state of every nested fine schedule is reachable in the coarse nested
machine — hence every `C06_nest_*` clause holds at every moment of every fine interleaving at every level, for every
fault set -/
theorem C06_nestfine_refines {cfg : Cfg} {t₀ : Tree E} {tf : TreeF E} (h : NReachF cfg t₀ tf) :
    NReach cfg t₀ tf.core := by
  obtain ⟨wf, hf, acts, ha⟩ := h
  obtain ⟨acts', h'⟩ := nrunF_sim cfg acts t₀.fine tf t₀ [] (by simp [nrun]) ha
  exact ⟨wf, hf, acts', h'⟩

theorem C06_nestfine_no_downstream {cfg : Cfg} {t₀ : Tree E} {tf : TreeF E} (h : NReachF cfg t₀ tf)
    (p : List Nat) (d : Dag) (exc : Nat → E) (s : S) (kids : Nat → Tree E) (hs : tf.core.sub p = .comp d exc s kids)
    (i j : Nat) (hj : j ∈ d.deps i) (hf : s.st j ≠ .done) : s.calls i = 0 ∧ s.st i = .idle :=
  ⟨(C06_nest_no_downstream (C06_nestfine_refines h) p d exc s kids hs i j hj hf).1,
   (C06_nest_no_downstream (C06_nestfine_refines h) p d exc s kids hs i j hj hf).2.1⟩

/-- when the outermost loop has ended: nobody out at any level, and no composite whose loop has ended has a callback
half-way -/
theorem C06_nestfine_nobody_running {t₀ : Tree E} {tf : TreeF E} (h : NReachF Cfg.repaired t₀ tf)
    (ho : tf.core.over = true) :
    (∀ p d exc s kids, tf.core.sub p = .comp d exc s kids → s.running = [] ∧ ∀ i, s.st i ≠ .out) ∧ MidInvN tf := by
  refine ⟨?_, ?_⟩
  · intro p d exc s kids hs
    have := C06_nest_nobody_running (C06_nestfine_refines h) ho p d exc s kids hs
    exact ⟨this.1, this.2.1⟩
  · obtain ⟨_, _, acts, ha⟩ := h
    exact nrunF_midInvN Cfg.repaired acts _ tf (fine_midInvN t₀) ha

/-- non-vacuity: workflow ⊃ macro ⊃ `a` (on an executor, raising) → `b`; `a`'s callback is parked after its first call:
the macro's loop cannot end; after the second call it ends, the macro fails, the workflow's loop ends failed -/
def wFineIn : FinDag :=
  { n := 2, slots := [[], [[0]]], down := [[1], []], starters := [0], onExec := [true, false],
    fails := [true, false], rank := [0, 1] }
def tFine : Tree Nat := mkComp wOne.toDag (fun _ => 0) [(0, mkComp wFineIn.toDag (fun i => i) [])]

example : ((nrunF Cfg.repaired tFine.fine [([], .start), ([0], .start), ([0], .cbFirst 0)]).map fun t =>
    (t.midAt [0], (nstepF Cfg.repaired t [0] .exit).isNone)) = some ([0], true) := by decide
example : ((nrunF Cfg.repaired tFine.fine [([], .start), ([0], .start), ([0], .cbFirst 0), ([0], .cbSecond 0),
    ([0], .exit), ([], .cbFirst 0), ([], .cbSecond 0), ([], .exit)]).map fun t =>
    (t.core.over, (raised t.core).map (fun e => (e.root, e.depth)))) = some (true, some (some 0, 2)) := by decide

/-! ### the recovery save can fail -/

/-- guarded: whatever the recovery save does, the caller gets what the run itself ended with -/
theorem C06_recovery_failure_keeps_original (saveFails : Bool) (saveErr : E) (c : Cycle E) :
    (withSave true saveFails saveErr c).ret = c.ret ∧ (withSave true saveFails saveErr c).failed = c.failed ∧
    (withSave true saveFails saveErr c).running = c.running := by
  unfold withSave; split <;> simp

/-- unguarded (the tree as found): the pickling error of the recovery save replaces the run's own exception `7` -/
theorem C06_recovery_failure_pinned_witness :
    (withSave false true 99 (runCycle false false false false true (some 7))).ret = .raised 99 ∧
    (withSave true true 99 (runCycle false false false false true (some 7))).ret = .raised 7 := by decide

section Fine
open PwVerif.ExecFine

/-! ## Faults under the fine interleaving (the done-callback of an executor child as two steps)

`ExecFine` splits the callback of an executor-run child into its two bookkeeping calls on the parent and lets the
parent's loop run in between (tree order since cd51c9b: signals queued first, de-registered second). For a FAILING
child the first half is: result processed — `failed` set, outputs untouched —, the `failed` signal queued; the second:
removed from `running_children`. The refinement `runF_sim` holds for every fault set, so every C06 clause holds at
every moment of every such interleaving. -/

def FReach (cfg : Cfg) (d : Dag) (f : F) : Prop := ∃ acts, runF cfg FCfg.repaired d (initF d) acts = some f

theorem fine_refines {cfg d f} (h : FReach cfg d f) : Reach cfg d f.core := by
  obtain ⟨acts, ha⟩ := h
  exact runF_sim cfg d acts (initF d) f (init d) [] rfl ha

theorem C06_fine_no_downstream {cfg d f} (wf : WF d) (h : FReach cfg d f) (i j : Nat) (hj : j ∈ d.deps i)
    (hf : f.core.st j ≠ .done) : f.core.calls i = 0 ∧ f.core.st i = .idle :=
  C06_no_downstream wf (fine_refines h) i j hj hf

theorem C06_fine_outputs_kept {cfg d f} (wf : WF d) (h : FReach cfg d f) (i : Nat) (hf : f.core.st i = .failed) :
    f.core.out i = d.out0 i :=
  C06_outputs_kept wf (fine_refines h) i hf

theorem C06_fine_failed_marked {cfg d f} (wf : WF d) (h : FReach cfg d f) (i : Nat) :
    (d.fails i = true → f.core.st i ≠ .done) ∧ (f.core.st i = .failed → d.fails i = true ∧ f.core.calls i = 1) :=
  C06_failed_marked wf (fine_refines h) i

/-- at every moment of every fine schedule (repaired error handling): the run never aborts, and the errors the
composite holds are exactly the children that have failed so far — also while a failing child's callback is parked
between its two calls -/
theorem C06_fine_reported {d f} (wf : WF d) (h : FReach Cfg.repaired d f) :
    f.core.phase ≠ .aborted ∧ ((∃ i, f.core.st i = .failed) ↔ f.core.errs ≠ []) :=
  C06_reported_repaired wf (fine_refines h)

/-- a callback parked between its two calls keeps the parent in its loop -/
theorem C06_fine_parked_blocks_exit (cfg : Cfg) (d : Dag) (f : F) (k : Nat) (hk : k ∈ f.mid) :
    stepF cfg FCfg.repaired d f .exit = none := by
  have hv : visRunning FCfg.repaired f ≠ [] := by
    simp only [visRunning, FCfg.repaired, if_true]
    intro he
    have : k ∈ f.core.running ++ f.mid := List.mem_append_right _ hk
    rw [he] at this; cases this
  simp only [stepF]
  split
  · rename_i h1 h2 h3; exact absurd h3 hv
  · rfl

/-- when the loop has been left: nobody out, nobody registered as running, no callback half-way, nothing fired
outside the run -/
theorem C06_fine_nobody_running {cfg d f} (wf : WF d) (h : FReach cfg d f) (hex : f.core.phase = .exited) :
    visRunning FCfg.repaired f = [] ∧ f.mid = [] ∧ f.late = [] ∧ ∀ i, f.core.st i ≠ .out := by
  obtain ⟨hr, hout⟩ := C06_nobody_running_exited wf (fine_refines h) hex
  obtain ⟨acts, ha⟩ := h
  have hm := runF_midInv cfg d acts (initF d) f (by intro hp; simp [initF, init] at hp) ha hex
  have hl := runF_late cfg d acts (initF d) f ha
  exact ⟨by simp [visRunning, FCfg.repaired, hr, hm], hm, by simpa [initF] using hl, hout⟩

/-- non-vacuity: `a → b`, `a` on an executor and raising; its callback is parked after the first call: the exit test
fails; after the second call the loop ends with the error collected and `b` never invoked -/
def wFine : FinDag :=
  { n := 2, slots := [[], [[0]]], down := [[1], []], starters := [0], onExec := [true, false],
    fails := [true, false], rank := [0, 1] }

example : (runF Cfg.repaired FCfg.repaired wFine.toDag (initF wFine.toDag) [.start, .cbFirst 0]).map
    (fun f => (f.mid, f.core.st 0, f.core.errs, (stepF Cfg.repaired FCfg.repaired wFine.toDag f .exit).isNone)) =
    some ([0], .failed, [0], true) := by decide
example : (runF Cfg.repaired FCfg.repaired wFine.toDag (initF wFine.toDag) [.start, .cbFirst 0, .cbSecond 0, .exit]).map
    (fun f => (f.core.phase, f.mid, f.late, f.core.errs, f.core.calls 1)) = some (.exited, [], [], [0], 0) := by decide

end Fine

end PwVerif.C06

/-! ## Hand-wired flows: the C06 clauses on C02's machine `Signal.compositeRun`

For EVERY signal graph `g` (cycles, any-of `run` inputs, all-of triggers, `If` branches, children triggered again and
again), every table of children `nodes` (kinds, data connections, caches, `failAt`), every store left by earlier runs,
every state of the all-of triggers and every fuel; exceptions are values of an arbitrary type `E`. `flowRun true` is
the tree as it is (69a7122, 5bc222d), `flowRun false` the book-keeping before 5bc222d. -/
namespace PwVerif.C06
open PwVerif PwVerif.Signal PwVerif.FlowFail

variable {E : Type}

def flowRun (repaired : Bool) (nodes : Nat → Node) (exc : Nat → Nat → E) (refusal : Nat → E) (g : Graph) (fuel : Nat)
    (st : Store) (rec : Nat → List Label) : Signal.S (FStore E) :=
  compositeRun (flowSem repaired nodes exc refusal) g fuel (S.init (FStore.init st) rec)

/-- ANNOUNCES FAILURE ONLY: of every `run()` the composite made — a refused one emitted nothing, a completed one `ran`
(+ the branch of an `If`) and never `failed`, one whose function raised `failed` and nothing else; and a child only
emits its own channels -/
theorem C06_flow_failed_emits_failed_only (rep : Bool) (nodes : Nat → Node) (exc : Nat → Nat → E) (refusal : Nat → E)
    (g : Graph) (fuel : Nat) (st : Store) (rec : Nat → List Label) :
    ∀ en ∈ (flowRun rep nodes exc refusal g fuel st rec).store.log,
      EntryOK en ∧ ∀ e ∈ en.sigs, e / 4 = en.child := by
  have h1 := store_inv (flowSem rep nodes exc refusal) LogOK (fun fs i h => react_logOK rep nodes exc refusal fs i h)
    g fuel (S.init (FStore.init st) rec) (by intro en hen; simp [S.init, FStore.init] at hen)
  have h2 := store_inv (flowSem rep nodes exc refusal) LogOwn (fun fs i h => react_logOwn rep nodes exc refusal fs i h)
    g fuel (S.init (FStore.init st) rec) (by intro en hen; simp [S.init, FStore.init] at hen)
  intro en hen
  exact ⟨h1 en hen, h2 en hen⟩

/-- EVERY RUN HAS A CAUSE: a child the composite ran is a starting node, or some logged run emitted a signal that is
wired to it; the composite's `errs`/`fired` lists are the log -/
theorem C06_flow_contained (rep : Bool) (nodes : Nat → Node) (exc : Nat → Nat → E) (refusal : Nat → E)
    (g : Graph) (fuel : Nat) (st : Store) (rec : Nat → List Label) :
    let s := flowRun rep nodes exc refusal g fuel st rec
    (∀ j ∈ s.fired, j ∈ g.starters ∨ ∃ en ∈ s.store.log, ∃ e ∈ en.sigs, ∃ r ∈ g.conns e, r.node = j) ∧
    s.errs = (s.store.log.filter (·.raised)).map (·.child) ∧ s.fired = s.store.log.map (·.child) := by
  intro s
  have h := compositeRun_sinv rep nodes exc refusal g fuel st rec
  refine ⟨?_, h.errs, h.fired⟩
  intro j hj
  rcases h.caused j hj with hc | ⟨e, r, ⟨en, hen, he⟩, hr, hn⟩
  · exact Or.inl hc
  · exact Or.inr ⟨en, hen, e, he, r, hr, hn⟩

/-- NOTHING DOWNSTREAM OF A FAILURE RUNS: let `F` be children all of whose runs raised. A child that is not a starting
node and is wired only to `ran`/`true`/`false` channels of children in `F` was never run -/
theorem C06_flow_no_downstream (rep : Bool) (nodes : Nat → Node) (exc : Nat → Nat → E) (refusal : Nat → E)
    (g : Graph) (fuel : Nat) (st : Store) (rec : Nat → List Label) (F : Nat → Prop) (j : Nat)
    (hF : ∀ en ∈ (flowRun rep nodes exc refusal g fuel st rec).store.log, F en.child → en.raised = true)
    (hs : j ∉ g.starters)
    (hw : ∀ e r, r ∈ g.conns e → r.node = j → ∃ i, F i ∧ (e = sigRan i ∨ e = sigTrue i ∨ e = sigFalse i)) :
    j ∉ (flowRun rep nodes exc refusal g fuel st rec).fired := by
  intro hj
  rcases (C06_flow_contained rep nodes exc refusal g fuel st rec).1 j hj with hc | ⟨en, hen, e, he, r, hr, hn⟩
  · exact hs hc
  · obtain ⟨i, hFi, hei⟩ := hw e r hr hn
    obtain ⟨hok, hown⟩ := C06_flow_failed_emits_failed_only rep nodes exc refusal g fuel st rec en hen
    have hc : en.child = i := by
      have := hown e he
      rcases hei with rfl | rfl | rfl
      · rw [← this]; simp [sigRan]
      · rw [← this]; show (4 * i + 2) / 4 = i; omega
      · rw [← this]; show (4 * i + 3) / 4 = i; omega
    have hr' := hF en hen (hc ▸ hFi)
    obtain ⟨h1, h2, _⟩ := hok
    have hne := sig_ne i
    cases hst : en.started
    · rw [h2 hr' hst] at he; cases he
    · rw [h1 hr' hst, hc] at he
      simp only [List.mem_singleton] at he
      rcases hei with rfl | rfl | rfl
      · exact hne.1 he.symm
      · exact hne.2.1 he.symm
      · exact hne.2.2 he.symm

/-- ORIGINAL KEPT: a child whose function raised is failed, and the error recorded for it is what THAT invocation
raised — whatever refusals came before and however often it was asked again afterwards (5bc222d) -/
theorem C06_flow_original_kept (nodes : Nat → Node) (exc : Nat → Nat → E) (refusal : Nat → E)
    (g : Graph) (fuel : Nat) (st : Store) (rec : Nat → List Label) (i : Nat)
    (hi : RaisedIn (flowRun true nodes exc refusal g fuel st rec).store i) :
    let fs := (flowRun true nodes exc refusal g fuel st rec).store
    fs.st.failed i = true ∧ dget fs.book.errors i = some (exc i (fs.st.attempts i)) ∧ i ∈ fs.book.accounted :=
  store_inv (flowSem true nodes exc refusal) (OrigKept exc) (fun fs i h => react_origKept nodes exc refusal fs i h)
    g fuel (S.init (FStore.init st) rec) (by intro j ⟨en, hen, _⟩; simp [S.init, FStore.init] at hen) i hi

/-- ONE ERROR PER CHILD: the keys of the error dict are distinct and are exactly the children one of whose `run()`s
raised into the composite -/
theorem C06_flow_one_error_per_child (nodes : Nat → Node) (exc : Nat → Nat → E) (refusal : Nat → E)
    (g : Graph) (fuel : Nat) (st : Store) (rec : Nat → List Label) :
    let s := flowRun true nodes exc refusal g fuel st rec
    (s.store.book.errors.map (·.1)).Nodup ∧ ∀ i, (dget s.store.book.errors i).isSome = true ↔ i ∈ s.errs := by
  intro s
  have hk := store_inv (flowSem true nodes exc refusal) KeysOK (fun fs i h => react_keysOK nodes exc refusal fs i h)
    g fuel (S.init (FStore.init st) rec) (by
      refine ⟨by simp [S.init, FStore.init, Book.empty], ?_⟩
      intro i; simp [S.init, FStore.init, Book.empty, dget])
  refine ⟨hk.1, ?_⟩
  intro i
  have hki := hk.2 i
  have herr := (C06_flow_contained true nodes exc refusal g fuel st rec).2.1
  show (dget (flowRun true nodes exc refusal g fuel st rec).store.book.errors i).isSome = true ↔
    i ∈ (flowRun true nodes exc refusal g fuel st rec).errs
  unfold flowRun at herr ⊢
  rw [hki, herr]
  simp only [List.mem_map, List.mem_filter]
  constructor
  · rintro ⟨en, hen, hc, hr⟩; exact ⟨en, ⟨hen, hr⟩, hc⟩
  · rintro ⟨en, ⟨hen, hr⟩, hc⟩; exact ⟨en, hen, hc, hr⟩

/-- REPORTED: the composite raises iff some child's `run()` raised into it; in particular whenever a function raised -/
theorem C06_flow_raises_iff (nodes : Nat → Node) (exc : Nat → Nat → E) (refusal : Nat → E)
    (g : Graph) (fuel : Nat) (st : Store) (rec : Nat → List Label) :
    let s := flowRun true nodes exc refusal g fuel st rec
    (s.store.book.errors ≠ [] ↔ s.errs ≠ []) ∧ (∀ i, RaisedIn s.store i → s.store.book.errors ≠ []) := by
  intro s
  have h1 := C06_flow_one_error_per_child nodes exc refusal g fuel st rec
  have hfirst : s.store.book.errors ≠ [] ↔ s.errs ≠ [] := by
    constructor
    · intro hne
      obtain ⟨k, hk⟩ := dget_some_of_ne_nil _ hne
      have := (h1.2 k).mp hk
      intro he; rw [he] at this; cases this
    · intro hne he
      cases hl : s.errs with
      | nil => exact hne hl
      | cons x xs =>
        have := (h1.2 x).mpr (by rw [hl]; simp)
        rw [he] at this; simp [dget] at this
  refine ⟨hfirst, ?_⟩
  intro i hi he
  have := (C06_flow_original_kept nodes exc refusal g fuel st rec i hi).2.1
  rw [he] at this; simp [dget] at this

/-- CAUSE: if child `i` is the only one whose `run()` ever raised into the composite, and its function did raise, the
caller sees `FailedChildError from` exactly what that invocation raised — for every exception type -/
theorem C06_flow_cause (nodes : Nat → Node) (exc : Nat → Nat → E) (refusal : Nat → E)
    (g : Graph) (fuel : Nat) (st : Store) (rec : Nat → List Label) (i : Nat)
    (hi : RaisedIn (flowRun true nodes exc refusal g fuel st rec).store i)
    (honly : ∀ en ∈ (flowRun true nodes exc refusal g fuel st rec).store.log, en.raised = true → en.child = i) :
    let fs := (flowRun true nodes exc refusal g fuel st rec).store
    seen fs.book = .failedChild (some (exc i (fs.st.attempts i))) := by
  intro fs
  have hk := C06_flow_one_error_per_child nodes exc refusal g fuel st rec
  have hc := (C06_flow_contained true nodes exc refusal g fuel st rec).2.1
  have ho := C06_flow_original_kept nodes exc refusal g fuel st rec i hi
  have hall : ∀ p ∈ fs.book.errors, p.1 = i := by
    intro p hp
    have := (hk.2 p.1).mp (dget_mem _ p hp)
    rw [hc] at this
    simp only [List.mem_map, List.mem_filter] at this
    obtain ⟨en, ⟨hen, hr⟩, hch⟩ := this
    rw [← hch]; exact honly en hen hr
  have hne : fs.book.errors ≠ [] := (C06_flow_raises_iff nodes exc refusal g fuel st rec).2 i hi
  obtain ⟨e, he⟩ := single_key _ i hk.1 hall hne
  have h2 := ho.2.1
  show seen fs.book = _
  unfold seen
  rw [he] at h2 ⊢
  rw [dget_single] at h2
  simp only [Option.some.injEq] at h2
  simp only [h2]
  rfl

/-- BOOKED ON THE RIGHT NODE: a child none of whose `run()`s raised into the composite — it completed, or answered from
its cache, every time — has no entry in the error dict, whatever the children it triggers do -/
theorem C06_flow_hit_not_blamed (nodes : Nat → Node) (exc : Nat → Nat → E) (refusal : Nat → E)
    (g : Graph) (fuel : Nat) (st : Store) (rec : Nat → List Label) (i : Nat)
    (hi : ∀ en ∈ (flowRun true nodes exc refusal g fuel st rec).store.log, en.child = i → en.raised = false) :
    dget (flowRun true nodes exc refusal g fuel st rec).store.book.errors i = none := by
  have hk := C06_flow_one_error_per_child nodes exc refusal g fuel st rec
  have hc := (C06_flow_contained true nodes exc refusal g fuel st rec).2.1
  cases hd : dget (flowRun true nodes exc refusal g fuel st rec).store.book.errors i with
  | none => rfl
  | some e =>
    exfalso
    have := (hk.2 i).mp (by rw [hd]; rfl)
    rw [hc] at this
    simp only [List.mem_map, List.mem_filter] at this
    obtain ⟨en, ⟨hen, hr⟩, hch⟩ := this
    rw [hi en hen hch] at hr; cases hr

/-! a cache hit must go through the queue: `a >> b`, both cached from a first run; in the second run `b` has an input
edited and its function raises. Queued: the error is `b`'s, booked on `b`. Emitted directly inside `a.run()`: booked on
`a`, nothing on `b` (the composite can only find `b` by its failed flag afterwards). -/
def zNodes (second : Bool) : Nat → Node := fun i =>
  { kind := .term i, slots := [{ own := if second && i == 1 then .nat 7 else .d, conns := [] }], useCache := true,
    failAt := if second && i == 1 then [2] else [] }
def zGraph : FinGraph :=
  { conns := [[⟨1, false⟩]], accConns := [], labs := [0], starters := [0] }
def zFirst : Store :=
  (flowRun true (zNodes false) (fun i _ => 100 + i) (fun i => 200 + i) zGraph.toGraph 10 Store.init (fun _ => [])).store.st
def zSecond (direct : Bool) : Signal.S (FStore Nat) :=
  compositeRun (if direct then flowSemDirect zGraph.toGraph (zNodes true) (fun i _ => 100 + i) (fun i => 200 + i)
      else flowSem true (zNodes true) (fun i _ => 100 + i) (fun i => 200 + i))
    zGraph.toGraph 10 (S.init (FStore.init zFirst) (fun _ => []))

theorem C06_flow_direct_hit_witness :
    (dget (zSecond false).store.book.errors 1, dget (zSecond false).store.book.errors 0) = (some 101, none) ∧
    (dget (zSecond true).store.book.errors 1, dget (zSecond true).store.book.errors 0) = (none, some 101) ∧
    (zSecond true).store.st.failed 1 = true := by decide

/-! non-vacuity and the pinned book-keeping: `a >> c`, `b >> c`, starting nodes `a, b`; `c`'s function raises at its
first invocation. Exceptions: `100 + child` from a function, `200 + child` = refusal. -/
def yNodes : Nat → Node := fun i =>
  { kind := .term i, slots := [], useCache := false, failAt := if i = 2 then [1] else [] }
def yGraph : FinGraph :=
  { conns := [[⟨2, false⟩], [], [], [], [⟨2, false⟩]], accConns := [], labs := [0, 1, 2, 3, 4], starters := [0, 1] }
def yRun (rep : Bool) : Signal.S (FStore Nat) :=
  flowRun rep yNodes (fun i _ => 100 + i) (fun i => 200 + i) yGraph.toGraph 10 Store.init (fun _ => [])

example : (yRun true).fired = [0, 1, 2, 2] ∧ (yRun true).errs = [2, 2] ∧
    (yRun true).store.log.map (fun en => (en.child, en.raised, en.started, en.sigs)) =
      [(0, false, true, [0]), (1, false, true, [4]), (2, true, true, [9]), (2, true, false, [])] := by decide
example : RaisedIn (yRun true).store 2 := ⟨⟨2, true, true, [9]⟩, by decide, rfl, rfl, rfl⟩
example : seen (yRun true).store.book = .failedChild (some 102) := by decide

/-- the book-keeping before 5bc222d loses the original: the caller sees the refusal -/
theorem C06_flow_pinned_witness :
    seen (yRun false).store.book = .failedChild (some 202) ∧ seen (yRun true).store.book = .failedChild (some 102) := by
  decide

/-! ### pulls inside a composite

`node.pull()` of a child runs the parent on a temporary LINEAR wiring of the target's data tree — `order[k]`'s `ran` is
wired to the `run` input of `order[k+1]`, the first is the only starting node, the pulled node comes last — on the very
loop of `Signal.compositeRun`. -/

def chainGraph (order : List Nat) : Graph :=
  { conns := fun s => match (order.zip order.tail).find? (fun p => sigRan p.1 == s) with
      | some p => [{ node := p.2, acc := false }]
      | none => [],
    accConns := fun _ => [], lab := fun s => s, starters := order.take 1, sigs := order.map sigRan }

theorem nodup_getElem_inj (l : List Nat) (h : l.Nodup) (i j : Nat) (hi : i < l.length) (hj : j < l.length)
    (e : l[i] = l[j]) : i = j := by
  have hp := List.pairwise_iff_getElem.mp h
  rcases Nat.lt_trichotomy i j with hlt | heq | hgt
  · exact absurd e (hp i j hi hj hlt)
  · exact heq
  · exact absurd e.symm (hp j i hj hi hgt)

theorem chain_conns (order : List Nat) (e : Sig) (r : Recv) (h : r ∈ (chainGraph order).conns e) :
    ∃ j, ∃ (hj : j + 1 < order.length), e = sigRan (order[j]'(by omega)) ∧ r.node = order[j + 1] := by
  simp only [chainGraph] at h
  split at h
  · rename_i p hp
    simp only [List.mem_singleton] at h
    have hmem := List.mem_of_find?_eq_some hp
    have hsig := List.find?_some hp
    simp only [beq_iff_eq] at hsig
    obtain ⟨j, hj, hget⟩ := List.mem_iff_getElem.mp hmem
    simp only [List.length_zip, List.length_tail] at hj
    have hj' : j + 1 < order.length := by omega
    refine ⟨j, hj', ?_, ?_⟩
    · rw [← hsig, ← hget]; simp
    · rw [h, ← hget]; simp
  · cases h

/-- CONTAINED DURING A PULL: if every `run()` the parent made of `order[k]` raised (its function raised; it was refused),
no later node of the chain is run — in particular not the pulled node, which comes last -/
theorem C06_pull_contained (rep : Bool) (nodes : Nat → Node) (exc : Nat → Nat → E) (refusal : Nat → E)
    (order : List Nat) (hnd : order.Nodup) (fuel : Nat) (st : Store) (rec : Nat → List Label)
    (k : Nat) (hk : k < order.length)
    (hf : ∀ en ∈ (flowRun rep nodes exc refusal (chainGraph order) fuel st rec).store.log,
      en.child = order[k] → en.raised = true) :
    ∀ m, ∀ (hm : m < order.length), k < m →
      order[m] ∉ (flowRun rep nodes exc refusal (chainGraph order) fuel st rec).fired := by
  have hcont := C06_flow_contained rep nodes exc refusal (chainGraph order) fuel st rec
  have hdisc := C06_flow_failed_emits_failed_only rep nodes exc refusal (chainGraph order) fuel st rec
  intro m
  induction m with
  | zero => intro _ h; omega
  | succ m ih =>
    intro hm hkm hfired
    rcases hcont.1 _ hfired with hs | ⟨en, hen, e, he, r, hr, hn⟩
    · -- a starting node is the head of the chain
      simp only [chainGraph] at hs
      cases order with
      | nil => simp at hm
      | cons a rest =>
        simp only [List.take_succ_cons, List.take_zero, List.mem_singleton] at hs
        have := nodup_getElem_inj _ hnd (m + 1) 0 hm (by simp) (by simpa using hs)
        omega
    · obtain ⟨j, hj, hej, hrj⟩ := chain_conns order e r hr
      have hjm : j + 1 = m + 1 := nodup_getElem_inj _ hnd (j + 1) (m + 1) hj hm (by rw [← hrj, hn])
      have hjm' : j = m := by omega
      subst hjm'
      -- the emitter is `order[j]`, and the run that emitted `ran` did not raise
      obtain ⟨hok, hown⟩ := hdisc en hen
      have hchild : en.child = order[j] := by
        have := hown e he
        rw [← this, hej]; simp [sigRan]
      have hnr : en.raised = false := by
        cases hr' : en.raised with
        | false => rfl
        | true =>
          exfalso
          have hne := sig_ne (order[j])
          cases hst : en.started
          · rw [hok.2.1 hr' hst] at he; cases he
          · rw [hok.1 hr' hst, hchild] at he
            simp only [List.mem_singleton] at he
            exact hne.1 (by rw [← he, hej])
      by_cases hjk : j = k
      · subst hjk
        rw [hf en hen hchild] at hnr; cases hnr
      · -- `order[j]` ran, although it comes after `order[k]`
        have : order[j] ∈ (flowRun rep nodes exc refusal (chainGraph order) fuel st rec).fired := by
          rw [hcont.2.2]
          exact List.mem_map.mpr ⟨en, hen, hchild⟩
        exact ih (by omega) (by omega) this

/-- non-vacuity: data tree `0 → 1 → (2 pulled)`, the function of `1` raises: `2` is not run, the caller gets `1`'s error -/
example : (flowRun true (fun i => { kind := .term i, slots := [], useCache := false, failAt := if i = 1 then [1] else [] })
      (fun i _ => 100 + i) (fun i => 200 + i) (chainGraph [0, 1, 2]) 10 Store.init (fun _ => [])).fired = [0, 1] ∧
    seen (flowRun true (fun i => { kind := .term i, slots := [], useCache := false, failAt := if i = 1 then [1] else [] })
      (fun i _ => 100 + i) (fun i => 200 + i) (chainGraph [0, 1, 2]) 10 Store.init (fun _ => [])).store.book =
      .failedChild (some 101) := by decide

/-! ### parentless nodes wired by hand: a push is a tree of nested calls -/

/-- PROPAGATION: `run()` of a parentless node, through ANY hand-made signal graph (branches, cycles, `If`s), any child
table, any depth (fuel): the calls only append to the log; if no exception comes out, no `run()` in the whole nested
tree raised; if one comes out, it is the exception of a logged run that raised — nothing is lost on the way up through
the epilogues, nothing invented -/
theorem C06_push_propagates (nodes : Nat → Node) (g : Graph) (exc : Nat → Nat → E) (refusal : Nat → E) (fuel : Nat)
    (ps : PState) (i : Nat) :
    ∃ added, (push false nodes g exc refusal fuel ps i).1.log = ps.log ++ added ∧
      ((push false nodes g exc refusal fuel ps i).2 = none → ∀ en ∈ added, en.raised = false) ∧
      (∀ e, (push false nodes g exc refusal fuel ps i).2 = some e →
        ∃ en ∈ added, en.raised = true ∧ ((∃ k, e = exc en.child k) ∨ e = refusal en.child)) :=
  push_spec nodes g exc refusal fuel ps i

/-! `load >> scale >> report`, `scale` raises: the caller of `load.run()` gets `scale`'s exception and `report` is not
run; with an epilogue that swallows what happens inside it the caller gets nothing. -/
def pNodes : Nat → Node := fun i =>
  { kind := .term i, slots := [], useCache := false, failAt := if i = 1 then [1] else [] }
def pGraph : FinGraph :=
  { conns := [[⟨1, false⟩], [], [], [], [⟨2, false⟩]], accConns := [], labs := [0, 1, 2, 3, 4], starters := [] }
def pPush (swallow : Bool) : PState × Option Nat :=
  push swallow pNodes pGraph.toGraph (fun i _ => 100 + i) (fun i => 200 + i) 10 { st := Store.init, log := [] } 0

theorem C06_push_swallow_witness :
    (pPush false).2 = some 101 ∧ (pPush false).1.log.map (fun en => (en.child, en.raised)) = [(0, false), (1, true)] ∧
    (pPush true).2 = none ∧ (pPush true).1.log.map (fun en => (en.child, en.raised)) = [(0, false), (1, true)] := by
  decide

/-! ### an all-of trigger whose owner's run raises -/

/-- RESET BEFORE THE CALLBACK: whenever the trigger fires it is empty afterwards — whether the run it started raised or
not — and it agrees with C02's `Acc.call` -/
theorem C06_trigger_reset_before_callback (lab : Nat → Label) (a : Acc) (other : Option Nat) (raises : Bool) :
    accFire true lab a other raises = a.call lab other ∧
    ((accFire true lab a other raises).2 = true → (accFire true lab a other raises).1.received = []) := by
  unfold accFire Acc.call
  cases other <;> simp <;> split <;> simp

/-- callback before reset: `report` waits for `left` (0) and `right` (1). Round 1: both complete, `report`'s run raises.
Round 2: `left` raises (no `ran`), only `right` completes — the trigger fires again on the stale `left`; with the reset
first it does not -/
theorem C06_trigger_callback_first_witness :
    (accHistory false id { conns := [0, 1], received := [] } [(0, false), (1, true), (1, false)]).2 = 2 ∧
    (accHistory true id { conns := [0, 1], received := [] } [(0, false), (1, true), (1, false)]).2 = 1 := by decide

end PwVerif.C06


/-! ## Hand-wired flows WITH executor children (`FlowExec`: C02's generic `callRun/startAll/deliver` + in-flight children)

A child handed to an executor is only submitted by `run()` (admitted, or refused — also while it is still out); its
job lands as an action of its own (`complete k`), interleaved anywhere with the deliveries of the loop; the loop ends
when queue and running set are empty, then the status sweep collects failed children not accounted for (`finish`).
For every signal graph, child table, executor assignment, exception type and schedule (list of actions). -/
namespace PwVerif.C06
open PwVerif PwVerif.Signal PwVerif.FlowFail PwVerif.FlowExec

variable {E : Type}

def XReach (nodes : Nat → Node) (onExec : Nat → Bool) (exc : Nat → Nat → E) (refusal : Nat → E) (g : Graph) (st : Store)
    (x : X E) : Prop := ∃ acts, xrun nodes onExec exc refusal g (X.init st) acts = some x

theorem xreach_cases {nodes onExec} {exc : Nat → Nat → E} {refusal g st x}
    (h : XReach nodes onExec exc refusal g st x) :
    (x.phase ≤ 1 ∧ Good onExec exc x.s.store) ∨ (x.phase = 2 ∧ Final onExec exc x) := by
  obtain ⟨acts, ha⟩ := h
  exact xrun_good nodes onExec exc refusal g acts (X.init st) x (by simp [X.init]) (good_init onExec exc st) ha

/-- ANNOUNCES FAILURE ONLY, at every moment of every schedule: a refused `run()` emitted nothing, a local function that
raised `failed` only, a submission nothing, a landed job that raised `failed` only, one that completed `ran` (+ branch)
and never `failed`; own channels only; and whoever is out is an executor child that is not failed -/
theorem C06_flowx_discipline {nodes onExec} {exc : Nat → Nat → E} {refusal g st x}
    (h : XReach nodes onExec exc refusal g st x) : Disc onExec x.s.store := by
  rcases xreach_cases h with ⟨_, hg⟩ | ⟨_, hf⟩
  · exact hg.disc
  · exact hf.disc

/-- WHEN THE RUN HAS ENDED: nothing queued, nobody out; every child whose function raised — locally or on an executor,
refused however often before or after, also while it was out — is failed and the error recorded for it is what that
invocation raised -/
theorem C06_flowx_ended {nodes onExec} {exc : Nat → Nat → E} {refusal g st x}
    (h : XReach nodes onExec exc refusal g st x) (hp : x.phase = 2) :
    x.s.queue = [] ∧ x.s.store.inflight = [] ∧
    (∀ i, RaisedIn x.s.store.fs i → x.s.store.fs.st.failed i = true ∧
      dget x.s.store.fs.book.errors i = some (exc i (x.s.store.fs.st.attempts i))) ∧
    (∀ ld ∈ x.s.store.landed, ld.raised = true → x.s.store.fs.st.failed ld.child = true ∧
      dget x.s.store.fs.book.errors ld.child = some (exc ld.child (x.s.store.fs.st.attempts ld.child))) := by
  rcases xreach_cases h with ⟨hle, _⟩ | ⟨_, hf⟩
  · omega
  · exact ⟨hf.quiet.1, hf.quiet.2, hf.origLocal, hf.origExec⟩

/-- REPORTED: if any function raised, locally or on an executor, the ended run has an error to raise -/
theorem C06_flowx_raises {nodes onExec} {exc : Nat → Nat → E} {refusal g st x}
    (h : XReach nodes onExec exc refusal g st x) (hp : x.phase = 2)
    (hr : (∃ i, RaisedIn x.s.store.fs i) ∨ ∃ ld ∈ x.s.store.landed, ld.raised = true) :
    x.s.store.fs.book.errors ≠ [] := by
  obtain ⟨_, _, h1, h2⟩ := C06_flowx_ended h hp
  intro he
  rcases hr with ⟨i, hi⟩ | ⟨ld, hld, hr⟩
  · have := (h1 i hi).2; rw [he] at this; simp [dget] at this
  · have := (h2 ld hld hr).2; rw [he] at this; simp [dget] at this

/-! non-vacuity: `a >> c`, `b >> c`, `c` on an executor and raising: submitted at the first trigger, refused at the second
(it is out: the refusal is recorded), then its job lands and raises; the sweep puts the original in place -/
def xNodes : Nat → Node := fun i =>
  { kind := .term i, slots := [], useCache := false, failAt := if i = 2 then [1] else [] }
def xGraph : FinGraph :=
  { conns := [[⟨2, false⟩], [], [], [], [⟨2, false⟩]], accConns := [], labs := [0, 1, 2, 3, 4], starters := [0, 1] }
def xEnd : Option (X Nat) :=
  xrun xNodes (fun i => i == 2) (fun i _ => 100 + i) (fun i => 200 + i) xGraph.toGraph (X.init Store.init)
    [.begin, .start, .start, .deliver, .deliver, .complete 2, .finish]

example : xEnd.map (fun x => (x.phase, x.s.store.fs.log.map (fun en => (en.child, en.raised, en.started)))) =
    some (2, [(0, false, true), (1, false, true), (2, false, true), (2, true, false)]) := by decide
example : xEnd.map (fun x => (x.s.store.landed, dget x.s.store.fs.book.errors 2, x.s.store.inflight)) =
    some ([{ child := 2, raised := true, sigs := [9] }], some 102, []) := by decide
/-- before the sweep the dict holds the refusal -/
example : (xrun xNodes (fun i => i == 2) (fun i _ => 100 + i) (fun i => 200 + i) xGraph.toGraph (X.init Store.init)
    [.begin, .start, .start, .deliver, .deliver, .complete 2]).map (fun x => dget x.s.store.fs.book.errors 2) = some (some 202) := by decide
/-- the loop cannot end while `c` is out -/
example : ((xrun xNodes (fun i => i == 2) (fun i _ => 100 + i) (fun i => 200 + i) xGraph.toGraph (X.init Store.init)
    [.begin, .start, .start, .deliver, .deliver]).bind (fun x => xstep xNodes (fun i => i == 2) (fun i _ => 100 + i) (fun i => 200 + i)
      xGraph.toGraph x .finish)).isNone = true := by decide

end PwVerif.C06

#print axioms PwVerif.C06.C06_no_downstream
#print axioms PwVerif.C06.C06_outputs_kept
#print axioms PwVerif.C06.C06_failed_marked
#print axioms PwVerif.C06.C06_nobody_running_exited
#print axioms PwVerif.C06.C06_reported_repaired
#print axioms PwVerif.C06.C06_reported_partial
#print axioms PwVerif.C06.C06_exec_failure_unreported_witness
#print axioms PwVerif.C06.C06_abort_leaves_running_witness
#print axioms PwVerif.C06.C06_nest_no_downstream
#print axioms PwVerif.C06.C06_nest_reported
#print axioms PwVerif.C06.C06_nest_nobody_running
#print axioms PwVerif.C06.C06_nest_failed_exactly
#print axioms PwVerif.C06.C06_nest_outputs_kept
#print axioms PwVerif.C06.C06_nest_cause
#print axioms PwVerif.C06.C06_nest_class_independent
#print axioms PwVerif.C06.C06_nest_progress
#print axioms PwVerif.C06.C06_nest_flat
#print axioms PwVerif.C06.C06_collect_keeps_original
#print axioms PwVerif.C06.C06_collect_pinned_witness
#print axioms PwVerif.C06.C06_if_failed_announces_failure_only
#print axioms PwVerif.C06.C06_if_pinned_witness
#print axioms PwVerif.C06.C06_callback_handles_what_local_handles
#print axioms PwVerif.C06.C06_callback_pinned_witness
#print axioms PwVerif.C06.C06_nest_terminates
#print axioms PwVerif.C06.C06_fine_no_downstream
#print axioms PwVerif.C06.C06_fine_outputs_kept
#print axioms PwVerif.C06.C06_fine_failed_marked
#print axioms PwVerif.C06.C06_fine_reported
#print axioms PwVerif.C06.C06_fine_parked_blocks_exit
#print axioms PwVerif.C06.C06_fine_nobody_running
#print axioms PwVerif.C06.C06_flow_failed_emits_failed_only
#print axioms PwVerif.C06.C06_flow_contained
#print axioms PwVerif.C06.C06_flow_no_downstream
#print axioms PwVerif.C06.C06_flow_original_kept
#print axioms PwVerif.C06.C06_flow_one_error_per_child
#print axioms PwVerif.C06.C06_flow_raises_iff
#print axioms PwVerif.C06.C06_flow_cause
#print axioms PwVerif.C06.C06_flow_pinned_witness
#print axioms PwVerif.C06.C06_kinds_proposed
#print axioms PwVerif.C06.C06_kinds_head_partial
#print axioms PwVerif.C06.C06_kinds_head_witness
#print axioms PwVerif.C06.C06_kinds_vanish_witness
#print axioms PwVerif.C06.C06_nest_rerun
#print axioms PwVerif.C06.C06_nest_rerun_no_downstream
#print axioms PwVerif.C06.C06_nest_rerun_pinned_witness
#print axioms PwVerif.C06.C06_suppress_bookkeeping
#print axioms PwVerif.C06.C06_suppress_result
#print axioms PwVerif.C06.C06_suppress_nest
#print axioms PwVerif.C06.C06_suppress_pinned_witness
#print axioms PwVerif.C06.C06_flowx_discipline
#print axioms PwVerif.C06.C06_flowx_ended
#print axioms PwVerif.C06.C06_flowx_raises
#print axioms PwVerif.C06.C06_nestfine_refines
#print axioms PwVerif.C06.C06_nestfine_no_downstream
#print axioms PwVerif.C06.C06_nestfine_nobody_running
#print axioms PwVerif.C06.C06_flow_hit_not_blamed
#print axioms PwVerif.C06.C06_flow_direct_hit_witness
#print axioms PwVerif.C06.C06_pull_contained
#print axioms PwVerif.C06.C06_recovery_failure_keeps_original
#print axioms PwVerif.C06.C06_recovery_failure_pinned_witness
#print axioms PwVerif.C06.C06_push_propagates
#print axioms PwVerif.C06.C06_push_swallow_witness
#print axioms PwVerif.C06.C06_trigger_reset_before_callback
#print axioms PwVerif.C06.C06_trigger_callback_first_witness
