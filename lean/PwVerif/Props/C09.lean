import PwVerif.Proofs.Macro
import PwVerif.Proofs.BridgeC09C01
import PwVerif.Proofs.Preview
import PwVerif.Proofs.BridgeC09C04
import PwVerif.Proofs.MacroLabels
/-!
# C09 — A macro behaves exactly like its sub-graph, behind synchronized by-value IO

"Running a macro gives the same outputs as building its body directly with the same inputs, for any
nesting of macros and however its arguments fan out inside. The macro's own input and output channels
are distinct from its children's but always hold the same values as the child channels they stand
for, whichever side is updated; children of a macro are connected only to their siblings, and the
macro's declared inputs, defaults, hints and output labels are those of its defining function."

Quantification: every macro definition `n : Node` (a nested inductive: parameters with defaults and
hints, children = term nodes and NESTED macro instances, returned objects; parameters used zero, one
or many times, passed through, fed to nested macros), every state reached by construction, assignments
to the macro's inputs, runs and assignments to leaf-child outputs (`Reach`), every input assignment. Theorems are by structural
induction over the nested definition, i.e. for every nesting depth.

Hypotheses, all named: `WF n` (the definition refers only to existing parameters / earlier children
and is closed: plain values and defaults are data), `NoDupH n` (no creator returns the same channel
twice — false of the pinned code, see `C09_dup_return_witness`), updates on the SENDING side of a
link only (`Reach`; the other side is `C09_links_sync_receiving_witness`).

Execution order inside `run` is creation order; that every order the real scheduler may choose
gives the same values is `C01_value`/`C01_value_unique`.
-/
namespace PwVerif.C09
open PwVerif PwVerif.Macro

/-! ## (a) macro = plain composition = inlined body -/

/-- running a macro whose links are in place gives, on every output, the term that plain function
composition of its (arbitrarily nested) body gives on the macro's input values -/
theorem C09_inline (n : Node) (σ : St) (hwf : WF n) (hnd : NoDupH n) (hinv : Inv true n σ)
    (hin : ∀ i, i < n.arity → σ.get .inp i ≠ .nd) :
    ∃ σ', run n σ = some σ' ∧ ∀ o, o < n.nout → σ'.get .out o = denote n (σ.get .inp) o := by
  obtain ⟨σ', h1, _, _, _, h5⟩ := run_value n σ (σ.get .inp) hwf hnd hinv (fun _ _ => rfl) hin
  exact ⟨σ', h1, fun o ho => (h5 o ho).1⟩

/-- … and this holds after every history of input assignments and earlier runs: the run always
recomputes from the CURRENT input values (IO by value), leaves the inputs alone and can be repeated -/
theorem C09_inline_history (n : Node) (σ : St) (hwf : WF n) (hnd : NoDupH n) (h : Reach n σ)
    (hin : ∀ i, i < n.arity → σ.get .inp i ≠ .nd) :
    ∃ σ', run n σ = some σ' ∧ Reach n σ' ∧ (∀ k, σ'.get .inp k = σ.get .inp k) ∧
      ∀ o, o < n.nout → σ'.get .out o = denote n (σ.get .inp) o := by
  obtain ⟨σ', h1, h2, _, _, h5⟩ :=
    run_value n σ (σ.get .inp) hwf hnd (reach_inv n hwf hnd σ h).1 (fun _ _ => rfl) hin
  exact ⟨σ', h1, Reach.run h h1, fun k => h2 .inp k (by simp) (by simp), fun o ho => (h5 o ho).1⟩

/-- dissolving all macro boundaries (the body built directly in a workflow, inputs given as values)
computes the same terms as the nested definition -/
theorem C09_flatten (n : Node) (inp : Nat → Val) (o : Nat) :
    ((flat n (fun k => .const (inp k)) 0).2 o).eval
        (evalFlat (flat n (fun k => .const (inp k)) 0).1 0 (fun _ => .nd)) = denote n inp o :=
  (flat_spec n (fun k => .const (inp k)) 0 (fun _ => .nd) (fun _ => trivial)).2.2 o

/-- macro run = inlined body, both on the current inputs -/
theorem C09_macro_eq_inlined (n : Node) (σ : St) (hwf : WF n) (hnd : NoDupH n) (h : Reach n σ)
    (hin : ∀ i, i < n.arity → σ.get .inp i ≠ .nd) :
    ∃ σ', run n σ = some σ' ∧ ∀ o, o < n.nout →
      σ'.get .out o = ((flat n (fun k => .const (σ.get .inp k)) 0).2 o).eval
        (evalFlat (flat n (fun k => .const (σ.get .inp k)) 0).1 0 (fun _ => .nd)) := by
  obtain ⟨σ', h1, _, _, h4⟩ := C09_inline_history n σ hwf hnd h hin
  exact ⟨σ', h1, fun o ho => by rw [C09_flatten]; exact h4 o ho⟩

/-- setting a macro input after a run and running again recomputes with the new value -/
theorem C09_by_value_rerun (n : Node) (σ σ1 : St) (k : Nat) (v : Val) (hwf : WF n) (hnd : NoDupH n)
    (h : Reach n σ) (hrun : run n σ = some σ1) (hv : v ≠ .nd) :
    ∃ σ2, run n (setIn n σ1 k v) = some σ2 ∧ ∀ o, o < n.nout →
      σ2.get .out o = denote n (fun k' => if k' = k then v else σ.get .inp k') o := by
  have hr1 : Reach n σ1 := Reach.run h hrun
  have hin := run_some_inputs n σ σ1 hrun
  obtain ⟨σx, hx, _, hkeep, _⟩ := C09_inline_history n σ hwf hnd h hin
  rw [hrun] at hx; cases hx
  have hinp : (setIn n σ1 k v).get .inp = fun k' => if k' = k then v else σ.get .inp k' := by
    funext k'; rw [setIn_get_inp, hkeep]
  obtain ⟨σ2, h1, _, _, h4⟩ := C09_inline_history n (setIn n σ1 k v) hwf hnd (Reach.setIn k v hr1)
    (by
      intro i hi; rw [hinp]
      by_cases he : i = k
      · simp [he, hv]
      · simp [he, hin i hi])
  exact ⟨σ2, h1, fun o ho => by rw [← hinp]; exact h4 o ho⟩

/-! ## (a') … under every schedule and executor assignment (bridge to C01, nothing re-proved) -/

open PwVerif.BridgeC09C01 in
/-- Take the scheduler of one macro level as C01 models it: ANY wired graph `d` whose data connections
are the creator's (`Wired`: children to kept UI nodes and earlier siblings), with ANY order of `ran`
connections and starting nodes, ANY assignment of children to executors (`d.onExec`), and ANY schedule
of starts, deliveries and executor completions that has exited. Interpreting each child by its
denotation (a nested macro by the composition of ITS body — to which this same theorem applies one level
down, so the statement holds at every depth), every macro output read off the final scheduler state is
the plain composition `denote` — the value `C09_inline` gives for the creation-order run. -/
theorem C09_inline_any_schedule {cfg : Exec.Cfg} {d : Exec.Dag} {s : Exec.S} (wf : Exec.WF d)
    (rank : Nat → Nat) (hrank : ∀ i j, j ∈ d.deps i → rank j < rank i) (hnf : C01.NoFaults d)
    (h : C01.Reach cfg d s) (hex : s.phase = .exited)
    (args : List Arg) (body : List Node) (rets : List Ret) (oh : List Nat) (srcs : List Src)
    (hw : Wired d (kept body rets) body) (hwf : WF (.mac args body rets oh srcs))
    (hmem : ∀ j, j < body.length → d.member j) (a : Nat → Val) (r : Nat) (x : Ret) (hr : rets[r]? = some x) :
    retOf d (levelSem body a) a s.out x = denote (.mac args body rets oh srcs) a r :=
  mac_any_schedule wf rank hrank hnf h hex args body rets oh srcs hw hwf hmem a r x hr

open PwVerif.BridgeC09C01 in
/-- … hence equal to what the macro model's own run leaves on the macro output, after any history -/
theorem C09_run_eq_any_schedule {cfg : Exec.Cfg} {d : Exec.Dag} {s : Exec.S} (wf : Exec.WF d)
    (rank : Nat → Nat) (hrank : ∀ i j, j ∈ d.deps i → rank j < rank i) (hnf : C01.NoFaults d)
    (h : C01.Reach cfg d s) (hex : s.phase = .exited)
    (args : List Arg) (body : List Node) (rets : List Ret) (oh : List Nat) (srcs : List Src)
    (hw : Wired d (kept body rets) body) (hwf : WF (.mac args body rets oh srcs))
    (hnd : NoDupH (.mac args body rets oh srcs))
    (hmem : ∀ j, j < body.length → d.member j) (σ : St) (hreach : Reach (.mac args body rets oh srcs) σ)
    (hin : ∀ i, i < args.length → σ.get .inp i ≠ .nd) :
    ∃ σ', run (.mac args body rets oh srcs) σ = some σ' ∧ ∀ r x, rets[r]? = some x →
      σ'.get .out r = retOf d (levelSem body (σ.get .inp)) (σ.get .inp) s.out x := by
  obtain ⟨σ', h1, _, _, h4⟩ := C09_inline_history _ σ hwf hnd hreach hin
  refine ⟨σ', h1, ?_⟩
  intro r x hr
  rw [C09_inline_any_schedule wf rank hrank hnf h hex args body rets oh srcs hw hwf hmem _ r x hr]
  exact h4 r (by
    simp only [Node.nout]
    exact (List.getElem?_eq_some_iff.mp hr).1)

/-- non-vacuity: `def M(self, x0): c0 = F0(a=x0); c1 = F1(a=x0, b=c0); return c1` — `x0` forks, its UI node
(node 2) stays; both children on executors, completed in the order 0, 1 -/
def exLevelBody : List Node := [.leaf 0 [.arg 0, .none, .none], .leaf 1 [.arg 0, .out 0 0, .none]]

def exLevelF : Exec.FinDag :=
  { n := 3, slots := [[[2], [], []], [[2], [0], []], []], down := [[1], [], [1, 0]], starters := [2],
    onExec := [true, true, false], fails := [], rank := [1, 2, 0] }

def exLevelActs : List Exec.Act :=
  [.start, .deliver, .deliver, .complete 0, .deliver, .complete 1, .exit]

example : exLevelF.check = true := by decide

example : (Exec.runActs Exec.Cfg.repaired exLevelF.toDag (Exec.init exLevelF.toDag) exLevelActs).map
    (fun s => (s.phase, s.doneLog)) = some (.exited, [2, 0, 1]) := by decide

example : BridgeC09C01.Wired exLevelF.toDag (kept exLevelBody [.out 1 0]) exLevelBody := by
  constructor
  · intro j n hj
    match j, hj with
    | 0, hj => simp [exLevelBody] at hj; subst hj; decide
    | 1, hj => simp [exLevelBody] at hj; subst hj; decide
    | j + 2, hj => simp [exLevelBody] at hj
  · intro i hi
    simp only [exLevelBody, List.length_cons, List.length_nil] at hi
    match i, hi with
    | i + 2, _ =>
      cases i with
      | zero => decide
      | succ i => simp [Exec.FinDag.toDag, exLevelF]

/-- a run with a macro input that holds no data is refused by the macro's own readiness gate before any
child runs (the step the driver takes leaves the state as it is, so every invariant survives trivially);
conversely a run that is not refused at the gate and meets the hypotheses of `C09_inline` succeeds -/
theorem C09_refused_run (n : Node) (σ : St) :
    (refused n σ = true ↔ ∃ i, i < n.arity ∧ σ.get .inp i = .nd) ∧ (refused n σ = true → run n σ = none) :=
  ⟨refused_iff n σ, run_refused n σ⟩

/-- the hint codes `1 ⊑ 2 ⊑ 3` of the model, mapped to `str | tuple`, `str | tuple | int`, `object` in C04's
hint grammar: C04's transcription `ms` of `type_hint_is_as_or_more_specific_than` (current and repaired
configuration) answers exactly the model's `≤` on them — the model's parameter is C04's comparison -/
theorem C09_hint_chain_is_C04 : ∀ a ∈ [1, 2, 3], ∀ b ∈ [1, 2, 3],
    Hint.ms Hint.Cfg.now 10 (.h (BridgeC09C04.hintOf a)) (.h (BridgeC09C04.hintOf b)) = some (!hintClash a b) ∧
    Hint.ms Hint.Cfg.repaired 10 (.h (BridgeC09C04.hintOf a)) (.h (BridgeC09C04.hintOf b)) = some (!hintClash a b) :=
  BridgeC09C04.clash_is_C04

/-- hand-wired flows (`starting_nodes` and run signals given by the creator): the surviving UI nodes become
the starting nodes and the creator's starting node waits for ALL of them (`n << ui_nodes`), so the chain is
entered once — the run IS `run`, and `C09_inline` & co. cover it, with zero, one or many surviving UI nodes -/
theorem C09_wired_start_once (n : Node) (σ : St) : runWired .allOf n σ = run n σ :=
  runWired_allOf n σ

/-- two forked parameters, a hand-wired chain whose first child feeds itself (`c0.a = c0.o`): not idempotent -/
def exWired : Node :=
  .mac [⟨.c 1, 0⟩, ⟨.c 2, 0⟩]
    [.leaf 0 [.out 0 0, .arg 0, .arg 1], .leaf 1 [.out 0 0, .arg 0, .arg 1]] [.out 1 0] [0] []

/-- … were every UI node to trigger the starting node on its own (`ui >> n`), the two surviving UI nodes
would enter the chain twice and the self-feeding child would show it in the macro's output -/
theorem C09_wired_anyOf_witness :
    keptCount [.leaf 0 [.out 0 0, .arg 0, .arg 1], .leaf 1 [.out 0 0, .arg 0, .arg 1]] [.out 1 0] 2 = 2 ∧
    (runWired .allOf exWired (build exWired)).map (fun σ => σ.get .out 0) =
      some (.app 1 [.app 0 [.c 0, .c 1, .c 2], .c 1, .c 2]) ∧
    (runWired .anyOf exWired (build exWired)).map (fun σ => σ.get .out 0) =
      some (.app 1 [.app 0 [.app 0 [.c 0, .c 1, .c 2], .c 1, .c 2], .c 1, .c 2]) := by
  decide

/-- output labels scraped from the creator's return statement (on C17's `parseOutput`): a returned LOCAL
variable — any dot-free expression text — is labelled by its own text whatever the first parameter is
called, also when its name starts with that name (`m` / `mean`, `self` / `selfish`); `<first>.<name>` is
labelled `<name>` -/
theorem C09_scraped_label_rule (selfArg label name : String) :
    ('.' ∉ label.toList → MacroLabels.strip selfArg label = label) ∧
    MacroLabels.strip selfArg (selfArg ++ "." ++ name) = name :=
  ⟨MacroLabels.strip_local selfArg label, MacroLabels.strip_attr selfArg name⟩

/-- `def M(m, x): …; mean = m.c1; return mean, m.c0` declares `mean`, `c0`; with the dot read as a wildcard
it would be `an`, `c0` -/
example : (MacroLabels.scrapedLabels "m" [.value (.tuple ["mean", "m.c0"])]).toOption = some (some ["mean", "c0"]) ∧
    MacroLabels.stripWild "m" "mean" = "an" ∧
    (MacroLabels.scrapedLabels "m" [.value (.single "m.c1.outputs.o")]).toOption = none := by decide

/-- `    return ε_applied, total`: the ast reports the elements at BYTE columns 11–21 and 23–28 (`ε` is two
bytes). Cut as bytes the texts are the returned names; the same numbers used as character positions give
`ε_applied,` and `otal` -/
theorem C09_label_slice_utf8_witness :
    String.ofList (MacroLabels.cutBytes "    return ε_applied, total".toList 0 11 21) = "ε_applied" ∧
    String.ofList (MacroLabels.cutBytes "    return ε_applied, total".toList 0 23 28) = "total" ∧
    String.ofList (MacroLabels.cutChars "    return ε_applied, total".toList 11 21) = "ε_applied," ∧
    String.ofList (MacroLabels.cutChars "    return ε_applied, total".toList 23 28) = "otal" := by
  decide

/-! ## (b) by-value synchronisation -/

/-- after construction, after every assignment to a macro input, after every run and after every
direct assignment to the output of a leaf child (`Reach`), at every nesting depth: each macro input holds the value of the channel it is linked to (`Inv`), each macro
output holds the value of the returned channel it is linked to (`OutSync`) -/
theorem C09_links_sync_partial (n : Node) (σ : St) (hwf : WF n) (hnd : NoDupH n) (h : Reach n σ) :
    Inv true n σ ∧ OutSync n σ :=
  reach_inv n hwf hnd σ h

/-- a child-level update on the sending side — the output of a leaf child anywhere below the macro
assigned directly — is pushed up through every macro that returns it and keeps every link -/
theorem C09_child_output_sync (n : Node) (σ : St) (p : Path) (o : Nat) (v : Val) (hwf : WF n) (hnd : NoDupH n)
    (h : Reach n σ) (hleaf : ∃ f s, nodeAt n p = some (.leaf f s)) :
    Inv true n (setOutAt n σ p o v).1 ∧ OutSync n (setOutAt n σ p o v).1 :=
  C09_links_sync_partial n _ hwf hnd (Reach.setOutLeaf p o v h hleaf)

/-- the output of a UI node assigned directly (sending end of a pass-through link), at any depth: pushed to
the macro output linked to it and further up; every link stays in place -/
theorem C09_ui_output_sync (n : Node) (σ : St) (p : Path) (k : Nat) (v : Val) (hwf : WF n) (hnd : NoDupH n)
    (h : Reach n σ) (hmac : ∃ a b r oh s, nodeAt n p = some (.mac a b r oh s)) :
    Inv true n (setUiOutAt n σ p k v).1 ∧ OutSync n (setUiOutAt n σ p k v).1 :=
  C09_links_sync_partial n _ hwf hnd (Reach.setUiOut p k v h hmac)

/-- `Inv` read at one macro: the input of a parameter used many times or passed through equals the
input of its UI node; the input of a single-use parameter equals the input of its only consumer
(zero, one, many uses — `link` is the purge rule) -/
theorem C09_links_read {h : Bool} {args body rets oh s} {σ : St} (hinv : Inv h (.mac args body rets oh s) σ)
    (k : Nat) (hk : k < args.length) :
    match link body rets k with
    | .ui => σ.get .uiIn k = σ.get .inp k
    | .child j i => (σ.sub j).get .inp i = σ.get .inp k
    | .gone => True :=
  inv_link hinv k hk

/-- a single forwarding assignment keeps all input links, whatever the state was (no hypothesis on
the definition): the invariant of the forwarding setter -/
theorem C09_setter_keeps_links (h : Bool) (n : Node) (σ : St) (k : Nat) (v : Val) (hinv : Inv h n σ)
    (hout : OutSync n σ) : Inv h n (setIn n σ k v) ∧ OutSync n (setIn n σ k v) :=
  ⟨setIn_inv h n σ k v hinv, setIn_outSync n σ k v hout⟩

/-- a macro with one single-use parameter -/
def wRecv : Node := .mac [⟨.c 1, 0⟩] [.leaf 0 [.arg 0, .none, .none]] [.out 0 0] [0] []

/-- an assignment to a macro input reaches EVERY channel down its chain of value links (the UI node's
input, or the single consumer's input and, if that is a nested macro, its chain …) from ANY state — no
invariant is assumed: it makes no difference what the receiving ends held before or whether the macro
input already held `v` -/
theorem C09_assignment_reaches_chain (n : Node) (σ : St) (k : Nat) (v : Val) : Holds v n (setIn n σ k v) k :=
  setIn_holds n σ k v

/-- in particular re-assigning the value the macro input already holds repairs a link that an update on
its receiving end had broken -/
theorem C09_reassign_repairs (n : Node) (σ : St) (k : Nat) :
    Holds (σ.get .inp k) n (setIn n σ k (σ.get .inp k)) k :=
  setIn_holds n σ k (σ.get .inp k)

/-- the one-directional-link witness, continued: the child input was overwritten (`c7`), the macro input
still holds `c1`; assigning `c1` again puts `c1` back on the child input -/
example : ((setIn wRecv (setInAt wRecv (build wRecv) [0] 0 (.c 7)) 0 (.c 1)).sub 0).get .inp 0 = .c 1 := by decide

/-- an assignment that is REFUSED anywhere down the chain of value links — by the hint of the consumer
one or more levels down, or because a node on the chain is marked running (`lk`) — changes no channel at
all: the setter forwards before it stores (`pushIn false`); an accepted one is the forwarding setter -/
theorem C09_refused_write_all_or_nothing (lk : Path → Bool) (p : Path) (n : Node) (σ : St) (k : Nat) (v : Val) :
    ((pushIn false lk p n σ k v).2 = false → (pushIn false lk p n σ k v).1 = σ) ∧
    ((pushIn false lk p n σ k v).2 = true → (pushIn false lk p n σ k v).1 = setIn n σ k v) :=
  ⟨pushIn_refused lk p n σ k v, pushIn_accepted lk p n σ k v⟩

/-- unhinted parameter, single consumer = a nested macro whose parameter is hinted `str | tuple`, which
itself feeds one leaf: the refusal comes from one level down -/
def exRefuse : Node :=
  .mac [⟨.c 1, 0⟩] [.mac [⟨.nd, 1⟩] [.leaf 0 [.arg 0, .none, .none]] [.out 0 0] [0] [.arg 0]] [.out 0 0] [0] []

/-- assigning the int `i7` is refused and nothing changes; were the setter to store before it forwards,
the macro input would show `i7` while the chain below still holds `c1`; the same with a locked leaf two
levels down -/
theorem C09_store_first_witness :
    (pushIn false (fun _ => false) [] exRefuse (build exRefuse) 0 (.c 1007)).2 = false ∧
    ((pushIn false (fun _ => false) [] exRefuse (build exRefuse) 0 (.c 1007)).1.get .inp 0 = .c 1) ∧
    (pushIn true (fun _ => false) [] exRefuse (build exRefuse) 0 (.c 1007)).2 = false ∧
    ((pushIn true (fun _ => false) [] exRefuse (build exRefuse) 0 (.c 1007)).1.get .inp 0 = .c 1007) ∧
    (((pushIn true (fun _ => false) [] exRefuse (build exRefuse) 0 (.c 1007)).1.sub 0).get .inp 0 = .c 1) ∧
    (pushIn false (fun q => q == [0, 0]) [] exRefuse (build exRefuse) 0 (.c 5)).2 = false ∧
    ((pushIn true (fun q => q == [0, 0]) [] exRefuse (build exRefuse) 0 (.c 5)).1.get .inp 0 = .c 5) := by
  decide

/-- replacing a child inside a macro (`replace_child`, `replace_with`, `macro.label = Class`): the
replacement takes the replaced node's keyword arguments, connections, values and label. Every macro input
is linked to the same (child, input) position as before — whatever labels the siblings share, however many
parameters are value-linked — and on the very same channel values the synchronisation invariant holds for
the new definition; hence (`C09_inline`) the next run gives the plain composition of the NEW body -/
theorem C09_replace_keeps_links (h : Bool) (args : List Arg) (body : List Node) (rets : List Ret) (oh : List Nat)
    (s : List Src) (j g : Nat) (σ : St) :
    (∀ k, link (setF body j g) rets k = link body rets k) ∧
    (Inv h (.mac args (setF body j g) rets oh s) σ ↔ Inv h (.mac args body rets oh s) σ) :=
  ⟨fun k => link_setF body rets j g k, inv_setF h args body rets oh s j g σ⟩

/-- two tracks `c0 = F0(a=x0)`, `c1 = F1(a=x1)`, both parameters single-use, both consumers' input labelled `a` -/
def exTracks : Node :=
  .mac [⟨.c 1, 0⟩, ⟨.c 2, 0⟩] [.leaf 0 [.arg 0, .none, .none], .leaf 1 [.arg 1, .none, .none]]
    [.out 0 0, .out 1 0] [0, 0] []

/-- matching the links to hand over by LABEL instead of identity (not the code): replacing `c0` steals the
sibling's parameter — `x1` then forwards to `c0.a`, `c1.a` is linked to nothing — while the real rule
leaves `x1 → c1.a` -/
theorem C09_replace_by_label_witness :
    link (setF [.leaf 0 [.arg 0, .none, .none], .leaf 1 [.arg 1, .none, .none]] 0 5) [.out 0 0, .out 1 0] 1
      = .child 1 0 ∧
    link (stealByLabel [.leaf 0 [.arg 0, .none, .none], .leaf 1 [.arg 1, .none, .none]] [.out 0 0, .out 1 0] 0 2)
      [.out 0 0, .out 1 0] 1 = .child 0 0 := by
  decide

/-- "whichever side is updated", read literally: also an assignment to a child-level input keeps
every link -/
def C09_links_sync_Statement : Prop :=
  ∀ (n : Node) (σ : St) (p : Path) (k : Nat) (v : Val), WF n → NoDupH n → Reach n σ →
    Inv false n (setInAt n σ p k v)

/-- the pinned behaviour: links are one-directional. After `m.c0.inputs.a = c7` the macro input still
holds its old value `c1` -/
theorem C09_links_sync_receiving_witness :
    (setInAt wRecv (build wRecv) [0] 0 (.c 7)).get .inp 0 = .c 1 ∧
    ((setInAt wRecv (build wRecv) [0] 0 (.c 7)).sub 0).get .inp 0 = .c 7 ∧
    link [.leaf 0 [.arg 0, .none, .none]] [.out 0 0] 0 = .child 0 0 := by
  decide

theorem wRecv_wf : WF wRecv := wfb_sound _ (by decide)

theorem wRecv_nodup : NoDupH wRecv := by simp [wRecv, NoDupH, NoDupHB]

theorem C09_links_sync_not_statement : ¬ C09_links_sync_Statement := by
  intro hs
  have h := hs wRecv (build wRecv) [0] 0 (.c 7) wRecv_wf wRecv_nodup Reach.build
  have hl := C09_links_read h 0 (by decide)
  obtain ⟨h1, h2, h3⟩ := C09_links_sync_receiving_witness
  rw [h3] at hl
  simp only at hl
  rw [h1, h2] at hl
  cases hl

/-! ## the same channel returned twice -/

/-- the full statement of (a), for every definition that can be instantiated under `cfg` -/
def C09_inline_Statement (cfg : Cfg) : Prop :=
  ∀ (n : Node) (σ : St), buildErr cfg n = false → WF n → Reach n σ →
    (∀ i, i < n.arity → σ.get .inp i ≠ .nd) →
    ∃ σ', run n σ = some σ' ∧ ∀ o, o < n.nout → σ'.get .out o = denote n (σ.get .inp) o

/-- with the proposed repair (a creator returning one channel twice is refused) it holds -/
theorem C09_dup_return_repaired : C09_inline_Statement Cfg.repaired := by
  intro n σ hb hwf hr hin
  obtain ⟨σ', h1, _, _, h4⟩ := C09_inline_history n σ hwf (buildErr_repaired_nodup n hb) hr hin
  exact ⟨σ', h1, h4⟩

/-- `return self.c0, self.c0` under two labels -/
def wDup : Node := .mac [⟨.c 1, 0⟩] [.leaf 0 [.arg 0, .none, .none]] [.out 0 0, .out 0 0] [0, 0] []

/-- pinned: the macro is built, runs without error, and its FIRST output stays `NOT_DATA` although
the channel it stands for holds `f0(c1,d,d)` (a channel has a single `value_receiver`) -/
theorem C09_dup_return_values :
    buildErr Cfg.pinned wDup = false ∧
    (run wDup (build wDup)).map (fun σ => (σ.get .out 0, σ.get .out 1, (σ.sub 0).get .out 0)) =
      some (.nd, .app 0 [.c 1, .c 0, .c 0], .app 0 [.c 1, .c 0, .c 0]) ∧
    denote wDup ((build wDup).get .inp) 0 = .app 0 [.c 1, .c 0, .c 0] := by
  decide

theorem wDup_wf : WF wDup := wfb_sound _ (by decide)

theorem C09_dup_return_witness : ¬ C09_inline_Statement Cfg.pinned := by
  intro hs
  obtain ⟨hb, hrun, hden⟩ := C09_dup_return_values
  obtain ⟨σ', h1, h2⟩ := hs wDup (build wDup) hb wDup_wf Reach.build (by
    intro i hi
    have : i = 0 := by simp [wDup, Node.arity] at hi; omega
    subst this
    decide)
  have h0 := h2 0 (by decide)
  rw [h1] at hrun
  simp only [Option.map_some, Option.some.injEq, Prod.mk.injEq] at hrun
  rw [hrun.1, hden] at h0
  cases h0

/-! ## (c) isolation and interface -/

/-- every data connection of a child's inputs (after construction) ends at a sibling: the UI node of
a parameter that was KEPT, or an output of an earlier child — never at the macro's own channels or at
a purged UI node -/
theorem C09_isolated (na : Nat) (nouts : Nat → Nat) (kp : Nat → Bool) (ns : List Node) (j0 t : Nat) (n : Node)
    (hwf : WFBody na nouts ns j0) (hn : ns[t]? = some n) (i : Nat) (p : Peer)
    (h : (i, p) ∈ kidConns kp n.srcs 0) :
    match p with
    | .ui k => kp k = true ∧ k < na
    | .kid j o => j < j0 + t ∧ o < nouts j := by
  obtain ⟨_, _, _, hs⟩ := wfBody_get na nouts ns j0 t n hwf hn
  obtain ⟨_, hp⟩ := mem_kidConns kp n.srcs 0 i p h
  cases p with
  | ui k =>
    simp only [PeerOk] at hp
    exact ⟨hp.1, by simpa [SrcWF] using hs i _ hp.2⟩
  | kid j o =>
    simp only [PeerOk] at hp
    simpa [SrcWF] using hs i _ hp

/-- a freshly built macro shows the signature: every input holds its declared default (`nd` when
there is none), every output holds `NOT_DATA`; the hints are those of the definition by construction
(`Node.ihint`, `Node.ohint` read them off the signature) -/
theorem C09_interface (args : List Arg) (body : List Node) (rets : List Ret) (oh : List Nat) (s : List Src) :
    (∀ k, k < args.length → (build (.mac args body rets oh s)).get .inp k = (args.getD k ⟨.nd, 0⟩).dflt) ∧
    (∀ o, (build (.mac args body rets oh s)).get .out o = .nd) ∧
    (∀ k, (Node.mac args body rets oh s).ihint k = (args.getD k ⟨.nd, 0⟩).hint) ∧
    (∀ o, (Node.mac args body rets oh s).ohint o = oh.getD o 0) := by
  refine ⟨?_, ?_, fun _ => rfl, fun _ => rfl⟩
  · intro k hk; rw [build_root]; simp [hk]
  · intro o; rw [build_root]; simp

/-- class inheritance (`class B(A)` overriding `graph_creator`, chains of any length, any table of
classes): after ANY history of preview requests on any classes in any order, the output labels a class
reports are those of ITS OWN defining function — the nearest `graph_creator` in its chain — unless labels
were given explicitly in the class or in a class it extends (ordinary attribute inheritance). Current
tree (3b85419). -/
theorem C09_preview_own_function (cs : Preview.Classes) (fuel : Nat) (reqs : List Nat) :
    Preview.runReqs (Preview.getRepaired cs fuel) Preview.Cache.empty reqs = reqs.map (Preview.spec cs fuel) :=
  Preview.runReqs_repaired cs fuel _ (Preview.good_empty cs) reqs

/-- class 1 extends class 0 and overrides the creator (function 11 returning two things instead of
function 10 returning one); nothing is declared -/
def exClasses : Preview.Classes :=
  { parent := fun c => if c = 1 then some 0 else none,
    ownFn := fun c => if c = 0 then some 10 else if c = 1 then some 11 else none,
    declared := fun _ => none,
    scrape := fun f => if f = 10 then [0] else if f = 11 then [1, 2] else [],
    rootFn := 0 }

/-- the pinned behaviour (KF-C09-3): once the parent was previewed, the child reports the parent's labels;
asked in the other order both are right -/
theorem C09_preview_pinned_witness :
    Preview.runReqs (Preview.getPinned exClasses 2) Preview.Cache.empty [0, 1] = [[0], [0]] ∧
    Preview.runReqs (Preview.getPinned exClasses 2) Preview.Cache.empty [1, 0] = [[1, 2], [0]] ∧
    Preview.runReqs (Preview.getRepaired exClasses 2) Preview.Cache.empty [0, 1] = [[0], [1, 2]] := by
  decide

/-- creators with the same bare name (closure families, two set-up functions each defining `Model`):
the wrapper evicts the registry entry under the very key the factory uses, so after ANY history of class
creations every class is built from ITS OWN creator — signature, defaults, hints, labels and body -/
theorem C09_factory_fresh_class (key : Nat → Nat) (reg : Nat → Option Nat) (cs : List Nat) :
    Preview.runMakes key key reg cs = cs :=
  Preview.runMakes_own key reg cs

/-- evicting under another key (the qualified name) while the registry is keyed by the bare name: the
second creator of that name gets the class of the first -/
theorem C09_factory_stale_witness :
    Preview.runMakes (fun c => 100 + c) (fun _ => 7) (fun _ => none) [1, 2, 1] = [1, 1, 1] ∧
    Preview.runMakes (fun _ => 7) (fun _ => 7) (fun _ => none) [1, 2, 1] = [1, 2, 1] := by
  decide

/-- a keyword argument at construction or a later assignment replaces the default by value -/
theorem C09_input_by_value (n : Node) (σ : St) (k k' : Nat) (v : Val) :
    (setIn n σ k v).get .inp k' = if k' = k then v else σ.get .inp k' :=
  setIn_get_inp n σ k k' v

/-- a parameter that no child uses and that is not returned (`link = gone`): it is accepted, its UI node
is purged, and
* on the current tree the macro input is linked to NOTHING (`Cfg.repaired`; pinned: it stayed linked to the
  removed node — a link that could not be restored from storage, C07's subject),
* assigning it changes the macro input alone — no channel of any child or UI node,
* its value does not matter for any output -/
theorem C09_unused_argument {args body rets oh s} {k : Nat} (h : link body rets k = .gone) :
    receiverOf Cfg.repaired body rets k = .none ∧ receiverOf Cfg.pinned body rets k = .orphan ∧
    (∀ (σ : St) (v : Val), setIn (.mac args body rets oh s) σ k v = σ.set .inp k v) ∧
    (∀ a a' : Nat → Val, (∀ k', k' ≠ k → a k' = a' k') →
      denote (.mac args body rets oh s) a = denote (.mac args body rets oh s) a') := by
  refine ⟨by simp [receiverOf, h, Cfg.repaired], by simp [receiverOf, h, Cfg.pinned],
    fun σ v => setIn_gone h σ v, fun a a' hag => denote_unused h a a' hag⟩

/-- `def M(self, x0, x1='c2'): self.c0 = F0(a=x0); return self.c0` — `x1` is unused -/
def exUnused : Node := .mac [⟨.nd, 0⟩, ⟨.c 2, 0⟩] [.leaf 0 [.arg 0, .none, .none]] [.out 0 0] [0] []

example : link [.leaf 0 [.arg 0, .none, .none]] [.out 0 0] 1 = .gone ∧
    buildErr Cfg.repaired exUnused = false ∧ buildErr Cfg.pinned exUnused = false ∧
    (run exUnused (setIn exUnused (setIn exUnused (build exUnused) 0 (.c 1)) 1 (.c 9))).map (fun σ => σ.get .out 0)
      = (run exUnused (setIn exUnused (build exUnused) 0 (.c 1))).map (fun σ => σ.get .out 0) := by decide

/-- the macro input's hint is compared with the consumer's hint only when the parameter is used
exactly once (then the UI node is purged and the macro input is linked to the consumer directly):
the same ill-typed feed `x: object → inner(x: str|tuple)` is refused single-use and accepted forked -/
theorem C09_hint_checked_only_when_single_use :
    buildErr Cfg.pinned
      (.mac [⟨.c 1, 3⟩] [.mac [⟨.nd, 1⟩] [.leaf 0 [.arg 0, .none, .none]] [.out 0 0] [0] [.arg 0]]
        [.out 0 0] [0] []) = true ∧
    buildErr Cfg.pinned
      (.mac [⟨.c 1, 3⟩] [.mac [⟨.nd, 1⟩] [.leaf 0 [.arg 0, .none, .none]] [.out 0 0] [0] [.arg 0],
                          .leaf 1 [.arg 0, .none, .none]]
        [.out 0 0, .out 1 0] [0, 0] []) = false := by
  decide

/-! ## Non-vacuity: three levels, fan-out at every level, pass-through, single-use into a nested macro -/

def exInner : Node :=
  .mac [⟨.nd, 0⟩] [.leaf 0 [.arg 0, .none, .none], .leaf 1 [.arg 0, .out 0 0, .none]] [.out 1 0] [0] [.arg 0]

def exMid : Node :=
  .mac [⟨.nd, 0⟩, ⟨.c 3, 0⟩] [exInner, .leaf 2 [.out 0 0, .arg 0, .arg 1]] [.out 1 0, .arg 1] [0, 0]
    [.out 0 0, .none]

def exTop : Node :=
  .mac [⟨.nd, 0⟩] [.leaf 3 [.arg 0, .none, .none], exMid, .leaf 4 [.out 1 0, .out 1 1, .none]] [.out 2 0] [0] []

/-- a nested macro loaded in place whose inputs stay linked to the DISCARDED children (KF-C09-4): an
assignment arriving at the nested macro's input stops there. On `exRefuse` (outer parameter → nested macro's
single-use parameter → leaf): assigned without forwarding the link is broken — the nested input shows `c7`,
its consumer still `c1` —, assigned through the setter it holds -/
theorem C09_inplace_load_witness :
    (((build exRefuse).modAt [0] (fun τ => τ.set .inp 0 (.c 7))).atPath [0]).get .inp 0 = .c 7 ∧
    (((build exRefuse).modAt [0] (fun τ => τ.set .inp 0 (.c 7))).atPath [0, 0]).get .inp 0 = .c 1 ∧
    ((setInAt exRefuse (build exRefuse) [0] 0 (.c 7)).atPath [0, 0]).get .inp 0 = .c 7 := by
  decide

example : buildErr Cfg.pinned exTop = false ∧ buildErr Cfg.repaired exTop = false := by decide

example : (run exTop (setIn exTop (build exTop) 0 (.c 1))).map (fun σ => σ.get .out 0) =
    some (denote exTop (fun _ => .c 1) 0) := by decide

example : denote exTop (fun _ => .c 1) 0 =
    .app 4 [.app 2 [.app 1 [.app 3 [.c 1, .c 0, .c 0], .app 0 [.app 3 [.c 1, .c 0, .c 0], .c 0, .c 0], .c 0],
              .app 3 [.c 1, .c 0, .c 0], .c 3], .c 3, .c 0] := by decide

/-- the hypotheses of the theorems are satisfiable by this definition: it is well-formed and closed … -/
example : WF exTop := wfb_sound _ (by decide)

example : NoDupH exTop := by simp [exTop, exMid, exInner, NoDupH, NoDupHB]

/-- … and the reachable state "built, input assigned, run, input changed" exists -/
example : ∃ σ1, run exTop (setIn exTop (build exTop) 0 (.c 1)) = some σ1 ∧
    Reach exTop (setIn exTop σ1 0 (.c 2)) := by
  obtain ⟨σ1, h⟩ : ∃ σ1, run exTop (setIn exTop (build exTop) 0 (.c 1)) = some σ1 := by
    cases hr : run exTop (setIn exTop (build exTop) 0 (.c 1)) with
    | some σ1 => exact ⟨σ1, rfl⟩
    | none =>
      have : (run exTop (setIn exTop (build exTop) 0 (.c 1))).isSome = true := by decide
      rw [hr] at this; cases this
  exact ⟨σ1, h, Reach.setIn 0 (.c 2) (Reach.run (Reach.setIn 0 (.c 1) Reach.build) h)⟩

/-- a child-level update three levels down: the innermost `c1.outputs.o = c9` reaches the output of the
innermost macro, which the middle macro does not return — it stops there -/
example : ((setOutAt exTop (build exTop) [1, 0, 1] 0 (.c 9)).1.atPath [1, 0]).get .out 0 = .c 9 ∧
    (setOutAt exTop (build exTop) [1, 0, 1] 0 (.c 9)).2 = none ∧
    (match nodeAt exTop [1, 0, 1] with | some (.leaf 1 _) => true | _ => false) = true := by decide

/-- pass-through three levels down: `exMid` returns its parameter 1; assigning that UI node's output
reaches `exMid`'s second output -/
example : ((setUiOutAt exTop (build exTop) [1] 1 (.c 9)).1.atPath [1]).get .out 1 = .c 9 := by decide

/-- the links of the three-level example right after construction: the top parameter is single-use
(linked to `c0.a`), the middle macro keeps both UI nodes (fan-out, pass-through), the innermost keeps
its UI node (two uses) -/
example : link [.leaf 3 [.arg 0, .none, .none], exMid, .leaf 4 [.out 1 0, .out 1 1, .none]] [.out 2 0] 0
    = .child 0 0 := by decide

end PwVerif.C09

#print axioms PwVerif.C09.C09_inline
#print axioms PwVerif.C09.C09_inline_history
#print axioms PwVerif.C09.C09_flatten
#print axioms PwVerif.C09.C09_inline_any_schedule
#print axioms PwVerif.C09.C09_run_eq_any_schedule
#print axioms PwVerif.C09.C09_refused_run
#print axioms PwVerif.C09.C09_hint_chain_is_C04
#print axioms PwVerif.C09.C09_wired_start_once
#print axioms PwVerif.C09.C09_wired_anyOf_witness
#print axioms PwVerif.C09.C09_label_slice_utf8_witness
#print axioms PwVerif.C09.C09_scraped_label_rule
#print axioms PwVerif.C09.C09_macro_eq_inlined
#print axioms PwVerif.C09.C09_by_value_rerun
#print axioms PwVerif.C09.C09_links_sync_partial
#print axioms PwVerif.C09.C09_child_output_sync
#print axioms PwVerif.C09.C09_ui_output_sync
#print axioms PwVerif.C09.C09_links_read
#print axioms PwVerif.C09.C09_setter_keeps_links
#print axioms PwVerif.C09.C09_assignment_reaches_chain
#print axioms PwVerif.C09.C09_reassign_repairs
#print axioms PwVerif.C09.C09_refused_write_all_or_nothing
#print axioms PwVerif.C09.C09_store_first_witness
#print axioms PwVerif.C09.C09_factory_fresh_class
#print axioms PwVerif.C09.C09_factory_stale_witness
#print axioms PwVerif.C09.C09_replace_keeps_links
#print axioms PwVerif.C09.C09_replace_by_label_witness
#print axioms PwVerif.C09.C09_inplace_load_witness
#print axioms PwVerif.C09.C09_links_sync_receiving_witness
#print axioms PwVerif.C09.C09_links_sync_not_statement
#print axioms PwVerif.C09.C09_dup_return_repaired
#print axioms PwVerif.C09.C09_dup_return_values
#print axioms PwVerif.C09.C09_dup_return_witness
#print axioms PwVerif.C09.C09_isolated
#print axioms PwVerif.C09.C09_interface
#print axioms PwVerif.C09.C09_preview_own_function
#print axioms PwVerif.C09.C09_preview_pinned_witness
#print axioms PwVerif.C09.C09_input_by_value
#print axioms PwVerif.C09.C09_unused_argument
#print axioms PwVerif.C09.C09_hint_checked_only_when_single_use
