import PwVerif.Proofs.Storage
import PwVerif.Proofs.StorageTree
/-!
# C19 — A failed or interrupted save never costs the last good save or poisons loading

"If saving a graph fails or is interrupted at any point, the previously saved file for that graph
is still there and loads to the previous state, and no partial file is left where loading or
automatic loading would pick it up. A successful save is what the next load returns, deleting
storage removes the files and any directory it emptied, and loading into a node of a different
class is refused without altering that node."

Quantified over every history of: successful saves (`save ok`, `save pickleFails` = lands as
`.cpckl`), failing saves (`save bothFail`), saves interrupted after any number `k` of file-system
steps (`crash c v k`, incl. mid-write = `torn` file), loads, auto-loads at construction
(`reopen`), deletions, loads into a foreign class.

The model has a switch `Cfg.saveMode`: `inPlace` is the pinned code (`open(p, "wb")` truncates
the target), `atomicReplace` the repaired code (write `p.tmp`, `os.replace`, remove the other
suffix; this is what /repo does since `afb726d`).  The full statements are proved for
`atomicReplace`; for `inPlace` they are FALSE (machine-checked witnesses below) and hold under
explicit hypotheses (`_partial`).  A second switch `Cfg.sweep` says whether `delete` reaches
`_delete` also when only a leftover of an interrupted save exists (the tree as it is since
`1e4658d`: `Cfg.current = ⟨atomicReplace, true⟩`) or only when `_has_saved_content` (before:
`Cfg.unswept = ⟨atomicReplace, false⟩`); the durability theorems hold for both values, the full
delete statement only with `sweep` (witness `C19_delete_leftover_witness`).

Classes are `Cls` (identity of the class object, module+qualname, ancestors); the class-check
theorem is stated over the relation `classify saved loader : ClassRel`.

Only property theorems live here; lemmas are in `Proofs/Storage.lean`.
-/
namespace PwVerif.C19
open PwVerif.Storage

/-! ## Clause 1+2 over histories: durability -/

/-- If some save completed and no delete followed, loading (into the live node, by `Node.load`)
succeeds — never an error, never a torn file — and yields the newest completed save, or the
version of a save interrupted after it that was nevertheless fully written. -/
def C19Statement (cfg : Cfg) : Prop :=
  ∀ (cls : Cls) (ops : List Op) (v : Nat), (promise .init ops).last = some v →
    ∃ v', nodeLoad (run cfg (.init cls) ops).node (run cfg (.init cls) ops).fs = (⟨cls, v'⟩, .loaded v') ∧
      (v' = v ∨ v' ∈ (promise .init ops).inflight)

/-- Whatever happened (also when no save ever completed): the file `_load` / auto-load selects is
never an empty or torn one. -/
def C19NoPoisonStatement (cfg : Cfg) : Prop :=
  ∀ (cls : Cls) (ops : List Op), storageLoad (run cfg (.init cls) ops).fs ≠ .corrupt

theorem C19_durable (sw : Bool) : C19Statement ⟨.atomicReplace, sw⟩ := by
  intro cls ops v hv
  have h := sel_run_atomic sw (.init cls) .init ops (sel_init cls)
  have hc := run_cls ⟨.atomicReplace, sw⟩ (.init cls) ops
  simp only [World.init] at h hc
  unfold Sel at h
  rw [hv] at h
  obtain ⟨v', hl, hv'⟩ := h
  refine ⟨v', ?_, hv'⟩
  have := nodeLoad_ok (run ⟨.atomicReplace, sw⟩ (.init cls) ops).node (run ⟨.atomicReplace, sw⟩ (.init cls) ops).fs v'
    (by simp only [World.init]; rw [hc]; exact hl)
  simp only [World.init] at this ⊢
  rw [this, hc]

theorem C19_no_poison (sw : Bool) : C19NoPoisonStatement ⟨.atomicReplace, sw⟩ := by
  intro cls ops
  have h := sel_run_atomic sw (.init cls) .init ops (sel_init cls)
  unfold Sel at h
  intro hc
  rw [hc] at h
  split at h
  · obtain ⟨_, h, _⟩ := h; cases h
  · rcases h with h | ⟨_, h, _⟩ <;> cases h

/-- ... and constructing a new graph object with the same label (auto-load) adopts that state -/
theorem C19_autoload_durable (sw : Bool) (cls : Cls) (ops : List Op) (v : Nat)
    (hv : (promise .init ops).last = some v) :
    ∃ v', step ⟨.atomicReplace, sw⟩ (run ⟨.atomicReplace, sw⟩ (.init cls) ops) .reopen =
        ({ fs := (run ⟨.atomicReplace, sw⟩ (.init cls) ops).fs, node := ⟨cls, v'⟩ }, .load (.loaded v')) ∧
      (v' = v ∨ v' ∈ (promise .init ops).inflight) := by
  have h := sel_run_atomic sw (.init cls) .init ops (sel_init cls)
  have hc := run_cls ⟨.atomicReplace, sw⟩ (.init cls) ops
  simp only [World.init] at h hc
  unfold Sel at h
  rw [hv] at h
  obtain ⟨v', hl, hv'⟩ := h
  refine ⟨v', ?_, hv'⟩
  simp only [World.init, step, autoAttempt, storageLoad_ok_hasSaved _ _ _ hl, if_true, hc]
  rw [nodeLoad_ok ⟨cls, 0⟩ _ v' hl]

/-! ## Clause 1, one save at a time (any starting file system) -/

/-- a save that fails -- under both picklers, or under `pickle` alone when it was asked for with the per-call flag
`cloudpickle_fallback=False`, or because the node is not import-ready under that flag -- leaves both save files exactly
as they were (in particular a good `.cpckl` survives a failing no-fallback save: seeded change C19-5) -/
theorem C19_failed_save_keeps (sw : Bool) (fs : FS) (c : Content) (hf : c.fails = true) (cls : Cls) (v : Nat) :
    (saveFS ⟨.atomicReplace, sw⟩ fs c cls v).pckl = fs.pckl ∧
      (saveFS ⟨.atomicReplace, sw⟩ fs c cls v).cpckl = fs.cpckl :=
  save_bothFail_files_atomic sw fs c hf cls v

/-- ... and so does every prefix of it (the save interrupted at any call) -/
theorem C19_failed_save_interrupted_keeps (sw : Bool) (fs : FS) (c : Content) (hf : c.fails = true) (cls : Cls) (v k : Nat) :
    (crashFS ⟨.atomicReplace, sw⟩ fs c cls v k).pckl = fs.pckl ∧
      (crashFS ⟨.atomicReplace, sw⟩ fs c cls v k).cpckl = fs.cpckl :=
  crash_bothFail_files_atomic sw fs c hf cls v k

/-- the per-call flag on the reading side: `load(cloudpickle_fallback=False)` looks at `.pckl` only; whatever it
returns is what the unrestricted load returns, and it finds nothing exactly when no `.pckl` file exists -/
theorem C19_restricted_load_agrees (fs : FS) (c : Cls) (v : Nat) (h : storageLoadF false fs = .ok c v) :
    storageLoad fs = .ok c v ∧ storageLoadF true fs = .ok c v := by
  obtain ⟨d, p, q, pt, ct⟩ := fs
  cases p <;> simp_all [storageLoadF, storageLoad]

theorem C19_restricted_flag_true_is_default (fs : FS) :
    storageLoadF true fs = storageLoad fs ∧ hasSavedF true fs = hasSaved fs ∧
      (storageLoadF false fs = .notFound ↔ hasSavedF false fs = false) := by
  obtain ⟨d, p, q, pt, ct⟩ := fs
  cases p <;> simp [storageLoadF, storageLoad, hasSavedF, hasSaved]

/-- a save interrupted after any number of steps: loading selects what it selected before, or
the new version fully written -/
theorem C19_interrupted_save_keeps (sw : Bool) (fs : FS) (c : Content) (cls : Cls) (v k : Nat) :
    storageLoad (crashFS ⟨.atomicReplace, sw⟩ fs c cls v k) = storageLoad fs ∨
      (c.fails = false ∧ storageLoad (crashFS ⟨.atomicReplace, sw⟩ fs c cls v k) = .ok cls v) :=
  crash_sel_atomic sw fs c cls v k

/-! ## The pinned code (`inPlace`): counter-witnesses and partial theorems -/

/-- P11: a good save, then a save whose content neither pickler can serialise: the good file is
unlinked, the directory removed, load raises `FileNotFoundError`. -/
theorem C19_inplace_witness_failed_save : ¬ C19Statement ⟨.inPlace, false⟩ := by
  intro h
  obtain ⟨v', hl, _⟩ := h Cls.graph [.save .ok 1, .save .bothFail 2] 1 (by decide)
  have : nodeLoad (run ⟨.inPlace, false⟩ (.init Cls.graph) [.save .ok 1, .save .bothFail 2]).node
      (run ⟨.inPlace, false⟩ (.init Cls.graph) [.save .ok 1, .save .bothFail 2]).fs = (⟨Cls.graph, 2⟩, .notFound) := by decide
  rw [this] at hl
  cases hl

/-- a good save, then a save that dies right after `open(p, "wb")` (2 steps: mkdir, open): the
good file is truncated in place; the empty `.pckl` is what `_load` selects. -/
theorem C19_inplace_witness_crash : ¬ C19Statement ⟨.inPlace, false⟩ := by
  intro h
  obtain ⟨v', hl, _⟩ := h Cls.graph [.save .ok 1, .crash .ok 2 2] 1 (by decide)
  have : nodeLoad (run ⟨.inPlace, false⟩ (.init Cls.graph) [.save .ok 1, .crash .ok 2 2]).node
      (run ⟨.inPlace, false⟩ (.init Cls.graph) [.save .ok 1, .crash .ok 2 2]).fs = (⟨Cls.graph, 0⟩, .corrupt) := by decide
  rw [this] at hl
  cases hl

/-- a first save torn mid-write poisons loading and auto-loading -/
theorem C19_inplace_poison_witness : ¬ C19NoPoisonStatement ⟨.inPlace, false⟩ := by
  intro h
  exact h Cls.graph [.crash .ok 1 3] (by decide)

/-- why `os.replace` alone is not the repair: good `.pckl` v2; v3 can only be cloudpickled and is
atomically moved to `.cpckl`; without removing `.pckl`, `_load` returns the stale v2. -/
theorem C19_replace_alone_is_stale :
    storageLoad (runSteps ⟨true, .good Cls.graph 2, .absent, .absent, .absent⟩
      [.mkdir, .open .pcklTmp, .unlink .pcklTmp, .open .cpcklTmp, .write .cpcklTmp, .close .cpcklTmp Cls.graph 3,
       .replace .cpcklTmp .cpckl]) = .ok Cls.graph 2 := by decide

/-- Pinned or repaired: as long as no save fails or is interrupted after a completed one (until
the next delete), load returns exactly the newest completed save. -/
theorem C19_durable_partial (cfg : Cfg) (cls : Cls) (ops : List Op) (v : Nat)
    (hclean : noFaultAfterGood .init ops = true) (hv : (promise .init ops).last = some v) :
    nodeLoad (run cfg (.init cls) ops).node (run cfg (.init cls) ops).fs = (⟨cls, v⟩, .loaded v) := by
  have h := selExact_run cfg (.init cls) .init ops (by intro v hv; cases hv) hclean
  have hc := run_cls cfg (.init cls) ops
  simp only [World.init] at h hc
  have := nodeLoad_ok (run cfg (.init cls) ops).node (run cfg (.init cls) ops).fs v
    (by simp only [World.init]; rw [hc]; exact h v hv)
  simp only [World.init] at this ⊢
  rw [this, hc]

/-- Pinned or repaired: without interrupted saves (failing ones allowed) no torn file is ever
selected. -/
theorem C19_no_poison_partial (cfg : Cfg) (cls : Cls) (ops : List Op) (hn : noCrash ops = true) :
    storageLoad (run cfg (.init cls) ops).fs ≠ .corrupt :=
  whole_not_corrupt _ (whole_run cfg (.init cls) ops ⟨Or.inl rfl, Or.inl rfl⟩ hn)

/-! ## Clause 3: a successful save is what the next load returns (both variants) -/

theorem C19_last_wins (cfg : Cfg) (w : World) (c : Content) (v : Nat) (hc : c.fails = false) :
    (step cfg (step cfg w (.save c v)).1 .load) =
      ({ fs := saveFS cfg w.fs c w.node.cls v, node := ⟨w.node.cls, v⟩ }, .load (.loaded v)) := by
  have := save_last_wins cfg w.fs c w.node.cls v hc
  simp [step, nodeLoad, nodeLoadBy, ClassCheck.accepts, this]

/-- also for a new object that auto-loads -/
theorem C19_last_wins_autoload (cfg : Cfg) (w : World) (c : Content) (v : Nat) (hc : c.fails = false) :
    (step cfg (step cfg w (.save c v)).1 .reopen) =
      ({ fs := saveFS cfg w.fs c w.node.cls v, node := ⟨w.node.cls, v⟩ }, .load (.loaded v)) := by
  have := save_last_wins cfg w.fs c w.node.cls v hc
  simp [step, nodeLoad, nodeLoadBy, ClassCheck.accepts, autoAttempt, this, storageLoad_ok_hasSaved _ _ _ this]

/-! ## Clause 4: delete removes the files and the directory it emptied (both variants) -/

theorem C19_delete_cleans (cfg : Cfg) (fs : FS) :
    (deleteFS cfg fs).pckl = .absent ∧ (deleteFS cfg fs).cpckl = .absent ∧
      hasSaved (deleteFS cfg fs) = false ∧ storageLoad (deleteFS cfg fs) = .notFound ∧
      ¬ ((deleteFS cfg fs).dir = true ∧ (deleteFS cfg fs).noFiles = true) :=
  delete_cleans cfg fs

/-- reachable file systems keep files inside an existing directory only (so "directory gone"
means "everything gone") -/
theorem C19_wf (cfg : Cfg) (cls : Cls) (ops : List Op) : WF (run cfg (.init cls) ops).fs :=
  wf_run cfg (.init cls) ops (by simp [WF, World.init, FS.init, FS.noFiles])

/-! ## Clause 5: loading into a node of another class is refused, the node is unchanged

`Node.load` compares `inst.__class__ != self.__class__`: identity of the class objects.  The theorem is
stated over the relation between the saved class `c` and the class of the loading node. -/

/-- the load is accepted (and the state adopted) iff the loading node's class is the very class object that was
saved; for every other relation — another object with the same module and qualified name, an unrelated class,
a subclass, a superclass — it is refused with the class-mismatch error and the node is exactly what it was -/
theorem C19_class_check (n : NodeSt) (fs : FS) (c : Cls) (v : Nat) (hl : storageLoad fs = .ok c v) :
    nodeLoad n fs = if classify c n.cls = .same then (⟨n.cls, v⟩, .loaded v) else (n, .classMismatch) := by
  by_cases h : n.cls.id = c.id
  · have h' : c.id = n.cls.id := h.symm
    simp [nodeLoad, nodeLoadBy, ClassCheck.accepts, classify, hl, h']
  · have h' : ¬ c.id = n.cls.id := fun e => h e.symm
    have hne : classify c n.cls ≠ .same := by
      unfold classify
      simp only [h, if_false]
      repeat' split
      all_goals simp
    simp [nodeLoad, nodeLoadBy, ClassCheck.accepts, hl, h', hne]

theorem C19_class_check_refuses (n : NodeSt) (fs : FS) (c : Cls) (v : Nat) (hl : storageLoad fs = .ok c v)
    (rel : ClassRel) (hrel : classify c n.cls = rel) (hne : rel ≠ .same) : nodeLoad n fs = (n, .classMismatch) := by
  rw [C19_class_check n fs c v hl, hrel]
  simp [hne]

/-- each relation is inhabited by concrete classes (so the theorem above says something for each) -/
theorem C19_class_rel_inhabited (rel : ClassRel) : classify Cls.graph (Cls.ofRel rel) = rel := by
  cases rel <;> decide

/-- why identity: a check by `(module, qualname)` lets a different class with the same name through ... -/
theorem C19_name_check_accepts_foreign :
    classify Cls.graph (Cls.ofRel .sameName) = .sameName ∧
      nodeLoadBy .byName ⟨Cls.ofRel .sameName, 77⟩ (run Cfg.current (.init Cls.graph) [.save .ok 1]).fs =
        (⟨Cls.ofRel .sameName, 1⟩, .loaded 1) ∧
      nodeLoad ⟨Cls.ofRel .sameName, 77⟩ (run Cfg.current (.init Cls.graph) [.save .ok 1]).fs =
        (⟨Cls.ofRel .sameName, 77⟩, .classMismatch) := by decide

/-- ... and an `isinstance(inst, type(self))` check a node of a base class -/
theorem C19_isinstance_check_accepts_foreign :
    classify Cls.graph (Cls.ofRel .superclass) = .superclass ∧
      nodeLoadBy .isInstance ⟨Cls.ofRel .superclass, 77⟩ (run Cfg.current (.init Cls.graph) [.save .ok 1]).fs =
        (⟨Cls.ofRel .superclass, 1⟩, .loaded 1) ∧
      nodeLoad ⟨Cls.ofRel .superclass, 77⟩ (run Cfg.current (.init Cls.graph) [.save .ok 1]).fs =
        (⟨Cls.ofRel .superclass, 77⟩, .classMismatch) := by decide

/-- a refused load of a COMPOSITE (or of a node sitting in one) also leaves its children and connections what they
were: the class check comes before the preparation that releases the current children ... -/
theorem C19_refused_load_keeps_children (c : Comp) (fs : FS) (h : ∀ v, (compLoad false c fs).2 ≠ .loaded v) :
    (compLoad false c fs).1 = c := by
  unfold compLoad at h ⊢
  split <;> (try split) <;> simp_all

/-- ... with the check moved behind that preparation (seeded change C19-6) the load is still refused, and every child is
orphaned -/
theorem C19_late_class_check_orphans :
    compLoad true ⟨⟨Cls.ofRel .diffName, 77⟩, true⟩ (run Cfg.current (.init Cls.graph) [.save .ok 1]).fs =
        (⟨⟨Cls.ofRel .diffName, 77⟩, false⟩, .classMismatch) ∧
      compLoad false ⟨⟨Cls.ofRel .diffName, 77⟩, true⟩ (run Cfg.current (.init Cls.graph) [.save .ok 1]).fs =
        (⟨⟨Cls.ofRel .diffName, 77⟩, true⟩, .classMismatch) := by decide

/-- more generally every load that does not succeed leaves the node as it was -/
theorem C19_refused_load_unchanged (n : NodeSt) (fs : FS) (h : ∀ v, (nodeLoad n fs).2 ≠ .loaded v) :
    (nodeLoad n fs).1 = n := nodeLoad_refused_unchanged n fs h

/-! ## The auto-load decision: `has_saved_content` against what `_load` selects -/

/-- in every state reachable with the repaired save (any history, any crash points): construction attempts a
load iff a complete, loadable file sits under a final name -/
theorem C19_autoload_iff_loadable (sw : Bool) (cls : Cls) (ops : List Op) :
    autoAttempt (run ⟨.atomicReplace, sw⟩ (.init cls) ops).fs = loadable (run ⟨.atomicReplace, sw⟩ (.init cls) ops).fs :=
  autoAttempt_eq_loadable _ (by
    have h := sel_run_atomic sw (.init cls) .init ops (sel_init cls)
    rcases sel_ok_or_notFound _ _ _ h with h | ⟨v, h⟩ <;> rw [h] <;> simp)

/-- ... and so constructing a graph object of the same label never raises: it comes up fresh or with a saved state
(`C19_autoload_durable` says which) -/
theorem C19_autoload_never_raises (sw : Bool) (cls : Cls) (ops : List Op) :
    (step ⟨.atomicReplace, sw⟩ (run ⟨.atomicReplace, sw⟩ (.init cls) ops) .reopen).2 = .fresh ∨
      ∃ v, (step ⟨.atomicReplace, sw⟩ (run ⟨.atomicReplace, sw⟩ (.init cls) ops) .reopen).2 = .load (.loaded v) := by
  have h : Sel cls _ (run ⟨.atomicReplace, sw⟩ (.init cls) ops).fs :=
    sel_run_atomic sw (.init cls) .init ops (sel_init cls)
  have hc : (run ⟨.atomicReplace, sw⟩ (.init cls) ops).node.cls = cls := run_cls ⟨.atomicReplace, sw⟩ (.init cls) ops
  rcases sel_ok_or_notFound _ _ _ h with h | ⟨v, h⟩
  · left
    simp [step, autoAttempt, (storageLoad_notFound_hasSaved _).1 h]
  · right
    refine ⟨v, ?_⟩
    simp only [step, autoAttempt, storageLoad_ok_hasSaved _ _ _ h, if_true, hc]
    rw [nodeLoad_ok ⟨cls, 0⟩ _ v h]

/-- in ANY file-system state, under any variant: the decision never sends `load` where `_load` finds no file
(`has_saved_content` and `_load` agree on which names count) -/
theorem C19_autoload_decision_sound (cfg : Cfg) (w : World) : (step cfg w .reopen).2 ≠ .load .notFound :=
  reopen_not_notFound cfg w

/-- a `_has_saved_content` that also counts the `.tmp` leftovers of an interrupted save would not have this property:
after a first save torn mid-write it says "saved content" where `_load` raises `FileNotFoundError` -/
theorem C19_leftover_counting_poisons_autoload :
    hasSavedOrLeftover (run Cfg.current (.init Cls.graph) [.crash .ok 1 3]).fs = true ∧
      hasSaved (run Cfg.current (.init Cls.graph) [.crash .ok 1 3]).fs = false ∧
      (nodeLoad ⟨Cls.graph, 0⟩ (run Cfg.current (.init Cls.graph) [.crash .ok 1 3]).fs).2 = .notFound := by decide

/-! ## Clause 4 at full strength: after `delete` nothing is left, neither file nor directory -/

def C19DeleteStatement (cfg : Cfg) : Prop :=
  ∀ (cls : Cls) (ops : List Op), deleteFS cfg (run cfg (.init cls) ops).fs = FS.init

/-- the tree as it is (`_delete` is reached when a final-name file OR a leftover exists) — in fact from any
file-system state -/
theorem C19_delete_cleans_full : C19DeleteStatement Cfg.current :=
  fun _ _ => delete_all_sweep .atomicReplace _ (Or.inl rfl)

/-- the pinned in-place save never creates temporaries, so its delete leaves nothing either -/
theorem C19_delete_cleans_full_pinned (sw : Bool) : C19DeleteStatement ⟨.inPlace, sw⟩ :=
  fun cls ops => delete_all_noTmp _ _ (noTmp_run sw (.init cls) ops ⟨rfl, rfl⟩)

/-- before `1e4658d` (finding KF-C19-5): a first save torn mid-write leaves `<name>.pckl.tmp`; `delete` never
reaches `_delete` (`_has_saved_content` is false), the leftover and its directory stay -/
theorem C19_delete_leftover_witness : ¬ C19DeleteStatement Cfg.unswept := by
  intro h
  have := h Cls.graph [.crash .ok 1 3]
  revert this
  decide

/-- with or without the sweep: delete cleans completely whenever a final-name file exists or no leftover is around -/
theorem C19_delete_cleans_partial (sw : Bool) (fs : FS)
    (h : hasSaved fs = true ∨ (fs.pcklTmp = .absent ∧ fs.cpcklTmp = .absent)) :
    deleteFS ⟨.atomicReplace, sw⟩ fs = FS.init := by
  rcases h with h | h
  · exact delete_all_hasSaved sw fs h
  · exact delete_all_noTmp _ fs h


/-! ## "Newest wins" over both-suffix states (seeded change C08-2 shows why this needs saying) -/

/-- from ANY file-system state -- in particular one where a save interrupted between `os.replace` and the removal of
the other suffix left two complete files -- a completed save leaves exactly ONE final-name file: the new one.  No stale
file of the other suffix survives for `_load` to prefer. -/
theorem C19_save_leaves_single_suffix (sw : Bool) (fs : FS) (c : Content) (cls : Cls) (v : Nat) (hc : c.fails = false) :
    ((saveFS ⟨.atomicReplace, sw⟩ fs c cls v).pckl = .good cls v ∧ (saveFS ⟨.atomicReplace, sw⟩ fs c cls v).cpckl = .absent) ∨
    ((saveFS ⟨.atomicReplace, sw⟩ fs c cls v).pckl = .absent ∧ (saveFS ⟨.atomicReplace, sw⟩ fs c cls v).cpckl = .good cls v) := by
  obtain ⟨d, p, q, pt, ct⟩ := fs
  cases c <;> simp_all [saveFS, saveSteps, attempt, runSteps, Step.apply, FS.set, FS.get, FS.noFiles, Content.fails]

/-- both suffixes good is reachable (a `.cpckl` save, then a plain save cut right after its `os.replace`); `_load`
prefers `.pckl`, which there is the NEWER one; in the mirrored state (`.pckl` old, `.cpckl` from the interrupted save)
it returns the previous state -- and in both the next completed save wins -/
theorem C19_both_suffixes_newest_wins :
    (run Cfg.current (.init Cls.graph) [.save .pickleFails 1, .crash .ok 2 5]).fs =
        ⟨true, .good Cls.graph 2, .good Cls.graph 1, .absent, .absent⟩ ∧
      storageLoad (run Cfg.current (.init Cls.graph) [.save .pickleFails 1, .crash .ok 2 5]).fs = .ok Cls.graph 2 ∧
      (run Cfg.current (.init Cls.graph) [.save .ok 1, .crash .pickleFails 2 7]).fs =
        ⟨true, .good Cls.graph 1, .good Cls.graph 2, .absent, .absent⟩ ∧
      storageLoad (run Cfg.current (.init Cls.graph) [.save .ok 1, .crash .pickleFails 2 7]).fs = .ok Cls.graph 1 ∧
      storageLoad (run Cfg.current (.init Cls.graph) [.save .ok 1, .crash .pickleFails 2 7, .save .pickleFails 3]).fs =
        .ok Cls.graph 3 ∧
      storageLoad (run Cfg.current (.init Cls.graph) [.save .pickleFails 1, .crash .ok 2 5, .save .pickleFails 3]).fs =
        .ok Cls.graph 3 := by decide

/-! ## Nested nodes, checkpoints and recovery files: several stores in one graph directory

`main` = `g/picklestorage.*` (the graph's own save AND every checkpoint made from inside a run), `recovery` =
`g/recovery.*` (written after a failed run), `childA/B` = `g/<child>/picklestorage.*` (a child saved on its own); all
written by the same atomic `_save`.  `promiseT s` is the promise of store `s` alone. -/

/-- every store keeps its own promise, whatever happens to the others: for every history of saves, checkpoints
(also ones that cannot be written and fail the run), failed runs with their recovery write, each interrupted at any
file-system call, loads and deletes on all four stores -- if a save of store `s` completed since its last delete,
loading `s` gives that version or a later completely written one.  In particular an interrupted CHECKPOINT or an
interrupted RECOVERY write costs neither the good save of the graph nor the good recovery file nor a child's save. -/
theorem C19_tree_durable (sw climb : Bool) (cls : Cls) (ops : List TOp) (s : Store) (v : Nat)
    (hv : (promiseT s .init ops).last = some v) :
    ∃ v', storageLoad ((trun ⟨⟨.atomicReplace, sw⟩, climb⟩ (.init cls) ops).tree.view s) = .ok cls v' ∧
      (v' = v ∨ v' ∈ (promiseT s .init ops).inflight) := by
  have h := selT_run sw climb (.init cls) (fun _ => .init) ops (fun s => selT_init cls s) s
  simp only [TWorld.init] at h
  unfold Sel at h
  rw [hv] at h
  exact h

/-- ... and no store ever offers `_load` an empty or torn file -/
theorem C19_tree_no_poison (sw climb : Bool) (cls : Cls) (ops : List TOp) (s : Store) :
    storageLoad ((trun ⟨⟨.atomicReplace, sw⟩, climb⟩ (.init cls) ops).tree.view s) ≠ .corrupt := by
  have h := selT_run sw climb (.init cls) (fun _ => .init) ops (fun s => selT_init cls s) s
  rcases sel_ok_or_notFound _ _ _ h with h | ⟨v, h⟩ <;> rw [h] <;> simp

/-- frame: a tree op leaves the files of every store it does not write to exactly as they were (all variants) -/
theorem C19_tree_frame (tc : TCfg) (w : TWorld) (op : TOp) (s : Store) (h : op.touches s = false) :
    (tstep tc w op).1.tree.files s = w.tree.files s := tstep_frame tc w op s h

/-- a checkpoint that can be written IS a save of the graph's own file -/
theorem C19_checkpoint_is_main_save (tc : TCfg) (w : TWorld) (c : Content) (v : Nat) (hc : c.fails = false) :
    tstep tc w (.ckpt c v) = tstep tc w (.on .main (.save c v)) := by
  simp [tstep, hc]

/-- reachable trees are consistent: a child directory only inside `g/`, files only inside their directory -/
theorem C19_tree_wf (tc : TCfg) (cls : Cls) (ops : List TOp) : (trun tc (.init cls) ops).tree.WF :=
  trun_wf tc (.init cls) ops (by simp [Tree.WF, TWorld.init, Tree.init, Files.none, Files.isNone])

/-- a graph that is only ever saved under its own name is exactly the flat model above -/
theorem C19_tree_refines_flat (tc : TCfg) (cls : Cls) (ops : List Op) :
    trun tc (.init cls) (ops.map (TOp.on .main)) =
      ⟨Tree.ofFS (run tc.cfg (.init cls) ops).fs, (run tc.cfg (.init cls) ops).node⟩ :=
  trun_main_flat tc (.init cls) ops

/-- delete in the nested layout, at full strength: the store's files are gone, and if this delete emptied `g/`
(it held something before, it holds nothing now) then `g/` is gone as well -/
def C19TreeDeleteStatement (tc : TCfg) : Prop :=
  ∀ (cls : Cls) (ops : List TOp) (s : Store),
    let w := trun tc (.init cls) ops
    let t' := (tstep tc w (.on s .delete)).1.tree
    t'.files s = Files.none ∧ ((w.tree.gEmpty = false ∨ w.tree.gdir = false) → t'.gEmpty = true → t'.gdir = false)

theorem C19_tree_delete_cleans : C19TreeDeleteStatement TCfg.current := by
  intro cls ops s
  have hwf := trun_wf TCfg.current (.init cls) ops (by simp [Tree.WF, TWorld.init, Tree.init, Files.none, Files.isNone])
  refine ⟨?_, ?_⟩
  · cases s <;> simp only [tstep] <;> exact apply1_delete_files true _ _ _
  · intro hb
    cases s <;> simp only [tstep] <;> exact apply1_delete_climbs _ _ _ hwf hb

/-- before `d82d12e` (finding KF-C19-6): deleting the storage of the only saved child removes `g/a/` and leaves the `g/`
it emptied -/
theorem C19_tree_delete_witness : ¬ C19TreeDeleteStatement TCfg.unclimbed := by
  intro h
  have := (h Cls.graph [.on .childA (.save .ok 1)] .childA).2
  revert this
  decide

/-- ... the files of the deleted store are gone in any case, and the other stores are untouched (`C19_tree_frame`) -/
theorem C19_tree_delete_files (climb : Bool) (cls : Cls) (ops : List TOp) (s : Store) :
    (tstep ⟨Cfg.current, climb⟩ (trun ⟨Cfg.current, climb⟩ (.init cls) ops) (.on s .delete)).1.tree.files s = Files.none := by
  cases s <;> simp only [tstep] <;> exact apply1_delete_files climb _ _ _

/-! ## Explicit names that differ only by a dotted tail, saved side by side (`runs/relax`, `runs/relax.v2`) -/

/-- the last good save of EACH name is what loading that name returns -/
def C19NamesStatement (tc : TCfg) (m : NameMode) : Prop :=
  ∀ (cls : Cls) (ops : List (Name × Op)) (n : Name) (v : Nat), (promiseN n .init ops).last = some v →
    ∃ v', storageLoad ((nrun tc m (.init cls) ops).tree.view (resolve m n)) = .ok cls v' ∧
      (v' = v ∨ v' ∈ (promiseN n .init ops).inflight)

/-- the tree as it is (since `84ba7a5`) APPENDS its extension to the name it is given, so every name has its own files: the statement holds
for every interleaving of saves (failing, interrupted anywhere), loads and deletes under the two names -/
theorem C19_names_durable (sw climb : Bool) : C19NamesStatement ⟨⟨.atomicReplace, sw⟩, climb⟩ .append := by
  intro cls ops n v hv
  rw [nrun_append]
  rw [promiseN_append] at hv ⊢
  exact C19_tree_durable sw climb cls (ops.map nameOp) (resolve .append n) v hv

/-- ... and an operation under one name never touches the other name's files -/
theorem C19_names_frame (tc : TCfg) (w : TWorld) (n n' : Name) (op : Op) (h : n' ≠ n) :
    (nstep tc .append w n op).1.tree.files (resolve .append n') = w.tree.files (resolve .append n') := by
  rw [nstep_append tc w (n, op)]
  apply tstep_frame
  cases n <;> cases n' <;> simp_all [nameOp, resolve, TOp.touches]

/-- before `84ba7a5` (finding KF-C19-7): with `Path.with_suffix` (the text after the last dot is REPLACED) `relax.v2` and
`relax` are one file: a save under
the neighbouring name is what the next load of the first name returns, and deleting one name deletes the other -/
theorem C19_names_collide_witness : ¬ C19NamesStatement TCfg.current .replaceTail := by
  intro h
  obtain ⟨v', hl, hv⟩ := h Cls.graph [(.primary, .save .ok 1), (.neighbour, .save .ok 2)] .primary 1 (by decide)
  have : storageLoad ((nrun TCfg.current .replaceTail (.init Cls.graph)
      [(.primary, .save .ok 1), (.neighbour, .save .ok 2)]).tree.view (resolve .replaceTail .primary)) = .ok Cls.graph 2 := by
    decide
  rw [this] at hl
  have hv2 : v' = 2 := by cases hl; rfl
  subst hv2
  revert hv
  decide

/-! ## A retry of an interrupted save -/

/-- a save interrupted at ANY call and then simply done again with the same content, from ANY state: the retry is what
the next load returns and it leaves a single final-name file (no stale other suffix) -- seeded change C19-9 -/
theorem C19_retry_wins (sw : Bool) (fs : FS) (c : Content) (cls : Cls) (v k : Nat) (hc : c.fails = false) :
    storageLoad (saveFS ⟨.atomicReplace, sw⟩ (crashFS ⟨.atomicReplace, sw⟩ fs c cls v k) c cls v) = .ok cls v ∧
      (((saveFS ⟨.atomicReplace, sw⟩ (crashFS ⟨.atomicReplace, sw⟩ fs c cls v k) c cls v).pckl = .good cls v ∧
          (saveFS ⟨.atomicReplace, sw⟩ (crashFS ⟨.atomicReplace, sw⟩ fs c cls v k) c cls v).cpckl = .absent) ∨
        ((saveFS ⟨.atomicReplace, sw⟩ (crashFS ⟨.atomicReplace, sw⟩ fs c cls v k) c cls v).pckl = .absent ∧
          (saveFS ⟨.atomicReplace, sw⟩ (crashFS ⟨.atomicReplace, sw⟩ fs c cls v k) c cls v).cpckl = .good cls v)) :=
  ⟨save_last_wins _ _ c cls v hc, C19_save_leaves_single_suffix sw _ c cls v hc⟩

/-- the state C19-9 needs: good `.pckl`, then a cloudpickle-only save cut between `os.replace` and the removal of the
`.pckl`; the retry removes the stale file -/
theorem C19_retry_removes_stale_suffix :
    (run Cfg.current (.init Cls.graph) [.save .ok 1, .crash .pickleFails 2 7]).fs =
        ⟨true, .good Cls.graph 1, .good Cls.graph 2, .absent, .absent⟩ ∧
      (run Cfg.current (.init Cls.graph) [.save .ok 1, .crash .pickleFails 2 7, .save .pickleFails 2]).fs =
        ⟨true, .absent, .good Cls.graph 2, .absent, .absent⟩ := by decide

/-! ## The storage interface: any back end, through the hooks `delete` uses -/

/-- for a back end whose `_delete` removes everything it writes: `StorageInterface.delete` leaves nothing of it behind
in state `st` IFF its hooks tell the truth there (something on disk ⇒ `_has_saved_content` or `_has_leftovers`) -/
theorem C19_interface_delete_cleans_iff {σ} (b : Backend σ) (hd : b.delComplete) (st : σ) :
    b.clean (b.delete st) = true ↔ b.truthfulAt st := backend_delete_cleans_iff b hd st

/-- `PickleStorage` with its `_has_leftovers` is truthful in every state, so its delete always cleans ... -/
theorem C19_pickle_hooks_truthful (fs : FS) :
    (pickleBackend true).truthfulAt fs ∧ (pickleBackend true).clean ((pickleBackend true).delete fs) = true :=
  ⟨pickleBackend_truthful fs,
    (backend_delete_cleans_iff _ (pickleBackend_delComplete true) fs).2 (pickleBackend_truthful fs)⟩

/-- ... a back end that writes temporaries but keeps the interface's default `_has_leftovers = False` is not, exactly
in the leftover-only states, and there its delete removes nothing -/
theorem C19_default_hook_not_truthful :
    ¬ (pickleBackend false).truthfulAt ⟨true, .absent, .absent, .torn, .absent⟩ ∧
      (pickleBackend false).delete ⟨true, .absent, .absent, .torn, .absent⟩ = ⟨true, .absent, .absent, .torn, .absent⟩ := by
  refine ⟨?_, by decide⟩
  simp [Backend.truthfulAt, pickleBackend, FS.noFiles, hasSaved]

/-! ## Non-vacuity -/

/-- a history with every kind of op: two good saves (second lands as `.cpckl`), a failing save,
a save torn mid-write, one interrupted between `os.replace` and the removal of the other suffix,
loads, a foreign load, an auto-load. -/
def exOps : List Op :=
  [.save .ok 1, .save .pickleFails 2, .load, .save .bothFail 3, .crash .ok 4 3, .reopen,
   .loadForeign (Cls.ofRel .diffName) 77, .crash .ok 5 5, .load]

example : (promise .init exOps) = ⟨some 2, [5, 4]⟩ := by decide
example : (run Cfg.current (.init Cls.graph) exOps).fs = ⟨true, .good Cls.graph 5, .good Cls.graph 2, .absent, .absent⟩ := by decide
example : (run Cfg.current (.init Cls.graph) exOps).node = ⟨Cls.graph, 5⟩ := by decide
-- the torn temporary of the first crash was still there before the second interrupted save
example : (run Cfg.current (.init Cls.graph) (exOps.take 5)).fs = ⟨true, .absent, .good Cls.graph 2, .torn, .absent⟩ := by decide
-- hypotheses of the partial theorems are satisfiable by a history with failures and crashes
example : noFaultAfterGood .init [.crash .ok 1 3, .save .bothFail 2, .save .pickleFails 3, .load, .delete,
    .crash .ok 4 2, .save .ok 5] = true ∧
    (promise .init [.crash .ok 1 3, .save .bothFail 2, .save .pickleFails 3, .load, .delete,
    .crash .ok 4 2, .save .ok 5]).last = some 5 := by decide
example : noCrash [.save .ok 1, .save .bothFail 2, .delete, .save .pickleFails 3] = true := by decide
-- class check: hypotheses satisfiable
example : storageLoad (run Cfg.current (.init Cls.graph) [.save .ok 1]).fs = .ok Cls.graph 1 ∧
    ∀ rel, rel ≠ .same → classify Cls.graph (⟨Cls.ofRel rel, 77⟩ : NodeSt).cls ≠ .same := by
  refine ⟨by decide, ?_⟩
  intro rel; cases rel <;> decide
-- auto-load decision on the three kinds of states: nothing / only a leftover / a good file next to a leftover
example : autoAttempt (run Cfg.current (.init Cls.graph) []).fs = false ∧
    autoAttempt (run Cfg.current (.init Cls.graph) [.crash .pickleFails 1 5]).fs = false ∧
    (run Cfg.current (.init Cls.graph) [.crash .pickleFails 1 5]).fs = ⟨true, .absent, .absent, .absent, .torn⟩ ∧
    autoAttempt (run Cfg.current (.init Cls.graph) [.save .ok 1, .crash .pickleFails 2 5]).fs = true ∧
    (step Cfg.current (run Cfg.current (.init Cls.graph) [.save .ok 1, .crash .pickleFails 2 5]) .reopen).2 = .load (.loaded 1) ∧
    (step Cfg.current (run Cfg.current (.init Cls.graph) [.crash .pickleFails 1 5]) .reopen).2 = .fresh := by decide
-- both suffixes present (a save interrupted between `os.replace` and the removal of the other suffix)
example : (run Cfg.current (.init Cls.graph) [.save .pickleFails 1, .crash .ok 2 5]).fs =
    ⟨true, .good Cls.graph 2, .good Cls.graph 1, .absent, .absent⟩ := by decide
-- delete: the current delete differs from the one before `1e4658d` exactly on leftover-only states
example : deleteFS Cfg.unswept ⟨true, .absent, .absent, .torn, .absent⟩ = ⟨true, .absent, .absent, .torn, .absent⟩ ∧
    deleteFS Cfg.current ⟨true, .absent, .absent, .torn, .absent⟩ = FS.init ∧
    deleteFS Cfg.unswept ⟨true, .good Cls.graph 1, .absent, .torn, .absent⟩ = FS.init := by decide
-- delete on a populated directory
example : deleteFS ⟨.inPlace, false⟩ ⟨true, .good Cls.graph 1, .torn, .absent, .absent⟩ = FS.init := by decide
-- the two variants differ exactly where the defect is
example : (run ⟨.inPlace, false⟩ (.init Cls.graph) [.save .ok 1, .save .bothFail 2]).fs = FS.init ∧
    (run Cfg.current (.init Cls.graph) [.save .ok 1, .save .bothFail 2]).fs = ⟨true, .good Cls.graph 1, .absent, .absent, .absent⟩ := by decide

-- per-call `cloudpickle_fallback=False`: the last good save is a `.cpckl`; a no-fallback save that pickle cannot do /
-- of a node that is not import-ready / interrupted keeps it; the restricted load does not see it, the default one does
example : (run Cfg.current (.init Cls.graph) [.save .pickleFails 1, .save .nfNotImportable 2, .save .nfPickleFails 3,
      .crash .nfPickleFails 4 2]).fs = ⟨true, .absent, .good Cls.graph 1, .empty, .absent⟩ ∧
    storageLoadF false (run Cfg.current (.init Cls.graph) [.save .pickleFails 1, .save .nfNotImportable 2]).fs = .notFound ∧
    storageLoad (run Cfg.current (.init Cls.graph) [.save .pickleFails 1, .save .nfNotImportable 2]).fs = .ok Cls.graph 1 ∧
    (promise .init [.save .pickleFails 1, .save .nfNotImportable 2, .save .nfPickleFails 3, .crash .nfPickleFails 4 2]) =
      ⟨some 1, []⟩ := by decide
-- nested / checkpoint / recovery: a history with every kind of tree op and what each store then promises
def exTree : List TOp :=
  [.on .main (.save .ok 1), .fail .ok 2, .on .childA (.save .pickleFails 3), .ckptCrash .ok 4 3, .failCrash .pickleFails 5 5,
   .on .childA (.crash .ok 6 2), .ckpt .bothFail 7, .on .childB (.save .ok 8), .on .childB .delete, .ckpt .pickleFails 9]

example : (promiseT .main .init exTree) = ⟨some 9, []⟩ ∧ (promiseT .recovery .init exTree) = ⟨some 2, [5]⟩ ∧
    (promiseT .childA .init exTree) = ⟨some 3, [6]⟩ ∧ (promiseT .childB .init exTree).last = none := by decide
example : (trun TCfg.current (.init Cls.graph) exTree).tree =
    ⟨true, ⟨.absent, .good Cls.graph 9, .absent, .absent⟩, ⟨.good Cls.graph 2, .absent, .absent, .absent⟩,
      true, ⟨.absent, .good Cls.graph 3, .empty, .absent⟩, false, Files.none⟩ := by decide
-- the climbing clean-up (the tree as it is) differs from the one before `d82d12e` exactly when a nested clean-up empties `g/`
example : (trun TCfg.unclimbed (.init Cls.graph) [.on .childA (.save .ok 1), .on .childA .delete]).tree.gdir = true ∧
    (trun TCfg.current (.init Cls.graph) [.on .childA (.save .ok 1), .on .childA .delete]).tree = Tree.init ∧
    (trun TCfg.current (.init Cls.graph) [.on .main (.save .ok 1), .on .childA (.save .ok 2), .on .childA .delete]).tree.gdir = true := by decide

end PwVerif.C19

#print axioms PwVerif.C19.C19_durable
#print axioms PwVerif.C19.C19_no_poison
#print axioms PwVerif.C19.C19_autoload_durable
#print axioms PwVerif.C19.C19_failed_save_keeps
#print axioms PwVerif.C19.C19_failed_save_interrupted_keeps
#print axioms PwVerif.C19.C19_restricted_load_agrees
#print axioms PwVerif.C19.C19_restricted_flag_true_is_default
#print axioms PwVerif.C19.C19_interrupted_save_keeps
#print axioms PwVerif.C19.C19_inplace_witness_failed_save
#print axioms PwVerif.C19.C19_inplace_witness_crash
#print axioms PwVerif.C19.C19_inplace_poison_witness
#print axioms PwVerif.C19.C19_replace_alone_is_stale
#print axioms PwVerif.C19.C19_durable_partial
#print axioms PwVerif.C19.C19_no_poison_partial
#print axioms PwVerif.C19.C19_last_wins
#print axioms PwVerif.C19.C19_last_wins_autoload
#print axioms PwVerif.C19.C19_delete_cleans
#print axioms PwVerif.C19.C19_wf
#print axioms PwVerif.C19.C19_class_check
#print axioms PwVerif.C19.C19_class_check_refuses
#print axioms PwVerif.C19.C19_class_rel_inhabited
#print axioms PwVerif.C19.C19_name_check_accepts_foreign
#print axioms PwVerif.C19.C19_isinstance_check_accepts_foreign
#print axioms PwVerif.C19.C19_autoload_iff_loadable
#print axioms PwVerif.C19.C19_autoload_never_raises
#print axioms PwVerif.C19.C19_autoload_decision_sound
#print axioms PwVerif.C19.C19_leftover_counting_poisons_autoload
#print axioms PwVerif.C19.C19_delete_cleans_full
#print axioms PwVerif.C19.C19_delete_cleans_full_pinned
#print axioms PwVerif.C19.C19_delete_leftover_witness
#print axioms PwVerif.C19.C19_delete_cleans_partial
#print axioms PwVerif.C19.C19_refused_load_unchanged
#print axioms PwVerif.C19.C19_refused_load_keeps_children
#print axioms PwVerif.C19.C19_late_class_check_orphans
#print axioms PwVerif.C19.C19_save_leaves_single_suffix
#print axioms PwVerif.C19.C19_both_suffixes_newest_wins
#print axioms PwVerif.C19.C19_tree_durable
#print axioms PwVerif.C19.C19_tree_no_poison
#print axioms PwVerif.C19.C19_tree_frame
#print axioms PwVerif.C19.C19_checkpoint_is_main_save
#print axioms PwVerif.C19.C19_tree_wf
#print axioms PwVerif.C19.C19_tree_refines_flat
#print axioms PwVerif.C19.C19_tree_delete_cleans
#print axioms PwVerif.C19.C19_tree_delete_witness
#print axioms PwVerif.C19.C19_tree_delete_files
#print axioms PwVerif.C19.C19_names_durable
#print axioms PwVerif.C19.C19_names_frame
#print axioms PwVerif.C19.C19_names_collide_witness
#print axioms PwVerif.C19.C19_retry_wins
#print axioms PwVerif.C19.C19_retry_removes_stale_suffix
#print axioms PwVerif.C19.C19_interface_delete_cleans_iff
#print axioms PwVerif.C19.C19_pickle_hooks_truthful
#print axioms PwVerif.C19.C19_default_hook_not_truthful
