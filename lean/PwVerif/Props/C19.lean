import PwVerif.Proofs.Storage
/-!
# C19 — A failed or interrupted save never costs the last good save or poisons loading

"If saving a graph fails or is interrupted at any point, the previously saved file for that graph
is still there and loads to the previous state, and no partial file is left where loading or
automatic loading would pick it up. A successful save is what the next load returns, deleting
storage removes the files and any directory it emptied, and loading into a node of a different
class is refused without altering that node."

Quantified over every history of: successful saves (`save ok`, `save pickleFails` = lands as
`.cpckl`), failing saves (`save bothFail`), saves interrupted after any number `k` of file-system
steps (`crash c v k`, incl. mid-write = `torn` file), loads, auto-loads at construction
(`reopen`), deletions, loads into a foreign class.

The model has a switch `Cfg.saveMode`: `inPlace` is the pinned code (`open(p, "wb")` truncates
the target), `atomicReplace` the repaired code (write `p.tmp`, `os.replace`, remove the other
suffix).  The full statements are proved for `atomicReplace`; for `inPlace` they are FALSE
(machine-checked witnesses below) and hold under explicit hypotheses (`_partial`).

Only property theorems live here; lemmas are in `Proofs/Storage.lean`.
-/
namespace PwVerif.C19
open PwVerif.Storage

/-! ## Clause 1+2 over histories: durability -/

/-- If some save completed and no delete followed, loading (into the live node, by `Node.load`)
succeeds — never an error, never a torn file — and yields the newest completed save, or the
version of a save interrupted after it that was nevertheless fully written. -/
def C19Statement (cfg : Cfg) : Prop :=
  ∀ (cls : Nat) (ops : List Op) (v : Nat), (promise .init ops).last = some v →
    ∃ v', nodeLoad (run cfg (.init cls) ops).node (run cfg (.init cls) ops).fs = (⟨cls, v'⟩, .loaded v') ∧
      (v' = v ∨ v' ∈ (promise .init ops).inflight)

/-- Whatever happened (also when no save ever completed): the file `_load` / auto-load selects is
never an empty or torn one. -/
def C19NoPoisonStatement (cfg : Cfg) : Prop :=
  ∀ (cls : Nat) (ops : List Op), storageLoad (run cfg (.init cls) ops).fs ≠ .corrupt

theorem C19_durable : C19Statement ⟨.atomicReplace⟩ := by
  intro cls ops v hv
  have h := sel_run_atomic (.init cls) .init ops (sel_init cls)
  have hc := run_cls ⟨.atomicReplace⟩ (.init cls) ops
  simp only [World.init] at h hc
  unfold Sel at h
  rw [hv] at h
  obtain ⟨v', hl, hv'⟩ := h
  refine ⟨v', ?_, hv'⟩
  have := nodeLoad_ok (run ⟨.atomicReplace⟩ (.init cls) ops).node (run ⟨.atomicReplace⟩ (.init cls) ops).fs v'
    (by simp only [World.init]; rw [hc]; exact hl)
  simp only [World.init] at this ⊢
  rw [this, hc]

theorem C19_no_poison : C19NoPoisonStatement ⟨.atomicReplace⟩ := by
  intro cls ops
  have h := sel_run_atomic (.init cls) .init ops (sel_init cls)
  unfold Sel at h
  intro hc
  rw [hc] at h
  split at h
  · obtain ⟨_, h, _⟩ := h; cases h
  · rcases h with h | ⟨_, h, _⟩ <;> cases h

/-- ... and constructing a new graph object with the same label (auto-load) adopts that state -/
theorem C19_autoload_durable (cls : Nat) (ops : List Op) (v : Nat)
    (hv : (promise .init ops).last = some v) :
    ∃ v', step ⟨.atomicReplace⟩ (run ⟨.atomicReplace⟩ (.init cls) ops) .reopen =
        ({ fs := (run ⟨.atomicReplace⟩ (.init cls) ops).fs, node := ⟨cls, v'⟩ }, .load (.loaded v')) ∧
      (v' = v ∨ v' ∈ (promise .init ops).inflight) := by
  have h := sel_run_atomic (.init cls) .init ops (sel_init cls)
  have hc := run_cls ⟨.atomicReplace⟩ (.init cls) ops
  simp only [World.init] at h hc
  unfold Sel at h
  rw [hv] at h
  obtain ⟨v', hl, hv'⟩ := h
  refine ⟨v', ?_, hv'⟩
  simp only [World.init, step, storageLoad_ok_hasSaved _ _ _ hl, if_true, hc]
  rw [nodeLoad_ok ⟨cls, 0⟩ _ v' hl]

/-! ## Clause 1, one save at a time (any starting file system) -/

/-- a save that fails under both picklers leaves both save files exactly as they were -/
theorem C19_failed_save_keeps (fs : FS) (cls v : Nat) :
    (saveFS ⟨.atomicReplace⟩ fs .bothFail cls v).pckl = fs.pckl ∧
      (saveFS ⟨.atomicReplace⟩ fs .bothFail cls v).cpckl = fs.cpckl :=
  save_bothFail_files_atomic fs cls v

/-- a save interrupted after any number of steps: loading selects what it selected before, or
the new version fully written -/
theorem C19_interrupted_save_keeps (fs : FS) (c : Content) (cls v k : Nat) :
    storageLoad (crashFS ⟨.atomicReplace⟩ fs c cls v k) = storageLoad fs ∨
      (c ≠ .bothFail ∧ storageLoad (crashFS ⟨.atomicReplace⟩ fs c cls v k) = .ok cls v) :=
  crash_sel_atomic fs c cls v k

/-! ## The pinned code (`inPlace`): counter-witnesses and partial theorems -/

/-- P11: a good save, then a save whose content neither pickler can serialise: the good file is
unlinked, the directory removed, load raises `FileNotFoundError`. -/
theorem C19_inplace_witness_failed_save : ¬ C19Statement ⟨.inPlace⟩ := by
  intro h
  obtain ⟨v', hl, _⟩ := h 0 [.save .ok 1, .save .bothFail 2] 1 (by decide)
  have : nodeLoad (run ⟨.inPlace⟩ (.init 0) [.save .ok 1, .save .bothFail 2]).node
      (run ⟨.inPlace⟩ (.init 0) [.save .ok 1, .save .bothFail 2]).fs = (⟨0, 2⟩, .notFound) := by decide
  rw [this] at hl
  cases hl

/-- a good save, then a save that dies right after `open(p, "wb")` (2 steps: mkdir, open): the
good file is truncated in place; the empty `.pckl` is what `_load` selects. -/
theorem C19_inplace_witness_crash : ¬ C19Statement ⟨.inPlace⟩ := by
  intro h
  obtain ⟨v', hl, _⟩ := h 0 [.save .ok 1, .crash .ok 2 2] 1 (by decide)
  have : nodeLoad (run ⟨.inPlace⟩ (.init 0) [.save .ok 1, .crash .ok 2 2]).node
      (run ⟨.inPlace⟩ (.init 0) [.save .ok 1, .crash .ok 2 2]).fs = (⟨0, 0⟩, .corrupt) := by decide
  rw [this] at hl
  cases hl

/-- a first save torn mid-write poisons loading and auto-loading -/
theorem C19_inplace_poison_witness : ¬ C19NoPoisonStatement ⟨.inPlace⟩ := by
  intro h
  exact h 0 [.crash .ok 1 3] (by decide)

/-- why `os.replace` alone is not the repair: good `.pckl` v2; v3 can only be cloudpickled and is
atomically moved to `.cpckl`; without removing `.pckl`, `_load` returns the stale v2. -/
theorem C19_replace_alone_is_stale :
    storageLoad (runSteps ⟨true, .good 0 2, .absent, .absent, .absent⟩
      [.mkdir, .open .pcklTmp, .unlink .pcklTmp, .open .cpcklTmp, .write .cpcklTmp, .close .cpcklTmp 0 3,
       .replace .cpcklTmp .cpckl]) = .ok 0 2 := by decide

/-- Pinned or repaired: as long as no save fails or is interrupted after a completed one (until
the next delete), load returns exactly the newest completed save. -/
theorem C19_durable_partial (cfg : Cfg) (cls : Nat) (ops : List Op) (v : Nat)
    (hclean : noFaultAfterGood .init ops = true) (hv : (promise .init ops).last = some v) :
    nodeLoad (run cfg (.init cls) ops).node (run cfg (.init cls) ops).fs = (⟨cls, v⟩, .loaded v) := by
  have h := selExact_run cfg (.init cls) .init ops (by intro v hv; cases hv) hclean
  have hc := run_cls cfg (.init cls) ops
  simp only [World.init] at h hc
  have := nodeLoad_ok (run cfg (.init cls) ops).node (run cfg (.init cls) ops).fs v
    (by simp only [World.init]; rw [hc]; exact h v hv)
  simp only [World.init] at this ⊢
  rw [this, hc]

/-- Pinned or repaired: without interrupted saves (failing ones allowed) no torn file is ever
selected. -/
theorem C19_no_poison_partial (cfg : Cfg) (cls : Nat) (ops : List Op) (hn : noCrash ops = true) :
    storageLoad (run cfg (.init cls) ops).fs ≠ .corrupt :=
  whole_not_corrupt _ (whole_run cfg (.init cls) ops ⟨Or.inl rfl, Or.inl rfl⟩ hn)

/-! ## Clause 3: a successful save is what the next load returns (both variants) -/

theorem C19_last_wins (cfg : Cfg) (w : World) (c : Content) (v : Nat) (hc : c ≠ .bothFail) :
    (step cfg (step cfg w (.save c v)).1 .load) =
      ({ fs := saveFS cfg w.fs c w.node.cls v, node := ⟨w.node.cls, v⟩ }, .load (.loaded v)) := by
  have := save_last_wins cfg w.fs c w.node.cls v hc
  simp [step, nodeLoad, this]

/-- also for a new object that auto-loads -/
theorem C19_last_wins_autoload (cfg : Cfg) (w : World) (c : Content) (v : Nat) (hc : c ≠ .bothFail) :
    (step cfg (step cfg w (.save c v)).1 .reopen) =
      ({ fs := saveFS cfg w.fs c w.node.cls v, node := ⟨w.node.cls, v⟩ }, .load (.loaded v)) := by
  have := save_last_wins cfg w.fs c w.node.cls v hc
  simp [step, nodeLoad, this, storageLoad_ok_hasSaved _ _ _ this]

/-! ## Clause 4: delete removes the files and the directory it emptied (both variants) -/

theorem C19_delete_cleans (cfg : Cfg) (fs : FS) :
    (deleteFS cfg fs).pckl = .absent ∧ (deleteFS cfg fs).cpckl = .absent ∧
      hasSaved (deleteFS cfg fs) = false ∧ storageLoad (deleteFS cfg fs) = .notFound ∧
      ¬ ((deleteFS cfg fs).dir = true ∧ (deleteFS cfg fs).noFiles = true) :=
  delete_cleans cfg fs

/-- reachable file systems keep files inside an existing directory only (so "directory gone"
means "everything gone") -/
theorem C19_wf (cfg : Cfg) (cls : Nat) (ops : List Op) : WF (run cfg (.init cls) ops).fs :=
  wf_run cfg (.init cls) ops (by simp [WF, World.init, FS.init, FS.noFiles])

/-! ## Clause 5: loading into a node of another class is refused, the node is unchanged -/

theorem C19_class_check (n : NodeSt) (fs : FS) (c v : Nat) (hl : storageLoad fs = .ok c v)
    (hc : c ≠ n.cls) : nodeLoad n fs = (n, .classMismatch) := by
  simp [nodeLoad, hl, hc]

/-- more generally every load that does not succeed leaves the node as it was -/
theorem C19_refused_load_unchanged (n : NodeSt) (fs : FS) (h : ∀ v, (nodeLoad n fs).2 ≠ .loaded v) :
    (nodeLoad n fs).1 = n := nodeLoad_refused_unchanged n fs h

/-! ## Non-vacuity -/

/-- a history with every kind of op: two good saves (second lands as `.cpckl`), a failing save,
a save torn mid-write, one interrupted between `os.replace` and the removal of the other suffix,
loads, a foreign load, an auto-load. -/
def exOps : List Op :=
  [.save .ok 1, .save .pickleFails 2, .load, .save .bothFail 3, .crash .ok 4 3, .reopen,
   .loadForeign 1 77, .crash .ok 5 5, .load]

example : (promise .init exOps) = ⟨some 2, [5, 4]⟩ := by decide
example : (run ⟨.atomicReplace⟩ (.init 0) exOps).fs = ⟨true, .good 0 5, .good 0 2, .absent, .absent⟩ := by decide
example : (run ⟨.atomicReplace⟩ (.init 0) exOps).node = ⟨0, 5⟩ := by decide
-- the torn temporary of the first crash was still there before the second interrupted save
example : (run ⟨.atomicReplace⟩ (.init 0) (exOps.take 5)).fs = ⟨true, .absent, .good 0 2, .torn, .absent⟩ := by decide
-- hypotheses of the partial theorems are satisfiable by a history with failures and crashes
example : noFaultAfterGood .init [.crash .ok 1 3, .save .bothFail 2, .save .pickleFails 3, .load, .delete,
    .crash .ok 4 2, .save .ok 5] = true ∧
    (promise .init [.crash .ok 1 3, .save .bothFail 2, .save .pickleFails 3, .load, .delete,
    .crash .ok 4 2, .save .ok 5]).last = some 5 := by decide
example : noCrash [.save .ok 1, .save .bothFail 2, .delete, .save .pickleFails 3] = true := by decide
-- class check: hypotheses satisfiable
example : storageLoad (run ⟨.inPlace⟩ (.init 0) [.save .ok 1]).fs = .ok 0 1 ∧ (0 : Nat) ≠ (⟨1, 77⟩ : NodeSt).cls := by decide
-- delete on a populated directory
example : deleteFS ⟨.inPlace⟩ ⟨true, .good 0 1, .torn, .absent, .absent⟩ = FS.init := by decide
-- the two variants differ exactly where the defect is
example : (run ⟨.inPlace⟩ (.init 0) [.save .ok 1, .save .bothFail 2]).fs = FS.init ∧
    (run ⟨.atomicReplace⟩ (.init 0) [.save .ok 1, .save .bothFail 2]).fs = ⟨true, .good 0 1, .absent, .absent, .absent⟩ := by decide

end PwVerif.C19

#print axioms PwVerif.C19.C19_durable
#print axioms PwVerif.C19.C19_no_poison
#print axioms PwVerif.C19.C19_autoload_durable
#print axioms PwVerif.C19.C19_failed_save_keeps
#print axioms PwVerif.C19.C19_interrupted_save_keeps
#print axioms PwVerif.C19.C19_inplace_witness_failed_save
#print axioms PwVerif.C19.C19_inplace_witness_crash
#print axioms PwVerif.C19.C19_inplace_poison_witness
#print axioms PwVerif.C19.C19_replace_alone_is_stale
#print axioms PwVerif.C19.C19_durable_partial
#print axioms PwVerif.C19.C19_no_poison_partial
#print axioms PwVerif.C19.C19_last_wins
#print axioms PwVerif.C19.C19_last_wins_autoload
#print axioms PwVerif.C19.C19_delete_cleans
#print axioms PwVerif.C19.C19_wf
#print axioms PwVerif.C19.C19_class_check
#print axioms PwVerif.C19.C19_refused_load_unchanged
