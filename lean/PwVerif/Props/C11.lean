import PwVerif.Proofs.Pull
/-!
# C11 — Pulling a node runs exactly its upstream closure and leaves the graph as it was

"Pulling (or calling) a node executes every node it depends on through data connections, each
once and in dependency order, then the node itself, and nothing else - no sibling outside that
closure and nothing downstream. Afterwards all execution-signal connections, labels and
starting-node choices are as before the pull, also when the pull is refused (cyclic data,
executor present) or a node upstream fails; with the option to include enclosing graphs, the
same holds level by level up to the root."

The model is `PwVerif/Model/Pull.lean` (`pull cfg w t parents obs fuel`); `obs a = (order, chain)`
carries, per level target `a`, the iteration order of the closure set and the list returned by
`toposort_flatten` as observed on the implementation — the model validates both (`validOrder`,
`validChain`) and every theorem holds for every such pair.  `Cfg.pinned` is the tree as pinned,
`Cfg.repaired` the tree with the three proposed repairs.  Only property theorems live here; the
lemmas are in `Proofs/Pull.lean`.
-/
namespace PwVerif.C11
open PwVerif PwVerif.Conn PwVerif.Pull

/-- well-formed world: the signal graph is mutual / typed / duplicate-free (C12), signal channels
have the kinds of their labels, signals carry no type hints, nobody is its own parent -/
structure WF (w : World) : Prop where
  gwf : GWF w.g
  noSelfParent : NoSelfParent w

/-! ## the closure: exactly the data ancestors; cyclic data and executors are refused untouched -/

/-- the closure computed by the pull is exactly the set of data ancestors of the target -/
theorem C11_closure_spec (w : World) (t : Nat) (cl : List Nat) (h : closureOf w t = some cl) :
    ∀ x, x ∈ cl ↔ Reach w.deps t x := closure_spec w t cl h

/-- acyclic data (a rank decreasing along data connections, bounded by the node count) is never
refused as cyclic -/
theorem C11_dag_not_refused (w : World) (t : Nat) (rank : Nat → Nat)
    (hrank : ∀ i j, j ∈ w.deps i → rank j < rank i) (hb : rank t ≤ w.n) :
    closureOf w t ≠ none := by
  obtain ⟨l, hl⟩ := dfs_rank_some w.deps rank hrank (w.n + 1) t (by omega)
  unfold closureOf; rw [hl]; simp

/-- a cycle among the data ancestors: the pull is refused and nothing whatsoever has changed
(not even the order inside a connection list) -/
theorem C11_cycle_refused (cfg : Cfg) (w : World) (t c : Nat) (obs : Nat → List Nat × List Nat) (fuel : Nat)
    (hreach : Reach w.deps t c) (hcyc : ∃ j ∈ w.deps c, Reach w.deps j c) :
    pull cfg w t false obs fuel = (w, .cyclic) := by
  have h : closureOf w t = none := dfs_cycle_none w.deps c hcyc _ t hreach
  simp [pull, upstreamLevels, upstream_cyclic cfg w t _ _ fuel h]

/-- an executor anywhere among the data ancestors: refused, nothing has changed -/
theorem C11_exec_refused (cfg : Cfg) (w : World) (t x : Nat) (obs : Nat → List Nat × List Nat) (fuel : Nat)
    (cl : List Nat) (hcl : closureOf w t = some cl) (hx : Reach w.deps t x) (he : w.hasExec x = true) :
    pull cfg w t false obs fuel = (w, .execRefused) := by
  have hany : cl.any w.hasExec = true :=
    List.any_eq_true.mpr ⟨x, (closure_spec w t cl hcl x).mpr hx, he⟩
  simp [pull, upstreamLevels, upstream_exec cfg w t _ _ fuel cl hcl hany]

/-- the execution order accepted by the model: every data ancestor exactly once, every node after
all of its data sources, the target last -/
theorem C11_dependency_order (w : World) (t : Nat) (cl chain : List Nat)
    (hcl : closureOf w t = some cl) (hv : validChain w cl chain = true) :
    chain.Nodup ∧ (∀ x, x ∈ chain ↔ Reach w.deps t x) ∧
      (∀ l1 x l2, chain = l1 ++ x :: l2 → ∀ d ∈ w.deps x, d ∈ l1) ∧
      (∃ pre, chain = pre ++ [t]) := by
  obtain ⟨hnd, hcm, htopo⟩ := validChain_spec w cl chain hv
  have hmem : ∀ x, x ∈ chain ↔ Reach w.deps t x := fun x => (hcm x).trans (closure_spec w t cl hcl x)
  refine ⟨hnd, hmem, ?_, chain_ends_in_target w.deps t chain hnd hmem htopo⟩
  intro l1 x l2 e
  rw [e] at htopo
  exact topoOk_before w.deps l1 l2 x htopo

/-! ## exactly the closure runs -/

/-- the full claim (single level): a pull that returns has executed exactly the chain — those
members of it, that is, whose cache did not answer (`executed`; with caching off: all of it) -/
def ExactStatement (cfg : Cfg) : Prop :=
  ∀ (w : World) (t : Nat) (obs : Nat → List Nat × List Nat) (fuel : Nat),
    WF w → (obs t).2.length + 1 ≤ fuel →
    (pull cfg w t false obs fuel).2 = .ok →
      (pull cfg w t false obs fuel).1.log = w.log ++ executed w.hit (obs t).2

/-- General form. Under the level hypothesis (trivially true of the repaired variant) a pull never
runs out of fuel, executes a prefix of "chain without the target, then the target", nothing that
is not a data ancestor, and — when it returns — all of it: the chain, which enumerates the
closure once each in dependency order with the target last (`C11_dependency_order`). -/
theorem C11_exact (cfg : Cfg) (w : World) (t : Nat) (obs : Nat → List Nat × List Nat) (fuel : Nat)
    (hwf : WF w) (hyp : LevelHyp cfg w t) (hfuel : (obs t).2.length + 1 ≤ fuel) :
    (pull cfg w t false obs fuel).2 ≠ .stuck ∧
      ∃ pre, pre <+: (obs t).2.dropLast ++ [t] ∧
        (pull cfg w t false obs fuel).1.log = w.log ++ executed w.hit pre ∧
        (∀ x ∈ pre, Reach w.deps t x) ∧
        ((pull cfg w t false obs fuel).2 = .ok → pre = (obs t).2) := by
  obtain ⟨hns, pre, hp, hlog, hok, hmem, _⟩ := pull_log cfg w t false obs fuel hwf.gwf hwf.noSelfParent
    (by intro a ha; simp [pullLevels] at ha; subst ha; exact hyp)
    (by intro a ha; simp [pullLevels] at ha; subst ha; exact hfuel)
  have hl : levelsLog obs (pullLevels w t false) = (obs t).2.dropLast := by simp [levelsLog, pullLevels]
  rw [hl] at hp hok
  refine ⟨hns, pre, hp, hlog, ?_, ?_⟩
  · intro x hx
    rcases hmem x hx with rfl | ⟨a, ha, hr⟩
    · exact .refl _
    · simp [pullLevels] at ha; subst ha; exact hr
  · intro hk
    rw [hok hk]
    -- the level came back without an exception, hence the chain had been validated
    have hup : (upstream cfg w t (obs t).1 (obs t).2 fuel).2 = .ok := by
      rw [pull_eq] at hk
      simp only [pullLevels, Bool.false_eq_true, if_false, upstreamLevels] at hk
      cases hr : upstream cfg w t (obs t).1 (obs t).2 fuel with
      | mk w' o =>
        rw [hr] at hk
        cases o <;> first | rfl | (dsimp only at hk; cases hk)
    obtain ⟨cl, hcl, _, _, hvc⟩ := upstream_ok_valid cfg w t _ _ fuel hup
    obtain ⟨_, _, _, pre0, e⟩ := C11_dependency_order w t cl _ hcl hvc
    rw [e]; simp

/-- with the repairs the full claim holds for every world -/
theorem C11_exact_repaired : ExactStatement Cfg.repaired := by
  intro w t obs fuel hwf hfuel hok
  obtain ⟨_, pre, _, hlog, _, hfull⟩ := C11_exact Cfg.repaired w t obs fuel hwf
    ⟨Or.inl rfl, Or.inl rfl, Or.inl rfl⟩ hfuel
  rw [hlog, hfull hok]

/-- the tree as pinned: the claim holds when nothing hangs on `failed`/`true`/`false` of the data
ancestors and the driving parent is a workflow or has nothing on its own output signals -/
theorem C11_exact_partial (w : World) (t : Nat) (obs : Nat → List Nat × List Nat) (fuel : Nat)
    (hwf : WF w) (h1 : ClosureEmitsOnlyRan w t) (h2 : DriverSilent w t) (h3 : DriverLocal w t)
    (hfuel : (obs t).2.length + 1 ≤ fuel)
    (hok : (pull Cfg.pinned w t false obs fuel).2 = .ok) :
    (pull Cfg.pinned w t false obs fuel).1.log = w.log ++ executed w.hit (obs t).2 := by
  obtain ⟨_, pre, _, hlog, _, hfull⟩ := C11_exact Cfg.pinned w t obs fuel hwf ⟨Or.inr h1, Or.inr h2, Or.inr h3⟩ hfuel
  rw [hlog, hfull hok]

/-! ### concrete worlds (non-vacuity and witnesses) -/

/-- three parentless nodes `0 → 1 → 2` in a data chain, a bystander `3`; hand-made signals
`0.ran → 3.run` (cut during the pull, restored afterwards) and `3.ran → 1.run` -/
def exChain : World :=
  { world0 with n := 4, g := mkG [(ch 3 0, ch 0 2), (ch 1 0, ch 3 2)],
                deps := fun i => if i = 2 then [1] else if i = 1 then [0] else [] }

def exObs : Nat → List Nat × List Nat := fun _ => ([1, 2, 0], [0, 1, 2])

theorem exChain_wf : WF exChain := ⟨mkG_gwf _, fun _ => by simp [exChain, world0]⟩

example : closureOf exChain 2 = some [2, 1, 0] := by decide
example : LevelHyp Cfg.pinned exChain 2 := by
  refine ⟨Or.inr ?_, Or.inr ?_, Or.inr ?_⟩
  · intro i _; exact mkG_silent _ (by decide) (by decide) i
  · intro p hp; simp [exChain, world0] at hp
  · intro p hp; simp [exChain, world0] at hp
example : (pull Cfg.pinned exChain 2 false exObs 10).2 = .ok ∧
    (pull Cfg.pinned exChain 2 false exObs 10).1.log = [0, 1, 2] := by decide


/-- an `If` node `0` upstream of the target `1`; its `true` signal is wired to the run input of
the bystander `2` -/
def exIf : World :=
  { world0 with n := 3, g := mkG [(ch 2 0, ch 0 4)],
                deps := fun i => if i = 1 then [0] else [],
                truth := fun i => if i = 0 then some true else none }

def exIfObs : Nat → List Nat × List Nat := fun _ => ([0, 1], [0, 1])

theorem exIf_wf : WF exIf := ⟨mkG_gwf _, fun _ => by simp [exIf, world0]⟩

/-- as pinned: the bystander runs during the pull … -/
example : (pull Cfg.pinned exIf 1 false exIfObs 10).1.log = [0, 2, 1] := by decide
/-- … with the repair it does not, and the graph is put back -/
example : (pull Cfg.repaired exIf 1 false exIfObs 10).1.log = [0, 1] ∧
    (pull Cfg.repaired exIf 1 false exIfObs 10).1.g.conns (ch 0 4) = [ch 2 0] := by decide

/-- the full claim is false of the tree as pinned: the `true` signal of an upstream `If` node
executes a sibling outside the closure -/
theorem C11_exact_witness : ¬ ExactStatement Cfg.pinned := by
  intro h
  have := h exIf 1 exIfObs 10 exIf_wf (by decide) (by decide)
  revert this
  decide

/-- the same leak through `failed`: node `0` (upstream of the target `1`) raises, its `failed`
signal is wired to the run input of the handler `2`, which executes during the pull as pinned and
does not with the repair -/
theorem C11_failed_signal_witness :
    let w : World := { world0 with n := 3, g := mkG [(ch 2 0, ch 0 3)],
                                   deps := fun i => if i = 1 then [0] else [], fails := fun i => i = 0 }
    (pull Cfg.pinned w 1 false exIfObs 10).2 = .failed ∧
      (pull Cfg.pinned w 1 false exIfObs 10).1.log = [0, 2] ∧
      (pull Cfg.repaired w 1 false exIfObs 10).1.log = [0] := by decide

/-- a macro `0` with children `2 → 1`; the macro's `ran` is wired to the parentless node `3` -/
def exMac : World :=
  { world0 with n := 4, g := mkG [(ch 3 0, ch 0 2)],
                deps := fun i => if i = 1 then [2] else [],
                parent := fun i => if i = 1 ∨ i = 2 then some 0 else none }

def exMacObs : Nat → List Nat × List Nat := fun _ => ([1, 2], [2, 1])

theorem exMac_wf : WF exMac := ⟨mkG_gwf _, fun i => by simp only [exMac, world0]; split <;> simp; omega⟩

/-- also false as pinned without any `If`/`failed` wiring: the macro that drives the upstream run
emits its own `ran` afterwards, which executes its sibling one level up -/
theorem C11_parent_emits_witness :
    WF exMac ∧ ClosureEmitsOnlyRan exMac 1 ∧
      (pull Cfg.pinned exMac 1 false exMacObs 10).2 = .ok ∧
      (pull Cfg.pinned exMac 1 false exMacObs 10).1.log = [2, 3, 1] ∧
      (pull Cfg.repaired exMac 1 false exMacObs 10).1.log = [2, 1] :=
  ⟨exMac_wf, fun i _ => mkG_silent _ (by decide) (by decide) i, by decide, by decide, by decide⟩

/-! ## the graph is as it was -/

/-- Whatever the variant, the outcome (returned, refused for any reason, a node upstream or the
target failed), with or without the parent scopes: every channel has the same set of signal
connections as before, all labels, all starting-node lists and all parent pointers are the same,
and the world is well-formed again. -/
theorem C11_restored (cfg : Cfg) (w : World) (t : Nat) (parents : Bool)
    (obs : Nat → List Nat × List Nat) (fuel : Nat) (hwf : WF w) :
    (∀ c x, x ∈ (pull cfg w t parents obs fuel).1.g.conns c ↔ x ∈ w.g.conns c) ∧
      (pull cfg w t parents obs fuel).1.label = w.label ∧
      (pull cfg w t parents obs fuel).1.starting = w.starting ∧
      (pull cfg w t parents obs fuel).1.parent = w.parent ∧
      WF (pull cfg w t parents obs fuel).1 := by
  have hs := pull_same cfg w t parents obs fuel hwf.gwf
  exact ⟨hs.conns, hs.label, hs.starting, hs.parent, hs.gwf, hwf.noSelfParent.of_same hs⟩

/-- three children `0 → 1 → 2` of a workflow `3` with hand-made signals, the middle one fails:
the pull fails, connection sets / labels / starting nodes are back -/
def exFail : World :=
  { world0 with n := 4, g := mkG [(ch 2 0, ch 0 2), (ch 1 1, ch 0 2), (ch 0 0, ch 2 3)],
                deps := fun i => if i = 2 then [1] else if i = 1 then [0] else [],
                parent := fun i => if i < 3 then some 3 else none,
                isWf := fun i => i = 3, starting := fun i => if i = 3 then [0] else [],
                fails := fun i => i = 1 }

example : WF exFail := ⟨mkG_gwf _, fun i => by simp only [exFail, world0]; split <;> simp; omega⟩
example : (pull Cfg.pinned exFail 2 false exObs 10).2 = .failed ∧
    (pull Cfg.pinned exFail 2 false exObs 10).1.log = [0, 1] ∧
    (pull Cfg.pinned exFail 2 false exObs 10).1.starting 3 = [0] ∧
    (pull Cfg.pinned exFail 2 false exObs 10).1.g.conns (ch 0 2) = [ch 2 0, ch 1 1] ∧
    exFail.g.conns (ch 0 2) = [ch 1 1, ch 2 0] := by decide

/-- the full claim about firing order: every connection *list* is literally as before -/
def OrderedStatement (cfg : Cfg) : Prop :=
  ∀ (w : World) (t : Nat) (parents : Bool) (obs : Nat → List Nat × List Nat) (fuel : Nat),
    WF w → (pull cfg w t parents obs fuel).1.g.conns = w.g.conns

/-- when the `finally` block assigns the remembered lists back (repair `restoreLists`), the signal
graph after a pull — any outcome, with or without parent scopes — is equal to the one before,
order included (index 0 of a list fires first) -/
theorem C11_restored_ordered (cfg : Cfg) (hr : cfg.restoreLists = true) : OrderedStatement cfg :=
  fun w t parents obs fuel hwf => pull_conns_eq cfg w t parents obs fuel hwf.gwf hr

theorem C11_restored_ordered_repaired : OrderedStatement Cfg.repaired := C11_restored_ordered _ rfl

/-- `a = 0` with `a >> c`, `a >> d`, `a >> b` (made in this order) and data `a → b`; `b = 1` is pulled -/
def exOrder : World :=
  { world0 with n := 4, g := mkG [(ch 2 0, ch 0 2), (ch 3 0, ch 0 2), (ch 1 0, ch 0 2)],
                deps := fun i => if i = 1 then [0] else [] }

theorem exOrder_wf : WF exOrder := ⟨mkG_gwf _, fun _ => by simp [exOrder, world0]⟩

/-- re-connecting the remembered pairs prepends them: as pinned — and with the three earlier
repairs only — a pull reverses the firing order of `a.ran` (sets equal, `C11_restored`) -/
theorem C11_order_witness :
    exOrder.g.conns (ch 0 2) = [ch 1 0, ch 3 0, ch 2 0] ∧
      (pull Cfg.pinned exOrder 1 false exIfObs 10).1.g.conns (ch 0 2) = [ch 2 0, ch 3 0, ch 1 0] ∧
      (pull { Cfg.repaired with restoreLists := false } exOrder 1 false exIfObs 10).1.g.conns (ch 0 2)
        = [ch 2 0, ch 3 0, ch 1 0] ∧
      (pull Cfg.repaired exOrder 1 false exIfObs 10).1.g.conns (ch 0 2) = [ch 1 0, ch 3 0, ch 2 0] ∧
      ¬ OrderedStatement Cfg.pinned ∧ ¬ OrderedStatement { Cfg.repaired with restoreLists := false } := by
  refine ⟨by decide, by decide, by decide, by decide, ?_, ?_⟩
  · intro h
    have := congrFun (h exOrder 1 false exIfObs 10 exOrder_wf) (ch 0 2)
    revert this; decide
  · intro h
    have := congrFun (h exOrder 1 false exIfObs 10 exOrder_wf) (ch 0 2)
    revert this; decide

/-! ## an executor on the parent that would have to drive the upstream run -/

/-- (repair `refuseDriverExec`) when something upstream has to be run and the parent that would
drive that run has an executor, the pull is refused and the world is unchanged -/
theorem C11_driver_exec_refused (cfg : Cfg) (w : World) (t x p : Nat) (obs : Nat → List Nat × List Nat)
    (fuel : Nat) (cl : List Nat) (hr : cfg.refuseDriverExec = true) (hcl : closureOf w t = some cl)
    (hx : Reach w.deps t x) (hxt : x ≠ t) (hp : w.parent t = some p) (he : w.hasExec p = true) :
    pull cfg w t false obs fuel = (w, .execRefused) := by
  have hd : driverExecRefused cfg w t cl = true := by
    simp [driverExecRefused, hr, hp, he]
    exact ⟨x, (closure_spec w t cl hcl x).mpr hx, hxt⟩
  simp [pull, upstreamLevels, upstream, hcl, hd]

/-- children `0 → 1` of a workflow `2` that has an executor -/
def exDrvExec : World :=
  { world0 with n := 3, g := mkG [], deps := fun i => if i = 1 then [0] else [],
                parent := fun i => if i < 2 then some 2 else none, isWf := fun i => i = 2,
                hasExec := fun i => i = 2 }

/-- as the tree is (and was pinned): `child.pull()` without the parent scopes is NOT refused although
the parent that drives the upstream run has an executor — the parent's run is submitted, nothing
upstream has executed when the target runs on its old input, yet the pull returns; with the parent
scopes (`child()`) the same pull is refused at the parent's level; with the repair both are -/
theorem C11_driver_exec_witness :
    let obs : Nat → List Nat × List Nat := fun a => if a = 2 then ([2], [2]) else ([0, 1], [0, 1])
    let now : Cfg := { Cfg.repaired with refuseDriverExec := false }
    (pull now exDrvExec 1 false obs 10).2 = .ok ∧ (pull now exDrvExec 1 false obs 10).1.log = [1] ∧
      (pull now exDrvExec 1 true obs 10).2 = .execRefused ∧
      (pull Cfg.repaired exDrvExec 1 false obs 10).2 = .execRefused ∧
      (pull Cfg.repaired exDrvExec 1 false obs 10).1.log = [] ∧
      ¬ ExactStatement now := by
  refine ⟨by decide, by decide, by decide, by decide, by decide, ?_⟩
  intro h
  have := h exDrvExec 1 (fun a => if a = 2 then ([2], [2]) else ([0, 1], [0, 1])) 10
    ⟨mkG_gwf _, fun i => by simp only [exDrvExec, world0]; split <;> simp; omega⟩ (by decide) (by decide)
  revert this
  decide

/-! ## the temporary wiring leaves no trigger state behind -/

/-- The linear chain only ever calls plain `run` inputs, so whatever the outcome of the pull — also
when a node upstream raises half-way — no all-of trigger (`accumulate_and_run`) has collected
anything: `received_signals` of every channel is what it was. Holds under the level hypothesis
(trivially true with the repairs), for leaf and macro targets, with and without parent scopes. -/
theorem C11_no_trigger_state (cfg : Cfg) (w : World) (t : Nat) (parents : Bool)
    (obs : Nat → List Nat × List Nat) (fuel : Nat) (hwf : WF w)
    (hyp : ∀ a ∈ pullLevels w t parents, LevelHyp cfg w a)
    (hfuel : ∀ a ∈ pullLevels w t parents, (obs a).2.length + 1 ≤ fuel) :
    (pull cfg w t parents obs fuel).1.recv = w.recv := by
  obtain ⟨_, _, _, _, _, _, h⟩ := pull_log cfg w t parents obs fuel hwf.gwf hwf.noSelfParent hyp hfuel
  exact h

theorem C11_no_trigger_state_repaired (w : World) (t : Nat) (parents : Bool)
    (obs : Nat → List Nat × List Nat) (fuel : Nat) (hwf : WF w)
    (hfuel : ∀ a ∈ pullLevels w t parents, (obs a).2.length + 1 ≤ fuel) :
    (pull Cfg.repaired w t parents obs fuel).1.recv = w.recv :=
  C11_no_trigger_state _ w t parents obs fuel hwf (fun _ _ => ⟨Or.inl rfl, Or.inl rfl, Or.inl rfl⟩) hfuel

/-- the diamond `0 → {1, 2} → 3` wired the way a workflow wires its children (every node waits on
its all-of trigger for the `ran` of the nodes it takes data from) instead of the linear chain -/
def exAllOf : Env :=
  { g := mkG [(ch 1 1, ch 0 2), (ch 2 1, ch 0 2), (ch 3 1, ch 1 2), (ch 3 1, ch 2 2)],
    label := fun i => { base := i, tag := none }, fails := fun i => i = 1, truth := fun _ => none,
    running := fun _ => false, hit := fun _ => false }

/-- With all-of wiring the same aborted run leaves trigger state behind: node `1` raises, the join
`3` has by then collected the signal of node `2` and keeps it — parentless nodes are never reset —
so in a later run it fires as soon as `1` alone has emitted (with `2` moved downstream of `1`: before
its data source). This is what a pull wired by `set_run_connections_according_to_dag` would do. -/
theorem C11_allof_stale_witness :
    let x0 : X := { log := [], recv := fun _ => [], failed := fun _ => false, stack := [], errs := 0,
                    raised := false }
    let x := runFuel exAllOf .dfs 20 (startNode exAllOf .dfs x0 0)
    x.raised = true ∧ x.log = [0, 2, 1] ∧ x.recv (ch 3 1) = [(({ base := 2, tag := none } : Label), 2)] ∧
      -- the failing branch is repaired (`fails` nowhere, flag cleared); the next run reaches the join
      -- through node `1` alone and the join runs although node `2` has not
      (let e' : Env := { exAllOf with fails := fun _ => false }
       let y := runFuel e' .dfs 20
         (startNode e' .dfs { x with failed := fun _ => false, raised := false, log := [] } 1)
       y.log = [1, 3]) := by decide

/-! ## stale or foreign `running` flags, cache hits -/

/-- a target that is itself `running` is refused (after its upstream has been run: the readiness
check comes last); by `C11_restored` the graph is as before -/
theorem C11_running_target_refused (cfg : Cfg) (w : World) (t : Nat) (parents : Bool)
    (obs : Nat → List Nat × List Nat) (fuel : Nat) (hwf : WF w) (hrun : w.running t = true) :
    (pull cfg w t parents obs fuel).2 ≠ .ok := by
  rw [pull_eq]
  have hs := upstreamLevels_same cfg obs fuel (pullLevels w t parents) w hwf.gwf
  cases hu : upstreamLevels cfg obs fuel w (pullLevels w t parents) with
  | mk w' o =>
    rw [hu] at hs
    have hr' : w'.running t = true := by
      have := hs.running; dsimp only at this; rw [this]; exact hrun
    cases o <;> simp [runTarget, hr']

/-- node `1` of the chain `0 → 1 → 2` answers from its cache: it is not executed, its neighbours are -/
example : (pull Cfg.repaired { exChain with hit := fun i => i = 1 } 2 false exObs 10).2 = .ok ∧
    (pull Cfg.repaired { exChain with hit := fun i => i = 1 } 2 false exObs 10).1.log = [0, 2] := by decide
/-- node `1` carries a `running` flag: the run stops there, the graph is put back -/
example : (pull Cfg.repaired { exChain with running := fun i => i = 1 } 2 false exObs 10).2 = .failed ∧
    (pull Cfg.repaired { exChain with running := fun i => i = 1 } 2 false exObs 10).1.log = [0] ∧
    (pull Cfg.repaired { exChain with running := fun i => i = 1 } 2 false exObs 10).1.g.conns (ch 0 2)
      = exChain.g.conns (ch 0 2) := by decide

/-- refused pulls (cyclic data, executor present) return the very same world -/
theorem C11_refused_unchanged (cfg : Cfg) (w : World) (t : Nat) (obs : Nat → List Nat × List Nat)
    (fuel : Nat)
    (h : (∃ c, Reach w.deps t c ∧ ∃ j ∈ w.deps c, Reach w.deps j c) ∨
      (∃ cl x, closureOf w t = some cl ∧ Reach w.deps t x ∧ w.hasExec x = true)) :
    (pull cfg w t false obs fuel).1 = w := by
  rcases h with ⟨c, hc, hcyc⟩ | ⟨cl, x, hcl, hx, he⟩
  · rw [C11_cycle_refused cfg w t c obs fuel hc hcyc]
  · rw [C11_exec_refused cfg w t x obs fuel cl hcl hx he]

example : (pull Cfg.pinned { exChain with deps := fun i => if i = 2 then [1] else if i = 1 then [0] else [1] }
    2 false exObs 10).2 = .cyclic := by decide

/-- `automate_execution` of a driving workflow is also put back: always with the repair, and as
pinned whenever the pull returned -/
theorem C11_automate_restored (cfg : Cfg) (w : World) (t : Nat) (parents : Bool)
    (obs : Nat → List Nat × List Nat) (fuel : Nat)
    (h : cfg.automateInFinally = true ∨ (pull cfg w t parents obs fuel).2 = .ok) :
    (pull cfg w t parents obs fuel).1.automate = w.automate :=
  pull_automate cfg w t parents obs fuel h

/-- as pinned a failing upstream node leaves the workflow with `automate_execution = False` -/
theorem C11_automate_witness :
    (pull Cfg.pinned exFail 2 false exObs 10).2 = .failed ∧
      exFail.automate 3 = true ∧ (pull Cfg.pinned exFail 2 false exObs 10).1.automate 3 = false ∧
      (pull Cfg.repaired exFail 2 false exObs 10).1.automate 3 = true := by decide

/-! ## with the parent scopes: level by level, from the root down -/

/-- the levels of a pull with `run_parent_trees_too`: the ancestors from the root-most one down,
the node itself last -/
theorem C11_levels_shape (w : World) (t : Nat) :
    ∃ ups, pullLevels w t true = ups ++ [t] ∧ pullLevels w t false = [t] := by
  refine ⟨(match w.parent t with | some p => ancestors w w.n p | none => []), ?_, rfl⟩
  simp only [pullLevels, if_true, ancestors]
  cases w.parent t <;> rfl

/-- Level by level: under the level hypothesis at every level, what runs is a prefix of
"for each level from the root down its chain without its own target, then the node itself", only
data ancestors of the level targets, and all of it when the pull returns. -/
theorem C11_parents (cfg : Cfg) (w : World) (t : Nat) (obs : Nat → List Nat × List Nat) (fuel : Nat)
    (hwf : WF w) (hyp : ∀ a ∈ pullLevels w t true, LevelHyp cfg w a)
    (hfuel : ∀ a ∈ pullLevels w t true, (obs a).2.length + 1 ≤ fuel) :
    (pull cfg w t true obs fuel).2 ≠ .stuck ∧
      ∃ pre, pre <+: (pullLevels w t true).flatMap (fun a => (obs a).2.dropLast) ++ [t] ∧
        (pull cfg w t true obs fuel).1.log = w.log ++ executed w.hit pre ∧
        (∀ x ∈ pre, x = t ∨ ∃ a ∈ pullLevels w t true, Reach w.deps a x) ∧
        ((pull cfg w t true obs fuel).2 = .ok →
          pre = (pullLevels w t true).flatMap (fun a => (obs a).2.dropLast) ++ [t]) := by
  obtain ⟨h1, pre, h2, h3, h4, h5, _⟩ := pull_log cfg w t true obs fuel hwf.gwf hwf.noSelfParent hyp hfuel
  exact ⟨h1, pre, h2, h3, h5, h4⟩

/-- with the repairs no hypothesis on the wiring is needed -/
theorem C11_parents_repaired (w : World) (t : Nat) (obs : Nat → List Nat × List Nat) (fuel : Nat)
    (hwf : WF w) (hfuel : ∀ a ∈ pullLevels w t true, (obs a).2.length + 1 ≤ fuel)
    (hok : (pull Cfg.repaired w t true obs fuel).2 = .ok) :
    (pull Cfg.repaired w t true obs fuel).1.log =
      w.log ++ executed w.hit ((pullLevels w t true).flatMap (fun a => (obs a).2.dropLast) ++ [t]) := by
  obtain ⟨_, pre, _, hlog, _, hfull⟩ := C11_parents Cfg.repaired w t obs fuel hwf
    (fun _ _ => ⟨Or.inl rfl, Or.inl rfl, Or.inl rfl⟩) hfuel
  rw [hlog, hfull hok]

/-- a workflow `0` holding `2 → 1` where `1` is a macro holding `4 → 3`; `1.ran` is wired to the
accumulating run input of a third child `5` of the workflow -/
def exNest : World :=
  { world0 with n := 6, g := mkG [(ch 5 1, ch 1 2)],
                deps := fun i => if i = 1 then [2] else if i = 3 then [4] else [],
                parent := fun i => if i = 1 ∨ i = 2 ∨ i = 5 then some 0 else if i = 3 ∨ i = 4 then some 1 else none,
                isWf := fun i => i = 0 }

def exNestObs : Nat → List Nat × List Nat := fun a =>
  if a = 0 then ([0], [0]) else if a = 1 then ([1, 2], [2, 1]) else ([3, 4], [4, 3])

example : WF exNest :=
  ⟨mkG_gwf _, fun i => by simp only [exNest, world0]; split <;> (try split) <;> simp <;> omega⟩
example : pullLevels exNest 3 true = [0, 1, 3] := by decide
example : (pull Cfg.repaired exNest 3 true exNestObs 10).2 = .ok ∧
    (pull Cfg.repaired exNest 3 true exNestObs 10).1.log = [2, 4, 3] ∧
    (pull Cfg.pinned exNest 3 true exNestObs 10).1.log = [2, 4, 5, 3] := by decide

end PwVerif.C11

#print axioms PwVerif.C11.C11_closure_spec
#print axioms PwVerif.C11.C11_dag_not_refused
#print axioms PwVerif.C11.C11_cycle_refused
#print axioms PwVerif.C11.C11_exec_refused
#print axioms PwVerif.C11.C11_dependency_order
#print axioms PwVerif.C11.C11_exact
#print axioms PwVerif.C11.C11_exact_repaired
#print axioms PwVerif.C11.C11_exact_partial
#print axioms PwVerif.C11.C11_exact_witness
#print axioms PwVerif.C11.C11_failed_signal_witness
#print axioms PwVerif.C11.C11_parent_emits_witness
#print axioms PwVerif.C11.C11_restored
#print axioms PwVerif.C11.C11_restored_ordered
#print axioms PwVerif.C11.C11_restored_ordered_repaired
#print axioms PwVerif.C11.C11_order_witness
#print axioms PwVerif.C11.C11_driver_exec_refused
#print axioms PwVerif.C11.C11_driver_exec_witness
#print axioms PwVerif.C11.C11_no_trigger_state
#print axioms PwVerif.C11.C11_no_trigger_state_repaired
#print axioms PwVerif.C11.C11_allof_stale_witness
#print axioms PwVerif.C11.C11_running_target_refused
#print axioms PwVerif.C11.C11_refused_unchanged
#print axioms PwVerif.C11.C11_automate_restored
#print axioms PwVerif.C11.C11_automate_witness
#print axioms PwVerif.C11.C11_levels_shape
#print axioms PwVerif.C11.C11_parents
#print axioms PwVerif.C11.C11_parents_repaired
