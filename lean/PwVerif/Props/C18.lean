import PwVerif.Proofs.Inject
/-!
# C18 — Operators on outputs mean what they mean in Python; no duplicates, no mix-ups

"Applying an arithmetic, comparison, bitwise, indexing, slicing, attribute or conversion operation to an
output channel (or to a single-output node) yields a node whose value, once run, equals the same
operation applied to the underlying values, and raises what Python raises when the operation is invalid.
Writing the same expression again inside the same parent reuses the node already created rather than
adding another, and two different expressions never share a node."

Proved here, over the transcribed lookup-or-create of `_node_injection`, for every hash function `H`,
every history of expressions of any length and every starting table of children:

* `C18_reuse`, `C18_reuse_history` — the same expression again gives the same node and changes nothing
  (child count included); `C18_parentless_fresh` — without a parent every expression makes a new node.
* `C18_share_iff` — two expressions share a node **iff** their labels are equal.
* `C18_distinct_partial` — hence different expressions never share a node *provided the operands print
  injectively* (`PrintInjective`) and the hash does not collide on the explored labels (`HashOk`);
  `C18_distinct_witness` — the full statement is FALSE for the pinned printer (`str(operand)`):
  `x[1]` and `x["1"]` (and `a + 1`, `a + "1"`) get the same node;
  `C18_distinct_repaired` — it is a theorem for the repaired printer (type name + `repr`, hashed as a tuple).
* `C18_dispatch`, `C18_dispatch_injective` — every operator method injects the node class that computes
  the same Python operation with the operands in the same order; no two operators share a class.

NOT proved (Python itself is the only oracle; validated differentially by the harness): the *value* clause
— that the injected node's value equals the Python operator applied to the values and raises what Python
raises.  `str()/repr()/type().__name__` of operands and `hash` are inputs/parameters of the model.
-/
namespace PwVerif.C18
open PwVerif PwVerif.Inject

/-- writing the same expression again inside the same parent: same node, state (hence the number of
children) unchanged -/
theorem C18_reuse (H : Key → String) (p : Printer) (st : St) (par : Nat) (e : Expr) :
    inject H p (inject H p st (some par) e).1 (some par) e
      = ((inject H p st (some par) e).1, (inject H p st (some par) e).2) :=
  inject_found H p _ par e _ (inject_lookup_self H p st par e)

/-- … also when other expressions were written in between -/
theorem C18_reuse_history (H : Key → String) (p : Printer) (st : St) (par : Nat) (es : List Expr) (hwf : WF st)
    (e : Expr) (n1 n2 : Nat)
    (h1 : (e, n1) ∈ es.zip (injAll H p st par es).2) (h2 : (e, n2) ∈ es.zip (injAll H p st par es).2) :
    n1 = n2 :=
  (share_iff H p st par es hwf e e n1 n2 h1 h2).mpr rfl

/-- outside a parent nothing can be looked up: every expression makes a new node -/
theorem C18_parentless_fresh (H : Key → String) (p : Printer) (st : St) (e1 e2 : Expr) :
    (inject H p st none e1).2 = st.next ∧
    (inject H p (inject H p st none e1).1 none e2).2 = st.next + 1 ∧
    (inject H p st none e1).1.children = st.children :=
  ⟨rfl, rfl, rfl⟩

/-- in any history, two expressions got the same node exactly when their labels are equal -/
theorem C18_share_iff (H : Key → String) (p : Printer) (st : St) (par : Nat) (es : List Expr) (hwf : WF st)
    (e1 e2 : Expr) (n1 n2 : Nat)
    (h1 : (e1, n1) ∈ es.zip (injAll H p st par es).2) (h2 : (e2, n2) ∈ es.zip (injAll H p st par es).2) :
    n1 = n2 ↔ label H p e1 = label H p e2 :=
  share_iff H p st par es hwf e1 e2 n1 n2 h1 h2

/-- the hash (and the rendering `injected_<Class>_<hash>`) does not collide on the explored expressions -/
def HashOk (H : Key → String) (p : Printer) (es : List Expr) : Prop :=
  ∀ e1 ∈ es, ∀ e2 ∈ es, label H p e1 = label H p e2 → key p e1 = key p e2

/-- the world the expressions talk about is coherent: a scoped label names one channel (true among the
channels of one parent), and type name + `repr` determine a raw operand -/
def Coherent (es : List Expr) : Prop :=
  ∀ e1 ∈ es, ∀ e2 ∈ es, (e1.slabel = e2.slabel → e1.owner = e2.owner) ∧
    ∀ o1 ∈ e1.ops, ∀ o2 ∈ e2.ops, Consistent o1 o2

/-- printing the expressions into hash keys loses nothing -/
def PrintInjective (p : Printer) (es : List Expr) : Prop :=
  ∀ e1 ∈ es, ∀ e2 ∈ es, key p e1 = key p e2 → e1 = e2

/-- the property's last clause: two different expressions never share a node -/
def DistinctStatement (p : Printer) : Prop :=
  ∀ (H : Key → String) (st : St) (par : Nat) (es : List Expr), WF st → HashOk H p es → Coherent es →
    ∀ e1 e2 n1 n2, (e1, n1) ∈ es.zip (injAll H p st par es).2 → (e2, n2) ∈ es.zip (injAll H p st par es).2 →
      n1 = n2 → e1 = e2

theorem mem_of_zip {es : List Expr} {ns : List Nat} {e : Expr} {n : Nat} (h : (e, n) ∈ es.zip ns) : e ∈ es :=
  (List.of_mem_zip h).1

/-- for any printer: distinct under injective printing -/
theorem C18_distinct_partial (p : Printer) (H : Key → String) (st : St) (par : Nat) (es : List Expr)
    (hwf : WF st) (hh : HashOk H p es) (hp : PrintInjective p es)
    (e1 e2 : Expr) (n1 n2 : Nat)
    (h1 : (e1, n1) ∈ es.zip (injAll H p st par es).2) (h2 : (e2, n2) ∈ es.zip (injAll H p st par es).2)
    (hn : n1 = n2) : e1 = e2 :=
  hp e1 (mem_of_zip h1) e2 (mem_of_zip h2)
    (hh e1 (mem_of_zip h1) e2 (mem_of_zip h2) ((share_iff H p st par es hwf e1 e2 n1 n2 h1 h2).mp hn))

/-- the repaired printer is injective on every coherent set of expressions … -/
theorem C18_repaired_print_injective (es : List Expr) (hc : Coherent es) : PrintInjective .repaired es := by
  intro e1 h1 e2 h2 hk
  obtain ⟨ho, hops⟩ := hc e1 h1 e2 h2
  simp only [key, Key.struct.injEq] at hk
  obtain ⟨hs, hcls, hm⟩ := hk
  have := map_opKey_inj e1.ops e2.ops hops hm
  cases e1; cases e2
  simp_all

/-- … so with it the statement holds in full -/
theorem C18_distinct_repaired : DistinctStatement .repaired := by
  intro H st par es hwf hh hc e1 e2 n1 n2 h1 h2 hn
  exact C18_distinct_partial .repaired H st par es hwf hh (C18_repaired_print_injective es hc) e1 e2 n1 n2 h1 h2 hn

/-- `x[1]` and `x["1"]` on the output `l__user_input` -/
def wInt : Expr := ⟨0, "l__user_input", "GetItem", [.raw "int" "1" "1"]⟩
def wStr : Expr := ⟨0, "l__user_input", "GetItem", [.raw "str" "1" "'1'"]⟩
/-- `a + 1` and `a + "1"` -/
def wAddInt : Expr := ⟨1, "a__user_input", "Add", [.raw "int" "1" "1"]⟩
def wAddStr : Expr := ⟨1, "a__user_input", "Add", [.raw "str" "1" "'1'"]⟩

def emptySt : St := { children := fun _ => [], next := 0 }

theorem emptySt_WF : WF emptySt := fun _ => ⟨by simp [emptySt], by simp [emptySt], by simp [emptySt]⟩

/-- the pinned printer maps the two different expressions to one key … -/
theorem C18_pinned_not_injective :
    key .pinned wInt = key .pinned wStr ∧ wInt ≠ wStr ∧
    key .pinned wAddInt = key .pinned wAddStr ∧ wAddInt ≠ wAddStr := by decide

/-- … so on the pinned code the statement is false, whatever the hash: the second expression is handed the
first one's node -/
theorem C18_distinct_witness : ¬ DistinctStatement .pinned := by
  intro h
  have hk : key .pinned wInt = key .pinned wStr := by decide
  have hl : ∀ H : Key → String, label H .pinned wInt = label H .pinned wStr := by
    intro H; simp only [label, hk]; rfl
  have hres : (injAll (fun _ => "0") .pinned emptySt 0 [wInt, wStr]).2 = [0, 0] := by
    simp only [injAll]
    rw [inject_new _ _ emptySt 0 wInt (by rfl)]
    rw [inject_found _ _ _ 0 wStr 0 (by rw [← hl]; simp [emptySt])]
    rfl
  have := h (fun _ => "0") emptySt 0 [wInt, wStr] emptySt_WF
    (by
      intro e1 h1 e2 h2 _
      simp only [List.mem_cons, List.not_mem_nil, or_false] at h1 h2
      rcases h1 with rfl | rfl <;> rcases h2 with rfl | rfl <;> first | rfl | exact hk | exact hk.symm)
    (by
      intro e1 h1 e2 h2
      simp only [List.mem_cons, List.not_mem_nil, or_false] at h1 h2
      rcases h1 with rfl | rfl <;> rcases h2 with rfl | rfl <;>
        simp [wInt, wStr, Consistent])
    wInt wStr 0 0 (by rw [hres]; simp) (by rw [hres]; simp) rfl
  exact absurd this (by decide)

/-- every operator method injects the class computing the same Python operation, operands in the same order -/
theorem C18_dispatch : ∀ d : Dunder, clsSem (dispatch d) = some (meaning d) := by
  intro d; cases d <;> rfl

/-- no two operators share a node class (so they never share a label) -/
theorem C18_dispatch_injective : ∀ d1 ∈ Dunder.all, ∀ d2 ∈ Dunder.all, dispatch d1 = dispatch d2 → d1 = d2 := by
  decide

theorem C18_dunder_all : ∀ d : Dunder, d ∈ Dunder.all := by
  intro d; cases d <;> decide

/-! ## Non-vacuity -/

/-- a toy hash that separates the keys below -/
def exH : Key → String
  | .flat s => s
  | .struct a b ops => a ++ "|" ++ b ++ "|" ++ toString ops.length

def exAdd2 : Expr := ⟨1, "a__user_input", "Add", [.raw "int" "2" "2"]⟩
def exMulB : Expr := ⟨1, "a__user_input", "Multiply", [.chan 2 "b__user_input"]⟩
def exEs : List Expr := [wAddInt, exAdd2, wAddInt, exMulB, exAdd2]

example : (injAll exH .pinned emptySt 0 exEs).2 = [0, 1, 0, 2, 1] := by decide
example : ((injAll exH .pinned emptySt 0 exEs).1.children 0).length = 3 := by decide
example : HashOk exH .pinned exEs ∧ PrintInjective .pinned exEs := by
  unfold HashOk PrintInjective; decide
example : Coherent [wInt, wStr, wAddInt, exMulB] := by
  intro e1 h1 e2 h2
  simp only [List.mem_cons, List.not_mem_nil, or_false] at h1 h2
  rcases h1 with rfl | rfl | rfl | rfl <;> rcases h2 with rfl | rfl | rfl | rfl <;>
    simp [wInt, wStr, wAddInt, exMulB, Consistent]
example : key .repaired wInt ≠ key .repaired wStr := by decide
/-- the slice form: `x[c:4]` makes a Slice node and a GetItem node, and again reuses both -/
example :
    let r := getitemSlice exH .pinned emptySt (some 0) 0 "s__user_input"
      (.chan 3 "i__user_input") (.raw "int" "4" "4") (.raw "NoneType" "None" "None") (· + 1000)
    let r' := getitemSlice exH .pinned r.1 (some 0) 0 "s__user_input"
      (.chan 3 "i__user_input") (.raw "int" "4" "4") (.raw "NoneType" "None" "None") (· + 1000)
    (r.2 = (0, 1)) ∧ (r'.2 = (0, 1)) ∧ (r'.1.children 0).length = 2 := by decide

end PwVerif.C18

#print axioms PwVerif.C18.C18_reuse
#print axioms PwVerif.C18.C18_reuse_history
#print axioms PwVerif.C18.C18_parentless_fresh
#print axioms PwVerif.C18.C18_share_iff
#print axioms PwVerif.C18.C18_distinct_partial
#print axioms PwVerif.C18.C18_repaired_print_injective
#print axioms PwVerif.C18.C18_distinct_repaired
#print axioms PwVerif.C18.C18_pinned_not_injective
#print axioms PwVerif.C18.C18_distinct_witness
#print axioms PwVerif.C18.C18_dispatch
#print axioms PwVerif.C18.C18_dispatch_injective
#print axioms PwVerif.C18.C18_dunder_all
