import PwVerif.Proofs.Inject
/-!
# C18 — Operators on outputs mean what they mean in Python; no duplicates, no mix-ups

"Applying an arithmetic, comparison, bitwise, indexing, slicing, attribute or conversion operation to an
output channel (or to a single-output node) yields a node whose value, once run, equals the same
operation applied to the underlying values, and raises what Python raises when the operation is invalid.
Writing the same expression again inside the same parent reuses the node already created rather than
adding another, and two different expressions never share a node."

Proved here, over the transcribed lookup-or-create of `_node_injection`, for every hash function `H`,
every history of expressions of any length and every starting table of children:

* `C18_reuse`, `C18_reuse_history`, `C18_slice_reuse` — the same expression again gives the same node(s) and
  changes nothing (child count included); `C18_parentless_fresh` — without a parent every expression makes a
  new node.
* `C18_rewrite_children_unchanged` — writing an expression of the history again leaves the whole table of
  children as it was (nothing removed, swapped or added), for any labelling of expressions.
* `C18_share_iff` — two expressions share a node **iff** their labels are equal.
* `C18_distinct_printer` — the operand-printing function as a parameter: for EVERY function `pr` that decides
  what of an operand enters the key, distinct operands ⇒ distinct keys ⇒ distinct labels ⇒ distinct nodes,
  provided `pr` is injective on the operands of the history (`PrInjOn`); `C18_opKey_injective`,
  `C18_distinct_opKey` — the function in /repo (type name + full `repr`) is; `C18_truncating_printer_witness` —
  a size-bounded repr is not, and the statement is FALSE for it.
* `C18_label_injective` — what exactly is assumed about `hash`: it is injective on the keys of the explored
  expressions (`HashInjOn`).  Together with "class names contain no underscore" (`ClsOk`, a `decide`d fact of
  the operator table, `C18_table_clsOk`) equal labels `injected_<Class>_<hash>` then have equal keys.
* `C18_distinct_partial` — hence different expressions never share a node *provided the operands print
  injectively* (`PrintInjective`); `C18_distinct_witness` — the full statement is FALSE for the printer of the
  originally pinned code (`str(operand)`): `x[1]` and `x["1"]` (and `a + 1`, `a + "1"`) get the same node;
  `C18_distinct_repaired` — it is a theorem for the printer now in /repo (type name + `repr`, hashed as a tuple).
* `C18_restart_stable` / `C18_restart_witness` — reuse after save / restart of the interpreter / load: holds iff
  the label does not depend on the interpreter session; FALSE for the salted `hash` used in /repo.
* `C18_dispatch`, `C18_dispatch_injective`, `C18_inputs`, `C18_reflected_only_rmul` — every operator method
  injects the node class that computes the same Python operation with the operands in the same order; no two
  operators share a class; the class has exactly the input channels the call fills; the only reflected
  operator is `__rmul__`.
* `C18_value` — for EVERY interpretation `py` of Python's operations (values and exceptions alike): the node
  function of the injected class, applied to what `_node_injection` feeds it (owner first, then the operands),
  returns what the user's expression means in Python.
* `C18_slice_repaired` / `C18_slice_partial` / `C18_slice_witness` — `x[a:b:c]` with a channel-like component
  goes through the `Slice` node: the value clause holds for `slice(start, stop, step)`, holds for the node as it
  was in /repo on closed slices only, and is FALSE for the open-ended forms (`x[a:]` raises ValueError where
  Python slices); `C18_slice_value` composes it with `GetItem`; `C18_slice_raise_effect`,
  `C18_raising_injection_leaves_nothing` — a new node whose auto-run raises is taken out of the parent again
  by its constructor: the children are what they were.

NOT proved (Python itself is the only oracle; validated differentially by the harness): what Python's
operations compute (`py` above is a parameter).  `str()/repr()/type().__qualname__` of operands and `hash` are
inputs/parameters of the model.
-/
namespace PwVerif.C18
open PwVerif PwVerif.Inject

/-- writing the same expression again inside the same parent: same node, state (hence the number of
children) unchanged -/
theorem C18_reuse (H : Key → String) (p : Printer) (st : St) (par : Nat) (e : Expr) :
    inject H p (inject H p st (some par) e).1 (some par) e
      = ((inject H p st (some par) e).1, (inject H p st (some par) e).2) :=
  inject_found H p _ par e _ (inject_lookup_self H p st par e)

/-- … also when other expressions were written in between -/
theorem C18_reuse_history (H : Key → String) (p : Printer) (st : St) (par : Nat) (es : List Expr) (hwf : WF st)
    (e : Expr) (n1 n2 : Nat)
    (h1 : (e, n1) ∈ es.zip (injAll H p st par es).2) (h2 : (e, n2) ∈ es.zip (injAll H p st par es).2) :
    n1 = n2 :=
  (share_iff H p st par es hwf e e n1 n2 h1 h2).mpr rfl

/-- **the set of children is unchanged by writing an existing expression again**, at any point of any history
and for any way of labelling expressions: the whole table of children (labels, nodes, order) stays as it was,
nothing is removed, replaced or added -/
theorem C18_rewrite_children_unchanged (L : Expr → String) (st : St) (par : Nat) (es : List Expr) (e : Expr)
    (he : e ∈ es) : (injAllL L st par (es ++ [e])).1 = (injAllL L st par es).1 :=
  rewrite_noop L st par es e he

/-- outside a parent nothing can be looked up: every expression makes a new node -/
theorem C18_parentless_fresh (H : Key → String) (p : Printer) (st : St) (e1 e2 : Expr) :
    (inject H p st none e1).2 = st.next ∧
    (inject H p (inject H p st none e1).1 none e2).2 = st.next + 1 ∧
    (inject H p st none e1).1.children = st.children :=
  ⟨rfl, rfl, rfl⟩

/-- in any history, two expressions got the same node exactly when their labels are equal -/
theorem C18_share_iff (H : Key → String) (p : Printer) (st : St) (par : Nat) (es : List Expr) (hwf : WF st)
    (e1 e2 : Expr) (n1 n2 : Nat)
    (h1 : (e1, n1) ∈ es.zip (injAll H p st par es).2) (h2 : (e2, n2) ∈ es.zip (injAll H p st par es).2) :
    n1 = n2 ↔ label H p e1 = label H p e2 :=
  share_iff H p st par es hwf e1 e2 n1 n2 h1 h2

/-- equal labels come from equal keys on the explored expressions (derived below from `HashInjOn`) -/
def HashOk (H : Key → String) (p : Printer) (es : List Expr) : Prop :=
  ∀ e1 ∈ es, ∀ e2 ∈ es, label H p e1 = label H p e2 → key p e1 = key p e2

/-- **the assumption about `hash`**: `k ↦ str(hash(k)).replace("-", "m")` does not collide on the keys of the
explored expressions.  Nothing else is assumed about it (not its range, not its rendering). -/
def HashInjOn (H : Key → String) (p : Printer) (es : List Expr) : Prop :=
  ∀ e1 ∈ es, ∀ e2 ∈ es, H (key p e1) = H (key p e2) → key p e1 = key p e2

/-- class names contain no underscore (so `injected_<Class>_<hash>` parses uniquely) -/
def ClsOk (es : List Expr) : Prop := ∀ e ∈ es, '_' ∉ e.cls.toList

/-- every class of the operator table, and `Slice`, is fine -/
theorem C18_table_clsOk : (∀ d : Dunder, '_' ∉ (dispatch d).toList) ∧ '_' ∉ ("Slice" : String).toList :=
  ⟨dispatch_no_underscore, by decide⟩

/-- labels are as injective as the hash -/
theorem C18_label_injective (H : Key → String) (p : Printer) (es : List Expr)
    (hh : HashInjOn H p es) (hc : ClsOk es) : HashOk H p es := by
  intro e1 h1 e2 h2 hl
  exact hh e1 h1 e2 h2 (label_inj H p e1 e2 (hc e1 h1) (hc e2 h2) hl).2

/-- the world the expressions talk about is coherent: a scoped label names one channel (true among the
channels of one parent), and type name + `repr` determine a raw operand -/
def Coherent (es : List Expr) : Prop :=
  ∀ e1 ∈ es, ∀ e2 ∈ es, (e1.slabel = e2.slabel → e1.owner = e2.owner) ∧
    ∀ o1 ∈ e1.ops, ∀ o2 ∈ e2.ops, Consistent o1 o2

/-- printing the expressions into hash keys loses nothing -/
def PrintInjective (p : Printer) (es : List Expr) : Prop :=
  ∀ e1 ∈ es, ∀ e2 ∈ es, key p e1 = key p e2 → e1 = e2

/-- the property's last clause: two different expressions never share a node -/
def DistinctStatement (p : Printer) : Prop :=
  ∀ (H : Key → String) (st : St) (par : Nat) (es : List Expr), WF st → HashInjOn H p es → ClsOk es → Coherent es →
    ∀ e1 e2 n1 n2, (e1, n1) ∈ es.zip (injAll H p st par es).2 → (e2, n2) ∈ es.zip (injAll H p st par es).2 →
      n1 = n2 → e1 = e2

theorem mem_of_zip {es : List Expr} {ns : List Nat} {e : Expr} {n : Nat} (h : (e, n) ∈ es.zip ns) : e ∈ es :=
  (List.of_mem_zip h).1

/-- for any printer: distinct under injective printing -/
theorem C18_distinct_partial (p : Printer) (H : Key → String) (st : St) (par : Nat) (es : List Expr)
    (hwf : WF st) (hh : HashInjOn H p es) (hcl : ClsOk es) (hp : PrintInjective p es)
    (e1 e2 : Expr) (n1 n2 : Nat)
    (h1 : (e1, n1) ∈ es.zip (injAll H p st par es).2) (h2 : (e2, n2) ∈ es.zip (injAll H p st par es).2)
    (hn : n1 = n2) : e1 = e2 :=
  hp e1 (mem_of_zip h1) e2 (mem_of_zip h2)
    (C18_label_injective H p es hh hcl e1 (mem_of_zip h1) e2 (mem_of_zip h2)
      ((share_iff H p st par es hwf e1 e2 n1 n2 h1 h2).mp hn))

/-- the repaired printer is injective on every coherent set of expressions … -/
theorem C18_repaired_print_injective (es : List Expr) (hc : Coherent es) : PrintInjective .repaired es := by
  intro e1 h1 e2 h2 hk
  obtain ⟨ho, hops⟩ := hc e1 h1 e2 h2
  simp only [key, Key.struct.injEq] at hk
  obtain ⟨hs, hcls, hm⟩ := hk
  have := map_opKey_inj e1.ops e2.ops hops hm
  cases e1; cases e2
  simp_all

/-- … so with it the statement holds in full -/
theorem C18_distinct_repaired : DistinctStatement .repaired := by
  intro H st par es hwf hh hcl hc e1 e2 n1 n2 h1 h2 hn
  exact C18_distinct_partial .repaired H st par es hwf hh hcl (C18_repaired_print_injective es hc) e1 e2 n1 n2 h1 h2 hn

/-! ### the operand-printing function as a parameter

`_other_key` decides what of an operand enters the key; everything above is about the two functions the code
has had.  The same holds for EVERY such function `pr`, as long as it tells the occurring operands apart — and
fails for one that does not (a size-bounded `repr`). -/

/-- `pr` tells apart the operands that occur in the explored expressions -/
def PrInjOn (pr : Operand → OpKey) (es : List Expr) : Prop :=
  ∀ e1 ∈ es, ∀ e2 ∈ es, ∀ o1 ∈ e1.ops, ∀ o2 ∈ e2.ops, pr o1 = pr o2 → o1 = o2

/-- the assumption about `hash`, for the keys made with `pr` -/
def HashInjWith (H : Key → String) (pr : Operand → OpKey) (es : List Expr) : Prop :=
  ∀ e1 ∈ es, ∀ e2 ∈ es, H (keyWith pr e1) = H (keyWith pr e2) → keyWith pr e1 = keyWith pr e2

/-- "two different expressions never share a node" when operands are printed by `pr` -/
def DistinctStatementWith (pr : Operand → OpKey) : Prop :=
  ∀ (H : Key → String) (st : St) (par : Nat) (es : List Expr), WF st → HashInjWith H pr es → ClsOk es → Coherent es →
    ∀ e1 e2 n1 n2, (e1, n1) ∈ es.zip (injAllL (labelWith H pr) st par es).2 →
      (e2, n2) ∈ es.zip (injAllL (labelWith H pr) st par es).2 → n1 = n2 → e1 = e2

/-- distinct operands ⇒ distinct keys ⇒ distinct labels ⇒ distinct nodes, for every printing function that is
injective on the operands of the history -/
theorem C18_distinct_printer (pr : Operand → OpKey) (H : Key → String) (st : St) (par : Nat) (es : List Expr)
    (hwf : WF st) (hh : HashInjWith H pr es) (hcl : ClsOk es) (hc : Coherent es) (hp : PrInjOn pr es)
    (e1 e2 : Expr) (n1 n2 : Nat)
    (h1 : (e1, n1) ∈ es.zip (injAllL (labelWith H pr) st par es).2)
    (h2 : (e2, n2) ∈ es.zip (injAllL (labelWith H pr) st par es).2) (hn : n1 = n2) : e1 = e2 := by
  have m1 := mem_of_zip h1
  have m2 := mem_of_zip h2
  have hl := (share_iffL (labelWith H pr) st par es hwf e1 e2 n1 n2 h1 h2).mp hn
  have hk := hh e1 m1 e2 m2 (labelWith_inj H pr e1 e2 (hcl e1 m1) (hcl e2 m2) hl).2
  simp only [keyWith, Key.struct.injEq] at hk
  obtain ⟨hs, hcls, hm⟩ := hk
  have hops := map_inj_on pr e1.ops e2.ops (fun a ha b hb => hp e1 m1 e2 m2 a ha b hb) hm
  have ho := (hc e1 m1 e2 m2).1 hs
  cases e1; cases e2
  simp_all

/-- what /repo does (`opKey`: scoped label / type name + full repr) is such a function on coherent histories … -/
theorem C18_opKey_injective (es : List Expr) (hc : Coherent es) : PrInjOn opKey es :=
  fun e1 h1 e2 h2 o1 ho1 o2 ho2 h => opKey_inj o1 o2 ((hc e1 h1 e2 h2).2 o1 ho1 o2 ho2) h

/-- … so the statement holds for it (the generic form of `C18_distinct_repaired`: `labelWith H opKey` is
`label H .repaired`) -/
theorem C18_distinct_opKey : DistinctStatementWith opKey ∧ (∀ H, labelWith H opKey = label H .repaired) :=
  ⟨fun H st par es hwf hh hcl hc e1 e2 n1 n2 h1 h2 hn =>
    C18_distinct_printer opKey H st par es hwf hh hcl hc (C18_opKey_injective es hc) e1 e2 n1 n2 h1 h2 hn,
   fun _ => rfl⟩

/-- `x["abcdefgh-1"]` and `x["abcdefgh-2"]`: long operands that differ only at the end -/
def wLongA : Expr := ⟨0, "l__user_input", "GetItem", [.raw "str" "abcdefgh-1" "'abcdefgh-1'"]⟩
def wLongB : Expr := ⟨0, "l__user_input", "GetItem", [.raw "str" "abcdefgh-2" "'abcdefgh-2'"]⟩

/-- `x[1]` and `x["1"]` on the output `l__user_input` -/
def wInt : Expr := ⟨0, "l__user_input", "GetItem", [.raw "int" "1" "1"]⟩
def wStr : Expr := ⟨0, "l__user_input", "GetItem", [.raw "str" "1" "'1'"]⟩
/-- `a + 1` and `a + "1"` -/
def wAddInt : Expr := ⟨1, "a__user_input", "Add", [.raw "int" "1" "1"]⟩
def wAddStr : Expr := ⟨1, "a__user_input", "Add", [.raw "str" "1" "'1'"]⟩

def emptySt : St := { children := fun _ => [], next := 0 }

theorem emptySt_WF : WF emptySt := fun _ => ⟨by simp [emptySt], by simp [emptySt], by simp [emptySt]⟩

/-- the pinned printer maps the two different expressions to one key … -/
theorem C18_pinned_not_injective :
    key .pinned wInt = key .pinned wStr ∧ wInt ≠ wStr ∧
    key .pinned wAddInt = key .pinned wAddStr ∧ wAddInt ≠ wAddStr := by decide

/-- … so on the pinned code the statement is false, whatever the hash: the second expression is handed the
first one's node -/
theorem C18_distinct_witness : ¬ DistinctStatement .pinned := by
  intro h
  have hk : key .pinned wInt = key .pinned wStr := by decide
  have hl : ∀ H : Key → String, label H .pinned wInt = label H .pinned wStr := by
    intro H; simp only [label, hk]; rfl
  have hres : (injAll (fun _ => "0") .pinned emptySt 0 [wInt, wStr]).2 = [0, 0] := by
    simp only [injAll_cons, injAll_nil]
    rw [inject_new _ _ emptySt 0 wInt (by rfl)]
    rw [inject_found _ _ _ 0 wStr 0 (by rw [← hl]; simp [emptySt])]
    rfl
  have := h (fun _ => "0") emptySt 0 [wInt, wStr] emptySt_WF
    (by
      intro e1 h1 e2 h2 _
      simp only [List.mem_cons, List.not_mem_nil, or_false] at h1 h2
      rcases h1 with rfl | rfl <;> rcases h2 with rfl | rfl <;> first | rfl | exact hk | exact hk.symm)
    (by
      intro e he
      simp only [List.mem_cons, List.not_mem_nil, or_false] at he
      rcases he with rfl | rfl <;> decide)
    (by
      intro e1 h1 e2 h2
      simp only [List.mem_cons, List.not_mem_nil, or_false] at h1 h2
      rcases h1 with rfl | rfl <;> rcases h2 with rfl | rfl <;>
        simp [wInt, wStr, Consistent])
    wInt wStr 0 0 (by rw [hres]; simp) (by rw [hres]; simp) rfl
  exact absurd this (by decide)

/-- a printer that truncates the repr (here after 8 characters) is not injective, and the statement is FALSE for
it: the second expression is handed the first one's node -/
theorem C18_truncating_printer_witness :
    truncKey 8 (.raw "str" "abcdefgh-1" "'abcdefgh-1'") = truncKey 8 (.raw "str" "abcdefgh-2" "'abcdefgh-2'") ∧
    ¬ DistinctStatementWith (truncKey 8) := by
  refine ⟨by simp [truncKey], fun h => ?_⟩
  have hk : keyWith (truncKey 8) wLongA = keyWith (truncKey 8) wLongB := by
    simp [keyWith, wLongA, wLongB, truncKey]
  have hl : labelWith (fun _ => "0") (truncKey 8) wLongA = labelWith (fun _ => "0") (truncKey 8) wLongB := by
    have hc : wLongA.cls = wLongB.cls := rfl
    unfold labelWith
    rw [hk, hc]
  have hres : (injAllL (labelWith (fun _ => "0") (truncKey 8)) emptySt 0 [wLongA, wLongB]).2 = [0, 0] := by
    simp only [injAllL]
    rw [injectL_new _ emptySt 0 wLongA (by rfl)]
    rw [injectL_found _ _ 0 wLongB 0 (by rw [← hl]; simp [emptySt])]
    rfl
  have := h (fun _ => "0") emptySt 0 [wLongA, wLongB] emptySt_WF
    (by
      intro e1 h1 e2 h2 _
      simp only [List.mem_cons, List.not_mem_nil, or_false] at h1 h2
      rcases h1 with rfl | rfl <;> rcases h2 with rfl | rfl
      · rfl
      · exact hk
      · exact hk.symm
      · rfl)
    (by
      intro e he
      simp only [List.mem_cons, List.not_mem_nil, or_false] at he
      rcases he with rfl | rfl <;> decide)
    (by
      intro e1 h1 e2 h2
      simp only [List.mem_cons, List.not_mem_nil, or_false] at h1 h2
      rcases h1 with rfl | rfl <;> rcases h2 with rfl | rfl <;>
        simp [wLongA, wLongB, Consistent])
    wLongA wLongB 0 0 (by rw [hres]; simp) (by rw [hres]; simp) rfl
  exact absurd this (by decide)

/-- every operator method injects the class computing the same Python operation, operands in the same order -/
theorem C18_dispatch : ∀ d : Dunder, clsSem (dispatch d) = some (meaning d) := by
  intro d; cases d <;> rfl

/-- no two operators share a node class (so they never share a label) -/
theorem C18_dispatch_injective : ∀ d1 ∈ Dunder.all, ∀ d2 ∈ Dunder.all, dispatch d1 = dispatch d2 → d1 = d2 := by
  decide

theorem C18_dunder_all : ∀ d : Dunder, d ∈ Dunder.all := by
  intro d; cases d <;> decide

/-- the class an operator injects has exactly the input channels the call fills: the owner and the operands -/
theorem C18_inputs : ∀ d : Dunder, (clsInputs (dispatch d)).length = 1 + arity d := by
  intro d; cases d <;> rfl

/-- the only operator whose Python meaning puts the owner second is the reflected multiplication -/
theorem C18_reflected_only_rmul : ∀ d : Dunder, (meaning d).2 = false ↔ d = .rmul := by
  intro d; cases d <;> decide

/-- **the value clause, relative to Python's own semantics `py`** (any interpretation of the operations on any
value domain, exceptions included in `R`): the node function of the class injected by operator `d`, applied to
the arguments `_node_injection` passes (the owner's value, then the operand values, positionally), returns
exactly what the user's expression means in Python -/
theorem C18_value {V R : Type} (py : Py V R) (d : Dunder) (self : V) (args : List V) :
    nodeFn py (dispatch d) (nodeArgs true self args) = some (exprValue py d self args) := by
  cases d <;> rfl

/-- the slice clause: the `Slice` node builds Python's `slice(start, stop, step)` from the component values -/
def SliceStatement (f : SliceFn) : Prop :=
  ∀ (V : Type) (start stop step : Option V), sliceNode f start stop step = .ok (start, stop, step)

/-- a slice the node of /repo accepts: `x[a:b]`, `x[a:b:c]`, `x[:b]` -/
def ClosedSlice {V : Type} (start stop step : Option V) : Prop :=
  stop.isSome ∧ (start.isSome ∨ step = none)

theorem C18_slice_repaired : SliceStatement .python := fun _ _ _ _ => rfl

theorem C18_slice_partial {V : Type} (start stop step : Option V) (h : ClosedSlice start stop step) :
    sliceNode .strict start stop step = .ok (start, stop, step) := by
  obtain ⟨h1, h2⟩ := h
  cases start <;> cases stop <;> cases step <;> simp_all [sliceNode]

/-- … and only those: FALSE on the tree as it is — `x[a:]` (start given, stop `None`) raises ValueError -/
theorem C18_slice_witness : ¬ SliceStatement .strict := by
  intro h
  have := h Unit (some ()) none none
  simp [sliceNode] at this

/-- `x[a:b:c]` end to end: with Python's `slice` the `GetItem` node fed by the `Slice` node yields
`getitem [x, slice(a, b, c)]`; with the strict node the same on closed slices -/
theorem C18_slice_value {V R : Type} (py : Py V R) (mk : Option V → Option V → Option V → V)
    (x : V) (a b c : Option V) :
    sliceExprValue py mk .python x a b c = .ok (some (py.ap .getitem [x, mk a b c])) ∧
    (ClosedSlice a b c → sliceExprValue py mk .strict x a b c = .ok (some (py.ap .getitem [x, mk a b c]))) := by
  refine ⟨rfl, fun h => ?_⟩
  simp [sliceExprValue, C18_slice_partial a b c h, nodeFn, clsSem]

/-- writing `x[a:b:c]` again (nothing raised the first time): the same `Slice` and the same `GetItem` node,
state unchanged -/
theorem C18_slice_reuse (H : Key → String) (p : Printer) (st : St) (par owner : Nat) (slabel : String)
    (a b c : Operand) (chanOf : Nat → Nat) :
    getitemSlice H p (getitemSlice H p st (some par) owner slabel a b c chanOf).1 (some par) owner slabel a b c chanOf
      = getitemSlice H p st (some par) owner slabel a b c chanOf := by
  let es : Expr := ⟨owner, slabel, "Slice", [a, b, c]⟩
  let r1 := inject H p st (some par) es
  let eg : Expr := ⟨owner, slabel, "GetItem", [.chan (chanOf r1.2) (label H p es ++ "__slice")]⟩
  let r2 := inject H p r1.1 (some par) eg
  have hs : (r2.1.children par).lookup (label H p es) = some r1.2 :=
    inject_mono H p r1.1 (some par) eg par _ _ (inject_lookup_self H p st par es)
  have hg : (r2.1.children par).lookup (label H p eg) = some r2.2 := inject_lookup_self H p r1.1 par eg
  have e1 : inject H p r2.1 (some par) es = (r2.1, r1.2) := inject_found H p r2.1 par es _ hs
  have e2 : inject H p r2.1 (some par) eg = (r2.1, r2.2) := inject_found H p r2.1 par eg _ hg
  show getitemSlice H p r2.1 (some par) owner slabel a b c chanOf = (r2.1, r1.2, r2.2)
  unfold getitemSlice
  simp only []
  rw [e1]
  simp only []
  rw [e2]

/-- the effect of a refused open-ended slice (strict `Slice` function) inside a parent: the new `Slice` node raises
in its constructor, which takes it out of the parent again: no `GetItem`, the children are what they were, only a
node id is used up (so the same expression written again raises again) -/
theorem C18_slice_raise_effect (H : Key → String) (p : Printer) (st : St) (par owner : Nat) (slabel : String)
    (a b c : Operand) (chanOf : Nat → Nat) (sN bN cN : Bool)
    (hnew : (st.children par).lookup (label H p ⟨owner, slabel, "Slice", [a, b, c]⟩) = none)
    (hopen : (bN || (sN && !cN)) = true) :
    let r := getitemSliceRun H p .strict st (some par) owner slabel a b c chanOf true sN bN cN
    r.2.2 = none ∧ r.2.1 = st.next ∧ r.1.children = st.children ∧ r.1.next = st.next + 1 := by
  have hr : sliceRaises .strict true sN bN cN = true := by rw [sliceRaises_strict]; simpa using hopen
  have hinj := inject_new H p st par ⟨owner, slabel, "Slice", [a, b, c]⟩ hnew
  simp [getitemSliceRun, hinj, hr]

/-- **a constructor that raises leaves nothing behind**: when the auto-run of a newly injected node fails, the
exception leaves the expression, the parent's children are exactly what they were (for any labelling), and the
same expression written again is injected afresh; an expression whose node exists cannot raise this way -/
theorem C18_raising_injection_leaves_nothing (L : Expr → String) (st : St) (par : Nat) (e : Expr) :
    ((st.children par).lookup (L e) = none →
      (injectX L st (some par) e true).1.children = st.children ∧ (injectX L st (some par) e true).2 = st.next ∧
      ((injectX L st (some par) e true).1.children par).lookup (L e) = none) ∧
    (∀ n, (st.children par).lookup (L e) = some n → n < st.next → injectX L st (some par) e true = (st, n)) := by
  refine ⟨fun h => ?_, fun n h hn => ?_⟩
  · simp [injectX, injectL_new L st par e h, h]
  · have : (n == st.next) = false := by simp; omega
    simp [injectX, injectL_found L st par e n h, this]

/-! ### a new interpreter session

`hash` of a string (and of a tuple of strings) is salted per interpreter process: after saving a workflow,
restarting Python and loading it, the labels of the injected children are the old ones, while new labels
are computed with another hash function `H'`. -/

/-- reuse across sessions: the expression written again after the restart gets the node made before it -/
def RestartStatement (stable : Bool) : Prop :=
  ∀ (H H' : Key → String) (p : Printer) (st : St) (par : Nat) (e : Expr),
    (stable = true → H' (key p e) = H (key p e)) →
    inject H' p (inject H p st (some par) e).1 (some par) e
      = ((inject H p st (some par) e).1, (inject H p st (some par) e).2)

/-- with a label that does not depend on the session (a stable digest of the key) reuse survives a restart -/
theorem C18_restart_stable : RestartStatement true := by
  intro H H' p st par e hs
  have hl : label H' p e = label H p e := by simp only [label, hs rfl]
  exact inject_found H' p _ par e _ (by rw [hl]; exact inject_lookup_self H p st par e)

/-- FALSE on the tree as it is (salted `hash`): the same expression after a restart adds a second node -/
theorem C18_restart_witness : ¬ RestartStatement false := by
  intro h
  have := h (fun _ => "1") (fun _ => "2") .repaired emptySt 0 wAddInt (by intro h; cases h)
  have h2 := congrArg (·.2) this
  revert h2
  decide

/-! ### ownership / label edits between writing an expression and writing it again

The world (`World`: the lexical path above the parent, the names of the channels) may be edited between the two
writes: an ancestor is relabelled, the parent composite is adopted by / moved to another workflow, a sibling is
relabelled, everything is pickled and loaded.  `L w e` is the label a labelling scheme gives to the expression
`e` (channel OBJECTS, operator, operand objects) in world `w`. -/

/-- **reuse is invariant under every edit that leaves the label (the key function) unchanged**: for ANY labelling
scheme, any history of further writes and of edits that fix the label of `e`, `e` written again — in the world
as it is then — is handed the node it was handed first, and nothing changes -/
theorem C18_reuse_across_edits {α W : Type} (L : W → α → String) (par : Nat) (e : α)
    (steps : List (Step α W)) (w : W) (st : St) (hf : Fixes L e w steps) :
    let first := injectL (L w) st (some par) e
    let after := runSteps L par w first.1 steps
    injectL (L after.1) after.2 (some par) e = (after.2, first.2) := by
  have h := runSteps_lookup L par e (injectL (L w) st (some par) e).2 steps w _
    (injectL_lookup_self (L w) st par e) hf
  exact injectL_found _ _ par e _ h

/-- the statement for a class `ok` of edits: whatever happens in between (writes, edits of that class), the same
expression written again in the same parent reuses its node -/
def EditStatement {α W : Type} (ok : (W → W) → Prop) (L : W → α → String) : Prop :=
  ∀ (par : Nat) (e : α) (steps : List (Step α W)) (w : W) (st : St), EditsIn ok steps →
    injectL (L (runSteps L par w (injectL (L w) st (some par) e).1 steps).1)
      (runSteps L par w (injectL (L w) st (some par) e).1 steps).2 (some par) e
    = ((runSteps L par w (injectL (L w) st (some par) e).1 steps).2, (injectL (L w) st (some par) e).2)

/-- edits that leave every channel's scoped label alone: relabelling the root or any other ancestor, re-parenting
the parent composite (adoption by a workflow, move between workflows, orphaning), pickling + loading -/
def KeepsNames (f : World → World) : Prop := ∀ w, (f w).name = w.name

/-- the key of /repo is a function of (scoped label of the owner channel, class name, operand keys): it is fixed
by every edit that fixes the scoped labels of the channels of the expression … -/
theorem C18_scoped_key_fixed (H : Key → String) (w w' : World) (e : Expr0)
    (h : ∀ i ∈ e.chans, w'.name i = w.name i) : labelScoped H w' e = labelScoped H w e := by
  simp only [labelScoped, render_congr w w' e h]

/-- … hence on /repo reuse survives every history of path edits (and relabels of channels the expression does not
mention) -/
theorem C18_path_edits_scoped (H : Key → String) : EditStatement KeepsNames (labelScoped H) := by
  intro par e steps w st hed
  exact C18_reuse_across_edits (labelScoped H) par e steps w st
    (fixes_of_editsIn _ e KeepsNames (fun f hf w => C18_scoped_key_fixed H w (f w) e (fun i _ => by rw [hf w])) steps w hed)

/-- a key on the channel objects themselves (finding the node by its wiring) survives EVERY edit -/
theorem C18_all_edits_ident (H : Key → String) : EditStatement (fun _ => True) (labelIdent H) := by
  intro par e steps w st hed
  exact C18_reuse_across_edits (labelIdent H) par e steps w st
    (fixes_of_editsIn _ e _ (fun _ _ _ => rfl) steps w hed)

/-- `n * 2` on channel 0 (`n__user_input`) and `n + k` -/
def wMul2 : Expr0 := ⟨0, "Multiply", [.raw "int" "2" "2"]⟩
def wNK : Expr0 := ⟨0, "Add", [.chan 1]⟩
def wWorld : World := ⟨"/draft", fun i => if i = 0 then "n__user_input" else "k__user_input"⟩
/-- the root workflow is relabelled -/
def relabelRoot : World → World := fun w => { w with path := "/final" }
/-- the sibling `k` is relabelled to `c` (in the supported way, the parent's table follows) -/
def relabelK : World → World := fun w => { w with name := fun i => if i = 1 then "c__user_input" else w.name i }

/-- a toy hash that spells the key out -/
def spellH : Key → String
  | .flat s => s
  | .struct a b ops => a ++ "|" ++ b ++ "|" ++ "|".intercalate (ops.map fun | .ch s => s | .obj t r => t ++ ":" ++ r)

/-- a key on the FULL label is not fixed by a path edit, and the statement is FALSE for it: after relabelling the
root workflow the same expression gets a second node -/
theorem C18_path_edits_full_witness : KeepsNames relabelRoot ∧ ¬ EditStatement KeepsNames (labelFull spellH) := by
  refine ⟨fun _ => rfl, fun h => ?_⟩
  have := h 0 wMul2 [.edit relabelRoot] wWorld emptySt ⟨fun _ => rfl, trivial⟩
  have h2 := congrArg (·.2) this
  revert h2
  decide

/-- FALSE on /repo for edits that rename a channel of the expression (KF-C18-4): after the sibling `k` was
relabelled, `n + k` written again gets a second node -/
theorem C18_operand_relabel_witness : ¬ EditStatement (fun _ => True) (labelScoped spellH) := by
  intro h
  have := h 0 wNK [.edit relabelK] wWorld emptySt ⟨trivial, trivial⟩
  have h2 := congrArg (·.2) this
  revert h2
  decide

/-! ### who the operator is written on, and where -/

/-- **every operator yields a node**: whatever the operator (unary plus included) and the state, the expression is
handed a node, and inside a parent that node is the child stored under the expression's label -/
theorem C18_yields_node (H : Key → String) (p : Printer) (st : St) (par : Nat) (d : Dunder) (owner : Nat)
    (slabel : String) (ops : List Operand) (hwf : WF st) :
    let e : Expr := ⟨owner, slabel, dispatch d, ops⟩
    let r := inject H p st (some par) e
    (r.1.children par).lookup (label H p e) = some r.2 ∧ r.2 < r.1.next := by
  intro e r
  have hl := inject_lookup_self H p st par e
  exact ⟨hl, (inject_WF H p st (some par) e hwf par).2.2 _ (lookup_mem _ _ _ hl)⟩

/-- handing the operand back instead (for `+x`) is NOT what Python means, for some interpretation of `+` -/
theorem C18_identity_shortcut_witness : ∃ (py : Py Int Int) (v : Int), exprValue py .pos v [] ≠ v :=
  ⟨⟨fun op xs => match op, xs with | .pos, [a] => a + 1 | _, _ => 0⟩, 0, by decide⟩

/-- channels and single-output function nodes hand EVERY operator over to the channel unchanged (the plain-named
`eq`, `bool`, `len`, `contains`, `int`, `float` included), composites all but attribute and item access -/
theorem C18_value_delegated (repaired : Bool) (k : OwnerKind) (d : Dunder)
    (h : k ≠ .composite ∨ (d ≠ .getattr ∧ d ≠ .getitem) ∨ repaired = true) : delegate repaired k d = some d := by
  cases k <;> cases d <;> simp_all [delegate]

/-- the statement "an operator on a single-output node is the operator on its output" -/
def DelegationStatement (repaired : Bool) : Prop := ∀ k d, delegate repaired k d = some d

/-- FALSE on /repo for composites (KF-C18-5): `macro.real`, `macro[0]` are taken for child access -/
theorem C18_composite_access_witness : ¬ DelegationStatement false ∧ DelegationStatement true :=
  ⟨fun h => by have := h .composite .getitem; simp [delegate] at this,
   fun k d => by cases k <;> cases d <;> rfl⟩

/-- **an argument used twice by one expression stays connected twice** (`x * x`, `x[x]` inside a graph creator):
with the rule of /repo every input that was connected to the argument's stand-in still receives the argument
after the single-use stand-ins are purged -/
theorem C18_purge_feeds_all (cs : List (Nat × Nat)) : purgeFed .byConnections cs = cs := by
  unfold purgeFed
  by_cases h : cs.length ≤ 1
  · simp only [h, decide_true, if_true]
    match cs, h with
    | [], _ => rfl
    | [_], _ => rfl
  · simp [h]

/-- counting distinct consumer NODES instead loses the second operand of `x * x` -/
theorem C18_purge_by_consumers_witness : purgeFed .byConsumers [(7, 0), (7, 1)] = [(7, 0)] := by decide

/-! ## Non-vacuity -/

/-- a toy hash that separates the keys below -/
def exH : Key → String
  | .flat s => s
  | .struct a b ops => a ++ "|" ++ b ++ "|" ++ toString ops.length

/-- a toy hash that looks at the operands -/
def exH2 : Key → String
  | .flat s => s
  | .struct a b ops => a ++ "|" ++ b ++ "|" ++ "|".intercalate (ops.map fun | .ch s => s | .obj t r => t ++ ":" ++ r)

def exAdd2 : Expr := ⟨1, "a__user_input", "Add", [.raw "int" "2" "2"]⟩
def exMulB : Expr := ⟨1, "a__user_input", "Multiply", [.chan 2 "b__user_input"]⟩
def exEs : List Expr := [wAddInt, exAdd2, wAddInt, exMulB, exAdd2]

example : (injAll exH .pinned emptySt 0 exEs).2 = [0, 1, 0, 2, 1] := by decide
example : exAdd2 ∈ exEs ∧ ((injAll exH .pinned emptySt 0 (exEs ++ [exAdd2])).1.children 0).length = 3 := by decide
example : ((injAll exH .pinned emptySt 0 exEs).1.children 0).length = 3 := by decide
example : HashInjOn exH .pinned exEs ∧ PrintInjective .pinned exEs := by
  unfold HashInjOn PrintInjective; decide
example : ClsOk exEs := by unfold ClsOk; decide
/-- a toy Python: values are integers, `sub` subtracts, `mul` on a reflected call sees the operands swapped -/
def exPy : Py Int Int := ⟨fun op xs => match op, xs with
  | .sub, [a, b] => a - b | .mul, [a, b] => 10 * a + b | .neg, [a] => -a | _, _ => 0⟩
example : nodeFn exPy (dispatch .sub) (nodeArgs true 7 [2]) = some 5 ∧
    nodeFn exPy (dispatch .rmul) (nodeArgs true 7 [2]) = some 27 ∧
    nodeFn exPy (dispatch .mul) (nodeArgs true 7 [2]) = some 72 ∧
    nodeFn exPy (dispatch .neg) (nodeArgs true 7 []) = some (-7) := by decide
/-- a history with a path edit, a write in between and a relabel of an unrelated channel: reuse on /repo's key -/
example : EditsIn KeepsNames ([.edit relabelRoot, .write wNK, .edit relabelRoot] : List (Step Expr0 World)) :=
  ⟨fun _ => rfl, fun _ => rfl, trivial⟩
example :
    let first := injectL (labelScoped spellH wWorld) emptySt (some 0) wMul2
    let after := runSteps (labelScoped spellH) 0 wWorld first.1 [.edit relabelRoot, .write wNK, .edit relabelRoot]
    (injectL (labelScoped spellH after.1) after.2 (some 0) wMul2).2 = first.2 ∧ (after.2.children 0).length = 2 := by
  decide
example : purgeFed .byConnections [(7, 0), (7, 1)] = [(7, 0), (7, 1)] ∧ purgeFed .byConnections [(7, 0)] = [(7, 0)] := by
  decide
example : delegate false .funcNode .len = some .len ∧ delegate false .composite .len = some .len ∧
    delegate false .composite .getattr = none := by decide
example : (inject exH .repaired emptySt (some 0) ⟨0, "a__user_input", dispatch .pos, []⟩).2 = 0 := by decide
example : ClosedSlice (some 1) (some 4) (none : Option Nat) ∧ ¬ ClosedSlice (some 1) none (none : Option Nat) := by
  simp [ClosedSlice]
/-- `x[c:]` inside a parent on the strict node: the expression raises and nothing is left behind -/
example :
    let r := getitemSliceRun exH .repaired .strict emptySt (some 0) 0 "s__user_input"
      (.chan 3 "i__user_input") (.raw "NoneType" "None" "None") (.raw "NoneType" "None" "None") (· + 1000)
      true false true true
    r.2 = (0, none) ∧ (r.1.children 0).length = 0 ∧ r.1.next = 1 := by decide
example : (injectX (labelWith exH2 opKey) emptySt (some 0) wLongA true).1.children 0 = [] ∧
    (injectX (labelWith exH2 opKey) emptySt (some 0) wLongA false).1.children 0 ≠ [] := by decide
example : Coherent [wInt, wStr, wAddInt, exMulB] := by
  intro e1 h1 e2 h2
  simp only [List.mem_cons, List.not_mem_nil, or_false] at h1 h2
  rcases h1 with rfl | rfl | rfl | rfl <;> rcases h2 with rfl | rfl | rfl | rfl <;>
    simp [wInt, wStr, wAddInt, exMulB, Consistent]
example : key .repaired wInt ≠ key .repaired wStr := by decide
/-- the full-repr printer tells the long operands apart (and a coherent history with them exists) -/
example : opKey (.raw "str" "abcdefgh-1" "'abcdefgh-1'") ≠ opKey (.raw "str" "abcdefgh-2" "'abcdefgh-2'") := by decide
example : Coherent [wLongA, wLongB] ∧ PrInjOn opKey [wLongA, wLongB] := by
  have hc : Coherent [wLongA, wLongB] := by
    intro e1 h1 e2 h2
    simp only [List.mem_cons, List.not_mem_nil, or_false] at h1 h2
    rcases h1 with rfl | rfl <;> rcases h2 with rfl | rfl <;> simp [wLongA, wLongB, Consistent]
  exact ⟨hc, C18_opKey_injective _ hc⟩
example : (injAllL (labelWith exH2 opKey) emptySt 0 [wLongA, wLongB, wLongA]).2 = [0, 1, 0] := by decide
/-- the slice form: `x[c:4]` makes a Slice node and a GetItem node, and again reuses both -/
example :
    let r := getitemSlice exH .pinned emptySt (some 0) 0 "s__user_input"
      (.chan 3 "i__user_input") (.raw "int" "4" "4") (.raw "NoneType" "None" "None") (· + 1000)
    let r' := getitemSlice exH .pinned r.1 (some 0) 0 "s__user_input"
      (.chan 3 "i__user_input") (.raw "int" "4" "4") (.raw "NoneType" "None" "None") (· + 1000)
    (r.2 = (0, 1)) ∧ (r'.2 = (0, 1)) ∧ (r'.1.children 0).length = 2 := by decide

end PwVerif.C18

#print axioms PwVerif.C18.C18_reuse
#print axioms PwVerif.C18.C18_reuse_history
#print axioms PwVerif.C18.C18_rewrite_children_unchanged
#print axioms PwVerif.C18.C18_parentless_fresh
#print axioms PwVerif.C18.C18_share_iff
#print axioms PwVerif.C18.C18_table_clsOk
#print axioms PwVerif.C18.C18_label_injective
#print axioms PwVerif.C18.C18_distinct_partial
#print axioms PwVerif.C18.C18_repaired_print_injective
#print axioms PwVerif.C18.C18_distinct_repaired
#print axioms PwVerif.C18.C18_distinct_printer
#print axioms PwVerif.C18.C18_opKey_injective
#print axioms PwVerif.C18.C18_distinct_opKey
#print axioms PwVerif.C18.C18_truncating_printer_witness
#print axioms PwVerif.C18.C18_pinned_not_injective
#print axioms PwVerif.C18.C18_distinct_witness
#print axioms PwVerif.C18.C18_dispatch
#print axioms PwVerif.C18.C18_dispatch_injective
#print axioms PwVerif.C18.C18_dunder_all
#print axioms PwVerif.C18.C18_inputs
#print axioms PwVerif.C18.C18_reflected_only_rmul
#print axioms PwVerif.C18.C18_value
#print axioms PwVerif.C18.C18_slice_repaired
#print axioms PwVerif.C18.C18_slice_partial
#print axioms PwVerif.C18.C18_slice_witness
#print axioms PwVerif.C18.C18_slice_value
#print axioms PwVerif.C18.C18_slice_reuse
#print axioms PwVerif.C18.C18_slice_raise_effect
#print axioms PwVerif.C18.C18_raising_injection_leaves_nothing
#print axioms PwVerif.C18.C18_restart_stable
#print axioms PwVerif.C18.C18_restart_witness
#print axioms PwVerif.C18.C18_reuse_across_edits
#print axioms PwVerif.C18.C18_scoped_key_fixed
#print axioms PwVerif.C18.C18_path_edits_scoped
#print axioms PwVerif.C18.C18_all_edits_ident
#print axioms PwVerif.C18.C18_path_edits_full_witness
#print axioms PwVerif.C18.C18_operand_relabel_witness
#print axioms PwVerif.C18.C18_yields_node
#print axioms PwVerif.C18.C18_identity_shortcut_witness
#print axioms PwVerif.C18.C18_value_delegated
#print axioms PwVerif.C18.C18_composite_access_witness
#print axioms PwVerif.C18.C18_purge_feeds_all
#print axioms PwVerif.C18.C18_purge_by_consumers_witness
