import PwVerif.Model.CacheSer
namespace PwVerif.CacheSer

structure Sim (a b : N) : Prop where
  inp : a.inp = b.inp
  out : a.out = b.out
  running : a.running = b.running
  job : a.job = b.job
  done : a.done = b.done
  file : a.file = b.file
  valid : ∀ c, a.cached = some c → a.out = some c
  idle : a.running = true → a.cached = none

theorem step_sim (a b : N) (op : Op) (h : Sim a b) (hmiss : op = .ssubmit → a.hits = false) :
    Sim (step true true a op).1 (step true false b op).1 ∧ (step true true a op).2 = (step true false b op).2 := by
  obtain ⟨hi, ho, hr, hj, hd, hf, hv, hidle⟩ := h
  obtain ⟨ai, ao, ar, ac, aj, ad, af⟩ := a
  obtain ⟨bi, bo, br, bc, bj, bd, bf⟩ := b
  simp only at hi ho hr hj hd hf hv hidle
  subst hi ho hr hj hd hf
  simp only [N.hits] at hmiss
  cases op <;> cases ar <;> cases ac <;> cases aj <;> cases ad <;> cases af <;>
    simp_all [step] <;> (try split) <;>
    (try (first | refine ⟨⟨?_, ?_, ?_, ?_, ?_, ?_, ?_, ?_⟩, ?_⟩ | refine ⟨?_, ?_, ?_, ?_, ?_, ?_, ?_, ?_⟩)) <;>
    (try simp_all) <;> (try grind)

theorem runOps_sim (ops : List Op) (a b : N) (h : Sim a b) (hok : noSubmitHit true a ops = true) :
    (runOps true true a ops).2 = (runOps true false b ops).2 ∧ Sim (runOps true true a ops).1 (runOps true false b ops).1 := by
  induction ops generalizing a b with
  | nil => exact ⟨rfl, h⟩
  | cons o os ih =>
    simp only [noSubmitHit, Bool.and_eq_true, Bool.or_eq_true, bne_iff_ne, ne_eq, Bool.not_eq_true'] at hok
    have hm : o = .ssubmit → a.hits = false := by
      intro ho
      rcases hok.1 with h1 | h1
      · exact absurd ho h1
      · exact h1
    obtain ⟨h1, h2⟩ := step_sim a b o h hm
    obtain ⟨i1, i2⟩ := ih _ _ h1 hok.2
    simp only [runOps]
    exact ⟨by rw [h2, i1], i2⟩

end PwVerif.CacheSer
