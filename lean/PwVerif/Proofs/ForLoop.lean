import PwVerif.Model.ForLoop
/-!
# Lemmas about the for-loop model (core Lean only)
-/
namespace PwVerif.ForLoop

section Dicts
variable {κ : Type} [DecidableEq κ]

theorem dset_of_not_mem (d : Dict κ) (k : κ) (v : Nat) (h : k ∉ d.map (·.1)) :
    dset d k v = d ++ [(k, v)] := by
  induction d with
  | nil => rfl
  | cons a r ih =>
    obtain ⟨k', v'⟩ := a
    simp only [List.map_cons, List.mem_cons, not_or] at h
    have hne : ¬ k' = k := fun e => h.1 e.symm
    simp [dset, hne, ih h.2]

/-- with pairwise distinct keys `update` is concatenation -/
theorem dupdate_nodup (d1 : Dict κ) (d2 : List (κ × Nat)) (h : ((d1 ++ d2).map (·.1)).Nodup) :
    dupdate d1 d2 = d1 ++ d2 := by
  induction d2 generalizing d1 with
  | nil => simp [dupdate]
  | cons a r ih =>
    have hk : a.1 ∉ d1.map (·.1) := by
      intro hm
      simp only [List.map_append, List.map_cons] at h
      have := (List.nodup_append.mp h).2.2 a.1 hm a.1 (by simp)
      exact this rfl
    have h' : (((d1 ++ [a]) ++ r).map (·.1)).Nodup := by simpa using h
    have := ih (d1 ++ [a]) h'
    simp only [dupdate, List.foldl_cons] at this ⊢
    rw [dset_of_not_mem d1 a.1 a.2 hk]
    simpa using this

theorem mem_dset (d : Dict κ) (k : κ) (v : Nat) (x : κ × Nat) (h : x ∈ dset d k v) :
    x ∈ d ∨ x = (k, v) := by
  induction d with
  | nil => simp [dset] at h; exact Or.inr h
  | cons a r ih =>
    obtain ⟨k', v'⟩ := a
    simp only [dset] at h
    split at h
    · rename_i e
      simp only [List.mem_cons] at h
      rcases h with h | h
      · exact Or.inr (by rw [h, e])
      · exact Or.inl (by simp [h])
    · simp only [List.mem_cons] at h
      rcases h with h | h
      · exact Or.inl (by simp [h])
      · rcases ih h with h | h
        · exact Or.inl (by simp [h])
        · exact Or.inr h

theorem mem_dupdate (d1 : Dict κ) (d2 : List (κ × Nat)) (x : κ × Nat) (h : x ∈ dupdate d1 d2) :
    x ∈ d1 ∨ x ∈ d2 := by
  induction d2 generalizing d1 with
  | nil => simpa [dupdate] using h
  | cons a r ih =>
    simp only [dupdate, List.foldl_cons] at h
    rcases ih (dset d1 a.1 a.2) h with h | h
    · rcases mem_dset d1 a.1 a.2 x h with h | h
      · exact Or.inl h
      · exact Or.inr (by simp [h])
    · exact Or.inr (by simp [h])

end Dicts

/-! ## lengths -/

theorem prodLens_pos (l : List Nat) (h : ∀ n ∈ l, 0 < n) : 0 < prodLens l := by
  induction l with
  | nil => simp [prodLens]
  | cons a r ih =>
    simp only [prodLens]
    exact Nat.mul_pos (h a (by simp)) (ih fun n hn => h n (by simp [hn]))

theorem prodLens_eq_zero (l : List Nat) (h : 0 ∈ l) : prodLens l = 0 := by
  induction l with
  | nil => cases h
  | cons a r ih =>
    simp only [prodLens]
    rcases List.mem_cons.mp h with h | h
    · simp [← h]
    · simp [ih h]

theorem minLens_pos (l : List Nat) (hne : l ≠ []) (h : ∀ n ∈ l, 0 < n) : 0 < minLens l := by
  induction l with
  | nil => exact absurd rfl hne
  | cons a r ih =>
    cases r with
    | nil => simpa [minLens] using h a (by simp)
    | cons b r' =>
      simp only [minLens]
      have h1 := h a (by simp)
      have h2 := ih (by simp) fun n hn => h n (by simp [hn])
      omega

theorem minLens_le (l : List Nat) (n : Nat) (h : n ∈ l) : minLens l ≤ n := by
  induction l with
  | nil => cases h
  | cons a r ih =>
    cases r with
    | nil => simp at h; simp [minLens, h]
    | cons b r' =>
      simp only [minLens]
      rcases List.mem_cons.mp h with h | h
      · omega
      · have := ih h; omega

theorem minLens_eq_zero (l : List Nat) (h : 0 ∈ l) : minLens l = 0 := by
  have := minLens_le l 0 h; omega

/-! ## `itertools.product` of ranges -/

theorem length_product (l : List Nat) : (product l).length = prodLens l := by
  induction l with
  | nil => rfl
  | cons n r ih =>
    simp only [product, prodLens, List.length_flatMap, List.length_map, ih]
    induction n with
    | zero => simp
    | succ n ihn => simp [List.range_succ, ihn, Nat.succ_mul]

theorem Below.length_eq {idx l : List Nat} (h : Below idx l) : idx.length = l.length := by
  induction l generalizing idx with
  | nil => cases idx <;> simp_all [Below]
  | cons n r ih =>
    cases idx with
    | nil => simp [Below] at h
    | cons i t => simp [Below] at h; simp [ih h.2]

theorem mem_product (l idx : List Nat) : idx ∈ product l ↔ Below idx l := by
  induction l generalizing idx with
  | nil => cases idx <;> simp [product, Below]
  | cons n r ih =>
    simp only [product, List.mem_flatMap, List.mem_range, List.mem_map]
    constructor
    · rintro ⟨i, hi, t, ht, rfl⟩
      exact ⟨hi, (ih t).mp ht⟩
    · intro h
      cases idx with
      | nil => simp [Below] at h
      | cons i t => exact ⟨i, h.1, t, (ih t).mpr h.2, rfl⟩

theorem length_of_mem_product (l idx : List Nat) (h : idx ∈ product l) : idx.length = l.length :=
  ((mem_product l idx).mp h).length_eq

/-- the product enumerates in strictly increasing lexicographic order (first key slowest) -/
theorem product_sorted (l : List Nat) : (product l).Pairwise lexLt := by
  induction l with
  | nil => simp [product]
  | cons n r ih =>
    simp only [product]
    rw [List.pairwise_flatMap]
    refine ⟨?_, ?_⟩
    · intro i _
      rw [List.pairwise_map]
      exact ih.imp fun h => by simp [lexLt, h]
    · have : (List.range n).Pairwise (· < ·) := List.pairwise_lt_range
      refine this.imp ?_
      intro a b hab x hx y hy
      simp only [List.mem_map] at hx hy
      obtain ⟨_, _, rfl⟩ := hx
      obtain ⟨_, _, rfl⟩ := hy
      simp [lexLt, hab]

theorem lexLt_irrefl (a : List Nat) : ¬ lexLt a a := by
  induction a with
  | nil => simp [lexLt]
  | cons x r ih => simp [lexLt, ih]

theorem nodup_product (l : List Nat) : (product l).Nodup :=
  (product_sorted l).imp fun {a b} h e => by subst e; exact lexLt_irrefl a h


/-! ## `dictionary_to_index_maps` meets its reference -/
section Maps
variable {κ : Type} [DecidableEq κ]


theorem nestedMap_eq (nk : List κ) (idx : List Nat) (hn : nk.Nodup) (hl : idx.length = nk.length) :
    nestedMap nk idx = nk.zip idx := by
  unfold nestedMap
  rw [dupdate_nodup] <;> simp
  rw [List.map_fst_zip (by omega)]; exact hn

theorem zippedMap_eq (zk : List κ) (z : Nat) (hn : zk.Nodup) : zippedMap zk z = zk.map (·, z) := by
  unfold zippedMap
  rw [dupdate_nodup] <;> simp [Function.comp_def]
  exact hn

theorem merge_eq (nk zk : List κ) (idx : List Nat) (z : Nat) (hn : (nk ++ zk).Nodup)
    (hl : idx.length = nk.length) :
    dupdate (nestedMap nk idx) (zippedMap zk z) = nk.zip idx ++ zk.map (·, z) := by
  have h := List.nodup_append.mp hn
  rw [nestedMap_eq nk idx h.1 hl, zippedMap_eq zk z h.2.1]
  apply dupdate_nodup
  simp only [List.map_append, List.map_map, Function.comp_def, List.map_id']
  rw [List.map_fst_zip (by omega)]
  simpa using hn

omit [DecidableEq κ] in
theorem refZipped_cons (p : κ × Nat) (r : List (κ × Nat)) :
    refZipped (p :: r) =
      (List.range (minLens ((p :: r).map (·.2)))).map fun z => (p :: r).map fun kz => (kz.1, z) := rfl

omit [DecidableEq κ] in
theorem flatMap_congr_mem {α β : Type} (l : List α) (f g : α → List β) (h : ∀ a ∈ l, f a = g a) :
    l.flatMap f = l.flatMap g := by
  induction l with
  | nil => rfl
  | cons a r ih =>
    simp only [List.flatMap_cons]
    rw [h a (by simp), ih fun x hx => h x (by simp [hx])]

theorem indexMaps_spec (nested zipped : List (κ × Nat)) (g : Guard nested zipped) :
    indexMaps nested zipped = .ok (refMaps nested zipped) := by
  have hpos_n : ∀ n ∈ nested.map (·.2), 0 < n := by
    intro n hn
    obtain ⟨p, hp, rfl⟩ := List.mem_map.mp hn
    exact g.pos p (by simp [hp])
  have hpos_z : ∀ n ∈ zipped.map (·.2), 0 < n := by
    intro n hn
    obtain ⟨p, hp, rfl⟩ := List.mem_map.mp hn
    exact g.pos p (by simp [hp])
  have hnd : (nested.map (·.1) ++ zipped.map (·.1)).Nodup := by simpa using g.nodup
  have hndn := (List.nodup_append.mp hnd).1
  have hndz := (List.nodup_append.mp hnd).2.1
  have hlenidx : ∀ idx ∈ product (nested.map (·.2)), idx.length = (nested.map (·.1)).length := by
    intro idx h; simpa using length_of_mem_product _ _ h
  cases hz : zipped with
  | nil =>
    cases hn : nested with
    | nil => exact absurd (by simp [hn, hz]) g.nonempty
    | cons p r =>
      have hP : 0 < prodLens (nested.map (·.2)) := prodLens_pos _ hpos_n
      rw [← hn]
      have hlen : 0 < nested.length := by simp [hn]
      simp only [indexMaps, List.length_map, hlen, ↓reduceIte, List.length_nil, hP, Nat.lt_irrefl,
        and_false]
      simp only [refMaps, refNested, refZipped, List.map_cons, List.map_nil, List.flatMap_map,
        List.append_nil]
      rw [List.map_eq_flatMap]
      congr 1
      apply flatMap_congr_mem
      intro idx hidx
      rw [nestedMap_eq _ _ hndn (hlenidx idx hidx)]
  | cons q s =>
    rw [← hz]
    have hzne : zipped.length ≠ 0 := by simp [hz]
    have hZ : 0 < minLens (zipped.map (·.2)) := minLens_pos _ (by simp [hz]) hpos_z
    have hrz : refZipped zipped =
        (List.range (minLens (zipped.map (·.2)))).map fun z => (zipped.map (·.1)).map (·, z) := by
      rw [hz, refZipped_cons]; simp [Function.comp_def]
    cases hn : nested with
    | nil =>
      simp only [indexMaps, List.map_nil, List.length_nil, Nat.lt_irrefl, ↓reduceIte, hzne, hZ,
        and_true]
      simp only [refMaps, refNested, product, List.map_cons, List.map_nil, List.zip_nil_left,
        List.flatMap_cons, List.flatMap_nil, List.append_nil, List.nil_append, hrz, List.map_map]
      congr 1
      apply List.map_congr_left
      intro z _
      simp [zippedMap_eq _ z hndz]
    | cons p r =>
      rw [← hn]
      have hP : 0 < prodLens (nested.map (·.2)) := prodLens_pos _ hpos_n
      have hlen : 0 < nested.length := by simp [hn]
      simp only [indexMaps, List.length_map, hlen, ↓reduceIte, hzne, hP, hZ, and_self]
      simp only [refMaps, refNested, hrz, List.flatMap_map, List.map_map]
      congr 1
      apply flatMap_congr_mem
      intro idx hidx
      apply List.map_congr_left
      intro z _
      simp [merge_eq _ _ idx z hnd (hlenidx idx hidx)]

end Maps

section Maps2
variable {κ : Type} [DecidableEq κ]


theorem length_flatMap_const {α β : Type} (l : List α) (f : α → List β) (c : Nat)
    (h : ∀ a ∈ l, (f a).length = c) : (l.flatMap f).length = l.length * c := by
  induction l with
  | nil => simp
  | cons a r ih =>
    simp only [List.flatMap_cons, List.length_append, List.length_cons]
    rw [h a (by simp), ih fun x hx => h x (by simp [hx]), Nat.succ_mul]; omega

theorem refZipped_eq (zipped : List (κ × Nat)) :
    refZipped zipped = (List.range (zipCount zipped)).map fun z => zipped.map fun kz => (kz.1, z) := by
  cases zipped with
  | nil => simp [refZipped, zipCount, List.range_succ]
  | cons p r => rfl

theorem length_refMaps (nested zipped : List (κ × Nat)) :
    (refMaps nested zipped).length = prodLens (nested.map (·.2)) * zipCount zipped := by
  unfold refMaps
  rw [length_flatMap_const _ _ (zipCount zipped)]
  · simp [refNested, length_product]
  · intro a _; simp [refZipped_eq]

theorem mem_refMaps (nested zipped : List (κ × Nat)) (m : Dict κ) :
    m ∈ refMaps nested zipped ↔
      ∃ idx z, Below idx (nested.map (·.2)) ∧ z < zipCount zipped ∧
        m = (nested.map (·.1)).zip idx ++ zipped.map fun kz => (kz.1, z) := by
  simp only [refMaps, refNested, refZipped_eq, List.mem_flatMap, List.mem_map, List.mem_range,
    mem_product]
  constructor
  · rintro ⟨_, ⟨idx, hidx, rfl⟩, _, ⟨z, hz, rfl⟩, rfl⟩
    exact ⟨idx, z, hidx, hz, rfl⟩
  · rintro ⟨idx, z, hidx, hz, rfl⟩
    exact ⟨_, ⟨idx, hidx, rfl⟩, _, ⟨z, hz, rfl⟩, rfl⟩

theorem zip_inj {α β : Type} (l : List α) (a b : List β) (ha : a.length = l.length) (hb : b.length = l.length)
    (h : l.zip a = l.zip b) : a = b := by
  induction l generalizing a b with
  | nil => cases a <;> cases b <;> simp_all
  | cons x r ih =>
    cases a with
    | nil => simp at ha
    | cons a0 a' =>
      cases b with
      | nil => simp at hb
      | cons b0 b' =>
        simp only [List.zip_cons_cons, List.cons.injEq, Prod.mk.injEq, true_and] at h
        simp only [List.length_cons, Nat.add_right_cancel_iff] at ha hb
        rw [h.1, ih a' b' ha hb h.2]

theorem nodup_map_of_inj_on {α β : Type} (l : List α) (f : α → β) (hn : l.Nodup)
    (hinj : ∀ a ∈ l, ∀ b ∈ l, f a = f b → a = b) : (l.map f).Nodup := by
  induction l with
  | nil => simp
  | cons x r ih =>
    simp only [List.nodup_cons, List.map_cons, List.mem_map, not_exists, not_and] at hn ⊢
    refine ⟨?_, ih hn.2 fun a ha b hb => hinj a (by simp [ha]) b (by simp [hb])⟩
    intro y hy e
    have := hinj y (by simp [hy]) x (by simp) e
    exact hn.1 (this ▸ hy)

theorem nodup_refNested (nested : List (κ × Nat)) : (refNested nested).Nodup := by
  unfold refNested
  apply nodup_map_of_inj_on _ _ (nodup_product _)
  intro a ha b hb h
  exact zip_inj _ a b (by simpa using length_of_mem_product _ _ ha)
    (by simpa using length_of_mem_product _ _ hb) h

theorem nodup_refZipped (zipped : List (κ × Nat)) : (refZipped zipped).Nodup := by
  rw [refZipped_eq]
  apply nodup_map_of_inj_on _ _ List.nodup_range
  intro a ha b hb h
  cases zipped with
  | nil => simp [zipCount] at ha hb; omega
  | cons p r => simp at h; exact h.1

/-- one row per combination: no index map occurs twice -/
theorem nodup_refMaps (nested zipped : List (κ × Nat)) : (refMaps nested zipped).Nodup := by
  unfold refMaps
  have hlen : ∀ n ∈ refNested nested, n.length = nested.length := by
    intro n hn
    simp only [refNested, List.mem_map] at hn
    obtain ⟨idx, hidx, rfl⟩ := hn
    have := length_of_mem_product _ _ hidx
    simp [List.length_zip]; simp at this; omega
  show List.Pairwise (· ≠ ·) _
  rw [List.pairwise_flatMap]
  refine ⟨?_, ?_⟩
  · intro n _
    apply nodup_map_of_inj_on _ _ (nodup_refZipped zipped)
    intro a _ b _ h
    exact List.append_cancel_left h
  · have hnd : (refNested nested).Nodup := nodup_refNested nested
    have : ∀ a ∈ refNested nested, ∀ b ∈ refNested nested, a ≠ b →
        ∀ x ∈ (refZipped zipped).map (fun z => a ++ z), ∀ y ∈ (refZipped zipped).map (fun z => b ++ z), x ≠ y := by
      intro a ha b hb hab x hx y hy e
      simp only [List.mem_map] at hx hy
      obtain ⟨z, _, rfl⟩ := hx
      obtain ⟨z', _, rfl⟩ := hy
      exact hab (List.append_inj e (by rw [hlen a ha, hlen b hb])).1
    exact List.Pairwise.imp_of_mem (fun {a b} ha hb hab => this a ha b hb hab) hnd

/-! front end -/
theorem zip_map_self {α β : Type} (l : List α) (f : α → β) : l.zip (l.map f) = l.map fun a => (a, f a) := by
  induction l with
  | nil => rfl
  | cons a r ih => simp [ih]

theorem lensOf_ok (data : κ → DLen) (keys : List κ) (f : κ → Nat) (h : ∀ k ∈ keys, data k = .len (f k)) :
    lensOf data keys = .ok (keys.map f) := by
  induction keys with
  | nil => rfl
  | cons k r ih =>
    simp only [lensOf, h k (by simp), ih fun x hx => h x (by simp [hx]), List.map_cons]

theorem indexMapsOf_spec (data : κ → DLen) (nk zk : List κ) (f : κ → Nat)
    (hd : ∀ k ∈ nk ++ zk, data k = .len (f k))
    (g : Guard (nk.map fun k => (k, f k)) (zk.map fun k => (k, f k))) :
    indexMapsOf data (some nk) (some zk)
      = .ok (refMaps (nk.map fun k => (k, f k)) (zk.map fun k => (k, f k))) := by
  simp only [indexMapsOf, Option.getD_some]
  rw [lensOf_ok data nk f fun k hk => hd k (by simp [hk]),
    lensOf_ok data zk f fun k hk => hd k (by simp [hk])]
  simp only [zip_map_self, indexMaps_spec _ _ g]

/-! error branches -/
theorem indexMaps_none : indexMaps ([] : List (κ × Nat)) [] = .error .allZero := by
  simp [indexMaps]

theorem indexMapsOf_none (data : κ → DLen) : indexMapsOf data none none = .error .noKeys := by
  simp [indexMapsOf, lensOf, indexMaps]

theorem indexMapsOf_empty (data : κ → DLen) : indexMapsOf data (some []) (some []) = .error .allZero := by
  simp [indexMapsOf, lensOf, indexMaps]

/-- both loops empty or containing an empty list ⇒ the documented `ValueError` -/
theorem indexMaps_allZero (nested zipped : List (κ × Nat))
    (hn : nested = [] ∨ 0 ∈ nested.map (·.2)) (hz : zipped = [] ∨ 0 ∈ zipped.map (·.2)) :
    indexMaps nested zipped = .error .allZero := by
  have h1 : (if (nested.map (·.2)).length > 0 then prodLens (nested.map (·.2)) else 0) = 0 := by
    rcases hn with h | h
    · simp [h]
    · simp [prodLens_eq_zero _ h]
  have h2 : (if zipped.length = 0 then 0 else minLens (zipped.map (·.2))) = 0 := by
    rcases hz with h | h
    · simp [h]
    · simp [minLens_eq_zero _ h]
  simp only [indexMaps, h1, h2, Nat.lt_irrefl, and_self, ↓reduceIte]

/-- an empty iterated list next to non-empty zipped ones: the nested keys silently drop out -/
theorem indexMaps_zero_nested (nested zipped : List (κ × Nat)) (hn : 0 ∈ nested.map (·.2)) :
    indexMaps nested zipped = indexMaps [] zipped := by
  have h1 : (if (nested.map (·.2)).length > 0 then prodLens (nested.map (·.2)) else 0) = 0 := by
    simp [prodLens_eq_zero _ hn]
  simp only [indexMaps, h1, Nat.lt_irrefl, false_and, ↓reduceIte, List.map_nil, List.length_nil]

/-- an empty zipped list next to non-empty iterated ones: the zipped keys silently drop out -/
theorem indexMaps_zero_zipped (nested zipped : List (κ × Nat)) (hz : 0 ∈ zipped.map (·.2)) :
    indexMaps nested zipped = indexMaps nested [] := by
  have h2 : (if zipped.length = 0 then 0 else minLens (zipped.map (·.2))) = 0 := by
    simp [minLens_eq_zero _ hz]
  simp only [indexMaps, h2, Nat.lt_irrefl, and_false, ↓reduceIte, List.length_nil]

end Maps2

section Pick
variable {κ ν : Type} [DecidableEq κ]


theorem range_map_getElem? {α : Type} (l : List α) :
    (List.range l.length).map (fun i => l[i]?) = l.map some := by
  apply List.ext_getElem?
  intro j
  by_cases h : j < l.length
  · simp [h]
  · simp [h]

theorem flatMap_range_getElem? {α β : Type} (l : List α) (H : Option α → List β) :
    (List.range l.length).flatMap (fun i => H l[i]?) = l.flatMap fun v => H (some v) := by
  have := List.flatMap_map (fun i => l[i]?) H (List.range l.length)
  rw [range_map_getElem?, List.flatMap_map] at this
  exact this.symm

/-- picking by index tuples of the product = `itertools.product` of the value lists -/
theorem product_pick (ls : List (List ν)) :
    (product (ls.map List.length)).map (fun idx => List.zipWith (fun (l : List ν) i => l[i]?) ls idx)
      = (productV ls).map (·.map some) := by
  induction ls with
  | nil => simp [product, productV]
  | cons l rest ih =>
    simp only [List.map_cons, product, productV, List.map_flatMap, List.map_map, Function.comp_def,
      List.zipWith_cons_cons]
    have h1 : ∀ i : Nat, (product (rest.map List.length)).map
          (fun t => l[i]? :: List.zipWith (fun (l : List ν) i => l[i]?) rest t)
        = (productV rest).map (fun t => l[i]? :: t.map some) := by
      intro i
      have := congrArg (List.map (l[i]? :: ·)) ih
      simpa [List.map_map, Function.comp_def] using this
    simp only [h1]
    exact flatMap_range_getElem? l (fun x => (productV rest).map fun t => x :: t.map some)

theorem range_min_zipWith {α β γ : Type} (a b : Nat) (f : Nat → α) (g : Nat → β) (c : α → β → γ) :
    (List.range (min a b)).map (fun z => c (f z) (g z))
      = List.zipWith c ((List.range a).map f) ((List.range b).map g) := by
  apply List.ext_getElem?
  intro j
  simp only [List.getElem?_map, List.getElem?_zipWith]
  by_cases ha : j < a <;> by_cases hb : j < b
  · simp [ha, hb, Nat.lt_min]
  · have : ¬ j < min a b := by omega
    simp [ha, hb, this]
  · have : ¬ j < min a b := by omega
    simp [ha, hb, this]
  · have : ¬ j < min a b := by omega
    simp [ha, hb, this]

/-- picking a common index in every list = python `zip` -/
theorem range_pick_zip (ls : List (List ν)) (h : ls ≠ []) :
    (List.range (minLens (ls.map List.length))).map (fun z => ls.map (·[z]?))
      = (zipV ls).map (·.map some) := by
  induction ls with
  | nil => exact absurd rfl h
  | cons l rest ih =>
    cases rest with
    | nil =>
      simp only [List.map_cons, List.map_nil, minLens, zipV, List.map_map, Function.comp_def]
      have := congrArg (List.map (fun x => [x])) (range_map_getElem? l)
      simpa [List.map_map, Function.comp_def] using this
    | cons l' rest' =>
      have ih' := ih (by simp)
      simp only [List.map_cons, minLens, zipV] at ih' ⊢
      rw [range_min_zipWith l.length _ (fun z => l[z]?) (fun z => l'[z]? :: rest'.map (·[z]?))
        (fun x y => x :: y)]
      rw [range_map_getElem?, ih']
      rw [List.map_zipWith, List.zipWith_map]
      simp

end Pick

section Wires
variable {κ ν : Type} [DecidableEq κ]


/-- wires that all deliver -/
def lift (vd : List (κ × ν)) : List (κ × Option ν) := vd.map fun kv => (kv.1, some kv.2)

omit [DecidableEq κ] in
theorem lift_append (a b : List (κ × ν)) : lift (a ++ b) = lift a ++ lift b := by simp [lift]

omit [DecidableEq κ] in
theorem lift_zip (ks : List κ) (vs : List ν) : lift (ks.zip vs) = ks.zip (vs.map some) := by
  simp [lift, List.zip_map_right]

theorem itemVal_eq (cur : Cur κ ν) (k : κ) (i : Nat) : itemVal cur k i = (listOf cur k)[i]? := by
  unfold itemVal listOf
  cases valOf cur k <;> simp

theorem wires_append (cur : Cur κ ν) (a b : Dict κ) : wires cur (a ++ b) = wires cur a ++ wires cur b := by
  simp [wires]

omit [DecidableEq κ] in
theorem zip_map_dep {α β γ : Type} (l : List α) (a : List β) (f : α → β → γ) :
    (l.zip a).map (fun p => (p.1, f p.1 p.2)) = l.zip (List.zipWith f l a) := by
  induction l generalizing a with
  | nil => simp
  | cons x r ih => cases a <;> simp [ih]

theorem wires_zip (cur : Cur κ ν) (nk : List κ) (idx : List Nat) :
    wires cur (nk.zip idx)
      = nk.zip (List.zipWith (fun (l : List ν) i => l[i]?) (nk.map (listOf cur)) idx) := by
  unfold wires
  rw [List.zipWith_map_left]
  have := zip_map_dep nk idx (fun k i => (listOf cur k)[i]?)
  simpa [itemVal_eq] using this

theorem wires_const (cur : Cur κ ν) (zk : List κ) (z : Nat) :
    wires cur (zk.map (·, z)) = zk.zip ((zk.map (listOf cur)).map (·[z]?)) := by
  unfold wires
  simp only [List.map_map, Function.comp_def, itemVal_eq]
  rw [zip_map_self]

omit [DecidableEq κ] in
theorem lensOfCur_fst (cur : Cur κ ν) (ks : List κ) [DecidableEq κ] : (lensOfCur cur ks).map (·.1) = ks := by
  simp [lensOfCur, Function.comp_def]

theorem lensOfCur_snd (cur : Cur κ ν) (ks : List κ) :
    (lensOfCur cur ks).map (·.2) = (ks.map (listOf cur)).map List.length := by
  simp [lensOfCur, Function.comp_def]

/-- the get-item values along the reference index maps are the value combinations -/
theorem wires_refMaps (s : Spec κ ν) (cur : Cur κ ν) :
    (refMaps (lensOfCur cur s.iterOn) (lensOfCur cur s.zipOn)).map (wires cur)
      = (combos s cur).map lift := by
  have hA : (refNested (lensOfCur cur s.iterOn)).map (wires cur)
      = (productV (s.iterOn.map (listOf cur))).map fun nv => lift (s.iterOn.zip nv) := by
    simp only [refNested, lensOfCur_fst, lensOfCur_snd, List.map_map, Function.comp_def, wires_zip,
      lift_zip]
    have := congrArg (List.map (s.iterOn.zip ·)) (product_pick (s.iterOn.map (listOf cur)))
    simpa [List.map_map, Function.comp_def] using this
  have hB : (refZipped (lensOfCur cur s.zipOn)).map (wires cur)
      = (zipV (s.zipOn.map (listOf cur))).map fun zv => lift (s.zipOn.zip zv) := by
    cases hz : s.zipOn with
    | nil => simp [lensOfCur, refZipped, zipV, wires, lift]
    | cons q r =>
      rw [← hz]
      have hne : lensOfCur cur s.zipOn ≠ [] := by simp [lensOfCur, hz]
      have hne' : s.zipOn.map (listOf cur) ≠ [] := by simp [hz]
      have hr : refZipped (lensOfCur cur s.zipOn)
          = (List.range (minLens ((s.zipOn.map (listOf cur)).map List.length))).map
              fun z => s.zipOn.map (·, z) := by
        rw [refZipped_eq]
        have : zipCount (lensOfCur cur s.zipOn) = minLens ((lensOfCur cur s.zipOn).map (·.2)) := by
          cases h : lensOfCur cur s.zipOn with
          | nil => exact absurd h hne
          | cons _ _ => rfl
        rw [this, lensOfCur_snd]
        simp [lensOfCur, Function.comp_def]
      rw [hr]
      simp only [List.map_map, Function.comp_def, wires_const, lift_zip]
      have := congrArg (List.map (s.zipOn.zip ·)) (range_pick_zip (s.zipOn.map (listOf cur)) hne')
      simpa [List.map_map, Function.comp_def] using this
  unfold refMaps combos
  rw [List.map_flatMap]
  simp only [List.map_map, Function.comp_def, wires_append]
  have e1 : ∀ (L : List (Dict κ)) (Z : List (Dict κ)),
      L.flatMap (fun n => Z.map fun z => wires cur n ++ wires cur z)
        = (L.map (wires cur)).flatMap fun a => (Z.map (wires cur)).map fun b => a ++ b := by
    intro L Z; simp [List.flatMap_map, List.map_map, Function.comp_def]
  rw [e1, hA, hB]
  simp [List.flatMap_map, List.map_map, List.map_flatMap, Function.comp_def, lift_append]

end Wires

section Lookup
variable {κ ν : Type} [DecidableEq κ]


omit [DecidableEq κ] in
theorem optAll_map_some {α β : Type} (l : List α) (f : α → Option β) (g : α → β)
    (h : ∀ a ∈ l, f a = some (g a)) : optAll (l.map f) = some (l.map g) := by
  induction l with
  | nil => rfl
  | cons a r ih =>
    simp only [List.map_cons, h a (by simp), optAll, ih fun x hx => h x (by simp [hx])]

theorem lookup_cons_eq {β : Type} (k : κ) (v : β) (r : List (κ × β)) :
    ((k, v) :: r).lookup k = some v := by simp

theorem lookup_cons_neq {β : Type} (k k' : κ) (v : β) (r : List (κ × β)) (h : k ≠ k') :
    ((k', v) :: r).lookup k = r.lookup k := by
  have : (k == k') = false := by simpa using h
  simp [List.lookup_cons, this]

theorem lookup_lift (vd : List (κ × ν)) (k : κ) : (lift vd).lookup k = (vd.lookup k).map some := by
  induction vd with
  | nil => rfl
  | cons a r ih =>
    obtain ⟨k', v⟩ := a
    simp only [lift, List.map_cons] at ih ⊢
    by_cases h : k = k'
    · subst h; rw [lookup_cons_eq, lookup_cons_eq]; rfl
    · rw [lookup_cons_neq _ _ _ _ h, lookup_cons_neq _ _ _ _ h, ih]

theorem loopedCell_lift (vd : List (κ × ν)) (k : κ) : loopedCell (lift vd) k = vd.lookup k := by
  unfold loopedCell
  rw [lookup_lift]
  cases vd.lookup k <;> rfl

/-- looking every key of a duplicate-free association list up gives the list back -/
theorem lookup_keys (vd : List (κ × ν)) (hn : (vd.map (·.1)).Nodup) :
    optAll ((vd.map (·.1)).map fun k => (vd.lookup k).map (k, ·)) = some vd := by
  induction vd with
  | nil => rfl
  | cons a r ih =>
    obtain ⟨k, v⟩ := a
    simp only [List.map_cons, List.nodup_cons] at hn
    have hr : (r.map (·.1)).map (fun k' => (((k, v) :: r).lookup k').map (k', ·))
        = (r.map (·.1)).map (fun k' => (r.lookup k').map (k', ·)) := by
      apply List.map_congr_left
      intro k' hk'
      have : k' ≠ k := fun e => hn.1 (e ▸ hk')
      rw [lookup_cons_neq _ _ _ _ this]
    simp only [List.map_cons, lookup_cons_eq, Option.map_some, optAll, hr, ih hn.2]

omit [DecidableEq κ] in
theorem length_of_mem_productV (ls : List (List ν)) (t : List ν) (h : t ∈ productV ls) :
    t.length = ls.length := by
  induction ls generalizing t with
  | nil => simp [productV] at h; simp [h]
  | cons l r ih =>
    simp only [productV, List.mem_flatMap, List.mem_map] at h
    obtain ⟨v, _, t', ht', rfl⟩ := h
    simp [ih t' ht']

omit [DecidableEq κ] in
theorem length_of_mem_zipV (ls : List (List ν)) (t : List ν) (h : t ∈ zipV ls) :
    t.length = ls.length := by
  induction ls generalizing t with
  | nil => simp [zipV] at h; simp [h]
  | cons l r ih =>
    cases r with
    | nil => simp [zipV] at h; obtain ⟨_, _, rfl⟩ := h; rfl
    | cons l' r' =>
      simp only [zipV] at h
      obtain ⟨i, hi⟩ := List.getElem_of_mem h
      obtain ⟨hi1, hi2⟩ := hi
      simp only [List.getElem_zipWith] at hi2
      subst hi2
      simp only [List.length_cons, Nat.add_right_cancel_iff]
      exact ih _ (List.getElem_mem _)

/-- the looped values of a row are keyed by exactly the looped labels, in order -/
theorem keys_of_mem_combos (s : Spec κ ν) (cur : Cur κ ν) (vd : List (κ × ν)) (h : vd ∈ combos s cur) :
    vd.map (·.1) = s.iterOn ++ s.zipOn := by
  simp only [combos, List.mem_flatMap, List.mem_map] at h
  obtain ⟨nv, hnv, zv, hzv, rfl⟩ := h
  have h1 := length_of_mem_productV _ _ hnv
  have h2 := length_of_mem_zipV _ _ hzv
  simp only [List.length_map] at h1 h2
  rw [List.map_append, List.map_fst_zip (by omega), List.map_fst_zip (by omega)]

end Lookup

section Rows
variable {κ ν : Type} [DecidableEq κ]

theorem rset_of_not_mem (d : List (κ × ν)) (k : κ) (v : ν) (h : k ∉ d.map (·.1)) :
    rset d k v = d ++ [(k, v)] := by
  induction d with
  | nil => rfl
  | cons a r ih =>
    obtain ⟨k', v'⟩ := a
    simp only [List.map_cons, List.mem_cons, not_or] at h
    have hne : ¬ k' = k := fun e => h.1 e.symm
    simp [rset, hne, ih h.2]

theorem foldl_rset_of_nodup (l acc : List (κ × ν)) (h : ((acc ++ l).map (·.1)).Nodup) :
    l.foldl (fun d kv => rset d kv.1 kv.2) acc = acc ++ l := by
  induction l generalizing acc with
  | nil => simp
  | cons a r ih =>
    simp only [List.foldl_cons]
    have hn : a.1 ∉ acc.map (·.1) := by
      intro hm
      rw [List.map_append, List.map_cons] at h
      have := (List.nodup_append.mp h).2.2 a.1 hm a.1 (by simp)
      exact this rfl
    rw [rset_of_not_mem acc a.1 a.2 hn, ih (acc ++ [a]) (by simpa [List.append_assoc] using h)]
    simp [List.append_assoc]

/-- with pairwise distinct column names the row dict is just the list of its cells -/
theorem rupdate_of_nodup (l : List (κ × ν)) (h : (l.map (·.1)).Nodup) : rupdate l = l := by
  unfold rupdate
  rw [foldl_rset_of_nodup l [] (by simpa using h)]
  rfl

theorem collectorLabels_nodup (s : Spec κ ν) (h : ColsDistinct s) : (collectorLabels s).Nodup := by
  unfold ColsDistinct columns at h
  unfold collectorLabels
  have p : (s.iterOn ++ s.zipOn ++ s.outputs.map s.colmap).Perm
      (s.outputs.map s.colmap ++ (s.zipOn ++ s.iterOn)) :=
    List.perm_append_comm.trans (List.Perm.append_left _ List.perm_append_comm)
  exact p.nodup_iff.mp h

/-- with injective get-item labels no two cells share a node … -/
theorem labelsOk_true (s : Spec κ ν) (v : Valid s) (maps : List (Dict κ)) : labelsOk s maps = true := by
  unfold labelsOk
  rw [List.all_eq_true]
  intro c _
  rw [List.all_eq_true]
  intro c' _
  simp only [decide_eq_true_eq]
  intro h
  obtain ⟨h1, h2⟩ := v.labels c.1 c.2 c'.1 c'.2 h
  exact Prod.ext h1 h2

/-- … every lookup returns the cell's own node … -/
theorem ownerOf_self (s : Spec κ ν) (v : Valid s) (maps : List (Dict κ)) (c : κ × Nat) : ownerOf s maps c = c := by
  unfold ownerOf
  cases h : (cellsOf maps).find? (fun c' => decide (s.itemLabel c'.1 c'.2 = s.itemLabel c.1 c.2)) with
  | none => rfl
  | some c' =>
    have := List.find?_some h
    simp only [decide_eq_true_eq] at this
    obtain ⟨h1, h2⟩ := v.labels c'.1 c'.2 c.1 c.2 this
    exact Prod.ext h1 h2

/-- … and every row reads its OWN cells -/
theorem wiresA_eq (s : Spec κ ν) (v : Valid s) (cur : Cur κ ν) (maps : List (Dict κ)) (m : Dict κ) :
    wiresA s cur maps m = wires cur m := by
  unfold wiresA wires
  apply List.map_congr_left
  intro kv _
  rw [ownerOf_self s v maps kv]

theorem listsClash_false (s : Spec κ ν) (v : Valid s) : listsClash s = false := by
  unfold listsClash
  simp [collectorLabels_nodup s v.cols]


theorem lookup_of_mem_keys {β : Type} (l : List (κ × β)) (k : κ) (h : k ∈ l.map (·.1)) :
    ∃ v, l.lookup k = some v ∧ (k, v) ∈ l := by
  induction l with
  | nil => cases h
  | cons a r ih =>
    obtain ⟨k', v'⟩ := a
    by_cases e : k = k'
    · subst e; exact ⟨v', lookup_cons_eq _ _ _, by simp⟩
    · simp only [List.map_cons, List.mem_cons] at h
      rcases h with h | h
      · exact absurd h e
      · obtain ⟨v, hv, hm⟩ := ih h
        exact ⟨v, by rw [lookup_cons_neq _ _ _ _ e, hv], by simp [hm]⟩

theorem lookup_none_of_not_mem {β : Type} (l : List (κ × β)) (k : κ) (h : k ∉ l.map (·.1)) :
    l.lookup k = none := by
  induction l with
  | nil => rfl
  | cons a r ih =>
    obtain ⟨k', v'⟩ := a
    simp only [List.map_cons, List.mem_cons, not_or] at h
    rw [lookup_cons_neq _ _ _ _ h.1, ih h.2]

theorem valOf_data (s : Spec κ ν) (cur : Cur κ ν) (g : Good s cur) (k : κ) (hk : k ∈ s.bodyInputs) :
    valOf cur k ≠ .nd := by
  obtain ⟨v, hv, hm⟩ := lookup_of_mem_keys cur k (g.keys ▸ hk)
  simp only [valOf, hv, Option.getD_some]
  exact g.data _ hm

/-- a body input of a row whose looped values all arrived sees exactly `env` -/
theorem bodyArg_lift (s : Spec κ ν) (cur : Cur κ ν) (g : Good s cur) (vd : List (κ × ν))
    (hk : vd.map (·.1) = s.iterOn ++ s.zipOn) (k : κ) (hin : k ∈ s.bodyInputs) :
    bodyArg s cur (lift vd) k = some (env s cur vd k) := by
  unfold bodyArg env
  rw [lookup_lift]
  cases hl : vd.lookup k with
  | some v => rfl
  | none =>
    have hnot : k ∉ s.iterOn ++ s.zipOn := by
      intro hm
      obtain ⟨v, hv, _⟩ := lookup_of_mem_keys vd k (hk ▸ hm)
      rw [hv] at hl; cases hl
    have hd := valOf_data s cur g k hin
    simp only [Option.map_none, hnot, ↓reduceIte, bcastVal]
    cases hv : valOf cur k with
    | nd => exact absurd hv hd
    | one v => rfl
    | many vs => rfl

theorem bodyOut_lift (s : Spec κ ν) (cur : Cur κ ν) (g : Good s cur) (vd : List (κ × ν))
    (hk : vd.map (·.1) = s.iterOn ++ s.zipOn) (o : κ) :
    bodyOut s cur (lift vd) o = some (refBody s cur vd o) := by
  unfold bodyOut refBody
  rw [optAll_map_some _ _ (env s cur vd) fun k hin => bodyArg_lift s cur g vd hk k hin]

theorem rowAt_lift (s : Spec κ ν) (cur : Cur κ ν) (v : Valid s) (g : Good s cur) (vd : List (κ × ν))
    (hk : vd.map (·.1) = s.iterOn ++ s.zipOn) (order : List Nat) (n : Nat) (hn : n ∈ order) :
    rowAt s cur order n (lift vd) = some (refRow s cur vd) := by
  unfold rowAt refRow
  have h1 : optAll ((s.iterOn ++ s.zipOn).map fun k => (loopedCell (lift vd) k).map (k, ·)) = some vd := by
    simp only [loopedCell_lift]
    rw [← hk]
    exact lookup_keys vd (hk ▸ v.nodup)
  rw [h1]
  have h2 : optAll (s.outputs.map fun o => (bodyOutAt s cur order n (lift vd) o).map (s.colmap o, ·))
      = some (s.outputs.map fun o => (s.colmap o, refBody s cur vd o)) := by
    apply optAll_map_some
    intro o _
    simp [bodyOutAt, hn, bodyOut_lift s cur g vd hk o]
  rw [h2]
  simp only
  rw [rupdate_of_nodup]
  have := v.cols
  unfold ColsDistinct columns at this
  simpa [List.map_append, hk, Function.comp_def] using this

omit [DecidableEq κ] in
theorem enum_map {α β : Type} (a : Nat) (l : List α) (f : α → β) :
    enum a (l.map f) = (enum a l).map fun nx => (nx.1, f nx.2) := by
  induction l generalizing a with
  | nil => rfl
  | cons x r ih => simp [enum, ih]

omit [DecidableEq κ] in
theorem enum_map_congr {α β : Type} (a : Nat) (l : List α) (G : Nat → α → β) (H : α → β)
    (h : ∀ n, a ≤ n → n < a + l.length → ∀ x ∈ l, G n x = H x) :
    (enum a l).map (fun nx => G nx.1 nx.2) = l.map H := by
  induction l generalizing a with
  | nil => rfl
  | cons x r ih =>
    simp only [enum, List.map_cons]
    rw [h a (Nat.le_refl _) (by simp) x (by simp)]
    rw [ih (a + 1) fun n h1 h2 y hy => h n (by omega) (by simp; omega) y (by simp [hy])]

end Rows

section Eval
variable {κ ν : Type} [DecidableEq κ]


omit [DecidableEq κ] in
theorem optAll_map_some' {α β : Type} (l : List α) (g : α → β) :
    optAll (l.map fun a => some (g a)) = some (l.map g) :=
  optAll_map_some l _ g fun _ _ => rfl

theorem enum_over_combos {β : Type} (s : Spec κ ν) (cur : Cur κ ν) (F : Nat → List (κ × Option ν) → β) :
    (enum 0 (refMaps (lensOfCur cur s.iterOn) (lensOfCur cur s.zipOn))).map
        (fun nm => F nm.1 (wires cur nm.2))
      = (enum 0 (combos s cur)).map fun nv => F nv.1 (lift nv.2) := by
  have h1 : ∀ maps : List (Dict κ), (enum 0 maps).map (fun nm => F nm.1 (wires cur nm.2))
      = (enum 0 (maps.map (wires cur))).map fun nw => F nw.1 nw.2 := by
    intro maps; rw [enum_map]; simp [List.map_map, Function.comp_def]
  rw [h1, wires_refMaps, enum_map]
  simp [List.map_map, Function.comp_def]

theorem mem_loopedInputs (s : Spec κ ν) (k : κ) (h : k ∈ loopedInputs s) : k ∈ s.iterOn ++ s.zipOn := by
  simp only [loopedInputs, List.mem_filter, List.mem_append, decide_eq_true_eq] at h
  simp only [List.mem_append]
  exact h.2.symm

/-- under the guard the built sub-graph delivers the reference table / lists -/
theorem evalOuts_ref (s : Spec κ ν) (cur : Cur κ ν) (v : Valid s) (g : Good s cur) (order : List Nat)
    (hc : Covers order (combos s cur).length) :
    evalOuts s cur (refMaps (lensOfCur cur s.iterOn) (lensOfCur cur s.zipOn)) order = refOuts s cur := by
  have hrow : (enum 0 (combos s cur)).map (fun nv => rowAt s cur order nv.1 (lift nv.2))
      = (combos s cur).map fun vd => some (refRow s cur vd) := by
    apply enum_map_congr 0 (combos s cur) (fun n vd => rowAt s cur order n (lift vd))
    intro n _ hn vd hvd
    exact rowAt_lift s cur v g vd (keys_of_mem_combos s cur vd hvd) order n (hc n (by omega))
  have hbody : ∀ o, (enum 0 (combos s cur)).map (fun nv => bodyOutAt s cur order nv.1 (lift nv.2) o)
      = (combos s cur).map fun vd => some (refBody s cur vd o) := by
    intro o
    apply enum_map_congr 0 (combos s cur) (fun n vd => bodyOutAt s cur order n (lift vd) o)
    intro n _ hn vd hvd
    simp [bodyOutAt, hc n (by omega), bodyOut_lift s cur g vd (keys_of_mem_combos s cur vd hvd) o]
  unfold evalOuts refOuts
  cases hdf : s.asDf with
  | true =>
    simp only [↓reduceIte]
    rw [enum_over_combos s cur (fun n w => rowAt s cur order n w), hrow, optAll_map_some']
    rfl
  | false =>
    simp only [Bool.false_eq_true, ↓reduceIte]
    congr 1
    congr 1
    · apply List.map_congr_left
      intro k hk
      have hk' := mem_loopedInputs s k hk
      have : (refMaps (lensOfCur cur s.iterOn) (lensOfCur cur s.zipOn)).map
            (fun m => loopedCell (wires cur m) k)
          = (combos s cur).map fun vd => some (env s cur vd k) := by
        have h1 : (refMaps (lensOfCur cur s.iterOn) (lensOfCur cur s.zipOn)).map
              (fun m => loopedCell (wires cur m) k)
            = ((refMaps (lensOfCur cur s.iterOn) (lensOfCur cur s.zipOn)).map (wires cur)).map
                (fun w => loopedCell w k) := by simp [List.map_map, Function.comp_def]
        rw [h1, wires_refMaps, List.map_map]
        apply List.map_congr_left
        intro vd hvd
        simp only [Function.comp_def, loopedCell_lift, env]
        obtain ⟨x, hx, _⟩ := lookup_of_mem_keys vd k (keys_of_mem_combos s cur vd hvd ▸ hk')
        rw [hx]
      rw [this, optAll_map_some']
    · apply List.map_congr_left
      intro o _
      rw [enum_over_combos s cur (fun n w => bodyOutAt s cur order n w o), hbody o, optAll_map_some']

end Eval

section RunGood
variable {κ ν : Type} [DecidableEq κ]


theorem ready_of_good (s : Spec κ ν) (cur : Cur κ ν) (g : Good s cur) : ready cur = true := by
  unfold ready
  rw [List.all_eq_true]
  intro kv hkv
  have := g.data kv hkv
  cases h : kv.2 <;> simp_all

theorem valOf_many_lookup (cur : Cur κ ν) (k : κ) (vs : List ν) (h : valOf cur k = .many vs) :
    cur.lookup k = some (.many vs) := by
  unfold valOf at h
  cases hl : cur.lookup k with
  | none => simp [hl] at h
  | some x => simp [hl] at h; rw [h]

theorem dataOf_good (s : Spec κ ν) (cur : Cur κ ν) (g : Good s cur) (k : κ) (hk : k ∈ s.iterOn ++ s.zipOn) :
    dataOf cur k = .len (listOf cur k).length := by
  obtain ⟨vs, hvs, _⟩ := g.lists k hk
  simp [dataOf, valOf_many_lookup cur k vs hvs, listOf, hvs]

theorem guard_of_good (s : Spec κ ν) (cur : Cur κ ν) (v : Valid s) (g : Good s cur) :
    Guard (lensOfCur cur s.iterOn) (lensOfCur cur s.zipOn) where
  pos := by
    intro p hp
    simp only [lensOfCur, List.mem_append, List.mem_map] at hp
    have key : ∀ k ∈ s.iterOn ++ s.zipOn, 0 < (listOf cur k).length := by
      intro k hk
      obtain ⟨vs, hvs, hne⟩ := g.lists k hk
      simp only [listOf, hvs]
      exact List.length_pos_iff.mpr hne
    rcases hp with ⟨k, hk, rfl⟩ | ⟨k, hk, rfl⟩
    · exact key k (by simp [hk])
    · exact key k (by simp [hk])
  nodup := by
    simp only [List.map_append, lensOfCur_fst]
    exact v.nodup
  nonempty := by
    intro h
    apply v.nonempty
    have := congrArg (List.map (·.1)) h
    simpa [lensOfCur_fst] using this

theorem indexMapsOf_good (s : Spec κ ν) (cur : Cur κ ν) (v : Valid s) (g : Good s cur) :
    indexMapsOf (dataOf cur) (some s.iterOn) (some s.zipOn)
      = .ok (refMaps (lensOfCur cur s.iterOn) (lensOfCur cur s.zipOn)) :=
  indexMapsOf_spec (dataOf cur) s.iterOn s.zipOn (fun k => (listOf cur k).length)
    (fun k hk => dataOf_good s cur g k hk) (guard_of_good s cur v g)

theorem length_combos (s : Spec κ ν) (cur : Cur κ ν) :
    (combos s cur).length = (refMaps (lensOfCur cur s.iterOn) (lensOfCur cur s.zipOn)).length := by
  have := congrArg List.length (wires_refMaps s cur)
  simpa using this.symm

theorem zipCount_pos (Z : List (κ × Nat)) (h : ∀ p ∈ Z, 0 < p.2) : 0 < zipCount Z := by
  cases Z with
  | nil => simp [zipCount]
  | cons p r =>
    simp only [zipCount]
    apply minLens_pos _ (by simp)
    intro n hn
    obtain ⟨q, hq, rfl⟩ := List.mem_map.mp hn
    exact h q hq

theorem refMaps_pos (N Z : List (κ × Nat)) (g : Guard N Z) : 0 < (refMaps N Z).length := by
  rw [length_refMaps]
  apply Nat.mul_pos
  · apply prodLens_pos
    intro n hn
    obtain ⟨q, hq, rfl⟩ := List.mem_map.mp hn
    exact g.pos q (by simp [hq])
  · exact zipCount_pos Z fun p hp => g.pos p (by simp [hp])

/-- every reference map mentions every looped key -/
theorem dget_refMaps (N Z : List (κ × Nat)) (m : Dict κ) (hm : m ∈ refMaps N Z) (k : κ)
    (hk : k ∈ (N ++ Z).map (·.1)) : dget m k ≠ none := by
  obtain ⟨idx, z, hidx, _, rfl⟩ := (mem_refMaps N Z m).mp hm
  have hl := hidx.length_eq
  simp only [List.length_map] at hl
  have hkeys : ((N.map (·.1)).zip idx ++ Z.map fun kz => (kz.1, z)).map (·.1) = (N ++ Z).map (·.1) := by
    rw [List.map_append, List.map_fst_zip (by simp; omega)]
    simp [Function.comp_def]
  obtain ⟨x, hx, _⟩ := lookup_of_mem_keys _ k (hkeys ▸ hk)
  simp [dget, hx]

theorem not_stranded (s : Spec κ ν) (cur : Cur κ ν) (v : Valid s) (g : Good s cur) :
    strandedCollector s (refMaps (lensOfCur cur s.iterOn) (lensOfCur cur s.zipOn)) = false := by
  unfold strandedCollector
  cases s.asDf with
  | true => rfl
  | false =>
    simp only [Bool.not_false, Bool.true_and]
    rw [Bool.eq_false_iff]
    intro h
    rw [List.any_eq_true] at h
    obtain ⟨k, hk, hall⟩ := h
    rw [List.all_eq_true] at hall
    have gd := guard_of_good s cur v g
    have hpos := refMaps_pos _ _ gd
    obtain ⟨m, hm⟩ := List.exists_mem_of_length_pos hpos
    have := hall m hm
    have hk' : k ∈ (lensOfCur cur s.iterOn ++ lensOfCur cur s.zipOn).map (·.1) := by
      simp only [List.map_append, lensOfCur_fst]
      simp only [List.mem_append] at hk ⊢
      exact hk.symm
    have hne := dget_refMaps _ _ m hm k hk'
    cases hd : dget m k with
    | none => exact hne hd
    | some x => simp [hd] at this

theorem complete_refOuts (s : Spec κ ν) (cur : Cur κ ν) : (refOuts s cur).complete = true := by
  unfold refOuts
  cases s.asDf <;> simp [Outs.complete]

variable [DecidableEq ν]

/-- a run on good inputs that misses the cache builds along the reference maps and returns the
reference outputs -/
theorem run_good (s : Spec κ ν) (st : St κ ν) (cur : Cur κ ν) (order : List Nat) (v : Valid s)
    (g : Good s cur) (hc : Covers order (combos s cur).length)
    (hmiss : isHit s st cur = false) :
    run s st cur order =
      ({ children := build s (refMaps (lensOfCur cur s.iterOn) (lensOfCur cur s.zipOn)) st.children,
         outs := refOuts s cur, cached := if s.useCache then some cur else none,
         maps := refMaps (lensOfCur cur s.iterOn) (lensOfCur cur s.zipOn) }, .ok) := by
  unfold run
  rw [hmiss, ready_of_good s cur g]
  simp only [↓reduceIte, Bool.false_eq_true, indexMapsOf_good s cur v g, not_stranded s cur v g,
    listsClash_false s v, labelsOk_true s v, Bool.not_true,
    Bool.and_false, evalOuts_ref s cur v g order hc, complete_refOuts, Bool.true_or, Bool.and_true]

end RunGood

section Build
variable {κ ν : Type} [DecidableEq κ]


theorem addChild_base (base X : List (Child κ)) (k : κ) (i : Nat) (hb : ∀ c ∈ base, c.isInput = true) :
    addChild (base ++ X) (.item k i) = base ++ addChild X (.item k i) := by
  have hnot : Child.item k i ∉ base := fun h => by simpa [Child.isInput] using hb _ h
  unfold addChild
  by_cases hx : Child.item k i ∈ X
  · simp [hx]
  · simp [hx, hnot]

theorem addBody_base (base X : List (Child κ)) (n : Nat) (m : Dict κ) (hb : ∀ c ∈ base, c.isInput = true) :
    addBody (base ++ X) n m = base ++ addBody X n m := by
  unfold addBody
  rw [List.append_assoc]
  generalize X ++ [Child.body n] = Y
  induction m generalizing Y with
  | nil => rfl
  | cons kv r ih =>
    simp only [List.foldl_cons]
    rw [addChild_base base Y kv.1 kv.2 hb, ih]

theorem addBodies_base (base X : List (Child κ)) (n : Nat) (maps : List (Dict κ))
    (hb : ∀ c ∈ base, c.isInput = true) :
    addBodies (base ++ X) n maps = base ++ addBodies X n maps := by
  induction maps generalizing X n with
  | nil => rfl
  | cons m r ih =>
    simp only [addBodies]
    rw [addBody_base base X n m hb, ih]

omit [DecidableEq κ] in
theorem addCollectors_base (s : Spec κ ν) (base Y : List (Child κ)) (r : Nat) :
    addCollectors s (base ++ Y) r = base ++ addCollectors s Y r := by
  unfold addCollectors
  cases s.asDf <;> simp [List.append_assoc]

/-- a build keeps exactly the input nodes of what was there and adds children that depend on
the index maps alone -/
theorem build_eq (s : Spec κ ν) (maps : List (Dict κ)) (cs : List (Child κ)) :
    build s maps cs = cs.filter Child.isInput ++ freshChildren s maps := by
  unfold build freshChildren
  have hb : ∀ c ∈ cs.filter Child.isInput, c.isInput = true := fun c hc => (List.mem_filter.mp hc).2
  have := addBodies_base (cs.filter Child.isInput) [] 0 maps hb
  rw [List.append_nil] at this
  rw [this, addCollectors_base]

theorem addChild_noInput (cs : List (Child κ)) (k : κ) (i : Nat) (c : Child κ)
    (h : c ∈ addChild cs (.item k i)) : c ∈ cs ∨ c.isInput = false := by
  unfold addChild at h
  split at h
  · exact Or.inl h
  · rcases List.mem_append.mp h with h | h
    · exact Or.inl h
    · simp at h; subst h; exact Or.inr rfl

theorem foldItems_noInput (m : Dict κ) (Y : List (Child κ)) (c : Child κ)
    (h : c ∈ m.foldl (fun cs kv => addChild cs (.item kv.1 kv.2)) Y) : c ∈ Y ∨ c.isInput = false := by
  induction m generalizing Y with
  | nil => exact Or.inl h
  | cons kv r ih =>
    rcases ih _ h with h | h
    · exact addChild_noInput Y kv.1 kv.2 c h
    · exact Or.inr h

theorem addBody_noInput (cs : List (Child κ)) (n : Nat) (m : Dict κ) (c : Child κ)
    (h : c ∈ addBody cs n m) : c ∈ cs ∨ c.isInput = false := by
  unfold addBody at h
  rcases foldItems_noInput m _ c h with h | h
  · rcases List.mem_append.mp h with h | h
    · exact Or.inl h
    · simp at h; subst h; exact Or.inr rfl
  · exact Or.inr h

theorem addBodies_noInput (cs : List (Child κ)) (n : Nat) (maps : List (Dict κ)) (c : Child κ)
    (h : c ∈ addBodies cs n maps) : c ∈ cs ∨ c.isInput = false := by
  induction maps generalizing cs n with
  | nil => exact Or.inl h
  | cons m r ih =>
    rcases ih _ _ h with h | h
    · exact addBody_noInput cs n m c h
    · exact Or.inr h

theorem fresh_noInput (s : Spec κ ν) (maps : List (Dict κ)) :
    (freshChildren s maps).filter Child.isInput = [] := by
  rw [List.filter_eq_nil_iff]
  intro c hc
  unfold freshChildren addCollectors at hc
  have hb : c ∈ addBodies [] 0 maps → ¬ c.isInput = true := by
    intro h
    rcases addBodies_noInput [] 0 maps c h with h | h
    · cases h
    · simp [h]
  cases hdf : s.asDf <;> simp only [hdf, ↓reduceIte, Bool.false_eq_true, List.mem_append, List.mem_map] at hc
  · rcases hc with (hc | ⟨o, _, rfl⟩) | ⟨k, _, rfl⟩
    · exact hb hc
    · simp [Child.isInput]
    · simp [Child.isInput]
  · rcases hc with (hc | hc) | ⟨n, _, rfl⟩
    · exact hb hc
    · simp at hc; subst hc; simp [Child.isInput]
    · simp [Child.isInput]

/-- the invariant of a for-node over any history of runs -/
structure Inv (s : Spec κ ν) (st : St κ ν) : Prop where
  inputs : st.children.filter Child.isInput = s.bodyInputs.map .input
  cache : ∀ c, s.useCache = true → st.cached = some c → Good s c →
    st.outs = refOuts s c ∧
    st.children = s.bodyInputs.map .input
      ++ freshChildren s (refMaps (lensOfCur c s.iterOn) (lensOfCur c s.zipOn))

omit [DecidableEq κ] in
theorem filter_inputs (l : List κ) : (l.map (Child.input)).filter Child.isInput = l.map Child.input := by
  rw [List.filter_eq_self]
  intro c hc
  obtain ⟨k, _, rfl⟩ := List.mem_map.mp hc
  rfl

theorem inv_init (s : Spec κ ν) : Inv s (init s) where
  inputs := by simp [init, filter_inputs]
  cache := by intro c _ h; simp [init] at h

theorem inputs_build (s : Spec κ ν) (maps : List (Dict κ)) (cs : List (Child κ))
    (h : cs.filter Child.isInput = s.bodyInputs.map .input) :
    (build s maps cs).filter Child.isInput = s.bodyInputs.map .input := by
  rw [build_eq, List.filter_append, fresh_noInput, List.append_nil, List.filter_filter]
  simpa using h

variable [DecidableEq ν]

theorem isHit_good (s : Spec κ ν) (st : St κ ν) (cur : Cur κ ν) (g : Good s cur) :
    isHit s st cur = true ↔ s.useCache = true ∧ st.cached = some cur := by
  simp [isHit, ready_of_good s cur g]

theorem run_inv (s : Spec κ ν) (st : St κ ν) (cur : Cur κ ν) (order : List Nat) (v : Valid s)
    (hc : Good s cur → Covers order (combos s cur).length) (inv : Inv s st) :
    Inv s (run s st cur order).1 := by
  by_cases hhit : isHit s st cur = true
  · simp only [run, hhit, ↓reduceIte]; exact inv
  have hhit' : isHit s st cur = false := by simpa using hhit
  by_cases g : Good s cur
  · rw [run_good s st cur order v g (hc g) hhit']
    refine ⟨inputs_build s _ _ inv.inputs, ?_⟩
    intro c huc hcache _
    simp only [huc, ↓reduceIte, Option.some.injEq] at hcache
    subst hcache
    refine ⟨rfl, ?_⟩
    rw [build_eq, inv.inputs]
  · have key : ∀ (b : Bool) (c : Cur κ ν), (if b then some cur else none) = some c → Good s c → False := by
      intro b c h gc
      cases b
      · simp at h
      · simp at h; exact g (h ▸ gc)
    unfold run
    rw [hhit']
    simp only [Bool.false_eq_true, ↓reduceIte, listsClash_false s v, labelsOk_true s v, Bool.not_true]
    split
    · split
      · exact inv
      · split
        · refine ⟨inputs_build s _ _ inv.inputs, ?_⟩
          intro c _ hcache gc
          exact absurd gc (fun gc => key _ c hcache gc)
        · refine ⟨inputs_build s _ _ inv.inputs, ?_⟩
          intro c _ hcache gc
          exact absurd gc (fun gc => key _ c hcache gc)
    · refine ⟨inv.inputs, ?_⟩
      intro c huc hcache gc
      simp only at hcache
      by_cases hg : (s.useCache && !s.gateCache) = true
      · rw [if_pos hg] at hcache
        simp only [Option.some.injEq] at hcache
        exact absurd (hcache ▸ gc) g
      · rw [if_neg hg] at hcache
        exact inv.cache c huc hcache gc

theorem runs_inv (s : Spec κ ν) (st : St κ ν) (hs : List (Cur κ ν × List Nat)) (v : Valid s)
    (hc : ∀ h ∈ hs, Good s h.1 → Covers h.2 (combos s h.1).length) (inv : Inv s st) :
    Inv s (runs s st hs) := by
  induction hs generalizing st with
  | nil => exact inv
  | cons h r ih =>
    obtain ⟨cur, order⟩ := h
    simp only [runs]
    exact ih _ (fun x hx => hc x (by simp [hx])) (run_inv s st cur order v (hc (cur, order) (by simp)) inv)

theorem midRun_inv (s : Spec κ ν) (st st' : St κ ν) (cur : Cur κ ν) (inv : Inv s st)
    (h : midRun s st cur = some st') : Inv s st' := by
  unfold midRun at h
  split at h
  · cases h
  · split at h
    · split at h
      · cases h
      · split at h
        · cases h
        · simp only [Option.some.injEq] at h
          subst h
          exact ⟨inputs_build s _ _ inv.inputs, fun c _ hc _ => by simp at hc⟩
    · cases h

/-- the invariant survives every event: runs, round trips at rest, snapshots taken mid-run -/
theorem evs_inv (s : Spec κ ν) (st : St κ ν) (hs : List (Ev κ ν)) (v : Valid s)
    (hc : ∀ cur order, (Ev.run cur order ∈ hs ∨ Ev.rrun cur order ∈ hs) → Good s cur →
      Covers order (combos s cur).length)
    (inv : Inv s st) : Inv s (evs s st hs) := by
  induction hs generalizing st with
  | nil => exact inv
  | cons e r ih =>
    have hr : ∀ cur order, (Ev.run cur order ∈ r ∨ Ev.rrun cur order ∈ r) → Good s cur →
        Covers order (combos s cur).length :=
      fun cur order h => hc cur order (h.elim (fun h => Or.inl (List.mem_cons_of_mem _ h))
        (fun h => Or.inr (List.mem_cons_of_mem _ h)))
    cases e with
    | run cur order =>
      simp only [evs]
      exact ih _ hr (run_inv s st cur order v (hc cur order (Or.inl (by simp))) inv)
    | rrun cur order =>
      simp only [evs, runByValue, reload]
      exact ih _ hr (run_inv s st cur order v (hc cur order (Or.inr (by simp))) inv)
    | tamper o =>
      simp only [evs, tamper]
      exact ih _ hr ⟨inv.inputs, fun c _ hc _ => by simp at hc⟩
    | reload =>
      simp only [evs, reload]
      exact ih _ hr inv
    | snap cur =>
      simp only [evs]
      apply ih _ hr
      cases hm : midRun s st cur with
      | none => exact inv
      | some st' => exact midRun_inv s st st' cur inv hm

/-- from any state satisfying the invariant, a run on good inputs returns the reference outputs
and leaves the children the current lengths dictate (hit or miss) -/
theorem run_good_inv (s : Spec κ ν) (st : St κ ν) (cur : Cur κ ν) (order : List Nat) (v : Valid s)
    (g : Good s cur) (hc : Covers order (combos s cur).length) (inv : Inv s st) :
    (run s st cur order).2 = .ok ∧ (run s st cur order).1.outs = refOuts s cur ∧
    (run s st cur order).1.children = s.bodyInputs.map .input
      ++ freshChildren s (refMaps (lensOfCur cur s.iterOn) (lensOfCur cur s.zipOn)) := by
  by_cases hhit : isHit s st cur = true
  · have h := (isHit_good s st cur g).mp hhit
    have := inv.cache cur h.1 h.2 g
    simp only [run, hhit, ↓reduceIte]
    exact ⟨trivial, this.1, this.2⟩
  · rw [run_good s st cur order v g hc (by simpa using hhit)]
    exact ⟨rfl, rfl, by rw [build_eq, inv.inputs]⟩

end Build

section Children
variable {κ ν : Type} [DecidableEq κ]


theorem mem_addChild (cs : List (Child κ)) (x c : Child κ) : c ∈ addChild cs x ↔ c ∈ cs ∨ c = x := by
  unfold addChild
  by_cases h : x ∈ cs
  · simp only [h, ↓reduceIte]
    constructor
    · exact Or.inl
    · rintro (h' | rfl) <;> assumption
  · simp [h]

theorem nodup_addChild (cs : List (Child κ)) (x : Child κ) (h : cs.Nodup) : (addChild cs x).Nodup := by
  unfold addChild
  by_cases hx : x ∈ cs
  · simp [hx, h]
  · simp only [hx, ↓reduceIte]
    rw [List.nodup_append]
    refine ⟨h, by simp, ?_⟩
    intro a ha b hb
    simp at hb; subst hb
    intro e; exact hx (e ▸ ha)

theorem mem_foldItems (m : Dict κ) (Y : List (Child κ)) (c : Child κ) :
    c ∈ m.foldl (fun cs kv => addChild cs (.item kv.1 kv.2)) Y ↔
      c ∈ Y ∨ ∃ kv ∈ m, c = .item kv.1 kv.2 := by
  induction m generalizing Y with
  | nil => simp
  | cons kv r ih =>
    simp only [List.foldl_cons, ih, mem_addChild, List.mem_cons, exists_eq_or_imp]
    constructor
    · rintro ((h | h) | h)
      · exact Or.inl h
      · exact Or.inr (Or.inl h)
      · exact Or.inr (Or.inr h)
    · rintro (h | h | h)
      · exact Or.inl (Or.inl h)
      · exact Or.inl (Or.inr h)
      · exact Or.inr h

theorem nodup_foldItems (m : Dict κ) (Y : List (Child κ)) (h : Y.Nodup) :
    (m.foldl (fun cs kv => addChild cs (.item kv.1 kv.2)) Y).Nodup := by
  induction m generalizing Y with
  | nil => exact h
  | cons kv r ih => exact ih _ (nodup_addChild Y _ h)

theorem mem_addBody (cs : List (Child κ)) (n : Nat) (m : Dict κ) (c : Child κ) :
    c ∈ addBody cs n m ↔ c ∈ cs ∨ c = .body n ∨ ∃ kv ∈ m, c = .item kv.1 kv.2 := by
  unfold addBody
  rw [mem_foldItems]
  simp [or_assoc]

theorem nodup_addBody (cs : List (Child κ)) (n : Nat) (m : Dict κ) (h : cs.Nodup) (hb : Child.body n ∉ cs) :
    (addBody cs n m).Nodup := by
  unfold addBody
  apply nodup_foldItems
  rw [List.nodup_append]
  refine ⟨h, by simp, ?_⟩
  intro a ha b hb'
  simp at hb'; subst hb'
  intro e; exact hb (e ▸ ha)

theorem mem_addBodies (cs : List (Child κ)) (n : Nat) (maps : List (Dict κ)) (c : Child κ) :
    c ∈ addBodies cs n maps ↔
      c ∈ cs ∨ (∃ j, j < maps.length ∧ c = .body (n + j)) ∨ ∃ m ∈ maps, ∃ kv ∈ m, c = .item kv.1 kv.2 := by
  induction maps generalizing cs n with
  | nil => simp [addBodies]
  | cons m r ih =>
    simp only [addBodies, ih, mem_addBody, List.length_cons, List.mem_cons, exists_eq_or_imp]
    constructor
    · rintro ((h | h | h) | ⟨j, hj, h⟩ | h)
      · exact Or.inl h
      · exact Or.inr (Or.inl ⟨0, by omega, by simpa using h⟩)
      · exact Or.inr (Or.inr (Or.inl h))
      · exact Or.inr (Or.inl ⟨j + 1, by omega, by rw [h]; congr 1; omega⟩)
      · exact Or.inr (Or.inr (Or.inr h))
    · rintro (h | ⟨j, hj, h⟩ | h | h)
      · exact Or.inl (Or.inl h)
      · cases j with
        | zero => exact Or.inl (Or.inr (Or.inl (by simpa using h)))
        | succ j => exact Or.inr (Or.inl ⟨j, by omega, by rw [h]; congr 1; omega⟩)
      · exact Or.inl (Or.inr (Or.inr h))
      · exact Or.inr (Or.inr h)

theorem nodup_addBodies (cs : List (Child κ)) (n : Nat) (maps : List (Dict κ)) (h : cs.Nodup)
    (hb : ∀ j, Child.body (n + j) ∉ cs) : (addBodies cs n maps).Nodup := by
  induction maps generalizing cs n with
  | nil => exact h
  | cons m r ih =>
    simp only [addBodies]
    apply ih _ _ (nodup_addBody cs n m h (by simpa using hb 0))
    intro j hj
    rw [mem_addBody] at hj
    rcases hj with hj | hj | ⟨kv, _, hj⟩
    · exact hb (1 + j) (by rw [← Nat.add_assoc]; exact hj)
    · simp at hj; omega
    · cases hj

end Children

section Items
variable {κ ν : Type} [DecidableEq κ]


/-- an entry of a nested index map is an index into the list of its key -/
theorem mem_zip_below (N : List (κ × Nat)) (idx : List Nat) (h : Below idx (N.map (·.2))) (k : κ) (i : Nat)
    (hm : (k, i) ∈ (N.map (·.1)).zip idx) : ∃ n, (k, n) ∈ N ∧ i < n := by
  induction N generalizing idx with
  | nil => simp at hm
  | cons p r ih =>
    cases idx with
    | nil => simp at hm
    | cons i0 t =>
      simp only [List.map_cons, Below] at h
      simp only [List.map_cons, List.zip_cons_cons, List.mem_cons, Prod.mk.injEq] at hm
      rcases hm with ⟨rfl, rfl⟩ | hm
      · exact ⟨p.2, by simp, h.1⟩
      · obtain ⟨n, hn, hi⟩ := ih t h.2 hm
        exact ⟨n, by simp [hn], hi⟩

theorem below_zeros (l : List Nat) (h : ∀ n ∈ l, 0 < n) : Below (l.map fun _ => 0) l := by
  induction l with
  | nil => trivial
  | cons a r ih => exact ⟨h a (by simp), ih fun n hn => h n (by simp [hn])⟩

/-- conversely every index of every nested key occurs in some valid index tuple -/
theorem exists_idx (N : List (κ × Nat)) (hpos : ∀ p ∈ N, 0 < p.2) (k : κ) (n i : Nat) (hk : (k, n) ∈ N)
    (hi : i < n) : ∃ idx, Below idx (N.map (·.2)) ∧ (k, i) ∈ (N.map (·.1)).zip idx := by
  induction N with
  | nil => cases hk
  | cons p r ih =>
    have hr : ∀ q ∈ r, 0 < q.2 := fun q hq => hpos q (by simp [hq])
    rcases List.mem_cons.mp hk with rfl | hk
    · refine ⟨i :: (r.map (·.2)).map (fun _ => 0), ⟨hi, below_zeros _ ?_⟩, by simp⟩
      intro m hm
      obtain ⟨q, hq, rfl⟩ := List.mem_map.mp hm
      exact hr q hq
    · obtain ⟨idx, hb, hm⟩ := ih hr hk
      exact ⟨0 :: idx, ⟨hpos p (by simp), hb⟩, by simp [hm]⟩

/-- the get-item nodes used by the reference maps: every index of every nested key, and the
common indices of the zipped keys -/
theorem items_refMaps (N Z : List (κ × Nat)) (g : Guard N Z) (k : κ) (i : Nat) :
    (∃ m ∈ refMaps N Z, (k, i) ∈ m) ↔
      (∃ p ∈ N, k = p.1 ∧ i < p.2) ∨ (∃ p ∈ Z, k = p.1 ∧ i < zipCount Z) := by
  have hposN : ∀ p ∈ N, 0 < p.2 := fun p hp => g.pos p (by simp [hp])
  have hposZ : ∀ p ∈ Z, 0 < p.2 := fun p hp => g.pos p (by simp [hp])
  constructor
  · rintro ⟨m, hm, hki⟩
    obtain ⟨idx, z, hidx, hz, rfl⟩ := (mem_refMaps N Z m).mp hm
    rcases List.mem_append.mp hki with h | h
    · obtain ⟨n, hn, hi⟩ := mem_zip_below N idx hidx k i h
      exact Or.inl ⟨(k, n), hn, rfl, hi⟩
    · simp only [List.mem_map, Prod.mk.injEq] at h
      obtain ⟨p, hp, rfl, rfl⟩ := h
      exact Or.inr ⟨p, hp, rfl, hz⟩
  · rintro (⟨p, hp, rfl, hi⟩ | ⟨p, hp, rfl, hi⟩)
    · obtain ⟨idx, hb, hm⟩ := exists_idx N hposN p.1 p.2 i hp hi
      refine ⟨_, (mem_refMaps N Z _).mpr ⟨idx, 0, hb, zipCount_pos Z hposZ, rfl⟩, ?_⟩
      simp [hm]
    · have hb := below_zeros (N.map (·.2)) (by
        intro n hn; obtain ⟨q, hq, rfl⟩ := List.mem_map.mp hn; exact hposN q hq)
      refine ⟨_, (mem_refMaps N Z _).mpr ⟨_, i, hb, hi, rfl⟩, ?_⟩
      simp only [List.mem_append, List.mem_map]
      exact Or.inr ⟨p, hp, rfl⟩

/-- explicit duplicate-free enumeration of the children a build creates below the collectors -/
def enumBodies (N Z : List (κ × Nat)) : List (Child κ) :=
  (List.range (rowCount N Z)).map .body
    ++ ((N.flatMap fun p => (List.range p.2).map (.item p.1))
        ++ Z.flatMap fun p => (List.range (zipCount Z)).map (.item p.1))

theorem nodup_itemBlocks (L : List (κ × Nat)) (f : κ × Nat → Nat) (h : (L.map (·.1)).Nodup) :
    (L.flatMap fun p => (List.range (f p)).map (Child.item p.1)).Nodup := by
  show List.Pairwise (· ≠ ·) _
  rw [List.pairwise_flatMap]
  refine ⟨?_, ?_⟩
  · intro p _
    apply nodup_map_of_inj_on _ _ List.nodup_range
    intro a _ b _ e
    cases e; rfl
  · have : L.Pairwise (fun p q => p.1 ≠ q.1) := by
      have := h
      rw [List.Nodup, List.pairwise_map] at this
      exact this
    refine this.imp ?_
    intro p q hpq x hx y hy e
    simp only [List.mem_map] at hx hy
    obtain ⟨_, _, rfl⟩ := hx
    obtain ⟨_, _, rfl⟩ := hy
    simp only [Child.item.injEq] at e
    exact hpq e.1

end Items

section Count
variable {κ ν : Type} [DecidableEq κ]


theorem mem_enumBodies (N Z : List (κ × Nat)) (c : Child κ) :
    c ∈ enumBodies N Z ↔
      (∃ j, j < rowCount N Z ∧ c = .body j) ∨
      (∃ p ∈ N, ∃ i, i < p.2 ∧ c = .item p.1 i) ∨ (∃ p ∈ Z, ∃ i, i < zipCount Z ∧ c = .item p.1 i) := by
  simp only [enumBodies, List.mem_append, List.mem_map, List.mem_range, List.mem_flatMap]
  constructor
  · rintro (⟨j, hj, rfl⟩ | ⟨p, hp, i, hi, rfl⟩ | ⟨p, hp, i, hi, rfl⟩)
    · exact Or.inl ⟨j, hj, rfl⟩
    · exact Or.inr (Or.inl ⟨p, hp, i, hi, rfl⟩)
    · exact Or.inr (Or.inr ⟨p, hp, i, hi, rfl⟩)
  · rintro (⟨j, hj, rfl⟩ | ⟨p, hp, i, hi, rfl⟩ | ⟨p, hp, i, hi, rfl⟩)
    · exact Or.inl ⟨j, hj, rfl⟩
    · exact Or.inr (Or.inl ⟨p, hp, i, hi, rfl⟩)
    · exact Or.inr (Or.inr ⟨p, hp, i, hi, rfl⟩)

theorem nodup_enumBodies (N Z : List (κ × Nat)) (h : ((N ++ Z).map (·.1)).Nodup) :
    (enumBodies N Z).Nodup := by
  have hnd : (N.map (·.1) ++ Z.map (·.1)).Nodup := by simpa using h
  obtain ⟨hN, hZ, hdis⟩ := List.nodup_append.mp hnd
  unfold enumBodies
  rw [List.nodup_append]
  refine ⟨?_, ?_, ?_⟩
  · apply nodup_map_of_inj_on _ _ List.nodup_range
    intro a _ b _ e; cases e; rfl
  · rw [List.nodup_append]
    refine ⟨nodup_itemBlocks N (·.2) hN, nodup_itemBlocks Z (fun _ => zipCount Z) hZ, ?_⟩
    intro a ha b hb e
    simp only [List.mem_flatMap, List.mem_map] at ha hb
    obtain ⟨p, hp, _, _, rfl⟩ := ha
    obtain ⟨q, hq, _, _, rfl⟩ := hb
    simp only [Child.item.injEq] at e
    exact hdis p.1 (List.mem_map.mpr ⟨p, hp, rfl⟩) q.1 (List.mem_map.mpr ⟨q, hq, rfl⟩) e.1
  · intro a ha b hb e
    simp only [List.mem_map] at ha
    obtain ⟨_, _, rfl⟩ := ha
    simp only [List.mem_append, List.mem_flatMap, List.mem_map] at hb
    rcases hb with ⟨_, _, _, _, rfl⟩ | ⟨_, _, _, _, rfl⟩ <;> cases e

theorem sum_map_length_blocks (L : List (κ × Nat)) :
    (L.flatMap fun p => (List.range p.2).map (Child.item p.1)).length = (L.map (·.2)).sum := by
  induction L with
  | nil => rfl
  | cons p r ih => simp [ih]

theorem length_enumBodies (N Z : List (κ × Nat)) :
    (enumBodies N Z).length = rowCount N Z + ((N.map (·.2)).sum + Z.length * zipCount Z) := by
  unfold enumBodies
  rw [List.length_append, List.length_append, sum_map_length_blocks,
    length_flatMap_const _ _ (zipCount Z) (by intro a _; simp)]
  simp

/-- the bodies and get-item nodes of a build along the reference maps, counted -/
theorem length_addBodies_ref (N Z : List (κ × Nat)) (g : Guard N Z) :
    (addBodies ([] : List (Child κ)) 0 (refMaps N Z)).length
      = rowCount N Z + ((N.map (·.2)).sum + Z.length * zipCount Z) := by
  rw [← length_enumBodies]
  apply List.Perm.length_eq
  rw [List.perm_ext_iff_of_nodup (nodup_addBodies [] 0 _ (by simp) (by simp)) (nodup_enumBodies N Z g.nodup)]
  intro c
  rw [mem_addBodies, mem_enumBodies, length_refMaps]
  simp only [List.not_mem_nil, false_or, Nat.zero_add]
  constructor
  · rintro (h | ⟨m, hm, kv, hkv, rfl⟩)
    · exact Or.inl h
    · rcases (items_refMaps N Z g kv.1 kv.2).mp ⟨m, hm, hkv⟩ with ⟨p, hp, h1, h2⟩ | ⟨p, hp, h1, h2⟩
      · exact Or.inr (Or.inl ⟨p, hp, kv.2, h2, by rw [h1]⟩)
      · exact Or.inr (Or.inr ⟨p, hp, kv.2, h2, by rw [h1]⟩)
  · rintro (h | ⟨p, hp, i, hi, rfl⟩ | ⟨p, hp, i, hi, rfl⟩)
    · exact Or.inl h
    · obtain ⟨m, hm, hki⟩ := (items_refMaps N Z g p.1 i).mpr (Or.inl ⟨p, hp, rfl, hi⟩)
      exact Or.inr ⟨m, hm, (p.1, i), hki, rfl⟩
    · obtain ⟨m, hm, hki⟩ := (items_refMaps N Z g p.1 i).mpr (Or.inr ⟨p, hp, rfl, hi⟩)
      exact Or.inr ⟨m, hm, (p.1, i), hki, rfl⟩

theorem length_freshChildren_ref (s : Spec κ ν) (N Z : List (κ × Nat)) (g : Guard N Z) :
    (s.bodyInputs.map Child.input ++ freshChildren s (refMaps N Z)).length = childCount s N Z := by
  unfold freshChildren addCollectors childCount
  cases s.asDf with
  | true =>
    simp only [↓reduceIte, List.length_append, List.length_map, List.length_cons, List.length_nil,
      List.length_range, length_addBodies_ref N Z g, length_refMaps]
    unfold rowCount; omega
  | false =>
    simp only [Bool.false_eq_true, ↓reduceIte, List.length_append, List.length_map,
      length_addBodies_ref N Z g]
    omega

end Count

section InRange
variable {κ ν : Type} [DecidableEq κ]


theorem mem_nestedMap (N : List (κ × Nat)) (idx : List Nat) (h : Below idx (N.map (·.2))) (k : κ) (i : Nat)
    (hm : (k, i) ∈ nestedMap (N.map (·.1)) idx) : ∃ n, (k, n) ∈ N ∧ i < n := by
  unfold nestedMap at hm
  rcases mem_dupdate _ _ _ hm with h' | h'
  · cases h'
  · exact mem_zip_below N idx h k i h'

theorem mem_zippedMap (Z : List (κ × Nat)) (z : Nat) (hz : z < minLens (Z.map (·.2))) (k : κ) (i : Nat)
    (hm : (k, i) ∈ zippedMap (Z.map (·.1)) z) : ∃ n, (k, n) ∈ Z ∧ i < n := by
  unfold zippedMap at hm
  rcases mem_dupdate _ _ _ hm with h' | h'
  · cases h'
  · simp only [List.map_map, List.mem_map, Function.comp_def, Prod.mk.injEq] at h'
    obtain ⟨p, hp, rfl, rfl⟩ := h'
    have := minLens_le (Z.map (·.2)) p.2 (List.mem_map.mpr ⟨p, hp, rfl⟩)
    exact ⟨p.2, hp, by omega⟩

/-- every entry of every index map the code produces (any key lists: duplicates, overlap,
empty lists) is an index into the list of its key: the injected `GetItem` nodes never go out
of range -/
theorem indexMaps_in_range (N Z : List (κ × Nat)) (maps : List (Dict κ)) (h : indexMaps N Z = .ok maps)
    (m : Dict κ) (hm : m ∈ maps) (k : κ) (i : Nat) (hki : (k, i) ∈ m) :
    ∃ n, (k, n) ∈ N ++ Z ∧ i < n := by
  have hzlt : ∀ z, z < (if Z.length = 0 then 0 else minLens (Z.map (·.2))) → z < minLens (Z.map (·.2)) := by
    intro z hz
    by_cases hZ : Z.length = 0
    · simp [hZ] at hz
    · simpa [hZ] using hz
  unfold indexMaps at h
  simp only at h
  generalize (if (N.map (·.2)).length > 0 then prodLens (N.map (·.2)) else 0) = nNest at h
  generalize (if Z.length = 0 then 0 else minLens (Z.map (·.2))) = nZip at h hzlt
  by_cases c1 : nNest > 0 ∧ nZip > 0
  · rw [if_pos c1] at h
    simp only [Except.ok.injEq] at h
    subst h
    simp only [List.mem_flatMap, List.mem_map, List.mem_range] at hm
    obtain ⟨idx, hidx, z, hz, rfl⟩ := hm
    rcases mem_dupdate _ _ _ hki with h' | h'
    · obtain ⟨n, hn, hi⟩ := mem_nestedMap N idx ((mem_product _ _).mp hidx) k i h'
      exact ⟨n, by simp [hn], hi⟩
    · obtain ⟨n, hn, hi⟩ := mem_zippedMap Z z (hzlt z hz) k i h'
      exact ⟨n, by simp [hn], hi⟩
  · rw [if_neg c1] at h
    by_cases c2 : nNest > 0
    · rw [if_pos c2] at h
      simp only [Except.ok.injEq] at h
      subst h
      simp only [List.mem_map] at hm
      obtain ⟨idx, hidx, rfl⟩ := hm
      obtain ⟨n, hn, hi⟩ := mem_nestedMap N idx ((mem_product _ _).mp hidx) k i hki
      exact ⟨n, by simp [hn], hi⟩
    · rw [if_neg c2] at h
      by_cases c3 : nZip > 0
      · rw [if_pos c3] at h
        simp only [Except.ok.injEq] at h
        subst h
        simp only [List.mem_map, List.mem_range] at hm
        obtain ⟨z, hz, rfl⟩ := hm
        obtain ⟨n, hn, hi⟩ := mem_zippedMap Z z (hzlt z hz) k i hki
        exact ⟨n, by simp [hn], hi⟩
      · rw [if_neg c3] at h
        cases h

theorem lensOf_zip (data : κ → DLen) (keys : List κ) (l : List Nat) (h : lensOf data keys = .ok l)
    (k : κ) (n : Nat) (hm : (k, n) ∈ keys.zip l) : data k = .len n := by
  induction keys generalizing l with
  | nil => simp at hm
  | cons k0 r ih =>
    simp only [lensOf] at h
    split at h
    · cases h
    · cases h
    · rename_i n0 hd
      split at h
      · rename_i l' hl'
        simp only [Except.ok.injEq] at h
        subst h
        simp only [List.zip_cons_cons, List.mem_cons, Prod.mk.injEq] at hm
        rcases hm with ⟨rfl, rfl⟩ | hm
        · exact hd
        · exact ih l' hl' hm
      · cases h

theorem indexMapsOf_in_range (data : κ → DLen) (nested zipped : Option (List κ)) (maps : List (Dict κ))
    (h : indexMapsOf data nested zipped = .ok maps) (m : Dict κ) (hm : m ∈ maps) (k : κ) (i : Nat)
    (hki : (k, i) ∈ m) : ∃ n, data k = .len n ∧ i < n := by
  unfold indexMapsOf at h
  split at h
  · cases h
  · rename_i nl hnl
    split at h
    · cases h
    · rename_i zl hzl
      split at h
      · rename_i maps' hmaps
        simp only [Except.ok.injEq] at h
        subst h
        obtain ⟨n, hn, hi⟩ := indexMaps_in_range _ _ _ hmaps m hm k i hki
        rcases List.mem_append.mp hn with hn | hn
        · exact ⟨n, lensOf_zip data _ nl hnl k n hn, hi⟩
        · exact ⟨n, lensOf_zip data _ zl hzl k n hn, hi⟩
      · cases h

end InRange

section RowForm
variable {κ ν : Type} [DecidableEq κ]


omit [DecidableEq κ] in
theorem getElem?_flatMap_const {α β : Type} (L : List α) (f : α → List β) (P : Nat) (hP : 0 < P)
    (h : ∀ a ∈ L, (f a).length = P) (r : Nat) :
    (L.flatMap f)[r]? = (L[r / P]?).bind fun a => (f a)[r % P]? := by
  induction L generalizing r with
  | nil => simp
  | cons a L' ih =>
    have ha := h a (by simp)
    have ih' := ih (fun x hx => h x (by simp [hx]))
    simp only [List.flatMap_cons]
    by_cases hr : r < P
    · rw [List.getElem?_append_left (by omega)]
      simp [Nat.div_eq_of_lt hr, Nat.mod_eq_of_lt hr]
    · have hge : P ≤ r := by omega
      rw [List.getElem?_append_right (by omega), ha, ih' (r - P)]
      rw [Nat.div_eq_sub_div hP hge, Nat.mod_eq_sub_mod hge]
      simp

theorem getElem?_product (l : List Nat) (r : Nat) (hr : r < prodLens l) :
    (product l)[r]? = some (digits l r) := by
  induction l generalizing r with
  | nil => simp [prodLens] at hr; subst hr; rfl
  | cons n rest ih =>
    simp only [prodLens] at hr
    have hP : 0 < prodLens rest := by
      rcases Nat.eq_zero_or_pos (prodLens rest) with h | h
      · rw [h] at hr; omega
      · exact h
    simp only [product, digits]
    rw [getElem?_flatMap_const _ _ (prodLens rest) hP (by intro a _; simp [length_product])]
    have h1 : r / prodLens rest < n := by
      apply Nat.div_lt_of_lt_mul; rw [Nat.mul_comm]; exact hr
    have h2 : r % prodLens rest < prodLens rest := Nat.mod_lt _ hP
    simp [List.getElem?_range h1, ih _ h2]

/-- closed form of the rows: row `r` pairs the mixed-radix digits of `r / Z` over the nested
lengths with the zipped index `r % Z` (`Z` = number of zipped steps) -/
theorem getElem?_refMaps (N Z : List (κ × Nat)) (r : Nat) (hr : r < rowCount N Z) :
    (refMaps N Z)[r]? = some ((N.map (·.1)).zip (digits (N.map (·.2)) (r / zipCount Z))
      ++ Z.map fun kz => (kz.1, r % zipCount Z)) := by
  unfold rowCount at hr
  have hZ : 0 < zipCount Z := by
    rcases Nat.eq_zero_or_pos (zipCount Z) with h | h
    · rw [h] at hr; omega
    · exact h
  unfold refMaps
  rw [getElem?_flatMap_const _ _ (zipCount Z) hZ (by intro a _; simp [refZipped_eq])]
  have h1 : r / zipCount Z < prodLens (N.map (·.2)) := by
    apply Nat.div_lt_of_lt_mul; rw [Nat.mul_comm]; exact hr
  have h2 : r % zipCount Z < zipCount Z := Nat.mod_lt _ hZ
  simp [refNested, refZipped_eq, getElem?_product _ _ h1, List.getElem?_range h2]

end RowForm

section Fail
variable {κ ν : Type} [DecidableEq κ]

omit [DecidableEq κ] in
theorem optAll_none_of_mem {α : Type} (l : List (Option α)) (h : none ∈ l) : optAll l = none := by
  induction l with
  | nil => cases h
  | cons a r ih =>
    cases a with
    | none => rfl
    | some x =>
      have : none ∈ r := by simpa using h
      simp [optAll, ih this]

omit [DecidableEq κ] in
theorem enum_mem {α : Type} (a : Nat) (l : List α) (n : Nat) (hn : n < l.length) :
    ∃ x, (a + n, x) ∈ enum a l := by
  induction l generalizing a n with
  | nil => simp at hn
  | cons y r ih =>
    cases n with
    | zero => exact ⟨y, by simp [enum]⟩
    | succ k =>
      obtain ⟨x, hx⟩ := ih (a + 1) k (by simpa using hn)
      refine ⟨x, ?_⟩
      simp only [enum, List.mem_cons]
      right
      have e : a + (k + 1) = a + 1 + k := by omega
      rw [e]; exact hx

/-- a body copy that does not deliver (it failed, or never completed) leaves the outputs incomplete:
no table / no output column — for any inputs whose index maps have a row `n` -/
theorem evalOuts_incomplete (s : Spec κ ν) (cur : Cur κ ν) (maps : List (Dict κ)) (order : List Nat)
    (n : Nat) (hn : n < maps.length) (hnot : n ∉ order) (hout : s.outputs ≠ []) :
    (evalOuts s cur maps order).complete = false := by
  obtain ⟨m, hm⟩ := enum_mem 0 maps n hn
  rw [Nat.zero_add] at hm
  obtain ⟨o, os, ho⟩ : ∃ o os, s.outputs = o :: os := by
    cases h : s.outputs with
    | nil => exact absurd h hout
    | cons o os => exact ⟨o, os, rfl⟩
  unfold evalOuts
  cases hdf : s.asDf with
  | true =>
    simp only [↓reduceIte, Outs.complete]
    have hrow : rowAt s cur order n (wires cur m) = none := by
      unfold rowAt
      have : optAll (s.outputs.map fun o => (bodyOutAt s cur order n (wires cur m) o).map (s.colmap o, ·)) = none := by
        rw [ho]; simp [bodyOutAt, hnot, optAll]
      rw [this]
      cases optAll ((s.iterOn ++ s.zipOn).map fun k => (loopedCell (wires cur m) k).map (k, ·)) <;> rfl
    rw [optAll_none_of_mem]
    · rfl
    · rw [List.mem_map]
      exact ⟨(n, m), hm, hrow⟩
  | false =>
    simp only [Bool.false_eq_true, ↓reduceIte, Outs.complete]
    rw [Bool.eq_false_iff]
    intro hall
    rw [List.all_eq_true] at hall
    have hmem : (s.colmap o, optAll ((enum 0 maps).map fun nm => bodyOutAt s cur order nm.1 (wires cur nm.2) o))
        ∈ (loopedInputs s).map (fun k => (k, optAll (maps.map fun m => loopedCell (wires cur m) k)))
          ++ s.outputs.map (fun o => (s.colmap o,
              optAll ((enum 0 maps).map fun nm => bodyOutAt s cur order nm.1 (wires cur nm.2) o))) := by
      apply List.mem_append_right
      rw [List.mem_map]
      exact ⟨o, by simp [ho], rfl⟩
    have := hall _ hmem
    rw [optAll_none_of_mem] at this
    · simp at this
    · rw [List.mem_map]
      exact ⟨(n, m), hm, by simp [bodyOutAt, hnot]⟩


variable [DecidableEq ν]

/-- a cache-missing run on good inputs in which body copy `n` does not deliver: the sub-graph is
built, the run ends with `FailedChildError`, the outputs are incomplete, and (with the failure clearing
the input cache) nothing is cached -/
theorem run_fail (s : Spec κ ν) (st : St κ ν) (cur : Cur κ ν) (order : List Nat) (v : Valid s)
    (g : Good s cur) (hmiss : isHit s st cur = false) (n : Nat) (hn : n < (combos s cur).length)
    (hnot : n ∉ order) (hout : s.outputs ≠ []) :
    run s st cur order =
      ({ children := build s (refMaps (lensOfCur cur s.iterOn) (lensOfCur cur s.zipOn)) st.children,
         outs := evalOuts s cur (refMaps (lensOfCur cur s.iterOn) (lensOfCur cur s.zipOn)) order,
         cached := if s.useCache && !s.clearOnFail then some cur else none,
         maps := refMaps (lensOfCur cur s.iterOn) (lensOfCur cur s.zipOn) }, .failedChild) := by
  have hinc := evalOuts_incomplete s cur _ order n (by rw [← length_combos]; exact hn) hnot hout
  unfold run
  rw [hmiss, ready_of_good s cur g]
  simp only [↓reduceIte, Bool.false_eq_true, indexMapsOf_good s cur v g, not_stranded s cur v g,
    listsClash_false s v, labelsOk_true s v, Bool.not_true, Bool.and_false, hinc, Bool.false_or]

/-- with failures clearing the cache the invariant survives ANY run — also one in which body copies
fail or never complete -/
theorem run_inv_any (s : Spec κ ν) (st : St κ ν) (cur : Cur κ ν) (order : List Nat) (v : Valid s)
    (hcl : s.clearOnFail = true) (hout : s.outputs ≠ []) (inv : Inv s st) : Inv s (run s st cur order).1 := by
  by_cases hc : Good s cur → Covers order (combos s cur).length
  · exact run_inv s st cur order v hc inv
  · have g : Good s cur := Classical.byContradiction fun hg => hc (fun g => absurd g hg)
    have hnc : ¬ Covers order (combos s cur).length := fun h => hc (fun _ => h)
    by_cases hhit : isHit s st cur = true
    · simp only [run, hhit, ↓reduceIte]; exact inv
    · unfold Covers at hnc
      have ⟨n, hn⟩ : ∃ n, ¬ (n < (combos s cur).length → n ∈ order) :=
        Classical.byContradiction fun h => hnc fun n => Classical.byContradiction fun hn => h ⟨n, hn⟩
      have hlt : n < (combos s cur).length := Classical.byContradiction fun h => hn (fun h' => absurd h' h)
      have hnot : n ∉ order := fun h => hn (fun _ => h)
      rw [run_fail s st cur order v g (by simpa using hhit) n hlt hnot hout]
      refine ⟨inputs_build s _ _ inv.inputs, ?_⟩
      intro c _ hcache _
      simp [hcl] at hcache

theorem evs_inv_any (s : Spec κ ν) (st : St κ ν) (hs : List (Ev κ ν)) (v : Valid s)
    (hcl : s.clearOnFail = true) (hout : s.outputs ≠ []) (inv : Inv s st) : Inv s (evs s st hs) := by
  induction hs generalizing st with
  | nil => exact inv
  | cons e r ih =>
    cases e with
    | run cur order => simp only [evs]; exact ih _ (run_inv_any s st cur order v hcl hout inv)
    | rrun cur order =>
      simp only [evs, runByValue, reload]; exact ih _ (run_inv_any s st cur order v hcl hout inv)
    | tamper o => simp only [evs, tamper]; exact ih _ ⟨inv.inputs, fun c _ hc _ => by simp at hc⟩
    | reload => simp only [evs, reload]; exact ih _ inv
    | snap cur =>
      simp only [evs]
      apply ih
      cases hm : midRun s st cur with
      | none => exact inv
      | some st' => exact midRun_inv s st st' cur inv hm

end Fail

end PwVerif.ForLoop
