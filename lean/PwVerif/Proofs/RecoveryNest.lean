import PwVerif.Model.RecoveryNest
import PwVerif.Proofs.Recovery
import PwVerif.Proofs.ExecNest
/-!
The per-level invariant of the resumed run (`Recovery.RInv`) holds at EVERY level of the nested resumed
run, for every cut of the nested first run (`ExecNest`), every depth, every executor assignment and every
interleaving of both runs.
-/
namespace PwVerif.RecoveryNest
open PwVerif PwVerif.Exec PwVerif.Recovery PwVerif.ExecNest

variable {E : Type}

/-- `ArgsInv` at every level of the first run -/
def NArgs : Tree E → Prop
  | .leaf => True
  | .comp _ _ s kids => ArgsInv s ∧ ∀ k, NArgs (kids k)

theorem fresh_nargs (t : Tree E) (hf : Fresh t) : NArgs t := by
  induction t with
  | leaf => trivial
  | comp d exc s kids ih =>
    obtain ⟨hs, hk⟩ := hf
    exact ⟨by subst hs; exact init_argsInv d, fun k => ih k (hk k)⟩

theorem nstep_nargs (cfg : Cfg) (t : Tree E) : ∀ (p : List Nat) (a : Act) (t' : Tree E),
    NArgs t → nstep cfg t p a = some t' → NArgs t' := by
  induction t with
  | leaf => intro p a t' _ h; simp [nstep] at h
  | comp d exc s kids ih =>
    intro p a t' hin h
    obtain ⟨hA, hK⟩ := hin
    cases p with
    | nil =>
      obtain ⟨_, s', hs', rfl⟩ := (nstep_nil ..).mp h
      exact ⟨step_argsInv cfg _ s s' a hA hs', hK⟩
    | cons k p =>
      obtain ⟨_, tk, htk, rfl⟩ := (nstep_cons ..).mp h
      refine ⟨hA, fun j => ?_⟩
      by_cases hj : j = k
      · subst hj; simpa [updF] using ih j p a tk (hK j) htk
      · simpa [updF, hj] using hK j

theorem nrun_nargs (cfg : Cfg) (acts : List (List Nat × Act)) : ∀ (t t' : Tree E),
    NArgs t → nrun cfg t acts = some t' → NArgs t' := by
  induction acts with
  | nil => intro t t' hi h; simp [nrun] at h; subst h; exact hi
  | cons pa rest ih =>
    intro t t' hi h
    obtain ⟨p, a⟩ := pa
    simp only [nrun] at h
    split at h
    · rename_i t1 h1
      exact ih t1 t' (nstep_nargs cfg t p a t1 hi h1) h
    · cases h

/-- the code drops no cache entry it should keep and keeps none it should drop: nothing of a running
or failed child reaches the restored graph (true of /repo as it is) -/
def Clean (rc : RCfg) : Prop := rc.dropInFlight = true ∧ rc.cache.clearOnFail = true

/-- the resumed-run invariant at every level, each level against ITS part of the cut -/
def RNInv (rc : RCfg) : Tree E → RTree → Prop
  | .leaf, .leaf => True
  | .comp d _ s kids, .comp d' rs rkids =>
    d' = effDag d kids ∧
    RInv Fix.none d' (startReceived rc s) (kept s (fun _ => false)) (doneAt s) (rerunOf rc kids) rs ∧
    ∀ k, RNInv rc (kids k) (rkids k)
  | _, _ => False

theorem affected_none (d : Dag) : Affected Fix.none d (fun _ => false) :=
  ⟨fun i h => by simp [Fix.none] at h, fun _ _ _ h => h⟩

theorem resume_rninv (cfg0 : Cfg) (rc : RCfg) (hc : Clean rc) (t : Tree E) :
    NWF t → NInv cfg0 t → NArgs t → RNInv rc t (resumeTree rc t) := by
  induction t with
  | leaf => intro _ _ _; trivial
  | comp d exc s kids ih =>
    intro wf hinv hargs
    obtain ⟨wd, wk⟩ := wf
    obtain ⟨hI, hK, _⟩ := hinv
    obtain ⟨hA, hAk⟩ := hargs
    refine ⟨rfl, ?_, fun k => ih k (wk k) (hK k) (hAk k)⟩
    exact resume_inv rc Fix.none (fun _ => false) (rerunOf rc kids) (wf_eff kids wd) hI hA
      ⟨Or.inl hc.1, Or.inl hc.2⟩ (affected_none _) (Or.inr (fun _ => rfl)) (fun _ _ => rfl)

theorem rnstep_nil (cfg : Cfg) (d : Dag) (rs : RS) (kids : Nat → RTree) (a : Act) (t' : RTree) :
    rnstep cfg (.comp d rs kids) [] a = some t' ↔
      rokAct kids a = true ∧ ∃ rs', rstep Fix.none cfg d rs a = some rs' ∧ t' = .comp d rs' kids := by
  simp only [rnstep]
  by_cases h : rokAct kids a = true
  · simp only [h, if_true, Option.map_eq_some_iff, true_and]
    constructor
    · rintro ⟨rs', h1, h2⟩; exact ⟨rs', h1, h2.symm⟩
    · rintro ⟨rs', h1, h2⟩; exact ⟨rs', h1, h2.symm⟩
  · simp [h]

theorem rnstep_cons (cfg : Cfg) (d : Dag) (rs : RS) (kids : Nat → RTree) (k : Nat) (p : List Nat)
    (a : Act) (t' : RTree) :
    rnstep cfg (.comp d rs kids) (k :: p) a = some t' ↔
      rs.s.st k = .out ∧ ∃ tk, rnstep cfg (kids k) p a = some tk ∧ t' = .comp d rs (updF kids k tk) := by
  simp only [rnstep]
  by_cases h : rs.s.st k = .out
  · simp only [h, if_true, Option.map_eq_some_iff, true_and]
    constructor
    · rintro ⟨tk, h1, h2⟩; exact ⟨tk, h1, h2.symm⟩
    · rintro ⟨tk, h1, h2⟩; exact ⟨tk, h1, h2.symm⟩
  · simp [h]

theorem rnstep_inv (cfg0 cfg : Cfg) (rc : RCfg) (t : Tree E) : ∀ (rt : RTree) (p : List Nat) (a : Act) (rt' : RTree),
    NWF t → NInv cfg0 t → RNInv rc t rt → rnstep cfg rt p a = some rt' → RNInv rc t rt' := by
  induction t with
  | leaf =>
    intro rt p a rt' _ _ h hs
    cases rt with
    | leaf => simp [rnstep] at hs
    | comp _ _ _ => exact absurd h (by simp [RNInv])
  | comp d exc s kids ih =>
    intro rt p a rt' wf hcut h hs
    cases rt with
    | leaf => exact absurd h (by simp [RNInv])
    | comp d' rs rkids =>
      obtain ⟨wd, wk⟩ := wf
      obtain ⟨hI, hK, _⟩ := hcut
      obtain ⟨hd, hR, hkids⟩ := h
      cases p with
      | nil =>
        obtain ⟨_, rs', hrs, rfl⟩ := (rnstep_nil ..).mp hs
        refine ⟨hd, ?_, hkids⟩
        subst hd
        have hok := snapOK_of_cut (rc := rc) (fx := Fix.none) (A := fun _ => false) hI.core (affected_none _)
          (Or.inr (fun _ => rfl)) (fun _ _ => rfl)
        exact rstep_inv cfg hok (wf_eff kids wd) rs rs' a hR hrs
      | cons k p =>
        obtain ⟨_, tk, htk, rfl⟩ := (rnstep_cons ..).mp hs
        refine ⟨hd, hR, fun j => ?_⟩
        by_cases hj : j = k
        · subst hj
          simpa [updF] using ih j (rkids j) p a tk (wk j) (hK j) (hkids j) htk
        · simpa [updF, hj] using hkids j

theorem rnrun_inv (cfg0 cfg : Cfg) (rc : RCfg) (t : Tree E) (acts : List (List Nat × Act)) :
    ∀ (rt rt' : RTree), NWF t → NInv cfg0 t → RNInv rc t rt → rnrun cfg rt acts = some rt' → RNInv rc t rt' := by
  induction acts with
  | nil => intro rt rt' _ _ h hr; simp [rnrun] at hr; subst hr; exact h
  | cons pa rest ih =>
    intro rt rt' wf hcut h hr
    obtain ⟨p, a⟩ := pa
    simp only [rnrun] at hr
    split at hr
    · rename_i r1 h1
      exact ih r1 rt' wf hcut (rnstep_inv cfg0 cfg rc t rt p a r1 wf hcut h h1) hr
    · cases hr

/-- the invariant of the level at a path -/
theorem rninv_sub (rc : RCfg) (t : Tree E) : ∀ (rt : RTree) (p : List Nat), RNInv rc t rt → RNInv rc (t.sub p) (rt.sub p) := by
  induction t with
  | leaf =>
    intro rt p h
    cases rt with
    | leaf => cases p <;> simp [Tree.sub, RTree.sub, RNInv]
    | comp _ _ _ => exact absurd h (by simp [RNInv])
  | comp d exc s kids ih =>
    intro rt p h
    cases rt with
    | leaf => exact absurd h (by simp [RNInv])
    | comp d' rs rkids =>
      cases p with
      | nil => simpa [Tree.sub, RTree.sub] using h
      | cons k p => simpa [Tree.sub, RTree.sub] using ih k (rkids k) p (h.2.2 k)

end PwVerif.RecoveryNest
