import PwVerif.Model.ExecFine
import PwVerif.Proofs.Exec
/-!
Lemmas about the two-step callback model `ExecFine`:

* with the repaired order (signals queued before the child leaves `running_children`) every fine
  schedule projects onto a coarse schedule of `Exec.step` with the same core state (`runF_sim`), so
  every theorem about coarse reachable states transfers;
* with atomic callbacks (`expand`) both orders ARE the coarse model (`runF_expand`);
* bookkeeping invariants of `mid` / `late`.
-/
namespace PwVerif.ExecFine
open PwVerif PwVerif.Exec

theorem runActs_append (cfg : Cfg) (d : Dag) (s : S) (as bs : List Act) :
    runActs cfg d s (as ++ bs) = (runActs cfg d s as).bind (fun s' => runActs cfg d s' bs) := by
  induction as generalizing s with
  | nil => simp [runActs]
  | cons a as ih =>
    simp only [List.cons_append, runActs]
    cases h : step cfg d s a with
    | none => simp
    | some s' => simp [ih]

/-- one fine action of the repaired order is zero or one coarse action on the core -/
theorem stepF_sim (cfg : Cfg) (d : Dag) (f f' : F) (a : ActF)
    (h : stepF cfg FCfg.repaired d f a = some f') :
    f'.core = f.core ∨ ∃ a', step cfg d f.core a' = some f'.core := by
  cases a with
  | start =>
    simp only [stepF, Option.map_eq_some_iff] at h
    obtain ⟨c, hc, rfl⟩ := h
    exact Or.inr ⟨.start, hc⟩
  | deliver =>
    simp only [stepF, Option.map_eq_some_iff] at h
    obtain ⟨c, hc, rfl⟩ := h
    exact Or.inr ⟨.deliver, hc⟩
  | exit =>
    simp only [stepF] at h
    split at h
    · rename_i hp hq hr
      simp only [Option.some.injEq] at h
      subst h
      refine Or.inr ⟨.exit, ?_⟩
      have hr' : f.core.running = [] := by
        simp [visRunning, FCfg.repaired] at hr
        exact hr.1
      simp [step, hp, hq, hr']
    · simp at h
  | cbFirst k =>
    simp only [stepF, FCfg.repaired, if_true, Option.map_eq_some_iff] at h
    obtain ⟨c, hc, rfl⟩ := h
    exact Or.inr ⟨.complete k, hc⟩
  | cbSecond k =>
    simp only [stepF, FCfg.repaired, if_true] at h
    split at h
    · simp only [Option.some.injEq] at h
      subst h
      exact Or.inl rfl
    · simp at h

/-- REFINEMENT (repaired order): the core of every fine-reachable state is coarse-reachable -/
theorem runF_sim (cfg : Cfg) (d : Dag) (acts : List ActF) (f0 f : F) (s0 : S) (acts0 : List Act)
    (h0 : runActs cfg d s0 acts0 = some f0.core)
    (h : runF cfg FCfg.repaired d f0 acts = some f) :
    ∃ acts', runActs cfg d s0 acts' = some f.core := by
  induction acts generalizing f0 acts0 with
  | nil =>
    simp only [runF, Option.some.injEq] at h
    subst h
    exact ⟨acts0, h0⟩
  | cons a as ih =>
    simp only [runF] at h
    cases hs : stepF cfg FCfg.repaired d f0 a with
    | none => simp [hs] at h
    | some f1 =>
      simp only [hs] at h
      rcases stepF_sim cfg d f0 f1 a hs with he | ⟨a', ha'⟩
      · exact ih f1 acts0 (by rw [he]; exact h0) h
      · refine ih f1 (acts0 ++ [a']) ?_ h
        rw [runActs_append, h0]
        simp [runActs, ha']

/-- the repaired order never fires a signal outside the run -/
theorem stepF_late (cfg : Cfg) (d : Dag) (f f' : F) (a : ActF)
    (h : stepF cfg FCfg.repaired d f a = some f') : f'.late = f.late := by
  cases a with
  | start => simp only [stepF, Option.map_eq_some_iff] at h; obtain ⟨c, _, rfl⟩ := h; rfl
  | deliver => simp only [stepF, Option.map_eq_some_iff] at h; obtain ⟨c, _, rfl⟩ := h; rfl
  | exit =>
    simp only [stepF] at h
    split at h
    · simp only [Option.some.injEq] at h; subst h; rfl
    · simp at h
  | cbFirst k =>
    simp only [stepF, FCfg.repaired, if_true, Option.map_eq_some_iff] at h
    obtain ⟨c, _, rfl⟩ := h; rfl
  | cbSecond k =>
    simp only [stepF, FCfg.repaired, if_true] at h
    split at h
    · simp only [Option.some.injEq] at h; subst h; rfl
    · simp at h

theorem runF_late (cfg : Cfg) (d : Dag) (acts : List ActF) (f0 f : F)
    (h : runF cfg FCfg.repaired d f0 acts = some f) : f.late = f0.late := by
  induction acts generalizing f0 with
  | nil => simp only [runF, Option.some.injEq] at h; subst h; rfl
  | cons a as ih =>
    simp only [runF] at h
    cases hs : stepF cfg FCfg.repaired d f0 a with
    | none => simp [hs] at h
    | some f1 =>
      simp only [hs] at h
      rw [ih f1 h, stepF_late cfg d f0 f1 a hs]

theorem step_phase_exited (cfg : Cfg) (d : Dag) (s : S) (a : Act) (h : s.phase = .exited) :
    step cfg d s a = none := by
  cases a <;> simp [step, h]

/-- only `exit` leaves the loop -/
theorem step_not_exited (cfg : Cfg) (d : Dag) (s s' : S) (a : Act) (ha : a ≠ .exit)
    (h : step cfg d s a = some s') : s'.phase ≠ .exited := by
  cases a with
  | exit => exact absurd rfl ha
  | start =>
    simp only [step] at h
    split at h
    · split at h
      · simp only [Option.some.injEq] at h; subst h; simp
      · split at h <;> (simp only [Option.some.injEq] at h; subst h; simp)
    · simp at h
  | deliver =>
    simp only [step] at h
    split at h
    · rename_i hph hq
      split at h
      · split at h
        · rename_i s1 hr
          simp only [Option.some.injEq] at h; subst h
          have hh := congrArg (fun p => p.1.phase) hr
          simp only [runNode_phase] at hh
          simp [← hh, hph]
        · rename_i s1 hr
          simp only [Option.some.injEq] at h; subst h
          have hh := congrArg (fun p => p.1.phase) hr
          simp only [runNode_phase] at hh
          simp [← hh, hph]
      · simp only [Option.some.injEq] at h; subst h; simp [hph]
    · simp at h
  | complete k =>
    simp only [step] at h
    split at h
    · rename_i r hph
      split at h
      · split at h <;> (simp only [Option.some.injEq] at h; subst h; simp [hph])
      · simp at h
    · simp at h

/-- once the loop has been left (repaired order) no callback is half-way: `mid = []` -/
def MidInv (f : F) : Prop := f.core.phase = .exited → f.mid = []

theorem stepF_midInv (cfg : Cfg) (d : Dag) (f f' : F) (a : ActF) (hi : MidInv f)
    (h : stepF cfg FCfg.repaired d f a = some f') : MidInv f' := by
  by_cases hex : f.core.phase = .exited
  · -- nothing but the second half of a callback is enabled, and there is none
    have hm := hi hex
    cases a with
    | start => simp [stepF, step_phase_exited cfg d f.core _ hex] at h
    | deliver => simp [stepF, step_phase_exited cfg d f.core _ hex] at h
    | exit => simp [stepF, hex] at h
    | cbFirst k => simp [stepF, FCfg.repaired, step_phase_exited cfg d f.core _ hex] at h
    | cbSecond k => simp [stepF, hm] at h
  · cases a with
    | exit =>
      simp only [stepF] at h
      split at h
      · rename_i hp hq hr
        simp only [Option.some.injEq] at h; subst h
        intro _
        simp [visRunning, FCfg.repaired] at hr
        exact hr.2
      · simp at h
    | start =>
      simp only [stepF, Option.map_eq_some_iff] at h
      obtain ⟨c, hc, rfl⟩ := h
      intro hp
      exact absurd hp (step_not_exited cfg d f.core c .start (by simp) hc)
    | deliver =>
      simp only [stepF, Option.map_eq_some_iff] at h
      obtain ⟨c, hc, rfl⟩ := h
      intro hp
      exact absurd hp (step_not_exited cfg d f.core c .deliver (by simp) hc)
    | cbFirst k =>
      simp only [stepF, FCfg.repaired, if_true, Option.map_eq_some_iff] at h
      obtain ⟨c, hc, rfl⟩ := h
      intro hp
      exact absurd hp (step_not_exited cfg d f.core c (.complete k) (by simp) hc)
    | cbSecond k =>
      simp only [stepF, FCfg.repaired, if_true] at h
      split at h
      · simp only [Option.some.injEq] at h; subst h
        intro hp; exact absurd hp hex
      · simp at h

theorem runF_midInv (cfg : Cfg) (d : Dag) (acts : List ActF) (f0 f : F) (hi : MidInv f0)
    (h : runF cfg FCfg.repaired d f0 acts = some f) : MidInv f := by
  induction acts generalizing f0 with
  | nil => simp only [runF, Option.some.injEq] at h; subst h; exact hi
  | cons a as ih =>
    simp only [runF] at h
    cases hs : stepF cfg FCfg.repaired d f0 a with
    | none => simp [hs] at h
    | some f1 =>
      simp only [hs] at h
      exact ih f1 (stepF_midInv cfg d f0 f1 a hi hs) h

theorem exit_atomic (cfg : Cfg) (fc : FCfg) (d : Dag) (s : S) :
    stepF cfg fc d { core := s, mid := [], late := [] } .exit
      = (step cfg d s .exit).map fun s' => { core := s', mid := [], late := [] } := by
  simp only [stepF, step, visRunning, List.append_nil, ite_self]
  cases hp : s.phase with
  | run r =>
    cases r with
    | nil =>
      cases hq : s.queue with
      | nil => cases hr : s.running <;> simp
      | cons x q => simp
    | cons x r => simp
  | exited => simp
  | aborted => simp

theorem cb_atomic (cfg : Cfg) (fc : FCfg) (d : Dag) (s : S) (k : Nat) :
    (stepF cfg fc d { core := s, mid := [], late := [] } (.cbFirst k)).bind
        (fun f => stepF cfg fc d f (.cbSecond k))
      = (step cfg d s (.complete k)).map fun s' => { core := s', mid := [], late := [] } := by
  cases hfc : fc.emitFirst with
  | true =>
    simp only [stepF, hfc, if_true]
    cases h : step cfg d s (.complete k) with
    | none => simp
    | some s' => simp
  | false =>
    simp only [stepF, hfc, landUnreg, step, emission]
    cases hp : s.phase with
    | run r =>
      by_cases hst : s.st k = .out
      · by_cases hf : d.fails k = true
        · simp [hst, hf]
        · simp [hst, hf]
      · simp [hst]
    | exited => simp
    | aborted => simp

/-- with atomic callbacks both orders ARE the coarse model -/
theorem runF_expand (cfg : Cfg) (fc : FCfg) (d : Dag) (acts : List Act) (s : S) :
    runF cfg fc d { core := s, mid := [], late := [] } (expand acts)
      = (runActs cfg d s acts).map fun s' => { core := s', mid := [], late := [] } := by
  induction acts generalizing s with
  | nil => simp [expand, runF, runActs]
  | cons a as ih =>
    cases a with
    | start =>
      simp only [expand, runF, runActs, stepF]
      cases h : step cfg d s .start with
      | none => simp
      | some s' => simp [ih]
    | deliver =>
      simp only [expand, runF, runActs, stepF]
      cases h : step cfg d s .deliver with
      | none => simp
      | some s' => simp [ih]
    | exit =>
      simp only [expand, runF, runActs]
      rw [exit_atomic]
      cases h : step cfg d s .exit with
      | none => simp
      | some s' => simp [ih]
    | complete k =>
      have hc := cb_atomic cfg fc d s k
      simp only [expand, runF, runActs]
      cases h1 : stepF cfg fc d { core := s, mid := [], late := [] } (.cbFirst k) with
      | none =>
        rw [h1] at hc
        cases h : step cfg d s (.complete k) with
        | none => simp
        | some s' => rw [h] at hc; simp at hc
      | some f1 =>
        rw [h1] at hc
        simp only [Option.bind_some] at hc
        cases h2 : stepF cfg fc d f1 (.cbSecond k) with
        | none =>
          rw [h2] at hc
          cases h : step cfg d s (.complete k) with
          | none => simp [h2]
          | some s' => rw [h] at hc; simp at hc
        | some f2 =>
          rw [h2] at hc
          cases h : step cfg d s (.complete k) with
          | none => rw [h] at hc; simp at hc
          | some s' =>
            rw [h] at hc
            simp only [Option.map_some, Option.some.injEq] at hc
            subst hc
            simp [h2, ih]

/-- bookkeeping of the length of the projected schedule: every fine action is a coarse action,
except the second halves of callbacks, of which there are no more than first halves -/
theorem stepF_sim_len (cfg : Cfg) (d : Dag) (f f' : F) (a : ActF)
    (h : stepF cfg FCfg.repaired d f a = some f') :
    (f'.core = f.core ∧ f'.mid.length + 1 = f.mid.length) ∨
    (∃ a', step cfg d f.core a' = some f'.core ∧ f'.mid.length ≤ f.mid.length + 1) := by
  cases a with
  | start =>
    simp only [stepF, Option.map_eq_some_iff] at h
    obtain ⟨c, hc, rfl⟩ := h
    exact Or.inr ⟨.start, hc, by simp⟩
  | deliver =>
    simp only [stepF, Option.map_eq_some_iff] at h
    obtain ⟨c, hc, rfl⟩ := h
    exact Or.inr ⟨.deliver, hc, by simp⟩
  | exit =>
    rcases stepF_sim cfg d f f' .exit h with he | ⟨a', ha'⟩
    · exfalso
      simp only [stepF] at h
      split at h
      · rename_i hp hq hr
        simp only [Option.some.injEq] at h; subst h
        simp at he
        rw [← he] at hp
        simp at hp
      · simp at h
    · refine Or.inr ⟨a', ha', ?_⟩
      simp only [stepF] at h
      split at h
      · simp only [Option.some.injEq] at h; subst h; simp
      · simp at h
  | cbFirst k =>
    simp only [stepF, FCfg.repaired, if_true, Option.map_eq_some_iff] at h
    obtain ⟨c, hc, rfl⟩ := h
    exact Or.inr ⟨.complete k, hc, by simp⟩
  | cbSecond k =>
    simp only [stepF, FCfg.repaired, if_true] at h
    split at h
    · rename_i hm
      simp only [Option.some.injEq] at h; subst h
      refine Or.inl ⟨rfl, ?_⟩
      have hm' : k ∈ f.mid := by simpa using hm
      have := List.length_erase_of_mem hm'
      have hpos : 0 < f.mid.length := List.length_pos_of_mem hm'
      simp only [this]; omega
    · simp at h

theorem runF_sim_len (cfg : Cfg) (d : Dag) (acts : List ActF) (f0 f : F) (s0 : S) (acts0 : List Act)
    (h0 : runActs cfg d s0 acts0 = some f0.core)
    (h : runF cfg FCfg.repaired d f0 acts = some f) :
    ∃ acts', runActs cfg d s0 acts' = some f.core ∧
      acts.length + f.mid.length + 2 * acts0.length ≤ 2 * acts'.length + f0.mid.length := by
  induction acts generalizing f0 acts0 with
  | nil =>
    simp only [runF, Option.some.injEq] at h
    subst h
    exact ⟨acts0, h0, by simp; omega⟩
  | cons a as ih =>
    simp only [runF] at h
    cases hs : stepF cfg FCfg.repaired d f0 a with
    | none => simp [hs] at h
    | some f1 =>
      simp only [hs] at h
      rcases stepF_sim_len cfg d f0 f1 a hs with ⟨he, hl⟩ | ⟨a', ha', hl⟩
      · obtain ⟨acts', hr, hlen⟩ := ih f1 acts0 (by rw [he]; exact h0) h
        exact ⟨acts', hr, by simp only [List.length_cons]; omega⟩
      · obtain ⟨acts', hr, hlen⟩ := ih f1 (acts0 ++ [a']) (by
          rw [runActs_append, h0]; simp [runActs, ha']) h
        refine ⟨acts', hr, ?_⟩
        simp only [List.length_cons, List.length_append, List.length_nil] at hlen ⊢
        omega

/-- no deadlock in the fine model either (repaired order): until the loop has been left, some
action is enabled -/
theorem progressF (cfg : Cfg) (d : Dag) (f : F) (hinv : Inv cfg d f.core) (r : List Nat)
    (hph : f.core.phase = .run r) : ∃ a f', stepF cfg FCfg.repaired d f a = some f' := by
  obtain ⟨a, s', hs⟩ := progress cfg d f.core hinv r hph
  cases a with
  | start => exact ⟨.start, { f with core := s' }, by simp [stepF, hs]⟩
  | deliver => exact ⟨.deliver, { f with core := s' }, by simp [stepF, hs]⟩
  | complete k =>
    exact ⟨.cbFirst k, { f with core := s', mid := f.mid ++ [k] }, by simp [stepF, FCfg.repaired, hs]⟩
  | exit =>
    cases hm : f.mid with
    | nil =>
      simp only [step] at hs
      split at hs
      · rename_i hp hq hr
        exact ⟨.exit, { f with core := { f.core with phase := .exited } }, by
          simp [stepF, visRunning, FCfg.repaired, hp, hq, hr, hm]⟩
      · simp at hs
    | cons k ks =>
      exact ⟨.cbSecond k, { f with mid := f.mid.erase k }, by simp [stepF, FCfg.repaired, hm]⟩

end PwVerif.ExecFine
