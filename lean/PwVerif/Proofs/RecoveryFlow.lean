import PwVerif.Model.Signal
/-!
# Resuming a HAND-WIRED flow (C08 over C02's signal-graph model)

`Signal.compositeRun` runs an arbitrary hand-made signal graph (any-of `run` inputs, all-of triggers, `If`
branches, cycles) with `Signal.runNode` as the children's semantics — input cache included.  A flow that
failed, was saved, loaded, had its failure flags cleared and its cause removed is such a run from the
loaded store.  Shown here: as long as every cache entry in the loaded store belongs to the output next
to it (`CacheValid`, which a file written by the library satisfies: an entry is recorded together with
the result it vouches for), the resumed run — which answers from the cache wherever it can — goes through
EXACTLY the states of the run that executes every function again: same outputs, same failures, same
signals in the same order, same queue, same execution order, at every step and hence at the end.
-/
namespace PwVerif.RecoveryFlow
open PwVerif PwVerif.Signal

/-- the same children with the input cache switched off -/
def uncached (nodes : Nat → Node) : Nat → Node := fun i => { nodes i with useCache := false }

/-- python `==` on cached vs. fetched inputs only ever identifies inputs on which the wrapped function
agrees (the proviso of C05: deterministic functions of their — compared — inputs) -/
def EqExt (nodes : Nat → Node) : Prop :=
  ∀ i c a, Val.beqL c a = true → eval (nodes i).kind c = eval (nodes i).kind a

/-- every cache entry vouches for the output that is there -/
def CacheValid (nodes : Nat → Node) (st : Store) : Prop :=
  ∀ i c, st.cached i = some c → eval (nodes i).kind c = some (st.out i)

/-- what can be seen of the children (not: the caches and the call log) -/
structure Vis (a b : Store) : Prop where
  out : a.out = b.out
  failed : a.failed = b.failed
  execLog : a.execLog = b.execLog
  doneLog : a.doneLog = b.doneLog

def Rel (nodes : Nat → Node) (a b : Store) : Prop := Vis a b ∧ CacheValid nodes a

theorem emitting_congr (nodes : Nat → Node) (a b : Store) (i : Nat) (ho : a.out = b.out) (hf : a.failed = b.failed) :
    emitting nodes a i = emitting (uncached nodes) b i := by
  simp [emitting, uncached, ho, hf]

theorem fetchArgs_uncached (nodes : Nat → Node) (out : Nat → Val) (i : Nat) :
    fetchArgs (uncached nodes) out i = fetchArgs nodes out i := by
  simp [fetchArgs, uncached]

/-- one child run: answering from a valid cache and executing the function are the same reaction -/
theorem react_sim (nodes : Nat → Node) (hnf : ∀ i, (nodes i).failAt = []) (hext : EqExt nodes)
    (a b : Store) (i : Nat) (h : Rel nodes a b) :
    Rel nodes (runNode nodes a i).1 (runNode (uncached nodes) b i).1 ∧
    (runNode nodes a i).2 = (runNode (uncached nodes) b i).2 := by
  obtain ⟨⟨ho, hf, he, hd⟩, hcv⟩ := h
  have hargs : fetchArgs (uncached nodes) b.out i = fetchArgs nodes a.out i := by
    rw [fetchArgs_uncached, ho]
  have hkind : (uncached nodes i).kind = (nodes i).kind := rfl
  have hfail : (uncached nodes i).failAt = [] := hnf i
  unfold runNode
  simp only [hargs, hkind, hfail, hnf i, ← hf, show (uncached nodes i).useCache = false from rfl,
    Bool.false_and, List.contains_nil, Bool.false_eq_true, if_false]
  generalize hA : fetchArgs nodes a.out i = args
  by_cases hready : (!(a.failed i) && !(args.any Val.isNd)) = true
  · simp only [hready, Bool.and_true, Bool.not_true, Bool.false_eq_true, if_false]
    cases hc : a.cached i with
    | none =>
      -- no entry: both execute
      simp only [Bool.and_false, Bool.false_eq_true, if_false]
      cases hev : eval (nodes i).kind args with
      | some v =>
        refine ⟨⟨⟨by simp [ho], by simp [hf], by simp [he], by simp [hd]⟩, ?_⟩, ?_⟩
        · intro j c hj
          by_cases hji : j = i
          · subst hji
            by_cases hu : (nodes j).useCache = true
            · simp [hu, updF] at hj; subst hj; simp [updF, hev]
            · simp [hu, updF] at hj
          · have hj' : a.cached j = some c := by
              by_cases hu : (nodes i).useCache = true <;> simpa [hu, updF, hji] using hj
            simpa [updF, hji] using hcv j c hj'
        · dsimp only
          congr 1
          exact emitting_congr nodes _ _ i (by simp [ho]) (by simp [hf])
      | none =>
        refine ⟨⟨⟨by simp [ho], by simp [hf], by simp [he], by simp [hd]⟩, ?_⟩, ?_⟩
        · intro j c hj
          by_cases hji : j = i
          · subst hji; simp [updF] at hj
          · have hj' : a.cached j = some c := by simpa [updF, hji] using hj
            simpa using hcv j c hj'
        · dsimp only
          congr 1
          exact emitting_congr nodes _ _ i (by simp [ho]) (by simp [hf])
    | some c =>
      by_cases hhit : ((nodes i).useCache && Val.beqL c args) = true
      · -- a hit on one side, a real execution on the other: same value
        have hb : Val.beqL c args = true := by
          simp only [Bool.and_eq_true] at hhit; exact hhit.2
        have hval : eval (nodes i).kind args = some (a.out i) := by
          rw [← hext i c args hb]; exact hcv i c hc
        simp only [hhit, if_true, hval]
        have hout : updF b.out i (a.out i) = b.out := by
          funext x; by_cases hx : x = i
          · subst hx; simp [updF, ho]
          · simp [updF, hx]
        refine ⟨⟨⟨?_, by simp [hf], by simp [he], by simp [hd]⟩, ?_⟩, ?_⟩
        · show a.out = updF b.out i (a.out i)
          rw [hout]; exact ho
        · intro j c' hj; exact hcv j c' hj
        · congr 1
          apply emitting_congr nodes _ _ i
          · show a.out = updF b.out i (a.out i)
            rw [hout]; exact ho
          · simp [hf]
      · simp only [hhit, Bool.false_eq_true, if_false]
        cases hev : eval (nodes i).kind args with
        | some v =>
          refine ⟨⟨⟨by simp [ho], by simp [hf], by simp [he], by simp [hd]⟩, ?_⟩, ?_⟩
          · intro j c' hj
            by_cases hji : j = i
            · subst hji
              by_cases hu : (nodes j).useCache = true
              · simp [hu, updF] at hj; subst hj; simp [updF, hev]
              · simp [hu, updF] at hj
            · have hj' : a.cached j = some c' := by
                by_cases hu : (nodes i).useCache = true <;> simpa [hu, updF, hji] using hj
              simpa [updF, hji] using hcv j c' hj'
          · dsimp only
            congr 1
            exact emitting_congr nodes _ _ i (by simp [ho]) (by simp [hf])
        | none =>
          refine ⟨⟨⟨by simp [ho], by simp [hf], by simp [he], by simp [hd]⟩, ?_⟩, ?_⟩
          · intro j c' hj
            by_cases hji : j = i
            · subst hji; simp [updF] at hj
            · have hj' : a.cached j = some c' := by simpa [updF, hji] using hj
              simpa using hcv j c' hj'
          · dsimp only
            congr 1
            exact emitting_congr nodes _ _ i (by simp [ho]) (by simp [hf])
  · -- not ready: refused on both sides, nothing changes
    have hr : (!(a.failed i) && !(args.any Val.isNd)) = false := by simpa using hready
    simp only [hr, Bool.and_false, Bool.false_and, Bool.false_eq_true, if_false, Bool.not_false, if_true]
    exact ⟨⟨⟨ho, hf, he, hd⟩, hcv⟩, trivial⟩

/-! ### from one reaction to the whole run of the composite (any graph, any fuel) -/
section lift
variable {σ τ : Type}

structure SRel (R : σ → τ → Prop) (s : S σ) (t : S τ) : Prop where
  store : R s.store t.store
  received : s.received = t.received
  queue : s.queue = t.queue
  errs : s.errs = t.errs
  fired : s.fired = t.fired

def ReactSim (semA : Sem σ) (semB : Sem τ) (R : σ → τ → Prop) : Prop :=
  ∀ a b i, R a b → R (semA.react a i).1 (semB.react b i).1 ∧ (semA.react a i).2 = (semB.react b i).2

theorem sim_callRun {semA : Sem σ} {semB : Sem τ} {R : σ → τ → Prop} (hR : ReactSim semA semB R) (g : Graph)
    (s : S σ) (t : S τ) (h : SRel R s t) (i : Nat) : SRel R (callRun semA g s i) (callRun semB g t i) := by
  obtain ⟨h1, h2⟩ := hR s.store t.store i h.store
  have e1 : (semA.react s.store i).2.1 = (semB.react t.store i).2.1 := by rw [h2]
  have e2 : (semA.react s.store i).2.2 = (semB.react t.store i).2.2 := by rw [h2]
  refine ⟨?_, ?_, ?_, ?_, ?_⟩
  · simpa [callRun] using h1
  · simpa [callRun] using h.received
  · simp [callRun, h.queue, e2]
  · simp [callRun, h.errs, e1]
  · simp [callRun, h.fired]

theorem sim_startAll {semA : Sem σ} {semB : Sem τ} {R : σ → τ → Prop} (hR : ReactSim semA semB R) (g : Graph)
    (l : List Nat) : ∀ (s : S σ) (t : S τ), SRel R s t → SRel R (startAll semA g s l) (startAll semB g t l) := by
  induction l with
  | nil => intro s t h; simpa [startAll] using h
  | cons i rest ih => intro s t h; simpa [startAll] using ih _ _ (sim_callRun hR g s t h i)

theorem sim_deliver {semA : Sem σ} {semB : Sem τ} {R : σ → τ → Prop} (hR : ReactSim semA semB R) (g : Graph)
    (s : S σ) (t : S τ) (h : SRel R s t) (e : Sig) (r : Recv) :
    SRel R (deliver semA g s e r) (deliver semB g t e r) := by
  unfold deliver
  rw [h.received]
  cases hacc : r.acc with
  | false =>
    simp only [Bool.false_eq_true, if_false]
    exact sim_callRun hR g s t h r.node
  | true =>
    simp only [if_true]
    generalize Acc.call g.lab { conns := g.accConns r.node, received := t.received r.node } (some e) = res
    obtain ⟨a, fire⟩ := res
    dsimp only
    have h1 : SRel R { s with received := updF t.received r.node a.received }
        { t with received := updF t.received r.node a.received } :=
      ⟨h.store, rfl, h.queue, h.errs, h.fired⟩
    cases fire with
    | true => simp only [if_true]; exact sim_callRun hR g _ _ h1 r.node
    | false => simp only [Bool.false_eq_true, if_false]; exact h1

theorem sim_drain {semA : Sem σ} {semB : Sem τ} {R : σ → τ → Prop} (hR : ReactSim semA semB R) (g : Graph)
    (n : Nat) : ∀ (s : S σ) (t : S τ), SRel R s t → SRel R (drain semA g n s) (drain semB g n t) := by
  induction n with
  | zero => intro s t h; simpa [drain] using h
  | succ n ih =>
    intro s t h
    simp only [drain]
    rw [← h.queue]
    cases hq : s.queue with
    | nil => exact h
    | cons p q =>
      obtain ⟨e, r⟩ := p
      apply ih
      apply sim_deliver hR g
      exact ⟨h.store, h.received, rfl, h.errs, h.fired⟩

theorem sim_compositeRun {semA : Sem σ} {semB : Sem τ} {R : σ → τ → Prop} (hR : ReactSim semA semB R) (g : Graph)
    (fuel : Nat) (s : S σ) (t : S τ) (h : SRel R s t) :
    SRel R (compositeRun semA g fuel s) (compositeRun semB g fuel t) := by
  unfold compositeRun compositeRunFrom
  apply sim_drain hR g
  apply sim_startAll hR g
  exact ⟨h.store, rfl, h.queue, h.errs, h.fired⟩

end lift

/-- the resumed run of a hand-wired flow, answering from the caches, and the run that executes every
function again are the same run -/
theorem flow_resume_transparent (nodes : Nat → Node) (hnf : ∀ i, (nodes i).failAt = []) (hext : EqExt nodes)
    (g : Graph) (fuel : Nat) (st : Store) (received : Nat → List Label) (hcv : CacheValid nodes st) :
    SRel (Rel nodes) (compositeRun (nodeSem nodes) g fuel (S.init st received))
      (compositeRun (nodeSem (uncached nodes)) g fuel (S.init st received)) := by
  apply sim_compositeRun (R := Rel nodes)
  · intro a b i h
    exact react_sim nodes hnf hext a b i h
  · exact ⟨⟨⟨rfl, rfl, rfl, rfl⟩, hcv⟩, rfl, rfl, rfl, rfl⟩

/-- a child that answers from its cache does not call its function -/
theorem hit_no_call (nodes : Nat → Node) (st : Store) (i : Nat) (c : List Val)
    (hu : (nodes i).useCache = true) (hf : st.failed i = false)
    (hd : (fetchArgs nodes st.out i).any Val.isNd = false)
    (hc : st.cached i = some c) (hb : Val.beqL c (fetchArgs nodes st.out i) = true) :
    (runNode nodes st i).1.callLog = st.callLog ∧ (runNode nodes st i).1.out = st.out := by
  simp [runNode, hu, hf, hd, hc, hb]

/-! the proviso `EqExt` is satisfiable: e.g. a flow of `If` nodes (python `==` identifies `True` and `1`, and
they are equally truthy) -/
theorem beq_truthy (v w : Val) (h : Val.beq v w = true) : v.truthy = w.truthy := by
  cases v <;> cases w <;> simp_all [Val.beq, Val.truthy]
  · rename_i a b; by_cases hb : b <;> simp_all
  · rename_i a b; by_cases ha : a <;> simp_all
  · rename_i l1 l2; cases l1 <;> cases l2 <;> simp_all [Val.beqL]

theorem eqExt_if (nodes : Nat → Node) (hk : ∀ i, (nodes i).kind = .ifk) : EqExt nodes := by
  intro i c a h
  rw [hk i]
  cases c with
  | nil => cases a <;> simp_all [Val.beqL]
  | cons v vs =>
    cases a with
    | nil => simp [Val.beqL] at h
    | cons w ws =>
      simp only [Val.beqL, Bool.and_eq_true] at h
      cases vs with
      | nil => cases ws with
        | nil => simp [eval, beq_truthy v w h.1]
        | cons _ _ => simp [Val.beqL] at h
      | cons x xs => cases ws with
        | nil => simp [Val.beqL] at h
        | cons y ys => simp [eval]

end PwVerif.RecoveryFlow
