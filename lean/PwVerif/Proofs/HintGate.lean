import PwVerif.Model.HintGate
import PwVerif.Proofs.Hint
/-! Lemmas about the acceptance gate and the link histories (property C04). -/
namespace PwVerif.Hint

/-! ## the gate is the receiver-flag policy -/

theorem validConnectionFrom_eq (cfg : Cfg) (b : Bool) (self other : Chan) :
    validConnectionFrom cfg b self other
      = validConnection cfg (whoIsWho b self other).1 (whoIsWho b self other).2 := by
  unfold validConnectionFrom validConnection whoIsWho bothTyped
  cases b <;> cases hs : self.hint <;> cases ho : other.hint <;> simp [hs, ho]

theorem gate_eq_gateR (cfg : Cfg) (via : Via) (s r : Chan) :
    gate cfg via s r = gateR treeRule cfg via s r := by
  rcases s with ⟨sh, ss⟩
  rcases r with ⟨rh, rs⟩
  cases via <;> cases sh <;> cases rh <;> cases rs <;>
    simp [gate, gateR, treeRule, validConnectionFrom_eq, whoIsWho, validConnection, validReceiver]

theorem gateR_untyped (rule : GateRule) (cfg : Cfg) (via : Via) (s r : Chan)
    (h : s.hint = none ∨ r.hint = none) : gateR rule cfg via s r = some true := by
  unfold gateR
  rcases h with h | h
  · simp [h]
  · rw [h]; cases s.hint <;> simp

theorem gateR_typed (rule : GateRule) (cfg : Cfg) (via : Via) (s r : Chan) (hs hr : Hint)
    (h1 : s.hint = some hs) (h2 : r.hint = some hr) :
    gateR rule cfg via s r = if rule via s.strict r.strict then compare cfg hs hr else some true := by
  simp [gateR, h1, h2]

/-! ## histories -/

theorem updN_same {α} (f : Nat → α) (a : Nat) (x : α) : updN f a x a = x := by simp [updN]

theorem setStrict_hint (n : Net) (i : Nat) (b : Bool) (j : Nat) :
    ((n.setStrict i b).chan j).hint = (n.chan j).hint := by
  unfold Net.setStrict updN
  by_cases h : j = i <;> simp [h]

theorem setStrict_links (n : Net) (i : Nat) (b : Bool) : (n.setStrict i b).links = n.links := rfl

theorem setStrict_strict_other (n : Net) (i : Nat) (b : Bool) (j : Nat) (h : j ≠ i) :
    ((n.setStrict i b).chan j).strict = (n.chan j).strict := by
  simp [Net.setStrict, updN, h]

theorem setStrict_strict_same (n : Net) (i : Nat) (b : Bool) :
    ((n.setStrict i b).chan i).strict = b := by
  simp [Net.setStrict, updN]

theorem link_chan (cfg : Cfg) (n : Net) (via : Via) (s r : Nat) :
    (n.link cfg via s r).1.chan = n.chan := by
  unfold Net.link
  repeat' split
  all_goals rfl

theorem push_chan (cfg : Cfg) (n : Net) (via : Via) (s r : Nat) (v : V) :
    (n.push cfg via s r v).1.chan = n.chan := by
  unfold Net.push
  repeat' split
  all_goals rfl

theorem push_links (cfg : Cfg) (n : Net) (via : Via) (s r : Nat) (v : V) :
    (n.push cfg via s r v).1.links = n.links := by
  unfold Net.push
  repeat' split
  all_goals rfl

/-- a link made by `Net.link` is either an old one or the freshly gated one -/
theorem link_links (cfg : Cfg) (n : Net) (via : Via) (s r : Nat) (l : Link)
    (hl : l ∈ (n.link cfg via s r).1.links) :
    l ∈ n.links ∨ (l = ⟨via, s, r, (n.chan r).strict⟩ ∧ gate cfg via (n.chan s) (n.chan r) = some true) := by
  unfold Net.link at hl
  split at hl
  · exact Or.inl hl
  · split at hl
    · exact Or.inl hl
    · exact Or.inl hl
    · rename_i hg
      dsimp only at hl
      split at hl
      · rcases List.mem_cons.mp hl with e | e
        · exact Or.inr ⟨e, hg⟩
        · exact Or.inl e
      · split at hl
        · split at hl
          · rcases List.mem_cons.mp hl with e | e
            · exact Or.inr ⟨e, hg⟩
            · exact Or.inl (List.mem_filter.mp e).1
          · exact Or.inl hl
        · rcases List.mem_cons.mp hl with e | e
          · exact Or.inr ⟨e, hg⟩
          · exact Or.inl (List.mem_filter.mp e).1

/-- `receiverRejects` only comes out of `Net.link` after the gate said yes -/
theorem link_receiverRejects_gate (cfg : Cfg) (n : Net) (via : Via) (s r : Nat) (n' : Net)
    (h : n.link cfg via s r = (n', .receiverRejects)) : gate cfg via (n.chan s) (n.chan r) = some true := by
  unfold Net.link at h
  split at h
  · cases h
  · split at h
    · cases h
    · cases h
    · rename_i hg
      dsimp only at h
      split at h
      · cases h
      · split at h
        · split at h
          · cases h
          · exact hg
        · cases h

theorem relink_chan (cfg : Cfg) (n : Net) (via : Via) (s r : Nat) :
    (n.relink cfg via s r).1.chan = n.chan := by
  unfold Net.relink
  split
  · rfl
  · exact link_chan cfg n via s r

theorem relink_links (cfg : Cfg) (n : Net) (via : Via) (s r : Nat) (l : Link)
    (hl : l ∈ (n.relink cfg via s r).1.links) :
    l ∈ n.links ∨ (l = ⟨via, s, r, (n.chan r).strict⟩ ∧ gate cfg via (n.chan s) (n.chan r) = some true) := by
  unfold Net.relink at hl
  split at hl
  · rename_i n' heq
    rcases List.mem_cons.mp hl with e | e
    · exact Or.inr ⟨e, link_receiverRejects_gate cfg n via s r n' heq⟩
    · exact Or.inl (List.mem_filter.mp e).1
  · exact link_links cfg n via s r l hl

/-- what the gate's yes means for a both-hinted pair with a strict receiver -/
theorem gate_strict_typed (cfg : Cfg) (via : Via) (s r : Chan) (hs hr : Hint)
    (h1 : s.hint = some hs) (h2 : r.hint = some hr) (h3 : r.strict = true)
    (hg : gate cfg via s r = some true) : compare cfg hs hr = some true := by
  rw [gate_eq_gateR, gateR_typed treeRule cfg via s r hs hr h1 h2] at hg
  simpa [treeRule, h3] using hg

theorem link_AcceptedChecked (cfg : Cfg) (n : Net) (via : Via) (s r : Nat)
    (h : n.AcceptedChecked cfg) : (n.link cfg via s r).1.AcceptedChecked cfg := by
  intro l hl hst hs hr e1 e2
  rw [link_chan] at e1 e2
  rcases link_links cfg n via s r l hl with hold | ⟨rfl, hg⟩
  · exact h l hold hst hs hr e1 e2
  · exact gate_strict_typed cfg via _ _ hs hr e1 e2 hst hg

theorem relink_AcceptedChecked (cfg : Cfg) (n : Net) (via : Via) (s r : Nat)
    (h : n.AcceptedChecked cfg) : (n.relink cfg via s r).1.AcceptedChecked cfg := by
  intro l hl hst hs hr e1 e2
  rw [relink_chan] at e1 e2
  rcases relink_links cfg n via s r l hl with hold | ⟨rfl, hg⟩
  · exact h l hold hst hs hr e1 e2
  · exact gate_strict_typed cfg via _ _ hs hr e1 e2 hst hg

theorem step_AcceptedChecked (cfg : Cfg) (n : Net) (op : Op) (h : n.AcceptedChecked cfg) :
    (n.step cfg op).AcceptedChecked cfg := by
  cases op with
  | link via s r => exact link_AcceptedChecked cfg n via s r h
  | relink via s r => exact relink_AcceptedChecked cfg n via s r h
  | strict i b =>
    intro l hl hst hs hr e1 e2
    rw [Net.step, setStrict_hint] at e1 e2
    exact h l hl hst hs hr e1 e2
  | push via s r v =>
    intro l hl hst hs hr e1 e2
    simp only [Net.step] at hl e1 e2
    rw [push_chan] at e1 e2
    rw [push_links] at hl
    exact h l hl hst hs hr e1 e2
  | setVal i v =>
    intro l hl hst hs hr e1 e2
    by_cases hc : typeCheckOk cfg (n.chan i) v = true
    · simp only [Net.step, hc, if_true] at hl e1 e2
      exact h l hl hst hs hr e1 e2
    · simp only [Net.step, hc] at hl e1 e2
      exact h l hl hst hs hr e1 e2

theorem run_AcceptedChecked (cfg : Cfg) (ops : List Op) :
    ∀ n : Net, n.AcceptedChecked cfg → (n.run cfg ops).AcceptedChecked cfg := by
  induction ops with
  | nil => intro n h; exact h
  | cons op ops ih => intro n h; exact ih _ (step_AcceptedChecked cfg n op h)

theorem init_AcceptedChecked (cfg : Cfg) (chan : Nat → Chan) : (Net.init chan).AcceptedChecked cfg := by
  intro l hl; cases hl

/-! `NowChecked` (the flags as they are now) survives everything except switching a receiver's flag
back on -/

theorem link_NowChecked (cfg : Cfg) (n : Net) (via : Via) (s r : Nat)
    (h : n.NowChecked cfg) : (n.link cfg via s r).1.NowChecked cfg := by
  intro l hl hst hs hr e1 e2
  rw [link_chan] at e1 e2 hst
  rcases link_links cfg n via s r l hl with hold | ⟨rfl, hg⟩
  · exact h l hold hst hs hr e1 e2
  · exact gate_strict_typed cfg via _ _ hs hr e1 e2 hst hg

theorem relink_NowChecked (cfg : Cfg) (n : Net) (via : Via) (s r : Nat)
    (h : n.NowChecked cfg) : (n.relink cfg via s r).1.NowChecked cfg := by
  intro l hl hst hs hr e1 e2
  rw [relink_chan] at e1 e2 hst
  rcases relink_links cfg n via s r l hl with hold | ⟨rfl, hg⟩
  · exact h l hold hst hs hr e1 e2
  · exact gate_strict_typed cfg via _ _ hs hr e1 e2 hst hg

theorem deactivate_NowChecked (cfg : Cfg) (n : Net) (i : Nat) (h : n.NowChecked cfg) :
    (n.setStrict i false).NowChecked cfg := by
  intro l hl hst hs hr e1 e2
  rw [setStrict_hint] at e1 e2
  by_cases hi : l.r = i
  · rw [hi, setStrict_strict_same] at hst; cases hst
  · rw [setStrict_strict_other n i false l.r hi] at hst
    exact h l hl hst hs hr e1 e2

theorem activate_NowChecked (cfg : Cfg) (n : Net) (i : Nat) (h : n.NowChecked cfg)
    (hno : ∀ l ∈ n.links, l.r ≠ i) : (n.setStrict i true).NowChecked cfg := by
  intro l hl hst hs hr e1 e2
  rw [setStrict_hint] at e1 e2
  rw [setStrict_strict_other n i true l.r (hno l hl)] at hst
  exact h l hl hst hs hr e1 e2

/-- ops that never switch a flag back on -/
def Op.noActivation : Op → Bool
  | .strict _ true => false
  | _ => true

theorem step_NowChecked (cfg : Cfg) (n : Net) (op : Op) (hop : op.noActivation = true)
    (h : n.NowChecked cfg) : (n.step cfg op).NowChecked cfg := by
  cases op with
  | link via s r => exact link_NowChecked cfg n via s r h
  | relink via s r => exact relink_NowChecked cfg n via s r h
  | strict i b =>
    cases b with
    | false => exact deactivate_NowChecked cfg n i h
    | true => cases hop
  | push via s r v =>
    intro l hl hst hs hr e1 e2
    simp only [Net.step] at hl e1 e2 hst
    rw [push_chan] at e1 e2 hst
    rw [push_links] at hl
    exact h l hl hst hs hr e1 e2
  | setVal i v =>
    intro l hl hst hs hr e1 e2
    by_cases hc : typeCheckOk cfg (n.chan i) v = true
    · simp only [Net.step, hc, if_true] at hl e1 e2 hst
      exact h l hl hst hs hr e1 e2
    · simp only [Net.step, hc] at hl e1 e2 hst
      exact h l hl hst hs hr e1 e2

theorem run_NowChecked (cfg : Cfg) (ops : List Op) (hops : ops.all Op.noActivation = true) :
    ∀ n : Net, n.NowChecked cfg → (n.run cfg ops).NowChecked cfg := by
  induction ops with
  | nil => intro n h; exact h
  | cons op ops ih =>
    intro n h
    simp only [List.all_cons, Bool.and_eq_true] at hops
    exact ih hops.2 _ (step_NowChecked cfg n op hops.1 h)

theorem push_receiverRejects (cfg : Cfg) (n : Net) (via : Via) (s r : Nat) (v : V)
    (h : (n.push cfg via s r v).2 = .receiverRejects) : typeCheckOk cfg (n.chan r) v = false := by
  unfold Net.push at h
  repeat' split at h
  all_goals simp_all

theorem typeCheckOk_of_admits (cfg : Cfg) (c : Chan) (h : Hint) (v : V) (e : c.hint = some h)
    (ha : admits cfg h v = true) : typeCheckOk cfg c v = true := by
  simp [typeCheckOk, e, ha]

end PwVerif.Hint
