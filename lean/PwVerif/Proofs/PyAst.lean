import PwVerif.Model.PyAst
import PwVerif.Proofs.FuncWrap
/-! Lemmas for the source-scraping slice of C17 (`Model/PyAst.lean`). -/
namespace PwVerif.PyAst
open PwVerif PwVerif.FuncWrap

/-! ### the walk -/

mutual
theorem retsOf_agree (s : PStmt) (h : nestedRet s = false) : retsOf true s = retsOf false s := by
  cases s with
  | ret v => rfl
  | leaf => rfl
  | inner scope cs =>
    cases scope with
    | true =>
      simp only [nestedRet, if_true, Bool.not_eq_false', List.isEmpty_iff] at h
      simp [retsOf, h]
    | false =>
      simp only [nestedRet] at h
      simp only [retsOf, Bool.false_and]
      exact retsOfL_agree cs (by simpa using h)
theorem retsOfL_agree (l : List PStmt) (h : nestedRetL l = false) : retsOfL true l = retsOfL false l := by
  cases l with
  | nil => rfl
  | cons s r =>
    simp only [nestedRetL, Bool.or_eq_false_iff] at h
    simp only [retsOfL]
    rw [retsOf_agree s h.1, retsOfL_agree r h.2]
end

/-- a nested scope contributes nothing to the function's own returns, whatever it contains -/
theorem retsOf_scope (cs : List PStmt) : retsOf false (.inner true cs) = [] := by
  simp [retsOf]

/-! ### the text -/

def noWsPair : List Char → Bool
  | [] => true
  | [_] => true
  | c :: d :: r => !(isWs c && isWs d) && noWsPair (d :: r)

theorem removeSpaces_id (l : List Char) (h : noWsPair l = true) : removeSpaces l = l := by
  induction l with
  | nil => rfl
  | cons c r ih =>
    cases r with
    | nil => rfl
    | cons d r' =>
      simp only [noWsPair, Bool.and_eq_true, Bool.not_eq_true'] at h
      simp only [removeSpaces, h.1]
      simp [ih h.2]

theorem bytes_cons (c : Char) (r : List Char) : bytes (c :: r) = c.utf8Size + bytes r := by
  simp [bytes]

theorem charIdx_bytes_take (l : List Char) (a : Nat) (h : a ≤ l.length) : charIdx l (bytes (l.take a)) = a := by
  induction l generalizing a with
  | nil => simp at h; subst h; simp [charIdx]
  | cons c r ih =>
    cases a with
    | zero =>
      have : 0 < c.utf8Size := Char.utf8Size_pos c
      simp [charIdx, bytes, this]
    | succ k =>
      have hk : k ≤ r.length := by simpa using h
      simp only [List.take_succ_cons, bytes_cons, charIdx]
      have : ¬ (c.utf8Size + bytes (r.take k) < c.utf8Size) := by omega
      simp only [this, if_false, Nat.add_sub_cancel_left, ih k hk]
      omega

/-- an all-ASCII line: every character is one byte -/
def ascii (l : List Char) : Bool := l.all fun c => c.utf8Size == 1

theorem bytes_ascii (l : List Char) (h : ascii l = true) : bytes l = l.length := by
  induction l with
  | nil => rfl
  | cons c r ih =>
    simp only [ascii, List.all_cons, Bool.and_eq_true, beq_iff_eq] at h
    simp only [bytes_cons, h.1, List.length_cons]
    rw [ih (by simpa [ascii] using h.2)]
    omega

theorem ascii_take (l : List Char) (a : Nat) (h : ascii l = true) : ascii (l.take a) = true := by
  simp only [ascii, List.all_eq_true] at h ⊢
  intro c hc
  exact h c (List.mem_of_mem_take hc)

/-- one line, the element occupying characters `a … b` of it: the span `ast` reports has the BYTE offsets
of those two positions -/
theorem getString_single (byteCols : Bool) (src : List (List Char)) (k a b : Nat) (line : List Char)
    (hl : src[k]? = some line) (hab : a ≤ b) (hb : b ≤ line.length)
    (hcols : byteCols = false ∨ ascii line = true) :
    getString byteCols src ⟨k + 1, bytes (line.take a), k + 1, bytes (line.take b)⟩
      = String.ofList (removeSpaces (slice line a b)) := by
  have hline : src.getD k [] = line := by simp [List.getD, hl]
  have hc : ∀ x, x ≤ line.length → col byteCols line (bytes (line.take x)) = x := by
    intro x hx
    rcases hcols with h | h
    · simp [col, h, charIdx_bytes_take line x hx]
    · cases byteCols with
      | false => simp [col, charIdx_bytes_take line x hx]
      | true =>
        simp only [col, if_true]
        rw [bytes_ascii _ (ascii_take line x h)]
        simp [hx]
  unfold getString
  simp only [Nat.add_sub_cancel]
  have : k + 1 - k = 1 := by omega
  rw [this]
  simp only [getStringFrom, hline, hc a (by omega), hc b hb]
  have : ¬ (k + 1 ≤ k) := by omega
  simp [this]

end PwVerif.PyAst
