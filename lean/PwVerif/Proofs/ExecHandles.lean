import PwVerif.Model.ExecHandles
/-! Lemmas about executor handles: nobody shuts a pool down, a refused submission, running ⇒ outstanding. -/
namespace PwVerif.ExecH
open PwVerif

theorem parse_prefix (pools : List PS) (set : Setting) : ∃ extra, (parse pools set).2.1 = pools ++ extra := by
  cases set with
  | inst h => exact ⟨[], by simp [parse]⟩
  | instr f => cases f <;> simp [parse]

theorem step_prefix (cfg : Cfg) (hc : cfg.shutdownBuilt = false) (s : St) (op : Op) :
    ∃ extra, (step cfg s op).1.pools = s.pools ++ extra := by
  cases op with
  | submit node set =>
    simp only [step]
    split
    · exact ⟨[], by simp⟩
    · obtain ⟨extra, he⟩ := parse_prefix s.pools set
      refine ⟨extra, ?_⟩
      rcases hp : parse s.pools set with ⟨h, pools, built⟩
      simp only [hp] at he
      simp only
      split
      · split <;> simpa using he
      · simpa using he
  | complete i =>
    simp only [step]
    split
    · exact ⟨[], by simp⟩
    · exact ⟨[], by simp [hc]⟩

theorem runOps_prefix (cfg : Cfg) (hc : cfg.shutdownBuilt = false) :
    ∀ (ops : List Op) (s : St), ∃ extra, (runOps cfg s ops).1.pools = s.pools ++ extra
  | [], s => ⟨[], by simp [runOps]⟩
  | o :: os, s => by
    obtain ⟨e1, h1⟩ := step_prefix cfg hc s o
    obtain ⟨e2, h2⟩ := runOps_prefix cfg hc os (step cfg s o).1
    refine ⟨e1 ++ e2, ?_⟩
    simp only [runOps]
    rw [h2, h1, List.append_assoc]

theorem poolState_append (pools extra : List PS) (h : Nat) (hh : h < pools.length) :
    poolState (pools ++ extra) h = poolState pools h := by
  simp [poolState, List.getElem?_append_left hh]

theorem mem_eraseIdx' {α} (l : List α) (i : Nat) (x : α) (hx : x ∈ l) (hne : l[i]? ≠ some x) :
    x ∈ eraseIdx' l i := by
  induction l generalizing i with
  | nil => cases hx
  | cons a as ih =>
    cases i with
    | zero =>
      simp only [eraseIdx']
      rcases List.mem_cons.mp hx with rfl | h
      · simp at hne
      · exact h
    | succ i =>
      simp only [eraseIdx']
      rcases List.mem_cons.mp hx with rfl | h
      · exact List.mem_cons_self
      · exact List.mem_cons_of_mem _ (ih i h (by simpa using hne))

/-- no node is running without an outstanding job -/
def RunningHasJob (s : St) : Prop := ∀ n, s.running n = true → ∃ j ∈ s.jobs, j.node = n

theorem step_runningHasJob (cfg : Cfg) (hc : cfg.settleRefused = true) (s : St) (op : Op)
    (h : RunningHasJob s) : RunningHasJob (step cfg s op).1 := by
  cases op with
  | submit node set =>
    simp only [step]
    split
    · exact h
    · rcases hp : parse s.pools set with ⟨hd, pools, built⟩
      simp only
      split
      · simp only [hc, if_true]
        intro n hn
        by_cases e : n = node
        · subst e; simp [updF] at hn
        · simp only [updF, e, if_false] at hn
          exact h n hn
      · intro n hn
        by_cases e : n = node
        · subst e
          exact ⟨_, List.mem_append_right _ (List.mem_singleton.mpr rfl), rfl⟩
        · simp only [updF, e, if_false] at hn
          obtain ⟨j, hj, hjn⟩ := h n hn
          exact ⟨j, List.mem_append_left _ hj, hjn⟩
  | complete i =>
    simp only [step]
    split
    · exact h
    · rename_i j hj
      intro n hn
      by_cases e : n = j.node
      · subst e; simp [updF] at hn
      · simp only [updF, e, if_false] at hn
        obtain ⟨j', hj', hjn⟩ := h n hn
        refine ⟨j', mem_eraseIdx' _ _ _ hj' ?_, hjn⟩
        intro hh
        rw [hj] at hh
        simp only [Option.some.injEq] at hh
        subst hh
        exact e hjn.symm

theorem runOps_runningHasJob (cfg : Cfg) (hc : cfg.settleRefused = true) :
    ∀ (ops : List Op) (s : St), RunningHasJob s → RunningHasJob (runOps cfg s ops).1
  | [], _, h => h
  | o :: os, s, h => by
    simp only [runOps]
    exact runOps_runningHasJob cfg hc os _ (step_runningHasJob cfg hc s o h)

end PwVerif.ExecH
