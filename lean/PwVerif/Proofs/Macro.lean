import PwVerif.Model.Macro
/-!
# Lemmas for C09 (macros): state algebra, frames of the forwarding setter, the purge rule,
the synchronisation invariant, correctness of `run` against plain composition, inlining.
-/
namespace PwVerif.Macro
open PwVerif

/-! ## states -/
namespace St

@[ext] theorem ext' {σ τ : St} (h : ∀ q p k, σ.fn q p k = τ.fn q p k) : σ = τ := by
  cases σ; cases τ; congr; funext q p k; exact h q p k

@[simp] theorem get_set (σ : St) (p p' : Pan) (k k' : Nat) (v : Val) :
    (σ.set p k v).get p' k' = if p' = p ∧ k' = k then v else σ.get p' k' := by
  simp [get, set]

@[simp] theorem sub_set (σ : St) (p : Pan) (k : Nat) (v : Val) (j : Nat) : (σ.set p k v).sub j = σ.sub j := by
  apply ext'; intro q p' k'; simp [sub, set]

@[simp] theorem sub_graft_same (σ τ : St) (j : Nat) : (σ.graft j τ).sub j = τ := by
  apply ext'; intro q p k; simp [sub, graft]

@[simp] theorem sub_graft_other (σ τ : St) (j j' : Nat) (h : j' ≠ j) : (σ.graft j τ).sub j' = σ.sub j' := by
  apply ext'; intro q p k; simp [sub, graft, h]

@[simp] theorem get_graft (σ τ : St) (j : Nat) (p : Pan) (k : Nat) : (σ.graft j τ).get p k = σ.get p k := by
  simp [get, graft]

theorem graft_sub_self (σ : St) (j : Nat) : σ.graft j (σ.sub j) = σ := by
  apply ext'; intro q p k
  cases q with
  | nil => simp [graft]
  | cons a r => by_cases h : a = j <;> simp [graft, sub, h]

end St

/-- `setIn` touches input panels only -/
def SameOut (σ τ : St) : Prop := ∀ q p k, (p = .out ∨ p = .uiOut) → σ.fn q p k = τ.fn q p k

theorem SameOut.refl (σ : St) : SameOut σ σ := fun _ _ _ _ => rfl
theorem SameOut.trans {a b c : St} (h1 : SameOut a b) (h2 : SameOut b c) : SameOut a c :=
  fun q p k h => (h1 q p k h).trans (h2 q p k h)

theorem sameOut_set_inp (σ : St) (k : Nat) (v : Val) : SameOut (σ.set .inp k v) σ := by
  intro q p k' h; rcases h with h | h <;> simp [St.set, h]
theorem sameOut_set_uiIn (σ : St) (k : Nat) (v : Val) : SameOut (σ.set .uiIn k v) σ := by
  intro q p k' h; rcases h with h | h <;> simp [St.set, h]

theorem sameOut_graft (σ τ : St) (j : Nat) (h : SameOut τ (σ.sub j)) : SameOut (σ.graft j τ) σ := by
  intro q p k hp
  cases q with
  | nil => simp [St.graft]
  | cons a r =>
    by_cases ha : a = j
    · subst ha; simpa [St.graft, St.sub] using h r p k hp
    · simp [St.graft, ha]

mutual
theorem setIn_sameOut : ∀ (n : Node) (σ : St) (k : Nat) (v : Val), SameOut (setIn n σ k v) σ
  | .leaf _ _, σ, k, v => by simpa [setIn] using sameOut_set_inp σ k v
  | .mac _ body rets _ _, σ, k, v => by
    unfold setIn
    split
    · exact (sameOut_set_uiIn _ k v).trans (sameOut_set_inp σ k v)
    · exact sameOut_set_inp σ k v
    · exact (setInKid_sameOut body 0 _ _ v _).trans (sameOut_set_inp σ k v)
theorem setInKid_sameOut : ∀ (ns : List Node) (base j i : Nat) (v : Val) (σ : St), SameOut (setInKid ns base j i v σ) σ
  | [], _, _, _, _, σ => by simpa [setInKid] using SameOut.refl σ
  | n :: _, base, 0, i, v, σ => by
    simp only [setInKid]
    exact sameOut_graft σ _ base (setIn_sameOut n (σ.sub base) i v)
  | _ :: ns, base, j + 1, i, v, σ => by
    simp only [setInKid]
    exact setInKid_sameOut ns (base + 1) j i v σ
end


/-! ## frames of the forwarding setter -/

theorem setInKid_get (ns : List Node) (base j i : Nat) (v : Val) (σ : St) (p : Pan) (k : Nat) :
    (setInKid ns base j i v σ).get p k = σ.get p k := by
  induction ns generalizing base j with
  | nil => simp [setInKid]
  | cons n ns ih =>
    cases j with
    | zero => simp [setInKid]
    | succ j => simp only [setInKid]; exact ih (base + 1) j

theorem setInKid_sub_other (ns : List Node) (base j i : Nat) (v : Val) (σ : St) (j' : Nat)
    (h : j' ≠ base + j) : (setInKid ns base j i v σ).sub j' = σ.sub j' := by
  induction ns generalizing base j with
  | nil => simp [setInKid]
  | cons n ns ih =>
    cases j with
    | zero => simp only [setInKid]; exact St.sub_graft_other _ _ _ _ (by simpa using h)
    | succ j => simp only [setInKid]; exact ih (base + 1) j (by omega)

theorem setInKid_sub_target (ns : List Node) (base j i : Nat) (v : Val) (σ : St) (n : Node)
    (h : ns[j]? = some n) : (setInKid ns base j i v σ).sub (base + j) = setIn n (σ.sub (base + j)) i v := by
  induction ns generalizing base j with
  | nil => simp at h
  | cons m ns ih =>
    cases j with
    | zero =>
      simp at h; subst h
      simp [setInKid]
    | succ j =>
      simp only [setInKid]
      have := ih (base + 1) j (by simpa using h)
      simpa [Nat.add_assoc, Nat.add_comm 1 j] using this

theorem setInKid_none (ns : List Node) (base j i : Nat) (v : Val) (σ : St)
    (h : ns[j]? = none) : setInKid ns base j i v σ = σ := by
  induction ns generalizing base j with
  | nil => simp [setInKid]
  | cons m ns ih =>
    cases j with
    | zero => simp at h
    | succ j => simp only [setInKid]; exact ih (base + 1) j (by simpa using h)

theorem setIn_get_inp (n : Node) (σ : St) (k k' : Nat) (v : Val) :
    (setIn n σ k v).get .inp k' = if k' = k then v else σ.get .inp k' := by
  cases n with
  | leaf f s => simp [setIn]
  | mac args body rets oh s =>
    unfold setIn
    split <;> simp [setInKid_get]

theorem setIn_get_uiIn (args body rets oh s) (σ : St) (k k' : Nat) (v : Val) :
    (setIn (.mac args body rets oh s) σ k v).get .uiIn k' =
      if k' = k ∧ kept body rets k = true then v else σ.get .uiIn k' := by
  unfold setIn kept
  split <;> rename_i hl <;> simp [hl, setInKid_get]


/-! ## the purge rule: what `link` says about the creator's keyword arguments -/

/-- the keyword argument of input `i` of child `j` -/
def srcAt (body : List Node) (j i : Nat) : Option Src :=
  match body[j]? with
  | some n => n.srcs[i]?
  | none => none

theorem mem_srcIdx (k : Nat) (ss : List Src) (i0 i : Nat) :
    i ∈ srcIdx k ss i0 ↔ i0 ≤ i ∧ ss[i - i0]? = some (.arg k) := by
  induction ss generalizing i0 with
  | nil => simp [srcIdx]
  | cons s ss ih =>
    unfold srcIdx
    by_cases hs : s = .arg k
    · simp only [hs, if_true, List.mem_cons, ih]
      constructor
      · rintro (rfl | ⟨h1, h2⟩)
        · simp
        · refine ⟨by omega, ?_⟩
          have : i - i0 = (i - (i0 + 1)) + 1 := by omega
          rw [this]; simpa using h2
      · rintro ⟨h1, h2⟩
        by_cases he : i = i0
        · exact Or.inl he
        · right
          refine ⟨by omega, ?_⟩
          have : i - i0 = (i - (i0 + 1)) + 1 := by omega
          rw [this] at h2; simpa using h2
    · simp only [hs, if_false, ih]
      constructor
      · rintro ⟨h1, h2⟩
        refine ⟨by omega, ?_⟩
        have : i - i0 = (i - (i0 + 1)) + 1 := by omega
        rw [this]; simpa using h2
      · rintro ⟨h1, h2⟩
        by_cases he : i = i0
        · subst he; simp at h2; exact absurd h2 hs
        · refine ⟨by omega, ?_⟩
          have : i - i0 = (i - (i0 + 1)) + 1 := by omega
          rw [this] at h2; simpa using h2

theorem mem_usesOf (k : Nat) (ns : List Node) (base j i : Nat) :
    (j, i) ∈ usesOf k ns base ↔ base ≤ j ∧ ∃ n, ns[j - base]? = some n ∧ n.srcs[i]? = some (.arg k) := by
  induction ns generalizing base with
  | nil => simp [usesOf]
  | cons m ns ih =>
    simp only [usesOf, List.mem_append, List.mem_map, Prod.mk.injEq, ih]
    constructor
    · rintro (⟨i', hi', rfl, rfl⟩ | ⟨h1, n, h2, h3⟩)
      · refine ⟨Nat.le_refl _, m, by simp, ?_⟩
        have := (mem_srcIdx k m.srcs 0 i').mp hi'
        simpa using this.2
      · refine ⟨by omega, n, ?_, h3⟩
        have : j - base = (j - (base + 1)) + 1 := by omega
        rw [this]; simpa using h2
    · rintro ⟨h1, n, h2, h3⟩
      by_cases he : j = base
      · left
        subst he
        simp at h2; subst h2
        exact ⟨i, (mem_srcIdx k _ 0 i).mpr ⟨Nat.zero_le _, by simpa using h3⟩, rfl, rfl⟩
      · right
        refine ⟨by omega, n, ?_, h3⟩
        have : j - base = (j - (base + 1)) + 1 := by omega
        rw [this] at h2; simpa using h2

theorem mem_usesOf0 (k : Nat) (body : List Node) (j i : Nat) :
    (j, i) ∈ usesOf k body 0 ↔ srcAt body j i = some (.arg k) := by
  rw [mem_usesOf]
  unfold srcAt
  constructor
  · rintro ⟨_, n, h2, h3⟩
    simp at h2; simp [h2, h3]
  · intro h
    refine ⟨Nat.zero_le _, ?_⟩
    cases hb : body[j]? with
    | none => simp [hb] at h
    | some n => exact ⟨n, by simp, by simpa [hb] using h⟩

theorem link_child {body rets k j i} (h : link body rets k = .child j i) :
    kept body rets k = false ∧ srcAt body j i = some (.arg k) ∧
      ∀ j' i', srcAt body j' i' = some (.arg k) → j' = j ∧ i' = i := by
  have hk : kept body rets k = false := by simp [kept, h]
  refine ⟨hk, ?_⟩
  unfold link at h
  simp only at h
  split at h
  · cases h
  · rename_i hc
    split at h
    · rename_i j0 i0 hu
      cases h
      refine ⟨(mem_usesOf0 k body j i).mp (by rw [hu]; simp), ?_⟩
      intro j' i' hs
      have := (mem_usesOf0 k body j' i').mpr hs
      rw [hu] at this
      simpa using this
    · cases h

theorem link_gone {body rets k} (h : link body rets k = .gone) :
    kept body rets k = false ∧ ∀ j i, srcAt body j i ≠ some (.arg k) := by
  have hk : kept body rets k = false := by simp [kept, h]
  refine ⟨hk, ?_⟩
  unfold link at h
  simp only at h
  split at h
  · cases h
  · rename_i hc
    have hlen : (usesOf k body 0).length < 2 := by
      simp only [Bool.or_eq_true, decide_eq_true_eq, not_or, Nat.not_le] at hc
      exact hc.2
    intro j i hs
    have hm := (mem_usesOf0 k body j i).mpr hs
    cases hu : usesOf k body 0 with
    | nil => rw [hu] at hm; cases hm
    | cons x xs =>
      cases xs with
      | nil =>
        obtain ⟨a, b⟩ := x
        rw [hu] at h
        simp at h
      | cons y ys => rw [hu] at hlen; simp at hlen; omega

theorem not_kept_src {body rets k j i} (hk : kept body rets k = false)
    (hs : srcAt body j i = some (.arg k)) : link body rets k = .child j i := by
  cases hl : link body rets k with
  | ui => simp [kept, hl] at hk
  | gone => exact absurd hs ((link_gone hl).2 j i)
  | child j' i' =>
    have := (link_child hl).2.2 j i hs
    rw [this.1, this.2]

theorem fwd_kept {body rets k} (h : Ret.arg k ∈ rets) : kept body rets k = true := by
  have hf : fwd k rets = true := by
    simp only [fwd, List.any_eq_true, decide_eq_true_eq]
    exact ⟨_, h, rfl⟩
  simp [kept, link, hf]


/-! ## the synchronisation invariant (input side) -/

/-- what the input `i` of a child (state `τ`) must hold, given the keyword argument the creator
passed: a single-use parameter is value-linked (the macro input's value), plain values and class
defaults stay (only demanded when `h`: broken by child-level updates of free inputs, which do not
concern synchronisation) -/
def SrcOk (kp : Nat → Bool) (inp : Nat → Val) (h : Bool) (n : Node) (τ : St) (i : Nat) : Src → Prop
  | .arg k => kp k = false → τ.get .inp i = inp k
  | .out _ _ => True
  | .const v => h = true → τ.get .inp i = v
  | .none => h = true → τ.get .inp i = n.dflt i

mutual
/-- every macro input (at every depth) holds the value of the channel it is linked to -/
def Inv (h : Bool) : Node → St → Prop
  | .leaf _ _, _ => True
  | .mac args body rets _ _, σ =>
    (∀ k, k < args.length → kept body rets k = true → σ.get .uiIn k = σ.get .inp k) ∧
    InvBody h (kept body rets) (σ.get .inp) body 0 σ
def InvBody (h : Bool) (kp : Nat → Bool) (inp : Nat → Val) : List Node → Nat → St → Prop
  | [], _, _ => True
  | n :: ns, j, σ =>
    Inv h n (σ.sub j) ∧ (∀ i s, n.srcs[i]? = some s → SrcOk kp inp h n (σ.sub j) i s) ∧
      InvBody h kp inp ns (j + 1) σ
end

theorem invBody_mono (h : Bool) (kp : Nat → Bool) (inp inp' : Nat → Val) (ns : List Node) (b : Nat)
    (σ σ' : St) (hinv : InvBody h kp inp ns b σ)
    (hsub : ∀ jj, b ≤ jj → σ'.sub jj = σ.sub jj)
    (hinp : ∀ (t : Nat) (n : Node) (i k' : Nat), ns[t]? = some n → n.srcs[i]? = some (Src.arg k') →
      kp k' = false → inp' k' = inp k') :
    InvBody h kp inp' ns b σ' := by
  induction ns generalizing b with
  | nil => simp [InvBody]
  | cons n ns ih =>
    simp only [InvBody] at hinv ⊢
    obtain ⟨h1, h2, h3⟩ := hinv
    refine ⟨by rw [hsub b (Nat.le_refl _)]; exact h1, ?_, ?_⟩
    · intro i s hs
      have := h2 i s hs
      rw [hsub b (Nat.le_refl _)]
      cases s with
      | arg k' =>
        simp only [SrcOk] at this ⊢
        intro hk
        rw [this hk, hinp 0 n i k' (by simp) hs hk]
      | out a b => trivial
      | const v => exact this
      | none => exact this
    · apply ih (b + 1) h3 (fun jj hj => hsub jj (by omega))
      intro t m i k' ht hs hk
      exact hinp (t + 1) m i k' (by simpa using ht) hs hk

mutual
theorem setIn_inv (h : Bool) : ∀ (n : Node) (σ : St) (k : Nat) (v : Val), Inv h n σ → Inv h n (setIn n σ k v)
  | .leaf _ _, _, _, _, _ => by simp [Inv]
  | .mac args body rets oh s, σ, k, v, hinv => by
    simp only [Inv] at hinv ⊢
    obtain ⟨hui, hb⟩ := hinv
    constructor
    · intro k' hk' hkept
      rw [setIn_get_uiIn, setIn_get_inp]
      by_cases he : k' = k
      · subst he; simp [hkept]
      · simp [he, hui k' hk' hkept]
    · cases hl : link body rets k with
      | ui =>
        have hkk : kept body rets k = true := by simp [kept, hl]
        apply invBody_mono h _ _ _ body 0 σ _ hb
        · intro jj _; simp [setIn, hl]
        · intro t n i k' _ _ hk
          rw [setIn_get_inp]
          have : k' ≠ k := by intro e; rw [e, hkk] at hk; cases hk
          simp [this]
      | gone =>
        apply invBody_mono h _ _ _ body 0 σ _ hb
        · intro jj _; simp [setIn, hl]
        · intro t n i k' ht hs hk
          rw [setIn_get_inp]
          have : k' ≠ k := by
            intro e; subst e
            exact (link_gone hl).2 t i (by simp [srcAt, ht, hs])
          simp [this]
      | child j i =>
        obtain ⟨hkf, hsrc, huniq⟩ := link_child hl
        have := setInKid_inv h (kept body rets) (σ.get .inp) ((setIn (.mac args body rets oh s) σ k v).get .inp)
          k v body 0 j i (σ.set .inp k v) (by
            apply invBody_mono h _ _ _ body 0 σ _ hb
            · intro jj _; simp
            · intro _ _ _ _ _ _ _; rfl)
          hkf (by
            intro k' hk'; rw [setIn_get_inp]; simp [hk'])
          (by rw [setIn_get_inp]; simp)
          (by
            intro t n i' ht hs
            have := huniq t i' (by simp [srcAt, ht, hs])
            simpa using this)
          (by
            intro n hn
            simpa [srcAt, hn] using hsrc)
        simpa [setIn, hl] using this
theorem setInKid_inv (h : Bool) (kp : Nat → Bool) (inp inp' : Nat → Val) (k : Nat) (v : Val) :
    ∀ (ns : List Node) (base j i : Nat) (σ : St), InvBody h kp inp ns base σ →
      kp k = false → (∀ k', k' ≠ k → inp' k' = inp k') → inp' k = v →
      (∀ (t : Nat) (n : Node) (i' : Nat), ns[t]? = some n → n.srcs[i']? = some (Src.arg k) → t = j ∧ i' = i) →
      (∀ n : Node, ns[j]? = some n → n.srcs[i]? = some (Src.arg k)) →
      InvBody h kp inp' ns base (setInKid ns base j i v σ)
  | [], _, _, _, _, _, _, _, _, _, _ => by simp [InvBody]
  | n :: ns, base, 0, i, σ, hinv, hk, hne, heq, huniq, hpos => by
    simp only [InvBody, setInKid] at hinv ⊢
    obtain ⟨h1, h2, h3⟩ := hinv
    have hni : n.srcs[i]? = some (Src.arg k) := hpos n (by simp)
    refine ⟨by simpa using setIn_inv h n (σ.sub base) i v h1, ?_, ?_⟩
    · intro i' s hs
      simp only [St.sub_graft_same]
      have hold := h2 i' s hs
      by_cases hi : i' = i
      · subst hi
        rw [hni] at hs; cases hs
        simp only [SrcOk]
        intro _
        rw [setIn_get_inp]; simp [heq]
      · cases s with
        | arg k' =>
          simp only [SrcOk] at hold ⊢
          intro hk'
          rw [setIn_get_inp]
          simp only [hi, if_false]
          rw [hold hk']
          by_cases hkk : k' = k
          · subst hkk
            exact absurd (huniq 0 n i' (by simp) hs).2 hi
          · exact (hne k' hkk).symm
        | out a b => trivial
        | const c =>
          simp only [SrcOk] at hold ⊢
          intro hh
          rw [setIn_get_inp]; simp [hi, hold hh]
        | none =>
          simp only [SrcOk] at hold ⊢
          intro hh
          rw [setIn_get_inp]; simp [hi, hold hh]
    · apply invBody_mono h kp inp inp' ns (base + 1) σ _ h3
      · intro jj hj
        exact St.sub_graft_other _ _ _ _ (by omega)
      · intro t m i' k' ht hs hk'
        by_cases hkk : k' = k
        · subst hkk
          have := (huniq (t + 1) m i' (by simpa using ht) hs).1
          omega
        · exact hne k' hkk
  | n :: ns, base, j + 1, i, σ, hinv, hk, hne, heq, huniq, hpos => by
    simp only [InvBody, setInKid] at hinv ⊢
    obtain ⟨h1, h2, h3⟩ := hinv
    have hsub : (setInKid ns (base + 1) j i v σ).sub base = σ.sub base :=
      setInKid_sub_other ns (base + 1) j i v σ base (by omega)
    refine ⟨by rw [hsub]; exact h1, ?_, ?_⟩
    · intro i' s hs
      rw [hsub]
      have hold := h2 i' s hs
      cases s with
      | arg k' =>
        simp only [SrcOk] at hold ⊢
        intro hk'
        rw [hold hk']
        by_cases hkk : k' = k
        · subst hkk
          have := (huniq 0 n i' (by simp) hs).1
          omega
        · exact (hne k' hkk).symm
      | out a b => trivial
      | const c => exact hold
      | none => exact hold
    · apply setInKid_inv h kp inp inp' k v ns (base + 1) j i σ h3 hk hne heq
      · intro t m i' ht hs
        have := huniq (t + 1) m i' (by simpa using ht) hs
        exact ⟨by omega, this.2⟩
      · intro m hm
        exact hpos m (by simpa using hm)
end


/-! ## the synchronisation invariant (output side) -/

mutual
/-- every macro output that is the (last) label of a returned channel holds that channel's value -/
def OutSync : Node → St → Prop
  | .leaf _ _, _ => True
  | .mac _ body rets _ _, σ =>
    (∀ r x, rets[r]? = some x → x ∉ rets.drop (r + 1) → σ.get .out r = retVal σ x) ∧ OutSyncBody body 0 σ
def OutSyncBody : List Node → Nat → St → Prop
  | [], _, _ => True
  | n :: ns, j, σ => OutSync n (σ.sub j) ∧ OutSyncBody ns (j + 1) σ
end

theorem SameOut.sub {σ τ : St} (h : SameOut σ τ) (j : Nat) : SameOut (σ.sub j) (τ.sub j) :=
  fun q p k hp => h (j :: q) p k hp

theorem SameOut.symm {σ τ : St} (h : SameOut σ τ) : SameOut τ σ := fun q p k hp => (h q p k hp).symm

theorem retVal_sameOut {σ τ : St} (h : SameOut σ τ) (x : Ret) : retVal σ x = retVal τ x := by
  cases x with
  | arg k => exact h [] .uiOut k (Or.inr rfl)
  | out j o => exact h [j] .out o (Or.inl rfl)

mutual
theorem outSync_sameOut : ∀ (n : Node) (σ τ : St), SameOut σ τ → OutSync n τ → OutSync n σ
  | .leaf _ _, _, _, _, _ => by simp [OutSync]
  | .mac _ body rets _ _, σ, τ, hs, h => by
    simp only [OutSync] at h ⊢
    refine ⟨?_, outSyncBody_sameOut body 0 σ τ hs h.2⟩
    intro r x hr hx
    rw [retVal_sameOut hs x]
    have := h.1 r x hr hx
    rw [← this]
    exact hs [] .out r (Or.inl rfl)
theorem outSyncBody_sameOut : ∀ (ns : List Node) (j : Nat) (σ τ : St), SameOut σ τ → OutSyncBody ns j τ → OutSyncBody ns j σ
  | [], _, _, _, _, _ => by simp [OutSyncBody]
  | n :: ns, j, σ, τ, hs, h => by
    simp only [OutSyncBody] at h ⊢
    exact ⟨outSync_sameOut n _ _ (hs.sub j) h.1, outSyncBody_sameOut ns (j + 1) σ τ hs h.2⟩
end

theorem setIn_outSync (n : Node) (σ : St) (k : Nat) (v : Val) (h : OutSync n σ) : OutSync n (setIn n σ k v) :=
  outSync_sameOut n _ _ (setIn_sameOut n σ k v) h

theorem outSyncBody_frame (ns : List Node) (j : Nat) (σ σ' : St)
    (hsub : ∀ jj, j ≤ jj → σ'.sub jj = σ.sub jj) (h : OutSyncBody ns j σ) : OutSyncBody ns j σ' := by
  induction ns generalizing j with
  | nil => simp [OutSyncBody]
  | cons n ns ih =>
    simp only [OutSyncBody] at h ⊢
    exact ⟨by rw [hsub j (Nat.le_refl _)]; exact h.1, ih (j + 1) (fun jj hj => hsub jj (by omega)) h.2⟩

/-! ## pieces of `run` -/

theorem runUI_get (kp : Nat → Bool) (m k0 : Nat) (σ : St) (p : Pan) (k : Nat) :
    (runUI kp m k0 σ).get p k =
      if p = .uiOut ∧ k0 ≤ k ∧ k < k0 + m ∧ kp k = true then σ.get .uiIn k else σ.get p k := by
  induction m generalizing k0 σ with
  | zero => simp [runUI]; intros; omega
  | succ m ih =>
    simp only [runUI]
    rw [ih]
    by_cases hk : kp k0 = true
    · simp only [hk, if_true, St.get_set]
      by_cases hp : p = .uiOut
      · subst hp
        by_cases h1 : k = k0
        · subst h1; simp [hk]
        · have : (k0 + 1 ≤ k ∧ k < k0 + 1 + m ∧ kp k = true) ↔ (k0 ≤ k ∧ k < k0 + (m + 1) ∧ kp k = true) := by
            constructor <;> rintro ⟨a, b, c⟩ <;> exact ⟨by omega, by omega, c⟩
          simp [this, h1]
      · simp [hp]
    · simp only [hk, Bool.false_eq_true, if_false]
      by_cases h1 : k = k0
      · subst h1; simp [hk]
      · have : (k0 + 1 ≤ k ∧ k < k0 + 1 + m ∧ kp k = true) ↔ (k0 ≤ k ∧ k < k0 + (m + 1) ∧ kp k = true) := by
          constructor <;> rintro ⟨a, b, c⟩ <;> exact ⟨by omega, by omega, c⟩
        simp [this]

theorem runUI_sub (kp : Nat → Bool) (m k0 : Nat) (σ : St) (j : Nat) : (runUI kp m k0 σ).sub j = σ.sub j := by
  induction m generalizing k0 σ with
  | zero => simp [runUI]
  | succ m ih =>
    simp only [runUI]; rw [ih]
    split <;> simp

theorem retVal_set_out (σ : St) (r : Nat) (v : Val) (x : Ret) : retVal (σ.set .out r v) x = retVal σ x := by
  cases x <;> simp [retVal]

theorem pushOuts_sub (rets : List Ret) (r0 : Nat) (σ : St) (j : Nat) : (pushOuts rets r0 σ).sub j = σ.sub j := by
  induction rets generalizing r0 σ with
  | nil => simp [pushOuts]
  | cons x xs ih =>
    simp only [pushOuts]; rw [ih]
    split <;> simp

theorem pushOuts_retVal (rets : List Ret) (r0 : Nat) (σ : St) (x : Ret) :
    retVal (pushOuts rets r0 σ) x = retVal σ x := by
  induction rets generalizing r0 σ with
  | nil => simp [pushOuts]
  | cons y ys ih =>
    simp only [pushOuts]; rw [ih]
    split <;> simp [retVal_set_out]

theorem pushOuts_get_other (rets : List Ret) (r0 : Nat) (σ : St) (p : Pan) (k : Nat) (h : p ≠ .out) :
    (pushOuts rets r0 σ).get p k = σ.get p k := by
  induction rets generalizing r0 σ with
  | nil => simp [pushOuts]
  | cons y ys ih =>
    simp only [pushOuts]; rw [ih]
    split <;> simp [h]

theorem pushOuts_get_out (rets : List Ret) (r0 : Nat) (σ : St) (r : Nat) (x : Ret)
    (hr : rets[r]? = some x) (hx : x ∉ rets.drop (r + 1)) :
    (pushOuts rets r0 σ).get .out (r0 + r) = retVal σ x := by
  induction rets generalizing r0 σ r with
  | nil => simp at hr
  | cons y ys ih =>
    simp only [pushOuts]
    cases r with
    | zero =>
      simp at hr; subst hr
      simp at hx
      have hc : ys.contains y = false := by simpa using hx
      simp only [hc, Bool.false_eq_true, if_false, Nat.add_zero]
      -- later pushes touch outputs > r0 only
      have : ∀ (zs : List Ret) (r1 : Nat) (τ : St), r0 < r1 → (pushOuts zs r1 τ).get .out r0 = τ.get .out r0 := by
        intro zs
        induction zs with
        | nil => intro r1 τ _; simp [pushOuts]
        | cons z zs ihz =>
          intro r1 τ hlt
          simp only [pushOuts]
          rw [ihz (r1 + 1) _ (by omega)]
          split
          · rfl
          · simp; omega
      rw [this ys (r0 + 1) _ (by omega)]
      simp
    | succ r =>
      have := ih (r0 + 1) (if ys.contains y then σ else σ.set .out r0 (retVal σ y)) r (by simpa using hr)
        (by simpa using hx)
      have e : r0 + 1 + r = r0 + (r + 1) := by omega
      rw [e] at this
      rw [this]
      split <;> simp [retVal_set_out]


/-! ## `fetch` -/

theorem srcVal_sameOut (kp : Nat → Bool) {σ τ : St} (h : SameOut σ τ) (s : Src) : srcVal kp σ s = srcVal kp τ s := by
  cases s with
  | arg k => simp only [srcVal]; rw [show σ.get .uiOut k = τ.get .uiOut k from h [] .uiOut k (Or.inr rfl)]
  | out j o => simp only [srcVal]; rw [show (σ.sub j).get .out o = (τ.sub j).get .out o from h [j] .out o (Or.inl rfl)]
  | const v => rfl
  | none => rfl

/-- what `fetch` leaves in an input whose keyword argument is `s` and whose value was `own` -/
def fetched (kp : Nat → Bool) (σ : St) (s : Src) (own : Val) : Val :=
  match srcVal kp σ s with
  | some v => if v.isNd then own else v
  | none => own

/-- one step of `fetchKid` -/
def fetchStep (kp : Nat → Bool) (n : Node) (j i0 : Nat) (σ : St) (s : Src) : St :=
  match srcVal kp σ s with
  | some v => if v.isNd then σ else σ.graft j (setIn n (σ.sub j) i0 v)
  | none => σ

theorem fetchKid_cons (kp : Nat → Bool) (n : Node) (j : Nat) (s : Src) (ss : List Src) (i0 : Nat) (σ : St) :
    fetchKid kp n j (s :: ss) i0 σ = fetchKid kp n j ss (i0 + 1) (fetchStep kp n j i0 σ s) := rfl

theorem fetchStep_spec (kp : Nat → Bool) (n : Node) (j i0 : Nat) (σ : St) (s : Src) :
    (∀ p k, (fetchStep kp n j i0 σ s).get p k = σ.get p k) ∧
    (∀ j', j' ≠ j → (fetchStep kp n j i0 σ s).sub j' = σ.sub j') ∧
    SameOut (fetchStep kp n j i0 σ s) σ ∧
    (∀ h, Inv h n (σ.sub j) → Inv h n ((fetchStep kp n j i0 σ s).sub j)) ∧
    (∀ i, ((fetchStep kp n j i0 σ s).sub j).get .inp i =
      if i = i0 then fetched kp σ s ((σ.sub j).get .inp i) else (σ.sub j).get .inp i) := by
  unfold fetchStep fetched
  cases hv : srcVal kp σ s with
  | none =>
    simp only
    exact ⟨by intros; trivial, by intros; trivial, SameOut.refl σ, fun _ h => h, fun i => by split <;> rfl⟩
  | some v =>
    simp only
    by_cases hnd : v.isNd = true
    · simp only [hnd, if_true]
      exact ⟨by intros; trivial, by intros; trivial, SameOut.refl σ, fun _ h => h, fun i => by split <;> rfl⟩
    · simp only [hnd, Bool.false_eq_true, if_false]
      refine ⟨fun p k => St.get_graft _ _ _ _ _, fun j' hj' => St.sub_graft_other _ _ _ _ hj',
        sameOut_graft σ _ j (setIn_sameOut n _ i0 v), ?_, ?_⟩
      · intro h hi; rw [St.sub_graft_same]; exact setIn_inv h n _ i0 v hi
      · intro i; rw [St.sub_graft_same, setIn_get_inp]

theorem fetchKid_spec (kp : Nat → Bool) (n : Node) (j : Nat) : ∀ (ss : List Src) (i0 : Nat) (σ : St),
    (∀ p k, (fetchKid kp n j ss i0 σ).get p k = σ.get p k) ∧
    (∀ j', j' ≠ j → (fetchKid kp n j ss i0 σ).sub j' = σ.sub j') ∧
    SameOut (fetchKid kp n j ss i0 σ) σ ∧
    (∀ h, Inv h n (σ.sub j) → Inv h n ((fetchKid kp n j ss i0 σ).sub j)) ∧
    (∀ i s, i0 ≤ i → ss[i - i0]? = some s →
      ((fetchKid kp n j ss i0 σ).sub j).get .inp i = fetched kp σ s ((σ.sub j).get .inp i)) ∧
    (∀ i, (i < i0 ∨ i0 + ss.length ≤ i) →
      ((fetchKid kp n j ss i0 σ).sub j).get .inp i = (σ.sub j).get .inp i) := by
  intro ss
  induction ss with
  | nil =>
    intro i0 σ
    simp only [fetchKid]
    refine ⟨by intros; trivial, by intros; trivial, SameOut.refl σ, fun _ h => h, ?_, by intros; trivial⟩
    intro i s _ hs; simp at hs
  | cons s ss ih =>
    intro i0 σ
    rw [fetchKid_cons]
    obtain ⟨a1, a2, a3, a4, a5⟩ := fetchStep_spec kp n j i0 σ s
    obtain ⟨b1, b2, b3, b4, b5, b6⟩ := ih (i0 + 1) (fetchStep kp n j i0 σ s)
    refine ⟨fun p k => (b1 p k).trans (a1 p k), fun j' hj' => (b2 j' hj').trans (a2 j' hj'), b3.trans a3,
      fun h hi => b4 h (a4 h hi), ?_, ?_⟩
    · intro i s' hi hs'
      by_cases he : i = i0
      · subst he
        simp at hs'; subst hs'
        rw [b6 i (Or.inl (by omega)), a5 i]; simp
      · have hi' : i0 + 1 ≤ i := by omega
        have hs'' : ss[i - (i0 + 1)]? = some s' := by
          have : i - i0 = (i - (i0 + 1)) + 1 := by omega
          rw [this] at hs'; simpa using hs'
        rw [b5 i s' hi' hs'', a5 i]
        simp only [he, if_false]
        unfold fetched
        rw [srcVal_sameOut kp a3 s']
    · intro i hi
      have hne : i ≠ i0 := by
        rcases hi with hi | hi
        · omega
        · simp at hi; omega
      rw [b6 i (by rcases hi with hi | hi
                   · left; omega
                   · right; simp at hi; omega), a5 i]
      simp [hne]


/-! ## well-formed, closed definitions -/

/-- number of outputs of child `j` -/
def noutsOf (body : List Node) (j : Nat) : Nat :=
  match body[j]? with
  | some n => n.nout
  | none => 0

/-- the keyword argument of input `i` of child `j` refers to something that exists and holds data:
a parameter, an output of an EARLIER child, a value that is data, or a class default that is data -/
def SrcWF (na : Nat) (nouts : Nat → Nat) (j : Nat) (n : Node) (i : Nat) : Src → Prop
  | .arg k => k < na
  | .out j' o => j' < j ∧ o < nouts j'
  | .const v => v ≠ .nd
  | .none => n.dflt i ≠ .nd

def RetWF (na : Nat) (body : List Node) : Ret → Prop
  | .arg k => k < na
  | .out j o => j < body.length ∧ o < noutsOf body j

mutual
def WF : Node → Prop
  | .leaf _ _ => True
  | .mac args body rets _ _ =>
    WFBody args.length (noutsOf body) body 0 ∧ (∀ x, x ∈ rets → RetWF args.length body x)
def WFBody (na : Nat) (nouts : Nat → Nat) : List Node → Nat → Prop
  | [], _ => True
  | n :: ns, j =>
    WF n ∧ n.srcs.length = n.arity ∧ nouts j = n.nout ∧
      (∀ i s, n.srcs[i]? = some s → SrcWF na nouts j n i s) ∧ WFBody na nouts ns (j + 1)
end

mutual
/-- no creator (at any depth) returns the same channel twice -/
def NoDupH : Node → Prop
  | .leaf _ _ => True
  | .mac _ body rets _ _ => rets.Nodup ∧ NoDupHB body
def NoDupHB : List Node → Prop
  | [] => True
  | n :: ns => NoDupH n ∧ NoDupHB ns
end

theorem isNd_false_of_ne {v : Val} (h : v ≠ .nd) : v.isNd = false := by
  cases v <;> simp [Val.isNd] at h ⊢

theorem ne_nd_of_isNd_false {v : Val} (h : v.isNd = false) : v ≠ .nd := by
  intro e; subst e; simp [Val.isNd] at h

theorem anyNd_false (f : Nat → Val) (n : Nat) (h : ∀ k, k < n → f k ≠ .nd) : anyNd f n = false := by
  simp only [anyNd, List.any_eq_false, List.mem_range]
  intro k hk
  simp [isNd_false_of_ne (h k hk)]

theorem memo_lt (n : Nat) (f : Nat → Val) (o : Nat) (h : o < n) : memo n f o = f o := by
  simp [memo, List.getD, h]

theorem nodup_not_mem_drop {α} [DecidableEq α] (l : List α) (hn : l.Nodup) (r : Nat) (x : α)
    (hr : l[r]? = some x) : x ∉ l.drop (r + 1) := by
  induction l generalizing r with
  | nil => simp at hr
  | cons y ys ih =>
    rw [List.nodup_cons] at hn
    cases r with
    | zero =>
      simp at hr; subst hr
      simpa using hn.1
    | succ r => simpa using ih hn.2 r (by simpa using hr)

/-! ## `run` computes the plain composition and re-establishes synchronisation -/

mutual
theorem run_value : ∀ (n : Node) (σ : St) (a : Nat → Val), WF n → NoDupH n → Inv true n σ →
    (∀ i, i < n.arity → σ.get .inp i = a i) → (∀ i, i < n.arity → a i ≠ .nd) →
    ∃ σ', run n σ = some σ' ∧ (∀ p k, p ≠ .out → p ≠ .uiOut → σ'.get p k = σ.get p k) ∧
      Inv true n σ' ∧ OutSync n σ' ∧
      ∀ o, o < n.nout → σ'.get .out o = denote n a o ∧ denote n a o ≠ .nd
  | .leaf f srcs, σ, a, _, _, _, hin, hdata => by
    simp only [Node.arity] at hin hdata
    have hnd : anyNd (σ.get .inp) srcs.length = false :=
      anyNd_false _ _ (fun k hk => by rw [hin k hk]; exact hdata k hk)
    refine ⟨σ.set .out 0 (.app f ((List.range srcs.length).map (σ.get .inp))), by simp [run, hnd], ?_,
      by simp [Inv], by simp [OutSync], ?_⟩
    · intro p k hp _; simp [hp]
    · intro o ho
      simp only [Node.nout] at ho
      have : o = 0 := by omega
      subst this
      simp only [St.get_set, denote, and_self, if_true]
      refine ⟨?_, by simp⟩
      congr 1
      apply List.map_congr_left
      intro i hi
      exact hin i (List.mem_range.mp hi)
  | .mac args body rets oh s, σ, a, hwf, hnodup, hinv, hin, hdata => by
    simp only [Node.arity] at hin hdata
    simp only [WF] at hwf
    simp only [NoDupH] at hnodup
    simp only [Inv] at hinv
    obtain ⟨hui, hbody⟩ := hinv
    have hnd : anyNd (σ.get .inp) args.length = false :=
      anyNd_false _ _ (fun k hk => by rw [hin k hk]; exact hdata k hk)
    have hnd2 : (List.range args.length).any (fun k => kept body rets k && (σ.get .uiIn k).isNd) = false := by
      simp only [List.any_eq_false, List.mem_range, Bool.and_eq_true, not_and, Bool.not_eq_true]
      intro k hk hkept
      rw [hui k hk hkept, hin k hk]
      exact isNd_false_of_ne (hdata k hk)
    -- the UI nodes run
    have hu_get := runUI_get (kept body rets) args.length 0 σ
    have hu_sub := runUI_sub (kept body rets) args.length 0 σ
    have hbody_u : InvBody true (kept body rets) ((runUI (kept body rets) args.length 0 σ).get .inp) body 0
        (runUI (kept body rets) args.length 0 σ) := by
      apply invBody_mono true _ _ _ body 0 σ _ hbody
      · intro jj _; exact hu_sub jj
      · intro _ _ _ k' _ _ _; rw [hu_get]; simp
    obtain ⟨σb, hrb, hroot, _, hinvb, hosb, hvals⟩ :=
      runBody_value (kept body rets) args.length (noutsOf body) a body 0
        (runUI (kept body rets) args.length 0 σ) (fun _ _ => .nd) hwf.1 hnodup.2 hbody_u
        (by intro k hk; rw [hu_get]; simp [hin k hk])
        hdata
        (by
          intro k hk hkept
          rw [hu_get]
          simp only [Nat.zero_le, Nat.zero_add, hk, hkept, and_self, if_true]
          rw [hui k hk hkept, hin k hk])
        (by intro jj o hj; omega)
    refine ⟨pushOuts rets 0 σb, by simp [run, hnd, hnd2, hrb], ?_, ?_, ?_, ?_⟩
    · intro p k hp hp'
      rw [pushOuts_get_other _ _ _ _ _ hp, hroot, hu_get]
      simp [hp']
    · simp only [Inv]
      constructor
      · intro k hk hkept
        rw [pushOuts_get_other _ _ _ _ _ (by simp), pushOuts_get_other _ _ _ _ _ (by simp), hroot, hroot,
          hu_get, hu_get]
        simpa using hui k hk hkept
      · apply invBody_mono true _ _ _ body 0 σb _ hinvb
        · intro jj _; exact pushOuts_sub rets 0 σb jj
        · intro _ _ _ k' _ _ _
          rw [pushOuts_get_other _ _ _ _ _ (by simp), hroot]
    · simp only [OutSync]
      constructor
      · intro r x hr hx
        have := pushOuts_get_out rets 0 σb r x hr hx
        rw [Nat.zero_add] at this
        rw [this, pushOuts_retVal]
      · exact outSyncBody_frame body 0 σb _ (fun jj _ => pushOuts_sub rets 0 σb jj) hosb
    · intro o ho
      simp only [Node.nout] at ho
      have hx : rets[o]? = some rets[o] := by simp [ho]
      have hnot := nodup_not_mem_drop rets hnodup.1 o _ hx
      have hpo := pushOuts_get_out rets 0 σb o _ hx hnot
      rw [Nat.zero_add] at hpo
      rw [hpo]
      have hrw := hwf.2 _ (List.getElem_mem ho)
      simp only [denote, hx]
      cases hxx : rets[o] with
      | arg k =>
        rw [hxx] at hrw
        simp only [RetWF] at hrw
        have hkept : kept body rets k = true := fwd_kept (by rw [← hxx]; exact List.getElem_mem ho)
        simp only [retVal]
        rw [hroot, hu_get]
        simp only [Nat.zero_le, Nat.zero_add, hrw, hkept, and_self, if_true]
        rw [hui k hrw hkept, hin k hrw]
        exact ⟨rfl, hdata k hrw⟩
      | out j oo =>
        rw [hxx] at hrw
        simp only [RetWF] at hrw
        simp only [retVal]
        exact hvals j oo (by omega) hrw.2
theorem runBody_value (kp : Nat → Bool) (na : Nat) (nouts : Nat → Nat) (a : Nat → Val) :
    ∀ (ns : List Node) (j : Nat) (σ : St) (acc : Nat → Nat → Val),
    WFBody na nouts ns j → NoDupHB ns →
    InvBody true kp (σ.get .inp) ns j σ →
    (∀ k, k < na → σ.get .inp k = a k) →
    (∀ k, k < na → a k ≠ .nd) →
    (∀ k, k < na → kp k = true → σ.get .uiOut k = a k) →
    (∀ jj o, jj < j → o < nouts jj → (σ.sub jj).get .out o = acc jj o ∧ acc jj o ≠ .nd) →
    ∃ σb, runBody kp ns j σ = some σb ∧
      (∀ p k, σb.get p k = σ.get p k) ∧
      (∀ jj, jj < j → σb.sub jj = σ.sub jj) ∧
      InvBody true kp (σ.get .inp) ns j σb ∧ OutSyncBody ns j σb ∧
      (∀ jj o, jj < j + ns.length → o < nouts jj →
        (σb.sub jj).get .out o = denoteBody ns j a acc jj o ∧ denoteBody ns j a acc jj o ≠ .nd)
  | [], j, σ, acc, _, _, _, _, _, _, hacc => by
    refine ⟨σ, by simp [runBody], fun _ _ => rfl, fun _ _ => rfl, by simp [InvBody], by simp [OutSyncBody], ?_⟩
    intro jj o hj ho
    simp only [denoteBody]
    exact hacc jj o (by simpa using hj) ho
  | n :: ns, j, σ, acc, hwf, hnodup, hinv, hin, hdata, hui, hacc => by
    simp only [WFBody] at hwf
    obtain ⟨hwfn, harity, hnout, hsrcs, hwfns⟩ := hwf
    simp only [NoDupHB] at hnodup
    simp only [InvBody] at hinv
    obtain ⟨hinvn, hsok, hinvns⟩ := hinv
    obtain ⟨b1, b2, b3, b4, b5, b6⟩ := fetchKid_spec kp n j n.srcs 0 σ
    -- after fetching, every input of the child holds what the keyword argument stands for
    have hres : ∀ i, i < n.arity → ((fetchKid kp n j n.srcs 0 σ).sub j).get .inp i = resolve n a acc i ∧
        resolve n a acc i ≠ .nd := by
      intro i hi
      rw [← harity] at hi
      have hs : n.srcs[i]? = some n.srcs[i] := by simp [hi]
      rw [b5 i _ (Nat.zero_le _) hs]
      have hw := hsrcs i _ hs
      have hok := hsok i _ hs
      unfold resolve fetched
      rw [hs]
      cases hsi : n.srcs[i] with
      | arg k =>
        rw [hsi] at hw hok
        simp only [SrcWF] at hw
        simp only [SrcOk] at hok
        simp only [srcVal]
        by_cases hk : kp k = true
        · simp only [hk, if_true]
          rw [hui k hw hk, isNd_false_of_ne (hdata k hw)]
          exact ⟨by simp, hdata k hw⟩
        · simp only [hk, Bool.false_eq_true, if_false]
          rw [hok (by simpa using hk), hin k hw]
          exact ⟨rfl, hdata k hw⟩
      | out j' o =>
        rw [hsi] at hw
        simp only [SrcWF] at hw
        simp only [srcVal]
        obtain ⟨e1, e2⟩ := hacc j' o hw.1 hw.2
        rw [e1, isNd_false_of_ne e2]
        exact ⟨by simp, e2⟩
      | const v =>
        rw [hsi] at hw hok
        simp only [SrcWF] at hw
        simp only [SrcOk] at hok
        simp only [srcVal]
        exact ⟨hok trivial, hw⟩
      | none =>
        rw [hsi] at hw hok
        simp only [SrcWF] at hw
        simp only [SrcOk] at hok
        simp only [srcVal]
        exact ⟨hok trivial, hw⟩
    obtain ⟨τ, hrun, hτroot, hτinv, hτos, hτvals⟩ :=
      run_value n ((fetchKid kp n j n.srcs 0 σ).sub j) (resolve n a acc) hwfn hnodup.1 (b4 true hinvn)
        (fun i hi => (hres i hi).1) (fun i hi => (hres i hi).2)
    -- the rest of the body
    have hsub2 : ∀ jj, jj ≠ j → (St.graft (fetchKid kp n j n.srcs 0 σ) j τ).sub jj = σ.sub jj := by
      intro jj hjj
      rw [St.sub_graft_other _ _ _ _ hjj, b2 jj hjj]
    have hroot2 : ∀ p k, (St.graft (fetchKid kp n j n.srcs 0 σ) j τ).get p k = σ.get p k := by
      intro p k; rw [St.get_graft, b1]
    obtain ⟨σb, hrb, hrootb, hframeb, hinvb, hosb, hvalsb⟩ :=
      runBody_value kp na nouts a ns (j + 1) (St.graft (fetchKid kp n j n.srcs 0 σ) j τ)
        (fun j' => if j' = j then memo n.nout (denote n (resolve n a acc)) else acc j')
        hwfns hnodup.2
        (by
          apply invBody_mono true _ _ _ ns (j + 1) σ _ hinvns
          · intro jj hjj; exact hsub2 jj (by omega)
          · intro _ _ _ k' _ _ _; rw [hroot2])
        (by intro k hk; rw [hroot2]; exact hin k hk)
        hdata
        (by intro k hk hkp; rw [hroot2]; exact hui k hk hkp)
        (by
          intro jj o hjj ho
          by_cases he : jj = j
          · subst he
            rw [St.sub_graft_same]
            simp only [if_true]
            rw [hnout] at ho
            rw [memo_lt _ _ _ ho]
            exact hτvals o ho
          · rw [hsub2 jj he]
            simp only [he, if_false]
            exact hacc jj o (by omega) ho)
    have hσbj : σb.sub j = τ := by rw [hframeb j (by omega), St.sub_graft_same]
    refine ⟨σb, by simp only [runBody, hrun, hrb], ?_, ?_, ?_, ?_, ?_⟩
    · intro p k; rw [hrootb, hroot2]
    · intro jj hjj; rw [hframeb jj (by omega), hsub2 jj (by omega)]
    · simp only [InvBody]
      refine ⟨by rw [hσbj]; exact hτinv, ?_, ?_⟩
      · intro i s hs
        rw [hσbj]
        have hold := hsok i s hs
        have hfetch := b5 i s (Nat.zero_le _) (by simpa using hs)
        cases s with
        | arg k =>
          simp only [SrcOk] at hold ⊢
          intro hk
          rw [hτroot .inp i (by simp) (by simp), hfetch]
          simp [fetched, srcVal, hk, hold hk]
        | out a b => trivial
        | const v =>
          simp only [SrcOk] at hold ⊢
          intro hh
          rw [hτroot .inp i (by simp) (by simp), hfetch]
          simp [fetched, srcVal, hold hh]
        | none =>
          simp only [SrcOk] at hold ⊢
          intro hh
          rw [hτroot .inp i (by simp) (by simp), hfetch]
          simp [fetched, srcVal, hold hh]
      · apply invBody_mono true _ _ _ ns (j + 1) σb _ hinvb
        · intro _ _; rfl
        · intro _ _ _ k' _ _ _; rw [hroot2]
    · simp only [OutSyncBody]
      exact ⟨by rw [hσbj]; exact hτos, hosb⟩
    · intro jj o hjj ho
      simp only [denoteBody]
      exact hvalsb jj o (by simp at hjj; omega) ho
end


/-! ## construction establishes the invariant -/

theorem invBody_of_pointwise (h : Bool) (kp : Nat → Bool) (inp : Nat → Val) (ns : List Node) (b : Nat) (σ : St)
    (hp : ∀ (t : Nat) (n : Node), ns[t]? = some n →
      Inv h n (σ.sub (b + t)) ∧ ∀ i s, n.srcs[i]? = some s → SrcOk kp inp h n (σ.sub (b + t)) i s) :
    InvBody h kp inp ns b σ := by
  induction ns generalizing b with
  | nil => simp [InvBody]
  | cons n ns ih =>
    simp only [InvBody]
    have h0 := hp 0 n (by simp)
    refine ⟨by simpa using h0.1, by simpa using h0.2, ih (b + 1) ?_⟩
    intro t m ht
    have := hp (t + 1) m (by simpa using ht)
    have e : b + (t + 1) = b + 1 + t := by omega
    rw [e] at this
    exact this

theorem setInKid_inp (body : List Node) (j i : Nat) (v : Val) (σ : St) (t i' : Nat) :
    ((setInKid body 0 j i v σ).sub t).get .inp i' =
      if t = j ∧ i' = i ∧ body[j]? ≠ none then v else (σ.sub t).get .inp i' := by
  by_cases ht : t = j
  · subst ht
    cases hb : body[t]? with
    | none => rw [setInKid_none body 0 t i v σ hb]; simp
    | some n =>
      have := setInKid_sub_target body 0 t i v σ n hb
      rw [Nat.zero_add] at this
      rw [this, setIn_get_inp]
      by_cases hi : i' = i <;> simp [hi]
  · rw [setInKid_sub_other body 0 j i v σ t (by omega)]
    simp [ht]

theorem setInKid_kidInv (h : Bool) (body : List Node) (j i : Nat) (v : Val) (σ : St) (t : Nat) (n : Node)
    (hn : body[t]? = some n) (hi : Inv h n (σ.sub t)) : Inv h n ((setInKid body 0 j i v σ).sub t) := by
  by_cases ht : t = j
  · subst ht
    have := setInKid_sub_target body 0 t i v σ n hn
    rw [Nat.zero_add] at this
    rw [this]; exact setIn_inv h n _ i v hi
  · rw [setInKid_sub_other body 0 j i v σ t (by omega)]; exact hi

/-- one round of the purge loop -/
def purgeStep (body : List Node) (rets : List Ret) (k0 : Nat) (σ : St) : St :=
  match link body rets k0 with
  | .child j i => setInKid body 0 j i (σ.get .inp k0) σ
  | _ => σ

theorem purgePush_succ (body : List Node) (rets : List Ret) (m k0 : Nat) (σ : St) :
    purgePush body rets (m + 1) k0 σ = purgePush body rets m (k0 + 1) (purgeStep body rets k0 σ) := by
  simp only [purgePush, purgeStep]
  cases link body rets k0 <;> rfl

theorem purgeStep_spec (h : Bool) (body : List Node) (rets : List Ret) (k0 : Nat) (σ : St) :
    (∀ p k, (purgeStep body rets k0 σ).get p k = σ.get p k) ∧ SameOut (purgeStep body rets k0 σ) σ ∧
    (∀ t n, body[t]? = some n → Inv h n (σ.sub t) → Inv h n ((purgeStep body rets k0 σ).sub t)) ∧
    (∀ t i, ((purgeStep body rets k0 σ).sub t).get .inp i =
      if srcAt body t i = some (.arg k0) ∧ kept body rets k0 = false then σ.get .inp k0
      else (σ.sub t).get .inp i) := by
  unfold purgeStep
  cases hl : link body rets k0 with
  | ui =>
    have hk : kept body rets k0 = true := by simp [kept, hl]
    simp only
    exact ⟨by intros; trivial, SameOut.refl σ, fun _ _ _ hi => hi, by intro t i; simp [hk]⟩
  | gone =>
    simp only
    refine ⟨by intros; trivial, SameOut.refl σ, fun _ _ _ hi => hi, ?_⟩
    intro t i
    have := (link_gone hl).2 t i
    simp [this]
  | child j i =>
    simp only
    obtain ⟨hkf, hsrc, huniq⟩ := link_child hl
    refine ⟨fun p k => setInKid_get _ _ _ _ _ _ _ _, setInKid_sameOut _ _ _ _ _ _,
      fun t n hn hi => setInKid_kidInv h body j i _ σ t n hn hi, ?_⟩
    intro t i'
    rw [setInKid_inp]
    have hbj : body[j]? ≠ none := by
      intro e; simp [srcAt, e] at hsrc
    by_cases hc : srcAt body t i' = some (.arg k0)
    · have := huniq t i' hc
      rw [if_pos ⟨this.1, this.2, hbj⟩, if_pos ⟨hc, hkf⟩]
    · have hne : ¬ (t = j ∧ i' = i) := by
        rintro ⟨rfl, rfl⟩; exact hc hsrc
      rw [if_neg (by rintro ⟨x, y, _⟩; exact hne ⟨x, y⟩), if_neg (by rintro ⟨x, _⟩; exact hc x)]

theorem purgePush_spec (h : Bool) (body : List Node) (rets : List Ret) : ∀ (m k0 : Nat) (σ : St),
    (∀ p k, (purgePush body rets m k0 σ).get p k = σ.get p k) ∧
    SameOut (purgePush body rets m k0 σ) σ ∧
    (∀ t n, body[t]? = some n → Inv h n (σ.sub t) → Inv h n ((purgePush body rets m k0 σ).sub t)) ∧
    (∀ t i, ((purgePush body rets m k0 σ).sub t).get .inp i =
      match srcAt body t i with
      | some (.arg k) =>
        if k0 ≤ k ∧ k < k0 + m ∧ kept body rets k = false then σ.get .inp k else (σ.sub t).get .inp i
      | _ => (σ.sub t).get .inp i) := by
  intro m
  induction m with
  | zero =>
    intro k0 σ
    simp only [purgePush]
    refine ⟨by intros; trivial, SameOut.refl σ, fun _ _ _ hi => hi, ?_⟩
    intro t i
    split
    · rename_i k _
      rw [if_neg (by rintro ⟨x, y, _⟩; omega)]
    · rfl
  | succ m ih =>
    intro k0 σ
    rw [purgePush_succ]
    obtain ⟨a1, a2, a3, a4⟩ := purgeStep_spec h body rets k0 σ
    obtain ⟨b1, b2, b3, b4⟩ := ih (k0 + 1) (purgeStep body rets k0 σ)
    refine ⟨fun p k => (b1 p k).trans (a1 p k), b2.trans a2, fun t n hn hi => b3 t n hn (a3 t n hn hi), ?_⟩
    intro t i
    rw [b4 t i]
    cases hs : srcAt body t i with
    | none => simp only; rw [a4]; simp [hs]
    | some s =>
      cases s with
      | arg k =>
        simp only
        rw [a1, a4, hs]
        by_cases hk : k = k0
        · subst hk
          by_cases hkf : kept body rets k = false
          · rw [if_neg (by rintro ⟨x, _⟩; omega), if_pos ⟨rfl, hkf⟩, if_pos ⟨by omega, by omega, hkf⟩]
          · rw [if_neg (by rintro ⟨x, _⟩; omega), if_neg (by rintro ⟨_, x⟩; exact hkf x),
              if_neg (by rintro ⟨_, _, x⟩; exact hkf x)]
        · have h2 : ¬ (some (Src.arg k) = some (Src.arg k0) ∧ kept body rets k0 = false) := by
            rintro ⟨e, _⟩; simp at e; exact hk e
          rw [if_neg h2]
          by_cases hc : k0 + 1 ≤ k ∧ k < k0 + 1 + m ∧ kept body rets k = false
          · rw [if_pos hc, if_pos ⟨by omega, by omega, hc.2.2⟩]
          · rw [if_neg hc, if_neg (by rintro ⟨x, y, z⟩; exact hc ⟨by omega, by omega, z⟩)]
      | out a b => simp only; rw [a4]; simp [hs]
      | const v => simp only; rw [a4]; simp [hs]
      | none => simp only; rw [a4]; simp [hs]


theorem applyConsts_spec (n : Node) : ∀ (ss : List Src) (i0 : Nat) (τ : St),
    SameOut (applyConsts n ss i0 τ) τ ∧ (∀ h, Inv h n τ → Inv h n (applyConsts n ss i0 τ)) ∧
    (∀ i, (applyConsts n ss i0 τ).get .inp i =
      match (if i0 ≤ i then ss[i - i0]? else none) with
      | some (.const v) => v
      | _ => τ.get .inp i) := by
  intro ss
  induction ss with
  | nil =>
    intro i0 τ
    simp only [applyConsts]
    refine ⟨SameOut.refl τ, fun _ h => h, ?_⟩
    intro i; split <;> simp_all
  | cons s ss ih =>
    intro i0 τ
    have hidx : ∀ i, i0 + 1 ≤ i → (s :: ss)[i - i0]? = ss[i - (i0 + 1)]? := by
      intro i hi
      have : i - i0 = (i - (i0 + 1)) + 1 := by omega
      rw [this]; simp
    cases s with
    | const v =>
      simp only [applyConsts]
      obtain ⟨b1, b2, b3⟩ := ih (i0 + 1) (setIn n τ i0 v)
      refine ⟨b1.trans (setIn_sameOut n τ i0 v), fun h hi => b2 h (setIn_inv h n τ i0 v hi), ?_⟩
      intro i
      rw [b3 i]
      by_cases hi : i0 + 1 ≤ i
      · have h0 : i0 ≤ i := by omega
        simp only [hi, h0, if_true, hidx i hi]
        split
        · rfl
        · rw [setIn_get_inp]; simp; omega
      · simp only [hi, if_false]
        rw [setIn_get_inp]
        by_cases he : i = i0
        · subst he; simp
        · have : ¬ i0 ≤ i := by omega
          simp [he, this]
    | arg k =>
      simp only [applyConsts]
      obtain ⟨b1, b2, b3⟩ := ih (i0 + 1) τ
      refine ⟨b1, b2, ?_⟩
      intro i
      rw [b3 i]
      by_cases hi : i0 + 1 ≤ i
      · have h0 : i0 ≤ i := by omega
        simp only [hi, h0, if_true, hidx i hi]
      · simp only [hi, if_false]
        by_cases he : i = i0
        · subst he; simp
        · have : ¬ i0 ≤ i := by omega
          simp [this]
    | out a b =>
      simp only [applyConsts]
      obtain ⟨b1, b2, b3⟩ := ih (i0 + 1) τ
      refine ⟨b1, b2, ?_⟩
      intro i
      rw [b3 i]
      by_cases hi : i0 + 1 ≤ i
      · have h0 : i0 ≤ i := by omega
        simp only [hi, h0, if_true, hidx i hi]
      · simp only [hi, if_false]
        by_cases he : i = i0
        · subst he; simp
        · have : ¬ i0 ≤ i := by omega
          simp [this]
    | none =>
      simp only [applyConsts]
      obtain ⟨b1, b2, b3⟩ := ih (i0 + 1) τ
      refine ⟨b1, b2, ?_⟩
      intro i
      rw [b3 i]
      by_cases hi : i0 + 1 ≤ i
      · have h0 : i0 ≤ i := by omega
        simp only [hi, h0, if_true, hidx i hi]
      · simp only [hi, if_false]
        by_cases he : i = i0
        · subst he; simp
        · have : ¬ i0 ≤ i := by omega
          simp [this]

theorem buildBody_spec : ∀ (ns : List Node) (j : Nat) (σ : St),
    (∀ p k, (buildBody ns j σ).get p k = σ.get p k) ∧
    (∀ t n, ns[t]? = some n → (buildBody ns j σ).sub (j + t) = applyConsts n n.srcs 0 (build n)) ∧
    (∀ jj, (jj < j ∨ j + ns.length ≤ jj) → (buildBody ns j σ).sub jj = σ.sub jj) := by
  intro ns
  induction ns with
  | nil =>
    intro j σ
    simp only [buildBody]
    exact ⟨by intros; trivial, by intro t n h; simp at h, by intros; trivial⟩
  | cons m ns ih =>
    intro j σ
    simp only [buildBody]
    obtain ⟨b1, b2, b3⟩ := ih (j + 1) (σ.graft j (applyConsts m m.srcs 0 (build m)))
    refine ⟨fun p k => by rw [b1, St.get_graft], ?_, ?_⟩
    · intro t n ht
      cases t with
      | zero =>
        simp at ht; subst ht
        show (buildBody ns (j + 1) _).sub j = _
        rw [b3 j (Or.inl (by omega)), St.sub_graft_same]
      | succ t =>
        have := b2 t n (by simpa using ht)
        have e : j + (t + 1) = j + 1 + t := by omega
        rw [e]; exact this
    · intro jj hjj
      rw [b3 jj (by rcases hjj with h | h
                    · left; omega
                    · right; simp at h; omega)]
      exact St.sub_graft_other _ _ _ _ (by rcases hjj with h | h
                                           · omega
                                           · simp at h; omega)

theorem build_root (args : List Arg) (body : List Node) (rets : List Ret) (oh : List Nat) (s : List Src)
    (p : Pan) (k : Nat) :
    (build (.mac args body rets oh s)).get p k =
      if (p = .inp ∨ p = .uiIn) ∧ k < args.length then (args.getD k ⟨.nd, 0⟩).dflt else .nd := by
  simp only [build]
  rw [(purgePush_spec true body rets args.length 0 _).1, (buildBody_spec body 0 _).1]
  simp only [St.get, initMac]
  cases p <;> simp

theorem build_inp (n : Node) (i : Nat) (h : i < n.arity) : (build n).get .inp i = n.dflt i := by
  cases n with
  | leaf f s => simp only [Node.arity] at h; simp [build, St.get, Node.dflt, h]
  | mac args body rets oh s =>
    simp only [Node.arity] at h
    rw [build_root]; simp [Node.dflt, h]

mutual
theorem build_out_nd : ∀ (n : Node) (q : Path) (p : Pan) (k : Nat), (p = .out ∨ p = .uiOut) →
    (build n).fn q p k = .nd
  | .leaf _ _, q, p, k, hp => by
    simp only [build]
    rcases hp with hp | hp <;> simp [hp]
  | .mac args body rets oh s, q, p, k, hp => by
    simp only [build]
    rw [(purgePush_spec true body rets args.length 0 _).2.1 q p k hp]
    exact buildBody_out_nd body 0 _ (by
      intro q' p' k' hp'
      rcases hp' with hp' | hp' <;> subst hp' <;> cases q' <;> simp [initMac]) q p k hp
theorem buildBody_out_nd : ∀ (ns : List Node) (j : Nat) (σ : St),
    (∀ q p k, (p = .out ∨ p = .uiOut) → σ.fn q p k = .nd) →
    ∀ q p k, (p = .out ∨ p = .uiOut) → (buildBody ns j σ).fn q p k = .nd
  | [], _, σ, h, q, p, k, hp => by simpa [buildBody] using h q p k hp
  | n :: ns, j, σ, h, q, p, k, hp => by
    simp only [buildBody]
    apply buildBody_out_nd ns (j + 1) _ _ q p k hp
    intro q' p' k' hp'
    cases q' with
    | nil => simpa [St.graft] using h [] p' k' hp'
    | cons a r =>
      by_cases ha : a = j
      · subst ha
        simp only [St.graft, if_true]
        rw [(applyConsts_spec n n.srcs 0 (build n)).1 r p' k' hp']
        exact build_out_nd n r p' k' hp'
      · simpa [St.graft, ha] using h (a :: r) p' k' hp'
end

mutual
theorem outSync_of_nd : ∀ (n : Node) (σ : St), (∀ q p k, (p = .out ∨ p = .uiOut) → σ.fn q p k = .nd) → OutSync n σ
  | .leaf _ _, _, _ => by simp [OutSync]
  | .mac _ body rets _ _, σ, h => by
    simp only [OutSync]
    refine ⟨?_, outSyncBody_of_nd body 0 σ h⟩
    intro r x _ _
    have h1 : σ.get .out r = .nd := h [] .out r (Or.inl rfl)
    rw [h1]
    cases x with
    | arg k => exact (h [] .uiOut k (Or.inr rfl)).symm
    | out j o => exact (h [j] .out o (Or.inl rfl)).symm
theorem outSyncBody_of_nd : ∀ (ns : List Node) (j : Nat) (σ : St),
    (∀ q p k, (p = .out ∨ p = .uiOut) → σ.fn q p k = .nd) → OutSyncBody ns j σ
  | [], _, _, _ => by simp [OutSyncBody]
  | n :: ns, j, σ, h => by
    simp only [OutSyncBody]
    exact ⟨outSync_of_nd n (σ.sub j) (fun q p k hp => h (j :: q) p k hp), outSyncBody_of_nd ns (j + 1) σ h⟩
end

theorem wfBody_get (na : Nat) (nouts : Nat → Nat) (ns : List Node) (j t : Nat) (n : Node)
    (hwf : WFBody na nouts ns j) (hn : ns[t]? = some n) :
    WF n ∧ n.srcs.length = n.arity ∧ nouts (j + t) = n.nout ∧
      ∀ i s, n.srcs[i]? = some s → SrcWF na nouts (j + t) n i s := by
  induction ns generalizing j t with
  | nil => simp at hn
  | cons m ns ih =>
    simp only [WFBody] at hwf
    cases t with
    | zero =>
      simp at hn; subst hn
      exact ⟨hwf.1, hwf.2.1, hwf.2.2.1, hwf.2.2.2.1⟩
    | succ t =>
      have := ih (j + 1) t hwf.2.2.2.2 (by simpa using hn)
      have e : j + 1 + t = j + (t + 1) := by omega
      rw [e] at this
      exact this

mutual
/-- right after construction every macro input holds the value of the channel it is linked to,
every keyword value and class default is in place -/
theorem build_inv : ∀ (n : Node), WF n → Inv true n (build n)
  | .leaf _ _, _ => by simp [Inv]
  | .mac args body rets oh s, hwf => by
    simp only [WF] at hwf
    simp only [Inv]
    constructor
    · intro k hk _
      rw [build_root, build_root]; simp [hk]
    · apply invBody_of_pointwise
      intro t n hn
      obtain ⟨hwn, har, _, hsw⟩ := wfBody_get _ _ body 0 t n hwf.1 hn
      rw [Nat.zero_add] at hsw ⊢
      simp only [build]
      obtain ⟨p1, _, p3, p4⟩ := purgePush_spec true body rets args.length 0
        (buildBody body 0 (initMac args))
      obtain ⟨_, b2, _⟩ := buildBody_spec body 0 (initMac args)
      have hsub := b2 t n hn
      rw [Nat.zero_add] at hsub
      obtain ⟨_, c2, c3⟩ := applyConsts_spec n n.srcs 0 (build n)
      constructor
      · apply p3 t n hn
        rw [hsub]
        exact c2 true (buildL_inv body _ _ 0 hwf.1 t n hn)
      · intro i s' hs'
        have hsa : srcAt body t i = some s' := by simp [srcAt, hn, hs']
        have hval := p4 t i
        rw [hsa] at hval
        have hil : i < n.arity := by
          rw [← har]
          exact (List.getElem?_eq_some_iff.mp hs').1
        cases s' with
        | arg k =>
          simp only [SrcOk]
          intro hk
          have hka : k < args.length := by
            have := hsw i _ hs'; simpa [SrcWF] using this
          simp only at hval
          rw [hval, if_pos ⟨Nat.zero_le _, by omega, hk⟩, p1]
        | out a b => trivial
        | const v =>
          simp only [SrcOk]
          intro _
          simp only at hval
          rw [hval, hsub, c3 i]
          simp [hs']
        | none =>
          simp only [SrcOk]
          intro _
          simp only at hval
          rw [hval, hsub, c3 i]
          simp only [Nat.zero_le, if_true, Nat.sub_zero, hs']
          exact build_inp n i hil
theorem buildL_inv : ∀ (ns : List Node) (na : Nat) (nouts : Nat → Nat) (j : Nat), WFBody na nouts ns j →
    ∀ (t : Nat) (n : Node), ns[t]? = some n → Inv true n (build n)
  | [], _, _, _, _, t, n, hn => by simp at hn
  | m :: ns, na, nouts, j, hwf, t, n, hn => by
    simp only [WFBody] at hwf
    cases t with
    | zero =>
      simp at hn; subst hn
      exact build_inv _ hwf.1
    | succ t => exact buildL_inv ns na nouts (j + 1) hwf.2.2.2.2 t n (by simpa using hn)
end

theorem build_outSync (n : Node) : OutSync n (build n) := outSync_of_nd n _ (build_out_nd n)


/-- what `Inv` says about the macro's own inputs, in terms of the link made by the purge rule -/
theorem inv_link {h : Bool} {args body rets oh s} {σ : St} (hinv : Inv h (.mac args body rets oh s) σ)
    (k : Nat) (hk : k < args.length) :
    match link body rets k with
    | .ui => σ.get .uiIn k = σ.get .inp k
    | .child j i => (σ.sub j).get .inp i = σ.get .inp k
    | .gone => True := by
  simp only [Inv] at hinv
  cases hl : link body rets k with
  | ui => exact hinv.1 k hk (by simp [kept, hl])
  | gone => trivial
  | child j i =>
    simp only
    obtain ⟨hkf, hsrc, _⟩ := link_child hl
    -- walk to child j
    have key : ∀ (ns : List Node) (b : Nat), InvBody h (kept body rets) (σ.get .inp) ns b σ →
        ∀ (t : Nat) (n : Node), ns[t]? = some n → ∀ i' s', n.srcs[i']? = some s' →
          SrcOk (kept body rets) (σ.get .inp) h n (σ.sub (b + t)) i' s' := by
      intro ns
      induction ns with
      | nil => intro b _ t n hn; simp at hn
      | cons m ns ih =>
        intro b hb t n hn i' s' hs'
        simp only [InvBody] at hb
        cases t with
        | zero => simp at hn; subst hn; exact hb.2.1 i' s' hs'
        | succ t =>
          have := ih (b + 1) hb.2.2 t n (by simpa using hn) i' s' hs'
          have e : b + 1 + t = b + (t + 1) := by omega
          rw [e] at this; exact this
    unfold srcAt at hsrc
    cases hb : body[j]? with
    | none => simp [hb] at hsrc
    | some n =>
      simp only [hb] at hsrc
      have := key body 0 hinv.2 j n hb i _ hsrc
      simp only [SrcOk, Nat.zero_add] at this
      exact this hkf

/-! ## duplicate returns -/

theorem hasDup_false (rets : List Ret) (h : hasDup rets = false) : rets.Nodup := by
  induction rets with
  | nil => simp
  | cons r rs ih =>
    simp only [hasDup, Bool.or_eq_false_iff] at h
    rw [List.nodup_cons]
    exact ⟨by simpa using h.1, ih h.2⟩

mutual
/-- with the proposed repair a definition that can be instantiated returns no channel twice -/
theorem buildErr_repaired_nodup : ∀ (n : Node), buildErr Cfg.repaired n = false → NoDupH n
  | .leaf _ _, _ => by simp [NoDupH]
  | .mac args body rets oh s, h => by
    simp only [buildErr, Bool.or_eq_false_iff, Cfg.repaired, Bool.true_and] at h
    simp only [NoDupH]
    exact ⟨hasDup_false rets h.1.2, bodyErr_repaired_nodup body body h.1.1.1⟩
theorem bodyErr_repaired_nodup (whole : List Node) : ∀ (ns : List Node), bodyErr Cfg.repaired whole ns = false → NoDupHB ns
  | [], _ => by simp [NoDupHB]
  | n :: ns, h => by
    simp only [bodyErr, Bool.or_eq_false_iff] at h
    simp only [NoDupHB]
    exact ⟨buildErr_repaired_nodup n h.1.1, bodyErr_repaired_nodup whole ns h.2⟩
end

/-! ## isolation -/

/-- the partner of a connection of a child input is what the creator's keyword argument named:
a UI node that was kept, or an output of another child -/
def PeerOk (kp : Nat → Bool) (s : Option Src) : Peer → Prop
  | .ui k => kp k = true ∧ s = some (.arg k)
  | .kid j o => s = some (.out j o)

theorem mem_kidConns (kp : Nat → Bool) (ss : List Src) (i0 i : Nat) (p : Peer) (h : (i, p) ∈ kidConns kp ss i0) :
    i0 ≤ i ∧ PeerOk kp ss[i - i0]? p := by
  induction ss generalizing i0 with
  | nil => simp [kidConns] at h
  | cons s ss ih =>
    have step : (i, p) ∈ kidConns kp ss (i0 + 1) → i0 ≤ i ∧ PeerOk kp (s :: ss)[i - i0]? p := by
      intro h'
      obtain ⟨h1, h2⟩ := ih (i0 + 1) h'
      have e : i - i0 = (i - (i0 + 1)) + 1 := by omega
      refine ⟨by omega, ?_⟩
      rw [e]
      simpa using h2
    cases s with
    | arg k =>
      simp only [kidConns, List.mem_append] at h
      rcases h with h | h
      · by_cases hk : kp k = true
        · simp [hk] at h
          obtain ⟨rfl, rfl⟩ := h
          simp [PeerOk, hk]
        · simp [hk] at h
      · exact step h
    | out j o =>
      simp only [kidConns, List.mem_cons] at h
      rcases h with h | h
      · cases h; simp [PeerOk]
      · exact step h
    | const v => simp only [kidConns] at h; exact step h
    | none => simp only [kidConns] at h; exact step h


/-! ## inlining preserves the meaning -/

theorem denote_oob (n : Node) (a : Nat → Val) (o : Nat) (h : n.nout ≤ o) : denote n a o = .nd := by
  cases n with
  | leaf f s =>
    simp only [Node.nout] at h
    have : o ≠ 0 := by omega
    simp [denote, this]
  | mac args body rets oh s =>
    simp only [Node.nout] at h
    have : rets[o]? = none := by simp [h]
    simp [denote, this]

theorem memo_denote (n : Node) (a : Nat → Val) : memo n.nout (denote n a) = denote n a := by
  funext o
  by_cases h : o < n.nout
  · exact memo_lt _ _ _ h
  · rw [denote_oob n a o (by omega)]
    have : (List.range n.nout)[o]? = none := by simp; omega
    simp [memo, List.getD, this]

theorem evalFlat_append (l1 l2 : List FNode) (b : Nat) (env : Nat → Val) :
    evalFlat (l1 ++ l2) b env = evalFlat l2 (b + l1.length) (evalFlat l1 b env) := by
  induction l1 generalizing b env with
  | nil => simp [evalFlat]
  | cons n l1 ih =>
    simp only [List.cons_append, evalFlat, List.length_cons]
    rw [ih]
    congr 1; omega

theorem evalFlat_frame (l : List FNode) (b : Nat) (env : Nat → Val) (i : Nat) (h : i < b) :
    evalFlat l b env i = env i := by
  induction l generalizing b env with
  | nil => simp [evalFlat]
  | cons n l ih =>
    simp only [evalFlat]
    rw [ih (b + 1) _ (by omega)]
    simp [updF]; omega

/-- a source that only looks below `b` -/
def FSrc.Below (b : Nat) : FSrc → Prop
  | .const _ => True
  | .node i => i < b

theorem FSrc.eval_stable {s : FSrc} {b : Nat} {env env' : Nat → Val} (hs : s.Below b)
    (h : ∀ i, i < b → env' i = env i) : s.eval env' = s.eval env := by
  cases s with
  | const v => rfl
  | node i => exact h i hs

theorem FSrc.Below.mono {s : FSrc} {b b' : Nat} (hs : s.Below b) (h : b ≤ b') : s.Below b' := by
  cases s with
  | const v => trivial
  | node i => exact Nat.lt_of_lt_of_le hs h

theorem fresolve_eval (n : Node) (inp : Nat → FSrc) (acc : Nat → Nat → FSrc) (env : Nat → Val)
    (dacc : Nat → Nat → Val) (hacc : ∀ j o, (acc j o).eval env = dacc j o) (i : Nat) :
    (fresolve n inp acc i).eval env = resolve n (fun k => (inp k).eval env) dacc i := by
  unfold fresolve resolve
  cases n.srcs[i]? with
  | none => rfl
  | some s =>
    cases s with
    | arg k => rfl
    | out j o => exact hacc j o
    | const v => rfl
    | none => rfl

theorem fresolve_below (n : Node) (inp : Nat → FSrc) (acc : Nat → Nat → FSrc) (b : Nat)
    (hinp : ∀ k, (inp k).Below b) (hacc : ∀ j o, (acc j o).Below b) (i : Nat) : (fresolve n inp acc i).Below b := by
  unfold fresolve
  cases n.srcs[i]? with
  | none => trivial
  | some s =>
    cases s with
    | arg k => exact hinp k
    | out j o => exact hacc j o
    | const v => trivial
    | none => trivial

mutual
theorem flat_spec : ∀ (n : Node) (inp : Nat → FSrc) (base : Nat) (env : Nat → Val),
    (∀ k, (inp k).Below base) →
    (∀ i, i < base → evalFlat (flat n inp base).1 base env i = env i) ∧
    (∀ o, ((flat n inp base).2 o).Below (base + (flat n inp base).1.length)) ∧
    (∀ o, ((flat n inp base).2 o).eval (evalFlat (flat n inp base).1 base env) =
      denote n (fun k => (inp k).eval env) o)
  | .leaf f srcs, inp, base, env, hinp => by
    simp only [flat]
    refine ⟨fun i hi => evalFlat_frame _ _ _ _ hi, ?_, ?_⟩
    · intro o
      by_cases ho : o = 0
      · simp [ho, FSrc.Below]
      · simp [ho, FSrc.Below]
    · intro o
      by_cases ho : o = 0
      · subst ho
        simp [evalFlat, FSrc.eval, denote, updF, List.map_map, Function.comp_def]
      · simp [ho, FSrc.eval, denote]
  | .mac args body rets oh s, inp, base, env, hinp => by
    simp only [flat]
    obtain ⟨h1, h2, h3⟩ := flatBody_spec body 0 inp base (fun _ _ => .const .nd) env (fun _ _ => .nd) hinp
      (fun _ _ => trivial) (fun _ _ => rfl)
    refine ⟨h1, ?_, ?_⟩
    · intro o
      cases hr : rets[o]? with
      | none => trivial
      | some x =>
        cases x with
        | arg k => exact (hinp k).mono (by omega)
        | out j oo => exact h2 j oo
    · intro o
      simp only [denote]
      cases hr : rets[o]? with
      | none => rfl
      | some x =>
        cases x with
        | arg k => exact FSrc.eval_stable (hinp k) h1
        | out j oo => exact h3 j oo
theorem flatBody_spec : ∀ (ns : List Node) (j : Nat) (inp : Nat → FSrc) (base : Nat) (acc : Nat → Nat → FSrc)
    (env : Nat → Val) (dacc : Nat → Nat → Val),
    (∀ k, (inp k).Below base) → (∀ j' o, (acc j' o).Below base) →
    (∀ j' o, (acc j' o).eval env = dacc j' o) →
    (∀ i, i < base → evalFlat (flatBody ns j inp base acc).1 base env i = env i) ∧
    (∀ j' o, ((flatBody ns j inp base acc).2 j' o).Below (base + (flatBody ns j inp base acc).1.length)) ∧
    (∀ j' o, ((flatBody ns j inp base acc).2 j' o).eval (evalFlat (flatBody ns j inp base acc).1 base env) =
      denoteBody ns j (fun k => (inp k).eval env) dacc j' o)
  | [], j, inp, base, acc, env, dacc, hinp, hacc, hval => by
    simp only [flatBody, evalFlat, denoteBody]
    exact ⟨by intros; trivial, fun j' o => (hacc j' o).mono (by simp), hval⟩
  | n :: ns, j, inp, base, acc, env, dacc, hinp, hacc, hval => by
    simp only [flatBody, denoteBody]
    obtain ⟨a1, a2, a3⟩ := flat_spec n (fresolve n inp acc) base env (fresolve_below n inp acc base hinp hacc)
    have hb : base ≤ base + (flat n (fresolve n inp acc) base).1.length := by omega
    have hres : (fun i => (fresolve n inp acc i).eval env) = resolve n (fun k => (inp k).eval env) dacc := by
      funext i; exact fresolve_eval n inp acc env dacc hval i
    obtain ⟨b1, b2, b3⟩ := flatBody_spec ns (j + 1) inp (base + (flat n (fresolve n inp acc) base).1.length)
      (fun j' => if j' = j then (flat n (fresolve n inp acc) base).2 else acc j')
      (evalFlat (flat n (fresolve n inp acc) base).1 base env)
      (fun j' => if j' = j then memo n.nout (denote n (resolve n (fun k => (inp k).eval env) dacc)) else dacc j')
      (fun k => (hinp k).mono hb)
      (by
        intro j' o
        by_cases he : j' = j
        · simp only [he, if_true]; exact a2 o
        · simp only [he, if_false]; exact (hacc j' o).mono hb)
      (by
        intro j' o
        by_cases he : j' = j
        · simp only [he, if_true]
          rw [a3 o, hres, memo_denote]
        · simp only [he, if_false]
          rw [FSrc.eval_stable (hacc j' o) a1]
          exact hval j' o)
    have hinp' : (fun k => (inp k).eval (evalFlat (flat n (fresolve n inp acc) base).1 base env)) =
        (fun k => (inp k).eval env) := by
      funext k; exact FSrc.eval_stable (hinp k) a1
    rw [hinp'] at b3
    rw [evalFlat_append]
    refine ⟨?_, ?_, b3⟩
    · intro i hi
      rw [b1 i (by omega), a1 i hi]
    · intro j' o
      have := b2 j' o
      rw [List.length_append]
      rw [Nat.add_assoc] at this
      exact this
end


/-! ## a checker for `WF` (used for concrete definitions) -/

def srcWFb (na : Nat) (nouts : Nat → Nat) (j : Nat) (n : Node) (i : Nat) : Src → Bool
  | .arg k => decide (k < na)
  | .out j' o => decide (j' < j) && decide (o < nouts j')
  | .const v => !v.isNd
  | .none => !(n.dflt i).isNd

def srcsWFb (na : Nat) (nouts : Nat → Nat) (j : Nat) (n : Node) : List Src → Nat → Bool
  | [], _ => true
  | s :: ss, i => srcWFb na nouts j n i s && srcsWFb na nouts j n ss (i + 1)

def retWFb (na : Nat) (body : List Node) : Ret → Bool
  | .arg k => decide (k < na)
  | .out j o => decide (j < body.length) && decide (o < noutsOf body j)

mutual
def wfb : Node → Bool
  | .leaf _ _ => true
  | .mac args body rets _ _ =>
    wfBodyb args.length (noutsOf body) body 0 && rets.all (retWFb args.length body)
def wfBodyb (na : Nat) (nouts : Nat → Nat) : List Node → Nat → Bool
  | [], _ => true
  | n :: ns, j =>
    wfb n && decide (n.srcs.length = n.arity) && decide (nouts j = n.nout) &&
      srcsWFb na nouts j n n.srcs 0 && wfBodyb na nouts ns (j + 1)
end

theorem srcWFb_sound {na nouts j n i s} (h : srcWFb na nouts j n i s = true) : SrcWF na nouts j n i s := by
  cases s with
  | arg k => simpa [srcWFb, SrcWF] using h
  | out j' o => simpa [srcWFb, SrcWF] using h
  | const v =>
    simp only [srcWFb, Bool.not_eq_true'] at h
    exact ne_nd_of_isNd_false h
  | none =>
    simp only [srcWFb, Bool.not_eq_true'] at h
    exact ne_nd_of_isNd_false h

theorem srcsWFb_sound {na nouts j n} (ss : List Src) (i0 : Nat) (h : srcsWFb na nouts j n ss i0 = true) :
    ∀ i s, ss[i]? = some s → SrcWF na nouts j n (i0 + i) s := by
  induction ss generalizing i0 with
  | nil => intro i s hs; simp at hs
  | cons x xs ih =>
    simp only [srcsWFb, Bool.and_eq_true] at h
    intro i s hs
    cases i with
    | zero => simp at hs; subst hs; exact srcWFb_sound h.1
    | succ i =>
      have := ih (i0 + 1) h.2 i s (by simpa using hs)
      have e : i0 + 1 + i = i0 + (i + 1) := by omega
      rw [e] at this; exact this

theorem retWFb_sound {na body x} (h : retWFb na body x = true) : RetWF na body x := by
  cases x with
  | arg k => simpa [retWFb, RetWF] using h
  | out j o => simpa [retWFb, RetWF] using h

mutual
theorem wfb_sound : ∀ (n : Node), wfb n = true → WF n
  | .leaf _ _, _ => by simp [WF]
  | .mac args body rets _ _, h => by
    simp only [wfb, Bool.and_eq_true, List.all_eq_true] at h
    simp only [WF]
    exact ⟨wfBodyb_sound _ _ body 0 h.1, fun x hx => retWFb_sound (h.2 x hx)⟩
theorem wfBodyb_sound (na : Nat) (nouts : Nat → Nat) : ∀ (ns : List Node) (j : Nat),
    wfBodyb na nouts ns j = true → WFBody na nouts ns j
  | [], _, _ => by simp [WFBody]
  | n :: ns, j, h => by
    simp only [wfBodyb, Bool.and_eq_true, decide_eq_true_eq] at h
    simp only [WFBody]
    obtain ⟨⟨⟨⟨h1, h2⟩, h3⟩, h4⟩, h5⟩ := h
    refine ⟨wfb_sound n h1, h2, h3, ?_, wfBodyb_sound na nouts ns (j + 1) h5⟩
    intro i s hs
    have := srcsWFb_sound n.srcs 0 h4 i s hs
    rwa [Nat.zero_add] at this
end


/-! ## child-level updates on the sending side: a child's output assigned directly -/

/-- input panels agree everywhere -/
def SameIn (σ τ : St) : Prop := ∀ q p k, (p = .inp ∨ p = .uiIn) → σ.fn q p k = τ.fn q p k

theorem SameIn.sub {σ τ : St} (h : SameIn σ τ) (j : Nat) : SameIn (σ.sub j) (τ.sub j) :=
  fun q p k hp => h (j :: q) p k hp

theorem sameIn_set_out (σ : St) (r : Nat) (v : Val) : SameIn (σ.set .out r v) σ := by
  intro q p k h; rcases h with h | h <;> simp [St.set, h]

theorem sameIn_graft (σ τ : St) (j : Nat) (h : SameIn τ (σ.sub j)) : SameIn (σ.graft j τ) σ := by
  intro q p k hp
  cases q with
  | nil => simp [St.graft]
  | cons a r =>
    by_cases ha : a = j
    · subst ha; simpa [St.graft, St.sub] using h r p k hp
    · simp [St.graft, ha]

mutual
theorem inv_sameIn (h : Bool) : ∀ (n : Node) (σ τ : St), SameIn σ τ → Inv h n τ → Inv h n σ
  | .leaf _ _, _, _, _, _ => by simp [Inv]
  | .mac args body rets _ _, σ, τ, hs, hi => by
    simp only [Inv] at hi ⊢
    have hinp : σ.get .inp = τ.get .inp := by funext k; exact hs [] .inp k (Or.inl rfl)
    refine ⟨?_, ?_⟩
    · intro k hk hkept
      rw [hinp, ← hi.1 k hk hkept]
      exact hs [] .uiIn k (Or.inr rfl)
    · rw [hinp]
      exact invBody_sameIn h _ _ body 0 σ τ hs hi.2
theorem invBody_sameIn (h : Bool) (kp : Nat → Bool) (inp : Nat → Val) : ∀ (ns : List Node) (j : Nat) (σ τ : St),
    SameIn σ τ → InvBody h kp inp ns j τ → InvBody h kp inp ns j σ
  | [], _, _, _, _, _ => by simp [InvBody]
  | n :: ns, j, σ, τ, hs, hi => by
    simp only [InvBody] at hi ⊢
    refine ⟨inv_sameIn h n _ _ (hs.sub j) hi.1, ?_, invBody_sameIn h kp inp ns (j + 1) σ τ hs hi.2.2⟩
    intro i s' hs'
    have := hi.2.1 i s' hs'
    have e : (σ.sub j).get .inp i = (τ.sub j).get .inp i := hs [j] .inp i (Or.inl rfl)
    cases s' with
    | arg k => simp only [SrcOk] at this ⊢; rw [e]; exact this
    | out a b => trivial
    | const v => simp only [SrcOk] at this ⊢; rw [e]; exact this
    | none => simp only [SrcOk] at this ⊢; rw [e]; exact this
end

theorem outSyncBody_pointwise (ns : List Node) (b : Nat) (σ : St) :
    OutSyncBody ns b σ ↔ ∀ (t : Nat) (n : Node), ns[t]? = some n → OutSync n (σ.sub (b + t)) := by
  induction ns generalizing b with
  | nil => simp [OutSyncBody]
  | cons m ns ih =>
    simp only [OutSyncBody, ih]
    constructor
    · rintro ⟨h1, h2⟩ t n hn
      cases t with
      | zero => simp at hn; subst hn; simpa using h1
      | succ t =>
        have := h2 t n (by simpa using hn)
        have e : b + 1 + t = b + (t + 1) := by omega
        rw [e] at this; exact this
    · intro h
      refine ⟨by simpa using h 0 m (by simp), ?_⟩
      intro t n hn
      have := h (t + 1) n (by simpa using hn)
      have e : b + 1 + t = b + (t + 1) := by omega
      rw [e]; exact this

theorem recvOf_some (x : Ret) (rets : List Ret) (r0 r : Nat) (h : recvOf x rets r0 = some r) :
    r0 ≤ r ∧ rets[r - r0]? = some x ∧ x ∉ rets.drop (r - r0 + 1) := by
  induction rets generalizing r0 with
  | nil => simp [recvOf] at h
  | cons y ys ih =>
    simp only [recvOf] at h
    cases hrec : recvOf x ys (r0 + 1) with
    | some r' =>
      rw [hrec] at h
      simp only [Option.some.injEq] at h; subst h
      obtain ⟨a, b, c⟩ := ih (r0 + 1) hrec
      have e : r' - r0 = (r' - (r0 + 1)) + 1 := by omega
      refine ⟨by omega, ?_, ?_⟩
      · rw [e]; simpa using b
      · rw [e]; simpa using c
    | none =>
      rw [hrec] at h
      simp only at h
      split at h
      · rename_i hy
        simp only [Option.some.injEq] at h; subst h
        subst hy
        refine ⟨Nat.le_refl _, by simp, ?_⟩
        simp only [Nat.sub_self, Nat.zero_add, List.drop_succ_cons, List.drop_zero]
        -- no occurrence later, otherwise the recursive call would have found one
        have key : ∀ (zs : List Ret) (b : Nat), recvOf y zs b = none → y ∉ zs := by
          intro zs
          induction zs with
          | nil => intro _ _; simp
          | cons z zs ihz =>
            intro b hb
            simp only [recvOf] at hb
            cases hr2 : recvOf y zs (b + 1) with
            | some _ => rw [hr2] at hb; cases hb
            | none =>
              rw [hr2] at hb
              simp only at hb
              split at hb
              · cases hb
              · rename_i hne
                simp only [List.mem_cons, not_or]
                exact ⟨fun e => hne e.symm, ihz (b + 1) hr2⟩
        exact key ys (r0 + 1) hrec
      · cases h

theorem recvOf_none (x : Ret) (rets : List Ret) (r0 : Nat) (h : recvOf x rets r0 = none) : x ∉ rets := by
  induction rets generalizing r0 with
  | nil => simp
  | cons y ys ih =>
    simp only [recvOf] at h
    cases hrec : recvOf x ys (r0 + 1) with
    | some _ => rw [hrec] at h; cases h
    | none =>
      rw [hrec] at h
      simp only at h
      split at h
      · cases h
      · rename_i hne
        simp only [List.mem_cons, not_or]
        exact ⟨fun e => hne e.symm, ih (r0 + 1) hrec⟩

theorem last_occ_unique {α} (l : List α) (x : α) (r r' : Nat) (h1 : l[r]? = some x) (h2 : x ∉ l.drop (r + 1))
    (h1' : l[r']? = some x) (h2' : x ∉ l.drop (r' + 1)) : r = r' := by
  rcases Nat.lt_trichotomy r r' with h | h | h
  · exfalso; apply h2
    have : l[r']? = (l.drop (r + 1))[r' - (r + 1)]? := by
      rw [List.getElem?_drop]; congr 1; omega
    rw [this] at h1'
    exact List.mem_of_getElem? h1'
  · exact h
  · exfalso; apply h2'
    have : l[r]? = (l.drop (r' + 1))[r - (r' + 1)]? := by
      rw [List.getElem?_drop]; congr 1; omega
    rw [this] at h1
    exact List.mem_of_getElem? h1

theorem pushUp_cases (rets : List Ret) (j : Nat) (v : Val) (σ1 : St) (ch : Option Nat) :
    (pushUp rets j v σ1 ch = (σ1, none) ∧ ∀ o', ch = some o' → Ret.out j o' ∉ rets) ∨
    (∃ o' r0, ch = some o' ∧ pushUp rets j v σ1 ch = (σ1.set .out r0 v, some r0) ∧
      rets[r0]? = some (.out j o') ∧ Ret.out j o' ∉ rets.drop (r0 + 1)) := by
  cases ch with
  | none => left; exact ⟨rfl, fun _ h => by cases h⟩
  | some o' =>
    cases hrv : recvOf (.out j o') rets 0 with
    | none =>
      left
      refine ⟨by simp [pushUp, hrv], ?_⟩
      intro o'' h; cases h
      exact recvOf_none _ _ _ hrv
    | some r0 =>
      right
      obtain ⟨_, hr0, hlast⟩ := recvOf_some _ _ _ _ hrv
      simp only [Nat.sub_zero] at hr0 hlast
      exact ⟨o', r0, rfl, by simp [pushUp, hrv], hr0, hlast⟩

/-- one macro level of an upward push: child `j` (state `τ`) has taken a new value `v` on its output
`ch` (and nothing else changed among its outputs); `pushUp` forwards it to the macro output linked to
that channel. All output links of the level hold again. -/
theorem pushUp_level {args body rets oh srcs} (σ τ : St) (j : Nat) (m : Node) (v : Val) (ch : Option Nat)
    (hb : body[j]? = some m) (hos : OutSync (.mac args body rets oh srcs) σ)
    (i1 : OutSync m τ) (i2 : SameIn τ (σ.sub j))
    (i3 : ∀ o', τ.get .out o' = if ch = some o' then v else (σ.sub j).get .out o') :
    OutSync (.mac args body rets oh srcs) (pushUp rets j v (σ.graft j τ) ch).1 ∧
    SameIn (pushUp rets j v (σ.graft j τ) ch).1 σ ∧
    (∀ o', (pushUp rets j v (σ.graft j τ) ch).1.get .out o' =
      if (pushUp rets j v (σ.graft j τ) ch).2 = some o' then v else σ.get .out o') ∧
    (∀ k, (pushUp rets j v (σ.graft j τ) ch).1.get .uiOut k = σ.get .uiOut k) := by
  simp only [OutSync] at hos
  have hkids : ∀ (σ' : St), (∀ jj, σ'.sub jj = (σ.graft j τ).sub jj) → OutSyncBody body 0 σ' := by
    intro σ' hσ'
    rw [outSyncBody_pointwise]
    intro t n' hn'
    rw [Nat.zero_add, hσ']
    by_cases ht : t = j
    · subst ht
      rw [hb] at hn'; cases hn'
      rw [St.sub_graft_same]; exact i1
    · rw [St.sub_graft_other _ _ _ _ ht]
      have := (outSyncBody_pointwise body 0 σ).mp hos.2 t n' hn'
      simpa using this
  have hret : ∀ (σ' : St) (x : Ret), (∀ jj, σ'.sub jj = (σ.graft j τ).sub jj) →
      (∀ k, σ'.get .uiOut k = σ.get .uiOut k) →
      (∀ o', x = .out j o' → ch ≠ some o') → retVal σ' x = retVal σ x := by
    intro σ' x h1 h2 h3
    cases x with
    | arg k => exact h2 k
    | out j' o' =>
      simp only [retVal]
      rw [h1]
      by_cases hj : j' = j
      · subst hj
        rw [St.sub_graft_same, i3 o']
        have := h3 o' rfl
        simp [this]
      · rw [St.sub_graft_other _ _ _ _ hj]
  rcases pushUp_cases rets j v (σ.graft j τ) ch with ⟨hp, hnot⟩ | ⟨o', r0, hch, hp, hr0, hlast⟩
  · rw [hp]
    refine ⟨?_, sameIn_graft σ τ j i2, by intro o'; simp, by intro k; simp⟩
    simp only [OutSync]
    refine ⟨?_, hkids _ (fun _ => rfl)⟩
    intro r x hr hx
    rw [St.get_graft, hos.1 r x hr hx]
    refine (hret _ x (fun _ => rfl) (fun k => St.get_graft _ _ _ _ _) ?_).symm
    intro o'' hxe hch
    subst hxe
    exact hnot o'' hch (List.mem_of_getElem? hr)
  · rw [hp]
    subst hch
    refine ⟨?_, ?_, ?_, by intro k; simp⟩
    · simp only [OutSync]
      refine ⟨?_, hkids _ (fun jj => by simp)⟩
      intro r x hr hx
      by_cases hxe : x = .out j o'
      · subst hxe
        have : r = r0 := last_occ_unique rets _ r r0 hr hx hr0 hlast
        subst this
        simp only [St.get_set, and_self, if_true, retVal, St.sub_set, St.sub_graft_same]
        rw [i3 o']; simp
      · have hne : r ≠ r0 := by
          intro e; subst e
          rw [hr0] at hr; cases hr; exact hxe rfl
        simp only [St.get_set, hne, and_false, if_false, St.get_graft]
        rw [hos.1 r x hr hx]
        refine (hret _ x (fun jj => by simp) (fun k => by simp) ?_).symm
        intro o'' hxe' hch
        simp only [Option.some.injEq] at hch
        subst hch
        exact hxe hxe'
    · exact fun q p k hp => by
        have h1 := sameIn_set_out (σ.graft j τ) r0 v q p k hp
        have h2 := sameIn_graft σ τ j i2 q p k hp
        exact h1.trans h2
    · intro o''
      by_cases he : o'' = r0
      · subst he; simp
      · have : ¬ (r0 = o'') := fun e => he e.symm
        simp [he, this]

/-- assigning the output of a LEAF child at path `p` (the sending end of output links): stored, pushed
up through every macro that returns it; all links stay in place -/
theorem setOutAt_leaf (o : Nat) (v : Val) : ∀ (p : Path) (n : Node) (σ : St),
    (∃ f s, nodeAt n p = some (.leaf f s)) → OutSync n σ →
    OutSync n (setOutAt n σ p o v).1 ∧ SameIn (setOutAt n σ p o v).1 σ ∧
    (∀ o', (setOutAt n σ p o v).1.get .out o' =
      if (setOutAt n σ p o v).2 = some o' then v else σ.get .out o') ∧
    (∀ k, (setOutAt n σ p o v).1.get .uiOut k = σ.get .uiOut k) := by
  intro p
  induction p with
  | nil =>
    intro n σ hleaf _
    obtain ⟨f, s, hn⟩ := hleaf
    simp only [nodeAt, Option.some.injEq] at hn
    subst hn
    simp only [setOutAt]
    refine ⟨by simp [OutSync], sameIn_set_out σ o v, ?_, by intro k; simp⟩
    intro o'
    by_cases he : o' = o
    · subst he; simp
    · have : ¬ (o = o') := fun e => he e.symm
      simp [he, this]
  | cons j q ih =>
    intro n σ hleaf hos
    obtain ⟨f, s, hn⟩ := hleaf
    cases n with
    | leaf f' s' => simp [nodeAt] at hn
    | mac args body rets oh srcs =>
      simp only [nodeAt] at hn
      cases hb : body[j]? with
      | none => simp [hb] at hn
      | some m =>
        simp only [hb] at hn
        have hosm : OutSync m (σ.sub j) := by
          have h2 := hos
          simp only [OutSync] at h2
          have := (outSyncBody_pointwise body 0 σ).mp h2.2 j m hb
          simpa using this
        obtain ⟨i1, i2, i3, i4⟩ := ih m (σ.sub j) ⟨f, s, hn⟩ hosm
        simp only [setOutAt, hb]
        generalize (setOutAt m (σ.sub j) q o v).1 = τ at i1 i2 i3 i4 ⊢
        generalize (setOutAt m (σ.sub j) q o v).2 = ch at i3 ⊢
        exact pushUp_level σ τ j m v ch hb hos i1 i2 i3

/-- assigning the OUTPUT of the UI node of parameter `k` of the macro at path `p` (the sending end of
the pass-through link, when the creator returned the UI node): stored, pushed to the macro output linked
to it and further up; all output links stay in place -/
theorem setUiOutAt_sync (k : Nat) (v : Val) : ∀ (p : Path) (n : Node) (σ : St),
    (∃ a b r oh s, nodeAt n p = some (.mac a b r oh s)) → OutSync n σ →
    OutSync n (setUiOutAt n σ p k v).1 ∧ SameIn (setUiOutAt n σ p k v).1 σ ∧
    (∀ o', (setUiOutAt n σ p k v).1.get .out o' =
      if (setUiOutAt n σ p k v).2 = some o' then v else σ.get .out o') := by
  intro p
  induction p with
  | nil =>
    intro n σ hmac hos
    obtain ⟨a, b, r, oh, s, hn⟩ := hmac
    simp only [nodeAt, Option.some.injEq] at hn
    subst hn
    simp only [OutSync] at hos
    have hsame : SameIn (σ.set .uiOut k v) σ := by
      intro q p' k' hp; rcases hp with hp | hp <;> simp [St.set, hp]
    have hretne : ∀ x, x ≠ Ret.arg k → retVal (σ.set .uiOut k v) x = retVal σ x := by
      intro x hx
      cases x with
      | arg k' =>
        simp only [retVal, St.get_set]
        have : k' ≠ k := fun e => hx (by rw [e])
        simp [this]
      | out j o => simp [retVal]
    have hbody : ∀ σ' : St, (∀ jj, σ'.sub jj = σ.sub jj) → OutSyncBody b 0 σ' :=
      fun σ' h => outSyncBody_frame b 0 σ σ' (fun jj _ => h jj) hos.2
    cases hrv : recvOf (.arg k) r 0 with
    | none =>
      have hE : setUiOutAt (.mac a b r oh s) σ [] k v = (σ.set .uiOut k v, none) := by
        simp [setUiOutAt, hrv]
      rw [hE]
      simp only
      have hnot := recvOf_none _ _ _ hrv
      refine ⟨?_, hsame, by intro o'; simp⟩
      simp only [OutSync]
      refine ⟨?_, hbody _ (fun jj => by simp)⟩
      intro r' x hr hx
      have hxne : x ≠ Ret.arg k := fun e => hnot (e ▸ List.mem_of_getElem? hr)
      rw [hretne x hxne]
      simpa using hos.1 r' x hr hx
    | some r0 =>
      have hE : setUiOutAt (.mac a b r oh s) σ [] k v = ((σ.set .uiOut k v).set .out r0 v, some r0) := by
        simp [setUiOutAt, hrv]
      rw [hE]
      simp only
      obtain ⟨_, hr0, hlast⟩ := recvOf_some _ _ _ _ hrv
      simp only [Nat.sub_zero] at hr0 hlast
      refine ⟨?_, ?_, ?_⟩
      · simp only [OutSync]
        refine ⟨?_, hbody _ (fun jj => by simp)⟩
        intro r' x hr hx
        by_cases hxe : x = Ret.arg k
        · subst hxe
          have : r' = r0 := last_occ_unique r _ r' r0 hr hx hr0 hlast
          subst this
          simp [retVal]
        · have hne : r' ≠ r0 := by
            intro e; subst e
            rw [hr0] at hr; cases hr; exact hxe rfl
          rw [retVal_set_out, hretne x hxe]
          simp only [St.get_set, hne, and_false, if_false]
          simpa using hos.1 r' x hr hx
      · exact fun q p' k' hp => by
          have h1 := sameIn_set_out (σ.set .uiOut k v) r0 v q p' k' hp
          exact h1.trans (hsame q p' k' hp)
      · intro o''
        by_cases he : o'' = r0
        · subst he; simp
        · have : ¬ (r0 = o'') := fun e => he e.symm
          simp [he, this]
  | cons j q ih =>
    intro n σ hmac hos
    obtain ⟨a, b, r, oh, s, hn⟩ := hmac
    cases n with
    | leaf f' s' => simp [nodeAt] at hn
    | mac args body rets oh' srcs =>
      simp only [nodeAt] at hn
      cases hb : body[j]? with
      | none => simp [hb] at hn
      | some m =>
        simp only [hb] at hn
        have hosm : OutSync m (σ.sub j) := by
          have h2 := hos
          simp only [OutSync] at h2
          have := (outSyncBody_pointwise body 0 σ).mp h2.2 j m hb
          simpa using this
        obtain ⟨i1, i2, i3⟩ := ih m (σ.sub j) ⟨a, b, r, oh, s, hn⟩ hosm
        simp only [setUiOutAt, hb]
        generalize (setUiOutAt m (σ.sub j) q k v).1 = τ at i1 i2 i3 ⊢
        generalize (setUiOutAt m (σ.sub j) q k v).2 = ch at i3 ⊢
        obtain ⟨h1, h2, h3, _⟩ := pushUp_level σ τ j m v ch hb hos i1 i2 i3
        exact ⟨h1, h2, h3⟩

/-! ## histories -/

/-- the states a macro instance goes through: construction, assignments to its own inputs
(`macro.inputs.x = v`, keyword arguments of the constructor or of a call), successful runs, direct
assignments to outputs of leaf children -/
inductive Reach (n : Node) : St → Prop
  | build : Reach n (build n)
  | setIn {σ : St} (k : Nat) (v : Val) : Reach n σ → Reach n (setIn n σ k v)
  | run {σ σ' : St} : Reach n σ → run n σ = some σ' → Reach n σ'
  /-- `leaf_child.outputs.o.value = v` anywhere below the macro (the sending end of output links) -/
  | setOutLeaf {σ : St} (p : Path) (o : Nat) (v : Val) : Reach n σ →
      (∃ f s, nodeAt n p = some (.leaf f s)) → Reach n (setOutAt n σ p o v).1
  /-- `ui_k.outputs.user_input.value = v` of a macro anywhere at or below the top (sending end of a
  pass-through link) -/
  | setUiOut {σ : St} (p : Path) (k : Nat) (v : Val) : Reach n σ →
      (∃ a b r oh s, nodeAt n p = some (.mac a b r oh s)) → Reach n (setUiOutAt n σ p k v).1

theorem anyNd_false_iff (f : Nat → Val) (n : Nat) : anyNd f n = false ↔ ∀ k, k < n → f k ≠ .nd := by
  constructor
  · intro h k hk
    simp only [anyNd, List.any_eq_false, List.mem_range] at h
    exact ne_nd_of_isNd_false (by simpa using h k hk)
  · exact anyNd_false f n

theorem run_some_inputs (n : Node) (σ σ' : St) (h : run n σ = some σ') : ∀ i, i < n.arity → σ.get .inp i ≠ .nd := by
  cases n with
  | leaf f srcs =>
    simp only [run] at h
    split at h
    · cases h
    · rename_i hnd
      exact (anyNd_false_iff _ _).mp (by simpa [Node.arity] using hnd)
  | mac args body rets oh s =>
    simp only [run] at h
    split at h
    · cases h
    · rename_i hnd
      exact (anyNd_false_iff _ _).mp (by simpa [Node.arity] using hnd)

theorem reach_inv (n : Node) (hwf : WF n) (hnd : NoDupH n) (σ : St) (h : Reach n σ) :
    Inv true n σ ∧ OutSync n σ := by
  induction h with
  | build => exact ⟨build_inv n hwf, build_outSync n⟩
  | setIn k v _ ih => exact ⟨setIn_inv true n _ k v ih.1, setIn_outSync n _ k v ih.2⟩
  | @run σ0 σ1 _ hrun ih =>
    obtain ⟨σ2, h2, _, hi, ho, _⟩ := run_value n σ0 (σ0.get .inp) hwf hnd ih.1 (fun _ _ => rfl)
      (run_some_inputs n σ0 σ1 hrun)
    rw [hrun] at h2
    cases h2
    exact ⟨hi, ho⟩
  | setOutLeaf p o v _ hleaf ih =>
    obtain ⟨h1, h2, _, _⟩ := setOutAt_leaf o v p n _ hleaf ih.2
    exact ⟨inv_sameIn true n _ _ h2 ih.1, h1⟩
  | setUiOut p k v _ hmac ih =>
    obtain ⟨h1, h2, _⟩ := setUiOutAt_sync k v p n _ hmac ih.2
    exact ⟨inv_sameIn true n _ _ h2 ih.1, h1⟩



/-! ## a parameter nobody uses -/

theorem setIn_gone {args body rets oh s} {k : Nat} (h : link body rets k = .gone) (σ : St) (v : Val) :
    setIn (.mac args body rets oh s) σ k v = σ.set .inp k v := by
  simp [setIn, h]

theorem resolve_unused (k : Nat) (n : Node) (a a' : Nat → Val) (acc : Nat → Nat → Val)
    (hag : ∀ k', k' ≠ k → a k' = a' k') (hno : ∀ i : Nat, n.srcs[i]? ≠ some (Src.arg k)) :
    resolve n a acc = resolve n a' acc := by
  funext i
  unfold resolve
  cases hs : n.srcs[i]? with
  | none => rfl
  | some s =>
    cases s with
    | arg k' =>
      simp only
      exact hag k' (by intro e; subst e; exact hno i hs)
    | out j o => rfl
    | const v => rfl
    | none => rfl

theorem denoteBody_unused (k : Nat) (a a' : Nat → Val) (hag : ∀ k', k' ≠ k → a k' = a' k') :
    ∀ (ns : List Node) (j : Nat) (acc : Nat → Nat → Val),
    (∀ (t : Nat) (n : Node) (i : Nat), ns[t]? = some n → n.srcs[i]? ≠ some (Src.arg k)) →
    denoteBody ns j a acc = denoteBody ns j a' acc := by
  intro ns
  induction ns with
  | nil => intro j acc _; simp [denoteBody]
  | cons n ns ih =>
    intro j acc hno
    simp only [denoteBody]
    rw [resolve_unused k n a a' acc hag (fun i => hno 0 n i (by simp))]
    exact ih (j + 1) _ (fun t m i ht => hno (t + 1) m i (by simpa using ht))

/-- the value of a parameter that no child uses and that is not returned does not matter -/
theorem denote_unused {args body rets oh s} {k : Nat} (h : link body rets k = .gone) (a a' : Nat → Val)
    (hag : ∀ k', k' ≠ k → a k' = a' k') :
    denote (.mac args body rets oh s) a = denote (.mac args body rets oh s) a' := by
  obtain ⟨hkf, hno⟩ := link_gone h
  funext r
  simp only [denote]
  rw [denoteBody_unused k a a' hag body 0 _ (fun t n i ht hs => hno t i (by simp [srcAt, ht, hs]))]
  cases hr : rets[r]? with
  | none => rfl
  | some x =>
    cases x with
    | arg k' =>
      simp only
      apply hag k'
      intro e; subst e
      have := fwd_kept (body := body) (List.mem_of_getElem? hr)
      rw [hkf] at this; cases this
    | out j o => rfl


/-! ## an assignment reaches the whole chain of value links, whatever was there before -/

mutual
/-- `v` sits on input `k` of this node and on every channel down its chain of value links -/
def Holds (v : Val) : Node → St → Nat → Prop
  | .leaf _ _, σ, k => σ.get .inp k = v
  | .mac _ body rets _ _, σ, k =>
    σ.get .inp k = v ∧
      (link body rets k = .ui → σ.get .uiIn k = v) ∧
      (∀ j i, link body rets k = .child j i → HoldsKid v body 0 j i σ)
def HoldsKid (v : Val) : List Node → Nat → Nat → Nat → St → Prop
  | [], _, _, _, _ => True
  | n :: _, base, 0, i, σ => Holds v n (σ.sub base) i
  | _ :: ns, base, j + 1, i, σ => HoldsKid v ns (base + 1) j i σ
end

mutual
theorem setIn_holds : ∀ (n : Node) (σ : St) (k : Nat) (v : Val), Holds v n (setIn n σ k v) k
  | .leaf _ _, σ, k, v => by simp [Holds, setIn]
  | .mac args body rets oh s, σ, k, v => by
    simp only [Holds]
    refine ⟨by rw [setIn_get_inp]; simp, ?_, ?_⟩
    · intro hl; simp [setIn, hl]
    · intro j i hl
      have : setIn (.mac args body rets oh s) σ k v = setInKid body 0 j i v (σ.set .inp k v) := by
        simp [setIn, hl]
      rw [this]
      exact setInKid_holds body 0 j i v _
theorem setInKid_holds : ∀ (ns : List Node) (base j i : Nat) (v : Val) (σ : St),
    HoldsKid v ns base j i (setInKid ns base j i v σ)
  | [], _, _, _, _, _ => by simp [HoldsKid]
  | n :: _, base, 0, i, v, σ => by
    simp only [HoldsKid, setInKid, St.sub_graft_same]
    exact setIn_holds n (σ.sub base) i v
  | _ :: ns, base, j + 1, i, v, σ => by
    simp only [HoldsKid, setInKid]
    exact setInKid_holds ns (base + 1) j i v σ
end


/-! ## a refused run -/

theorem run_refused (n : Node) (σ : St) (h : refused n σ = true) : run n σ = none := by
  cases n with
  | leaf f srcs => simp only [refused, Node.arity] at h; simp [run, h]
  | mac args body rets oh s => simp only [refused, Node.arity] at h; simp [run, h]

theorem refused_iff (n : Node) (σ : St) : refused n σ = true ↔ ∃ i, i < n.arity ∧ σ.get .inp i = .nd := by
  simp only [refused, anyNd, List.any_eq_true, List.mem_range]
  constructor
  · rintro ⟨i, hi, h⟩
    refine ⟨i, hi, ?_⟩
    cases hv : σ.get .inp i <;> simp [hv, Val.isNd] at h ⊢
  · rintro ⟨i, hi, h⟩
    exact ⟨i, hi, by simp [h, Val.isNd]⟩


/-! ## hand-wired flows -/

theorem startCount_allOf (k : Nat) : startCount .allOf k = 1 := by
  cases k <;> rfl

theorem iterBody_one (kp : Nat → Bool) (body : List Node) (σ : St) :
    iterBody kp body 1 σ = runBody kp body 0 σ := by
  simp only [iterBody]
  cases runBody kp body 0 σ <;> rfl

/-- with the accumulating trigger (`n << ui_nodes`) the hand-wired chain is entered exactly once after
the UI nodes, however many of them survive: the run is the run of the model -/
theorem runWired_allOf (n : Node) (σ : St) : runWired .allOf n σ = run n σ := by
  cases n with
  | leaf f srcs => rfl
  | mac args body rets oh s =>
    simp only [runWired, run, startCount_allOf, iterBody_one]


/-! ## refused assignments: all or nothing along the chain of value links -/

theorem St.graft_set_comm (σ τ : St) (j : Nat) (p : Pan) (k : Nat) (v : Val) :
    (σ.graft j τ).set p k v = (σ.set p k v).graft j τ := by
  apply St.ext'
  intro q p' k'
  cases q with
  | nil => simp [St.set, St.graft]
  | cons a r => by_cases h : a = j <;> simp [St.set, St.graft, h]

theorem setInKid_set_comm (ns : List Node) (base j i : Nat) (v : Val) (σ : St) (k : Nat) (w : Val) :
    setInKid ns base j i v (σ.set .inp k w) = (setInKid ns base j i v σ).set .inp k w := by
  induction ns generalizing base j with
  | nil => simp [setInKid]
  | cons n ns ih =>
    cases j with
    | zero => simp only [setInKid, St.sub_set]; rw [St.graft_set_comm]
    | succ j => simp only [setInKid]; exact ih (base + 1) j

mutual
/-- forward before store: a refusal anywhere down the chain leaves EVERY channel as it was -/
theorem pushIn_refused (lk : Path → Bool) : ∀ (p : Path) (n : Node) (σ : St) (k : Nat) (v : Val),
    (pushIn false lk p n σ k v).2 = false → (pushIn false lk p n σ k v).1 = σ
  | p, .leaf _ _, σ, k, v, h => by
    simp only [pushIn] at h ⊢
    split at h <;> simp_all
  | p, .mac args body rets oh s, σ, k, v, h => by
    simp only [pushIn] at h ⊢
    split
    · rfl
    · rename_i hl
      simp only [hl, if_false] at h
      split
      · rfl
      · rename_i ha
        simp only [ha, if_false] at h
        cases hlk : link body rets k with
        | ui => simp [hlk] at h
        | gone => simp [hlk] at h
        | child j i =>
          simp only [hlk, Bool.false_eq_true, if_false] at h ⊢
          by_cases hr : (pushKid false lk p body 0 j i v σ).2 = true
          · simp [hr] at h
          · have hr' : (pushKid false lk p body 0 j i v σ).2 = false := by simpa using hr
            simp only [hr', Bool.false_eq_true, if_false]
            exact pushKid_refused lk p body 0 j i v σ hr'
theorem pushKid_refused (lk : Path → Bool) (p : Path) : ∀ (ns : List Node) (base j i : Nat) (v : Val) (σ : St),
    (pushKid false lk p ns base j i v σ).2 = false → (pushKid false lk p ns base j i v σ).1 = σ
  | [], _, _, _, _, σ, h => by simp [pushKid] at h
  | n :: _, base, 0, i, v, σ, h => by
    simp only [pushKid] at h ⊢
    rw [pushIn_refused lk (p ++ [base]) n (σ.sub base) i v h]
    exact St.graft_sub_self σ base
  | _ :: ns, base, j + 1, i, v, σ, h => by
    simp only [pushKid] at h ⊢
    exact pushKid_refused lk p ns (base + 1) j i v σ h
end

mutual
/-- an accepted assignment is the forwarding setter of the model -/
theorem pushIn_accepted (lk : Path → Bool) : ∀ (p : Path) (n : Node) (σ : St) (k : Nat) (v : Val),
    (pushIn false lk p n σ k v).2 = true → (pushIn false lk p n σ k v).1 = setIn n σ k v
  | p, .leaf _ _, σ, k, v, h => by
    simp only [pushIn] at h ⊢
    split at h <;> simp_all [setIn]
  | p, .mac args body rets oh s, σ, k, v, h => by
    simp only [pushIn] at h ⊢
    split
    · rename_i hl; simp [hl] at h
    · rename_i hl
      simp only [hl, if_false] at h
      split
      · rename_i ha; simp_all
      · rename_i ha
        simp only [ha, if_false] at h
        cases hlk : link body rets k with
        | ui => simp [setIn, hlk]
        | gone => simp [setIn, hlk]
        | child j i =>
          simp only [hlk, Bool.false_eq_true, if_false] at h ⊢
          by_cases hr : (pushKid false lk p body 0 j i v σ).2 = true
          · simp only [hr, if_true]
            rw [pushKid_accepted lk p body 0 j i v σ hr]
            simp [setIn, hlk, setInKid_set_comm]
          · simp [hr] at h
theorem pushKid_accepted (lk : Path → Bool) (p : Path) : ∀ (ns : List Node) (base j i : Nat) (v : Val) (σ : St),
    (pushKid false lk p ns base j i v σ).2 = true → (pushKid false lk p ns base j i v σ).1 = setInKid ns base j i v σ
  | [], _, _, _, _, σ, _ => by simp [pushKid, setInKid]
  | n :: _, base, 0, i, v, σ, h => by
    simp only [pushKid] at h ⊢
    rw [pushIn_accepted lk (p ++ [base]) n (σ.sub base) i v h]
    simp [setInKid]
  | _ :: ns, base, j + 1, i, v, σ, h => by
    simp only [pushKid, setInKid] at h ⊢
    exact pushKid_accepted lk p ns (base + 1) j i v σ h
end


/-! ## replacing a child keeps every value link -/

theorem setF_srcs (ns : List Node) (j g t : Nat) : ((setF ns j g)[t]?).map Node.srcs = (ns[t]?).map Node.srcs := by
  induction ns generalizing j t with
  | nil => simp [setF]
  | cons n ns ih =>
    cases j with
    | zero =>
      cases n with
      | leaf f s => cases t <;> simp [setF, Node.srcs]
      | mac a b r oh s => simp [setF]
    | succ j =>
      cases t with
      | zero => simp [setF]
      | succ t => simpa [setF] using ih j t

theorem usesOf_setF (k : Nat) (ns : List Node) (j g base : Nat) :
    usesOf k (setF ns j g) base = usesOf k ns base := by
  induction ns generalizing j base with
  | nil => simp [setF]
  | cons n ns ih =>
    cases j with
    | zero =>
      cases n with
      | leaf f s => simp [setF, usesOf, Node.srcs]
      | mac a b r oh s => simp [setF]
    | succ j => simp only [setF, usesOf]; rw [ih j (base + 1)]

/-- the purge rule sees the same keyword arguments: every macro input is linked to the same (child, input)
position as before, the replaced child's position now held by the replacement -/
theorem link_setF (body : List Node) (rets : List Ret) (j g k : Nat) :
    link (setF body j g) rets k = link body rets k := by
  simp only [link, usesOf_setF]

theorem kept_setF (body : List Node) (rets : List Ret) (j g : Nat) :
    kept (setF body j g) rets = kept body rets := by
  funext k; simp only [kept, link_setF]

theorem invBody_setF (h : Bool) (kp : Nat → Bool) (inp : Nat → Val) (ns : List Node) (j g b : Nat) (σ : St) :
    InvBody h kp inp (setF ns j g) b σ ↔ InvBody h kp inp ns b σ := by
  induction ns generalizing j b with
  | nil => simp [setF]
  | cons n ns ih =>
    cases j with
    | zero =>
      cases n with
      | leaf f s =>
        simp only [setF, InvBody, Inv, Node.srcs, true_and]
        constructor
        · rintro ⟨h1, h2⟩
          refine ⟨?_, h2⟩
          intro i sx hs; have := h1 i sx hs
          cases sx <;> simpa [SrcOk, Node.dflt] using this
        · rintro ⟨h1, h2⟩
          refine ⟨?_, h2⟩
          intro i sx hs; have := h1 i sx hs
          cases sx <;> simpa [SrcOk, Node.dflt] using this
      | mac a b' r oh s => simp [setF]
    | succ j => simp only [setF, InvBody]; rw [ih j (b + 1)]

/-- … and, the channel values being copied over, the synchronisation invariant holds for the new
definition on the very same state -/
theorem inv_setF (h : Bool) (args : List Arg) (body : List Node) (rets : List Ret) (oh : List Nat) (s : List Src)
    (j g : Nat) (σ : St) :
    Inv h (.mac args (setF body j g) rets oh s) σ ↔ Inv h (.mac args body rets oh s) σ := by
  simp only [Inv, kept_setF, invBody_setF]

end PwVerif.Macro
