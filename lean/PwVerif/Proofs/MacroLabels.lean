import PwVerif.Model.MacroLabels
namespace PwVerif.MacroLabels

theorem stripL_local (p l : List Char) (h : '.' ∉ l) : stripL p l = l := by
  unfold stripL
  split
  · rename_i hp
    exfalso
    obtain ⟨t, ht⟩ := List.isPrefixOf_iff_prefix.mp hp
    apply h
    rw [← ht]; simp
  · rfl

theorem stripL_attr (p rest : List Char) : stripL p (p ++ '.' :: rest) = rest := by
  unfold stripL
  have : (p ++ ['.']).isPrefixOf (p ++ '.' :: rest) = true :=
    List.isPrefixOf_iff_prefix.mpr ⟨rest, by simp⟩
  simp [this]

/-- a returned LOCAL VARIABLE (or any dot-free expression text) is labelled by its own text, whatever the
first parameter is called — also when its name starts with that parameter's name -/
theorem strip_local (selfArg label : String) (h : '.' ∉ label.toList) : strip selfArg label = label := by
  unfold strip
  rw [stripL_local _ _ h]
  simp

/-- `<selfArg>.<name>` is labelled `<name>` -/
theorem strip_attr (selfArg name : String) : strip selfArg (selfArg ++ "." ++ name) = name := by
  unfold strip
  have : (selfArg ++ "." ++ name).toList = selfArg.toList ++ '.' :: name.toList := by simp
  rw [this, stripL_attr]
  simp

end PwVerif.MacroLabels
