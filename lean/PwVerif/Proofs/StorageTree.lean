import PwVerif.Model.StorageTree
import PwVerif.Proofs.Storage
/-! Lemmas for the nested / checkpoint / recovery layer of C19.  Core Lean only. -/
namespace PwVerif.Storage

theorem Sel_congr (cls : Cls) (p : Promise) (a b : FS) (h : storageLoad a = storageLoad b) :
    Sel cls p a → Sel cls p b := by
  unfold Sel; rw [h]; exact id

/-! ### frame: an operation on one store does not touch the files of the others -/

theorem put_files_same (climb : Bool) (t : Tree) (s : Store) (op : Op) (fs : FS) :
    (t.put climb s op fs).files s = fs.files := by
  cases s <;> simp [Tree.put, Tree.files] <;> split <;> rfl

theorem put_files_other (climb : Bool) (t : Tree) (s s' : Store) (op : Op) (fs : FS) (h : s' ≠ s) :
    (t.put climb s op fs).files s' = t.files s' := by
  cases s <;> cases s' <;> simp_all [Tree.put, Tree.files] <;> split <;> rfl

theorem view_load (t : Tree) (s : Store) :
    storageLoad (t.view s) = storageLoad ((t.files s).toFS false) := by
  simp [Tree.view, Files.toFS, storageLoad]

theorem put_load_same (climb : Bool) (t : Tree) (s : Store) (op : Op) (fs : FS) :
    storageLoad ((t.put climb s op fs).view s) = storageLoad fs := by
  rw [view_load, put_files_same]
  simp [FS.files, Files.toFS, storageLoad]

theorem put_load_other (climb : Bool) (t : Tree) (s s' : Store) (op : Op) (fs : FS) (h : s' ≠ s) :
    storageLoad ((t.put climb s op fs).view s') = storageLoad (t.view s') := by
  rw [view_load, put_files_other climb t s s' op fs h, ← view_load]

/-! ### every store keeps its own promise -/

theorem apply1_sel (sw climb : Bool) (t : Tree) (s : Store) (n : NodeSt) (op : Op) (p : Promise)
    (h : Sel n.cls p (t.view s)) :
    Sel n.cls (p.step op) ((apply1 ⟨⟨.atomicReplace, sw⟩, climb⟩ t s n op).1.view s) := by
  have := sel_step_atomic sw ⟨t.view s, n⟩ p op h
  exact Sel_congr _ _ _ _ (put_load_same climb t s op _).symm this

theorem apply1_other (tc : TCfg) (t : Tree) (s s' : Store) (n : NodeSt) (op : Op) (cls : Cls) (p : Promise)
    (hne : s' ≠ s) (h : Sel cls p (t.view s')) : Sel cls p ((apply1 tc t s n op).1.view s') :=
  Sel_congr _ _ _ _ (put_load_other tc.climb t s s' op _ hne).symm h

theorem apply1_cls (tc : TCfg) (t : Tree) (s : Store) (n : NodeSt) (op : Op) :
    (apply1 tc t s n op).2.1.cls = n.cls := step_cls tc.cfg ⟨t.view s, n⟩ op

theorem tstep_cls (tc : TCfg) (w : TWorld) (op : TOp) : (tstep tc w op).1.node.cls = w.node.cls := by
  cases op with
  | on s o =>
    cases s <;> simp only [tstep]
    · exact apply1_cls tc w.tree .main w.node o
    all_goals (split <;> rfl)
  | ckpt c v =>
    simp only [tstep]
    split <;> exact apply1_cls tc w.tree .main w.node (.save c v)
  | ckptCrash c v k => exact apply1_cls tc w.tree .main w.node (.crash c v k)
  | fail c v => rfl
  | failCrash c v k => exact apply1_cls tc w.tree .recovery w.node (.crash c v k)

theorem promise_single (p : Promise) (op : Op) : promise p [op] = p.step op := rfl

theorem selT_step (sw climb : Bool) (w : TWorld) (ps : Store → Promise) (op : TOp)
    (h : ∀ s, Sel w.node.cls (ps s) (w.tree.view s)) :
    ∀ s, Sel w.node.cls (promise (ps s) (op.proj s)) ((tstep ⟨⟨.atomicReplace, sw⟩, climb⟩ w op).1.tree.view s) := by
  intro s
  cases op with
  | on s0 o =>
    by_cases hs : s = s0
    · subst hs
      simp only [TOp.proj, if_true, promise_single]
      cases s <;> simp only [tstep]
      · exact apply1_sel sw climb w.tree .main w.node o (ps .main) (h .main)
      · exact apply1_sel sw climb w.tree .recovery ⟨w.node.cls, 0⟩ o (ps .recovery) (h .recovery)
      · exact apply1_sel sw climb w.tree .childA ⟨w.node.cls, 0⟩ o (ps .childA) (h .childA)
      · exact apply1_sel sw climb w.tree .childB ⟨w.node.cls, 0⟩ o (ps .childB) (h .childB)
    · have hs' : ¬ s0 = s := fun e => hs e.symm
      simp only [TOp.proj, hs', if_false, promise]
      cases s0 <;> simp only [tstep]
      · exact apply1_other _ w.tree .main s w.node o _ _ hs (h s)
      · exact apply1_other _ w.tree .recovery s ⟨w.node.cls, 0⟩ o _ _ hs (h s)
      · exact apply1_other _ w.tree .childA s ⟨w.node.cls, 0⟩ o _ _ hs (h s)
      · exact apply1_other _ w.tree .childB s ⟨w.node.cls, 0⟩ o _ _ hs (h s)
  | ckpt c v =>
    have h1 := apply1_sel sw climb w.tree .main w.node (.save c v) (ps .main) (h .main)
    cases hc : c.fails
    · simp only [tstep, hc]
      cases s
      · simp only [TOp.proj, promise_single]; exact h1
      · simp only [TOp.proj, hc, promise]
        exact apply1_other _ w.tree .main .recovery w.node _ _ _ (by decide) (h .recovery)
      · simp only [TOp.proj, promise]
        exact apply1_other _ w.tree .main .childA w.node _ _ _ (by decide) (h .childA)
      · simp only [TOp.proj, promise]
        exact apply1_other _ w.tree .main .childB w.node _ _ _ (by decide) (h .childB)
    · simp only [tstep, hc, if_true]
      have hcls := apply1_cls ⟨⟨.atomicReplace, sw⟩, climb⟩ w.tree .main w.node (.save c v)
      cases s
      · simp only [TOp.proj, promise_single]
        exact apply1_other _ _ .recovery .main _ _ _ _ (by decide) h1
      · simp only [TOp.proj, hc, if_true, promise_single]
        have h2 := apply1_other ⟨⟨.atomicReplace, sw⟩, climb⟩ w.tree .main .recovery w.node (.save c v) _ _
          (by decide) (h .recovery)
        have := apply1_sel sw climb _ .recovery (apply1 ⟨⟨.atomicReplace, sw⟩, climb⟩ w.tree .main w.node (.save c v)).2.1
          (.save c v) (ps .recovery) (by rw [hcls]; exact h2)
        rw [hcls] at this
        exact this
      · simp only [TOp.proj, promise]
        exact apply1_other _ _ .recovery .childA _ _ _ _ (by decide)
          (apply1_other _ w.tree .main .childA w.node _ _ _ (by decide) (h .childA))
      · simp only [TOp.proj, promise]
        exact apply1_other _ _ .recovery .childB _ _ _ _ (by decide)
          (apply1_other _ w.tree .main .childB w.node _ _ _ (by decide) (h .childB))
  | ckptCrash c v k =>
    simp only [tstep]
    by_cases hs : s = .main
    · subst hs
      simp only [TOp.proj, if_true, promise_single]
      exact apply1_sel sw climb w.tree .main w.node _ (ps .main) (h .main)
    · simp only [TOp.proj, hs, if_false, promise]
      exact apply1_other _ w.tree .main s w.node _ _ _ hs (h s)
  | fail c v =>
    simp only [tstep]
    by_cases hs : s = .recovery
    · subst hs
      simp only [TOp.proj, if_true, promise_single]
      exact apply1_sel sw climb w.tree .recovery w.node _ (ps .recovery) (h .recovery)
    · simp only [TOp.proj, hs, if_false, promise]
      exact apply1_other _ w.tree .recovery s w.node _ _ _ hs (h s)
  | failCrash c v k =>
    simp only [tstep]
    by_cases hs : s = .recovery
    · subst hs
      simp only [TOp.proj, if_true, promise_single]
      exact apply1_sel sw climb w.tree .recovery w.node _ (ps .recovery) (h .recovery)
    · simp only [TOp.proj, hs, if_false, promise]
      exact apply1_other _ w.tree .recovery s w.node _ _ _ hs (h s)

theorem selT_run (sw climb : Bool) (w : TWorld) (ps : Store → Promise) (ops : List TOp)
    (h : ∀ s, Sel w.node.cls (ps s) (w.tree.view s)) :
    ∀ s, Sel w.node.cls (promiseT s (ps s) ops) ((trun ⟨⟨.atomicReplace, sw⟩, climb⟩ w ops).tree.view s) := by
  induction ops generalizing w ps with
  | nil => exact h
  | cons op r ih =>
    intro s
    simp only [trun, promiseT]
    have hstep := selT_step sw climb w ps op h
    have := ih (tstep ⟨⟨.atomicReplace, sw⟩, climb⟩ w op).1 (fun s => promise (ps s) (op.proj s))
      (by rw [tstep_cls]; exact hstep) s
    rwa [tstep_cls] at this

theorem selT_init (cls : Cls) (s : Store) : Sel cls Promise.init (Tree.init.view s) := by
  cases s <;> simp [Sel, Promise.init, Tree.init, Tree.view, Tree.files, Files.none, Files.toFS, storageLoad]

/-! ### directories stay consistent -/

theorem step_wf (cfg : Cfg) (w : World) (op : Op) (h : WF w.fs) : WF (step cfg w op).1.fs := by
  cases op with
  | crash c v k => exact crash_wf cfg w.fs c w.node.cls v k h
  | save c v => exact save_wf cfg w.fs c w.node.cls v
  | delete => exact delete_wf cfg w.fs h
  | load => rw [step_fs_readonly _ _ _ (Or.inl rfl)]; exact h
  | reopen => rw [step_fs_readonly _ _ _ (Or.inr (Or.inl rfl))]; exact h
  | loadForeign c v => rw [step_fs_readonly _ _ _ (Or.inr (Or.inr ⟨c, v, rfl⟩))]; exact h

theorem view_wf (t : Tree) (s : Store) (h : t.WF) : WF (t.view s) := by
  obtain ⟨h1, h2, h3⟩ := h
  cases s <;> simp_all [WF, Tree.view, Tree.files, Tree.dirOf, Files.toFS, FS.noFiles, Files.isNone]

theorem put_wf (climb : Bool) (t : Tree) (s : Store) (op : Op) (fs : FS) (ht : t.WF) (hf : WF fs) :
    (t.put climb s op fs).WF := by
  obtain ⟨h1, h2, h3⟩ := ht
  obtain ⟨d, p, q, pt, ct⟩ := fs
  cases s <;> cases d <;>
    simp_all [WF, Tree.WF, Tree.put, Tree.busy, Tree.gEmpty, FS.files, FS.noFiles, Files.isNone] <;>
    (try split) <;> simp_all <;> grind

theorem apply1_wf (tc : TCfg) (t : Tree) (s : Store) (n : NodeSt) (op : Op) (h : t.WF) :
    (apply1 tc t s n op).1.WF :=
  put_wf tc.climb t s op _ h (step_wf tc.cfg ⟨t.view s, n⟩ op (view_wf t s h))

theorem tstep_wf (tc : TCfg) (w : TWorld) (op : TOp) (h : w.tree.WF) : (tstep tc w op).1.tree.WF := by
  cases op with
  | on s o => cases s <;> exact apply1_wf tc w.tree _ _ o h
  | ckpt c v =>
    simp only [tstep]
    split
    · exact apply1_wf tc _ .recovery _ _ (apply1_wf tc w.tree .main w.node _ h)
    · exact apply1_wf tc w.tree .main w.node _ h
  | ckptCrash c v k => exact apply1_wf tc w.tree .main w.node _ h
  | fail c v => exact apply1_wf tc w.tree .recovery w.node _ h
  | failCrash c v k => exact apply1_wf tc w.tree .recovery w.node _ h

theorem trun_wf (tc : TCfg) (w : TWorld) (ops : List TOp) (h : w.tree.WF) : (trun tc w ops).tree.WF := by
  induction ops generalizing w with
  | nil => exact h
  | cons op r ih => exact ih _ (tstep_wf tc w op h)

/-! ### a graph without nested saves, checkpoints or recovery files is the flat model -/

def Tree.ofFS (fs : FS) : Tree := ⟨fs.dir, fs.files, .none, false, .none, false, .none⟩

theorem tstep_main_flat (tc : TCfg) (w : World) (op : Op) :
    tstep tc ⟨Tree.ofFS w.fs, w.node⟩ (.on .main op) =
      (⟨Tree.ofFS (step tc.cfg w op).1.fs, (step tc.cfg w op).1.node⟩, [(step tc.cfg w op).2]) := by
  have hv : (Tree.ofFS w.fs).view .main = w.fs := by
    cases h : w.fs; simp [Tree.ofFS, Tree.view, Tree.files, Tree.dirOf, Files.toFS, FS.files]
  simp only [tstep, apply1, hv]
  simp [Tree.put, Tree.ofFS, Tree.busy, Files.isNone, Files.none]

theorem trun_main_flat (tc : TCfg) (w : World) (ops : List Op) :
    trun tc ⟨Tree.ofFS w.fs, w.node⟩ (ops.map (TOp.on .main)) =
      ⟨Tree.ofFS (run tc.cfg w ops).fs, (run tc.cfg w ops).node⟩ := by
  induction ops generalizing w with
  | nil => rfl
  | cons op r ih =>
    simp only [List.map, trun, run, tstep_main_flat]
    exact ih (step tc.cfg w op).1

/-! ### frame for whole tree ops -/

theorem apply1_files_other (tc : TCfg) (t : Tree) (s s' : Store) (n : NodeSt) (op : Op) (h : s' ≠ s) :
    (apply1 tc t s n op).1.files s' = t.files s' := put_files_other tc.climb t s s' op _ h

theorem tstep_frame (tc : TCfg) (w : TWorld) (op : TOp) (s : Store) (h : op.touches s = false) :
    (tstep tc w op).1.tree.files s = w.tree.files s := by
  cases op with
  | on s0 o =>
    have hs : s ≠ s0 := by intro e; subst e; simp [TOp.touches] at h
    cases s0 <;> simp only [tstep] <;> exact apply1_files_other tc w.tree _ s _ o hs
  | ckpt c v =>
    simp only [TOp.touches, Bool.or_eq_false_iff, Bool.and_eq_false_iff, beq_eq_false_iff_ne] at h
    have hm : s ≠ .main := by simpa using h.1
    simp only [tstep]
    split
    · rename_i hc
      have hr : s ≠ .recovery := by
        rcases h.2 with h2 | h2
        · simpa using h2
        · rw [hc] at h2; cases h2
      rw [apply1_files_other tc _ .recovery s _ _ hr, apply1_files_other tc _ .main s _ _ hm]
    · exact apply1_files_other tc _ .main s _ _ hm
  | ckptCrash c v k =>
    have hm : s ≠ .main := by intro e; subst e; simp [TOp.touches] at h
    exact apply1_files_other tc _ .main s _ _ hm
  | fail c v =>
    have hm : s ≠ .recovery := by intro e; subst e; simp [TOp.touches] at h
    exact apply1_files_other tc _ .recovery s _ _ hm
  | failCrash c v k =>
    have hm : s ≠ .recovery := by intro e; subst e; simp [TOp.touches] at h
    exact apply1_files_other tc _ .recovery s _ _ hm

/-! ### delete in the nested layout -/

theorem apply1_delete_files (climb : Bool) (t : Tree) (s : Store) (n : NodeSt) :
    (apply1 ⟨⟨.atomicReplace, true⟩, climb⟩ t s n .delete).1.files s = Files.none := by
  simp only [apply1, step, put_files_same]
  rw [delete_all_sweep .atomicReplace _ (Or.inl rfl)]
  rfl

/-- with the climbing clean-up: a delete that empties `g/` removes it -/
theorem apply1_delete_climbs (t : Tree) (s : Store) (n : NodeSt) (ht : t.WF)
    (hb : t.gEmpty = false ∨ t.gdir = false) :
    (apply1 TCfg.current t s n .delete).1.gEmpty = true → (apply1 TCfg.current t s n .delete).1.gdir = false := by
  simp only [apply1, step, TCfg.current, Cfg.current]
  rw [delete_all_sweep .atomicReplace _ (Or.inl rfl)]
  obtain ⟨h1, h2, h3⟩ := ht
  cases s <;>
    simp_all [Tree.put, Tree.busy, Tree.gEmpty, FS.init, FS.files, Op.cleans, Op.isSave, Files.isNone] <;>
    (try split) <;> simp_all <;> grind

/-! ### the interface-level statement about `delete` -/

theorem backend_delete_cleans_iff {σ} (b : Backend σ) (hd : b.delComplete) (st : σ) :
    b.clean (b.delete st) = true ↔ b.truthfulAt st := by
  unfold Backend.delete Backend.truthfulAt
  cases hh : (b.hasContent st || b.hasLeftovers st)
  · cases hcl : b.clean st <;> simp [hcl]
  · simp [hd st]

theorem pickleBackend_delComplete (hook : Bool) : (pickleBackend hook).delComplete := by
  intro fs
  obtain ⟨d, p, q, pt, ct⟩ := fs
  simp [pickleBackend, deleteSteps, runSteps, Step.apply, FS.set, FS.noFiles]

theorem pickleBackend_truthful (fs : FS) : (pickleBackend true).truthfulAt fs := by
  obtain ⟨d, p, q, pt, ct⟩ := fs
  cases p <;> cases q <;> cases pt <;> cases ct <;>
    simp [pickleBackend, Backend.truthfulAt, hasSaved, hasLeftover, FS.noFiles]

/-! ### names that differ by a dotted tail -/

theorem nstep_append (tc : TCfg) (w : TWorld) (x : Name × Op) :
    (nstep tc .append w x.1 x.2).1 = (tstep tc w (nameOp x)).1 := by
  obtain ⟨n, op⟩ := x
  cases n <;> simp [nstep, nameOp, resolve, tstep]

theorem nrun_append (tc : TCfg) (w : TWorld) (ops : List (Name × Op)) :
    nrun tc .append w ops = trun tc w (ops.map nameOp) := by
  induction ops generalizing w with
  | nil => rfl
  | cons x r ih =>
    obtain ⟨n, op⟩ := x
    simp only [nrun, List.map, trun]
    rw [nstep_append tc w (n, op)]
    exact ih _

theorem promiseN_append (n : Name) (p : Promise) (ops : List (Name × Op)) :
    promiseN n p ops = promiseT (resolve .append n) p (ops.map nameOp) := by
  induction ops generalizing p with
  | nil => rfl
  | cons x r ih =>
    obtain ⟨n', op⟩ := x
    simp only [promiseN, List.map, promiseT, nameOp, TOp.proj]
    rw [ih]
    congr 1
    cases n <;> cases n' <;> simp [resolve, promise]

end PwVerif.Storage
