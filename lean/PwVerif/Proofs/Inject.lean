import PwVerif.Model.Inject
/-! Lemmas for C18: lookup-or-create keeps the children table a bijection label ↔ node. -/
namespace PwVerif.Inject

/-- labels and node ids of every parent's children are duplicate-free; ids are below the counter -/
def WF (st : St) : Prop :=
  ∀ par, ((st.children par).map (·.1)).Nodup ∧ ((st.children par).map (·.2)).Nodup ∧
    ∀ q ∈ st.children par, q.2 < st.next

theorem lookup_mem (l : List (String × Nat)) (k : String) (n : Nat) (h : l.lookup k = some n) : (k, n) ∈ l := by
  induction l with
  | nil => simp at h
  | cons q qs ih =>
    obtain ⟨a, b⟩ := q
    simp only [List.lookup_cons] at h
    by_cases hk : k = a
    · subst hk; simp at h; simp [h]
    · have : (k == a) = false := by simp [hk]
      rw [this] at h
      exact List.mem_cons_of_mem _ (ih h)

theorem lookup_of_mem (l : List (String × Nat)) (k : String) (n : Nat) (hnd : (l.map (·.1)).Nodup)
    (h : (k, n) ∈ l) : l.lookup k = some n := by
  induction l with
  | nil => simp at h
  | cons q qs ih =>
    obtain ⟨a, b⟩ := q
    have hq := List.nodup_cons.mp hnd
    simp only [List.mem_cons, Prod.mk.injEq] at h
    simp only [List.lookup_cons]
    rcases h with ⟨rfl, rfl⟩ | h
    · simp
    · have hne : k ≠ a := by
        intro e; subst e
        exact hq.1 (List.mem_map_of_mem (f := (·.1)) h)
      have : (k == a) = false := by simp [hne]
      rw [this]
      exact ih hq.2 h

theorem same_id_same_label (l : List (String × Nat)) (a b : String) (n : Nat)
    (hnd : (l.map (·.2)).Nodup) (ha : (a, n) ∈ l) (hb : (b, n) ∈ l) : a = b := by
  induction l with
  | nil => simp at ha
  | cons q qs ih =>
    have hq := List.nodup_cons.mp hnd
    simp only [List.mem_cons] at ha hb
    rcases ha with ha | ha <;> rcases hb with hb | hb
    · rw [← ha] at hb; exact (Prod.mk.inj hb).1.symm
    · exfalso; apply hq.1; rw [← ha]; exact List.mem_map_of_mem (f := (·.2)) hb
    · exfalso; apply hq.1; rw [← hb]; exact List.mem_map_of_mem (f := (·.2)) ha
    · exact ih hq.2 ha hb

/-! ### lookup-or-create for an arbitrary labelling `L` of expressions -/

theorem injectL_found {α : Type} (L : α → String) (st : St) (par : Nat) (e : α) (n : Nat)
    (h : (st.children par).lookup (L e) = some n) : injectL L st (some par) e = (st, n) := by
  simp [injectL, h]

theorem injectL_new {α : Type} (L : α → String) (st : St) (par : Nat) (e : α)
    (h : (st.children par).lookup (L e) = none) :
    injectL L st (some par) e =
      ({ children := updF st.children par (st.children par ++ [(L e, st.next)]), next := st.next + 1 },
       st.next) := by
  simp [injectL, h]

theorem injectL_WF {α : Type} (L : α → String) (st : St) (parent : Option Nat) (e : α) (h : WF st) :
    WF (injectL L st parent e).1 := by
  cases parent with
  | none =>
    intro par
    obtain ⟨h1, h2, h3⟩ := h par
    exact ⟨h1, h2, fun q hq => Nat.lt_succ_of_lt (h3 q hq)⟩
  | some par =>
    cases hl : (st.children par).lookup (L e) with
    | some n => rw [injectL_found L st par e n hl]; exact h
    | none =>
      rw [injectL_new L st par e hl]
      intro par'
      obtain ⟨h1, h2, h3⟩ := h par'
      by_cases hp : par' = par
      · subst hp
        simp only [updF_same, List.map_append, List.map_cons, List.map_nil]
        have hnot : L e ∉ (st.children par').map (·.1) := by
          intro hm
          obtain ⟨q, hq, hq1⟩ := List.mem_map.mp hm
          have := List.lookup_eq_none_iff.mp hl q hq
          simp [hq1] at this
        have hid : st.next ∉ (st.children par').map (·.2) := by
          intro hm
          obtain ⟨q, hq, hq1⟩ := List.mem_map.mp hm
          have := h3 q hq
          omega
        refine ⟨?_, ?_, ?_⟩
        · rw [List.nodup_append]
          refine ⟨h1, by simp, ?_⟩
          intro a ha b hb
          simp only [List.mem_singleton] at hb
          subst hb; intro e'; subst e'; exact hnot ha
        · rw [List.nodup_append]
          refine ⟨h2, by simp, ?_⟩
          intro a ha b hb
          simp only [List.mem_singleton] at hb
          subst hb; intro e'; subst e'; exact hid ha
        · intro q hq
          simp only [List.mem_append, List.mem_singleton] at hq
          rcases hq with hq | hq
          · exact Nat.lt_succ_of_lt (h3 q hq)
          · subst hq; simp
      · simp only [updF_other _ _ _ _ hp]
        exact ⟨h1, h2, fun q hq => Nat.lt_succ_of_lt (h3 q hq)⟩

/-- after the injection the label resolves to the returned node -/
theorem injectL_lookup_self {α : Type} (L : α → String) (st : St) (par : Nat) (e : α) :
    ((injectL L st (some par) e).1.children par).lookup (L e) = some (injectL L st (some par) e).2 := by
  cases hl : (st.children par).lookup (L e) with
  | some n => rw [injectL_found L st par e n hl]; exact hl
  | none => rw [injectL_new L st par e hl]; simp [List.lookup_append, hl]

/-- existing names keep resolving to the same node -/
theorem injectL_mono {α : Type} (L : α → String) (st : St) (parent : Option Nat) (e : α)
    (par : Nat) (l : String) (n : Nat) (h : (st.children par).lookup l = some n) :
    ((injectL L st parent e).1.children par).lookup l = some n := by
  cases parent with
  | none => exact h
  | some par' =>
    cases hl : (st.children par').lookup (L e) with
    | some m => rw [injectL_found L st par' e m hl]; exact h
    | none =>
      rw [injectL_new L st par' e hl]
      by_cases hp : par = par'
      · subst hp; simp [List.lookup_append, h]
      · simp [updF_other _ _ _ _ hp, h]

/-- a history of injections into one parent: final state and the nodes returned, in order -/
def injAllL (L : Expr → String) (st : St) (par : Nat) : List Expr → St × List Nat
  | [] => (st, [])
  | e :: es =>
    let r := injectL L st (some par) e
    let rs := injAllL L r.1 par es
    (rs.1, r.2 :: rs.2)

theorem injAllL_WF (L : Expr → String) (st : St) (par : Nat) (es : List Expr) (h : WF st) :
    WF (injAllL L st par es).1 := by
  induction es generalizing st with
  | nil => exact h
  | cons e es ih => exact ih _ (injectL_WF L st (some par) e h)

theorem injAllL_mono (L : Expr → String) (st : St) (par : Nat) (es : List Expr)
    (l : String) (n : Nat) (h : (st.children par).lookup l = some n) :
    ((injAllL L st par es).1.children par).lookup l = some n := by
  induction es generalizing st with
  | nil => exact h
  | cons e es ih => exact ih _ (injectL_mono L st (some par) e par l n h)

theorem injAllL_length (L : Expr → String) (st : St) (par : Nat) (es : List Expr) :
    (injAllL L st par es).2.length = es.length := by
  induction es generalizing st with
  | nil => rfl
  | cons e es ih => simp [injAllL, ih]

/-- every returned node is what its label resolves to at the end -/
theorem injAllL_lookup (L : Expr → String) (st : St) (par : Nat) (es : List Expr)
    (e : Expr) (n : Nat) (h : (e, n) ∈ es.zip (injAllL L st par es).2) :
    ((injAllL L st par es).1.children par).lookup (L e) = some n := by
  induction es generalizing st with
  | nil => simp [injAllL] at h
  | cons e' es ih =>
    simp only [injAllL, List.zip_cons_cons, List.mem_cons, Prod.mk.injEq] at h
    rcases h with ⟨rfl, rfl⟩ | h
    · exact injAllL_mono L _ par es _ _ (injectL_lookup_self L st par e)
    · exact ih _ h

/-- **sharing = equal labels**: two expressions of a history got the same node iff their labels coincide -/
theorem share_iffL (L : Expr → String) (st : St) (par : Nat) (es : List Expr) (hwf : WF st)
    (e1 e2 : Expr) (n1 n2 : Nat)
    (h1 : (e1, n1) ∈ es.zip (injAllL L st par es).2) (h2 : (e2, n2) ∈ es.zip (injAllL L st par es).2) :
    n1 = n2 ↔ L e1 = L e2 := by
  have l1 := injAllL_lookup L st par es e1 n1 h1
  have l2 := injAllL_lookup L st par es e2 n2 h2
  have wf := injAllL_WF L st par es hwf par
  constructor
  · intro e
    subst e
    exact same_id_same_label _ _ _ n1 wf.2.1 (lookup_mem _ _ _ l1) (lookup_mem _ _ _ l2)
  · intro e
    rw [e] at l1
    rw [l1] at l2
    exact Option.some.inj l2

theorem injAllL_append_state (L : Expr → String) (st : St) (par : Nat) (es fs : List Expr) :
    (injAllL L st par (es ++ fs)).1 = (injAllL L (injAllL L st par es).1 par fs).1 := by
  induction es generalizing st with
  | nil => rfl
  | cons e es ih => simp only [List.cons_append, injAllL]; exact ih _

theorem exists_zip_of_mem {α β : Type} (l : List α) (ns : List β) (h : ns.length = l.length) (a : α) (ha : a ∈ l) :
    ∃ n, (a, n) ∈ l.zip ns := by
  induction l generalizing ns with
  | nil => simp at ha
  | cons x xs ih =>
    cases ns with
    | nil => simp at h
    | cons n ns =>
      simp only [List.mem_cons] at ha
      rcases ha with rfl | ha
      · exact ⟨n, by simp⟩
      · obtain ⟨m, hm⟩ := ih ns (by simpa using h) ha
        exact ⟨m, by simp [hm]⟩

/-- writing an expression of the history again changes nothing at all: the table of children is the same -/
theorem rewrite_noop (L : Expr → String) (st : St) (par : Nat) (es : List Expr) (e : Expr) (he : e ∈ es) :
    (injAllL L st par (es ++ [e])).1 = (injAllL L st par es).1 := by
  rw [injAllL_append_state]
  obtain ⟨n, hn⟩ := exists_zip_of_mem es _ (injAllL_length L st par es) e he
  have hl := injAllL_lookup L st par es e n hn
  simp only [injAllL]
  rw [injectL_found L _ par e n hl]

/-! ### the same for the labels of `_get_injection_label` (instances of the generic lemmas) -/

theorem inject_found (H : Key → String) (p : Printer) (st : St) (par : Nat) (e : Expr) (n : Nat)
    (h : (st.children par).lookup (label H p e) = some n) : inject H p st (some par) e = (st, n) :=
  injectL_found (label H p) st par e n h

theorem inject_new (H : Key → String) (p : Printer) (st : St) (par : Nat) (e : Expr)
    (h : (st.children par).lookup (label H p e) = none) :
    inject H p st (some par) e =
      ({ children := updF st.children par (st.children par ++ [(label H p e, st.next)]), next := st.next + 1 },
       st.next) :=
  injectL_new (label H p) st par e h

theorem inject_WF (H : Key → String) (p : Printer) (st : St) (parent : Option Nat) (e : Expr) (h : WF st) :
    WF (inject H p st parent e).1 := injectL_WF (label H p) st parent e h

theorem inject_lookup_self (H : Key → String) (p : Printer) (st : St) (par : Nat) (e : Expr) :
    ((inject H p st (some par) e).1.children par).lookup (label H p e) = some (inject H p st (some par) e).2 :=
  injectL_lookup_self (label H p) st par e

theorem inject_mono (H : Key → String) (p : Printer) (st : St) (parent : Option Nat) (e : Expr)
    (par : Nat) (l : String) (n : Nat) (h : (st.children par).lookup l = some n) :
    ((inject H p st parent e).1.children par).lookup l = some n :=
  injectL_mono (label H p) st parent e par l n h

/-- a history of injections into one parent: final state and the nodes returned, in order -/
def injAll (H : Key → String) (p : Printer) (st : St) (par : Nat) (es : List Expr) : St × List Nat :=
  injAllL (label H p) st par es

theorem injAll_WF (H : Key → String) (p : Printer) (st : St) (par : Nat) (es : List Expr) (h : WF st) :
    WF (injAll H p st par es).1 := injAllL_WF (label H p) st par es h

theorem injAll_mono (H : Key → String) (p : Printer) (st : St) (par : Nat) (es : List Expr)
    (l : String) (n : Nat) (h : (st.children par).lookup l = some n) :
    ((injAll H p st par es).1.children par).lookup l = some n := injAllL_mono (label H p) st par es l n h

theorem injAll_length (H : Key → String) (p : Printer) (st : St) (par : Nat) (es : List Expr) :
    (injAll H p st par es).2.length = es.length := injAllL_length (label H p) st par es

theorem injAll_lookup (H : Key → String) (p : Printer) (st : St) (par : Nat) (es : List Expr)
    (e : Expr) (n : Nat) (h : (e, n) ∈ es.zip (injAll H p st par es).2) :
    ((injAll H p st par es).1.children par).lookup (label H p e) = some n :=
  injAllL_lookup (label H p) st par es e n h

/-- **sharing = equal labels**: two expressions of a history got the same node iff their labels coincide -/
theorem share_iff (H : Key → String) (p : Printer) (st : St) (par : Nat) (es : List Expr) (hwf : WF st)
    (e1 e2 : Expr) (n1 n2 : Nat)
    (h1 : (e1, n1) ∈ es.zip (injAll H p st par es).2) (h2 : (e2, n2) ∈ es.zip (injAll H p st par es).2) :
    n1 = n2 ↔ label H p e1 = label H p e2 :=
  share_iffL (label H p) st par es hwf e1 e2 n1 n2 h1 h2

theorem injAll_nil (H : Key → String) (p : Printer) (st : St) (par : Nat) : injAll H p st par [] = (st, []) := rfl

theorem injAll_cons (H : Key → String) (p : Printer) (st : St) (par : Nat) (e : Expr) (es : List Expr) :
    injAll H p st par (e :: es) =
      ((injAll H p (inject H p st (some par) e).1 par es).1,
       (inject H p st (some par) e).2 :: (injAll H p (inject H p st (some par) e).1 par es).2) := rfl

/-! ### when is the printed key injective? -/

/-- two operands that can be told apart by a careful printer: channels by their scoped label (true among
the channels of one parent, whose node labels are unique), raw objects by type name + repr -/
def Consistent : Operand → Operand → Prop
  | .chan i s, .chan j s' => s = s' → i = j
  | .raw t s r, .raw t' s' r' => t = t' → r = r' → s = s'
  | _, _ => True

theorem opKey_inj (o1 o2 : Operand) (hc : Consistent o1 o2) (h : opKey o1 = opKey o2) : o1 = o2 := by
  cases o1 with
  | chan i s =>
    cases o2 with
    | chan j s' =>
      simp only [opKey, OpKey.ch.injEq] at h
      subst h
      have := hc rfl
      subst this; rfl
    | raw t s' r => simp [opKey] at h
  | raw t s r =>
    cases o2 with
    | chan j s' => simp [opKey] at h
    | raw t' s' r' =>
      simp only [opKey, OpKey.obj.injEq] at h
      obtain ⟨rfl, rfl⟩ := h
      have := hc rfl rfl
      subst this; rfl

theorem map_opKey_inj (l1 l2 : List Operand) (hc : ∀ o1 ∈ l1, ∀ o2 ∈ l2, Consistent o1 o2)
    (h : l1.map opKey = l2.map opKey) : l1 = l2 := by
  induction l1 generalizing l2 with
  | nil => cases l2 <;> simp_all
  | cons a as ih =>
    cases l2 with
    | nil => simp at h
    | cons b bs =>
      simp only [List.map_cons, List.cons.injEq] at h
      have hab := opKey_inj a b (hc a (by simp) b (by simp)) h.1
      have := ih bs (fun o1 h1 o2 h2 => hc o1 (List.mem_cons_of_mem _ h1) o2 (List.mem_cons_of_mem _ h2)) h.2
      rw [hab, this]

/-! ### the label `injected_<Class>_<hash>` -/

/-- splitting a string at the first occurrence of a character is unambiguous -/
theorem split_first (c : Char) (a b x y : List Char) (ha : c ∉ a) (hb : c ∉ b)
    (h : a ++ c :: x = b ++ c :: y) : a = b ∧ x = y := by
  induction a generalizing b with
  | nil =>
    cases b with
    | nil => simp at h; exact ⟨rfl, h⟩
    | cons b0 bs =>
      simp at h
      exact absurd h.1 (by intro e; apply hb; simp [e])
  | cons a0 as ih =>
    cases b with
    | nil =>
      simp at h
      exact absurd h.1 (by intro e; apply ha; simp [e])
    | cons b0 bs =>
      simp only [List.cons_append, List.cons.injEq] at h
      have := ih bs (fun m => ha (List.mem_cons_of_mem _ m)) (fun m => hb (List.mem_cons_of_mem _ m)) h.2
      exact ⟨by rw [h.1, this.1], this.2⟩

/-- the label determines the class and the rendered hash, because class names contain no underscore -/
theorem label_inj (H : Key → String) (p : Printer) (e1 e2 : Expr)
    (h1 : '_' ∉ e1.cls.toList) (h2 : '_' ∉ e2.cls.toList) (h : label H p e1 = label H p e2) :
    e1.cls = e2.cls ∧ H (key p e1) = H (key p e2) := by
  unfold label at h
  have h' := congrArg String.toList h
  simp only [String.toList_append] at h'
  have h'' : e1.cls.toList ++ '_' :: (H (key p e1)).toList = e2.cls.toList ++ '_' :: (H (key p e2)).toList := by
    simpa [List.append_assoc] using h'
  have := split_first '_' _ _ _ _ h1 h2 h''
  exact ⟨String.toList_inj.mp this.1, String.toList_inj.mp this.2⟩

theorem labelWith_inj (H : Key → String) (pr : Operand → OpKey) (e1 e2 : Expr)
    (h1 : '_' ∉ e1.cls.toList) (h2 : '_' ∉ e2.cls.toList) (h : labelWith H pr e1 = labelWith H pr e2) :
    e1.cls = e2.cls ∧ H (keyWith pr e1) = H (keyWith pr e2) := by
  unfold labelWith at h
  have h' := congrArg String.toList h
  simp only [String.toList_append] at h'
  have h'' : e1.cls.toList ++ '_' :: (H (keyWith pr e1)).toList = e2.cls.toList ++ '_' :: (H (keyWith pr e2)).toList := by
    simpa [List.append_assoc] using h'
  have := split_first '_' _ _ _ _ h1 h2 h''
  exact ⟨String.toList_inj.mp this.1, String.toList_inj.mp this.2⟩

/-- a map that is injective on the elements of two lists is injective on the lists -/
theorem map_inj_on {α β : Type} (f : α → β) (l1 l2 : List α)
    (hf : ∀ a ∈ l1, ∀ b ∈ l2, f a = f b → a = b) (h : l1.map f = l2.map f) : l1 = l2 := by
  induction l1 generalizing l2 with
  | nil => cases l2 <;> simp_all
  | cons a as ih =>
    cases l2 with
    | nil => simp at h
    | cons b bs =>
      simp only [List.map_cons, List.cons.injEq] at h
      have hab := hf a (by simp) b (by simp) h.1
      have := ih bs (fun x hx y hy => hf x (List.mem_cons_of_mem _ hx) y (List.mem_cons_of_mem _ hy)) h.2
      rw [hab, this]

theorem dispatch_no_underscore : ∀ d : Dunder, '_' ∉ (dispatch d).toList := by
  intro d; cases d <;> decide

/-! ### slicing -/

theorem getitemSliceRun_ok (H : Key → String) (p : Printer) (f : SliceFn) (st : St) (parent : Option Nat)
    (owner : Nat) (slabel : String) (a b c : Operand) (chanOf : Nat → Nat) (ready sN bN cN : Bool)
    (h : sliceRaises f ready sN bN cN = false) :
    getitemSliceRun H p f st parent owner slabel a b c chanOf ready sN bN cN =
      ((getitemSlice H p st parent owner slabel a b c chanOf).1,
       (getitemSlice H p st parent owner slabel a b c chanOf).2.1,
       some (getitemSlice H p st parent owner slabel a b c chanOf).2.2) := by
  simp [getitemSliceRun, getitemSlice, h]

/-- an existing `Slice` node is never run again by the expression: no exception, both nodes come back -/
theorem getitemSliceRun_found (H : Key → String) (p : Printer) (f : SliceFn) (st : St) (par : Nat)
    (owner : Nat) (slabel : String) (a b c : Operand) (chanOf : Nat → Nat) (ready sN bN cN : Bool) (n : Nat)
    (hwf : WF st)
    (h : (st.children par).lookup (label H p ⟨owner, slabel, "Slice", [a, b, c]⟩) = some n) :
    (getitemSliceRun H p f st (some par) owner slabel a b c chanOf ready sN bN cN).2.2 =
      some (getitemSlice H p st (some par) owner slabel a b c chanOf).2.2 := by
  have hlt : n < st.next := (hwf par).2.2 _ (lookup_mem _ _ _ h)
  have hne : (n == st.next) = false := by simp; omega
  simp [getitemSliceRun, getitemSlice, inject_found H p st par _ n h, hne]

theorem sliceRaises_python (ready sN bN cN : Bool) : sliceRaises .python ready sN bN cN = false := by
  simp [sliceRaises, sliceNode, Except.isOk, Except.toBool]

/-- the strict node raises exactly on the open-ended forms `x[a:]`, `x[:b:c]`, `x[::c]`, `x[:]` -/
theorem sliceRaises_strict (ready sN bN cN : Bool) :
    sliceRaises .strict ready sN bN cN = (ready && (bN || (sN && !cN))) := by
  cases ready <;> cases sN <;> cases bN <;> cases cN <;> rfl

/-! ### edits of the world between writing and re-writing -/

/-- after any history whose edits fix the label of `e`, the name under which `e`'s node was stored still resolves
to it, in the world as it is then -/
theorem runSteps_lookup {α W : Type} (L : W → α → String) (par : Nat) (e : α) (n : Nat)
    (steps : List (Step α W)) (w : W) (st : St)
    (h : (st.children par).lookup (L w e) = some n) (hf : Fixes L e w steps) :
    (((runSteps L par w st steps).2).children par).lookup (L (runSteps L par w st steps).1 e) = some n := by
  induction steps generalizing w st with
  | nil => exact h
  | cons s r ih =>
    cases s with
    | write e' => exact ih w _ (injectL_mono (L w) st (some par) e' par _ n h) hf
    | edit f =>
      obtain ⟨h1, h2⟩ := hf
      exact ih (f w) st (by rw [h1]; exact h) h2

theorem fixes_of_editsIn {α W : Type} (L : W → α → String) (e : α) (ok : (W → W) → Prop)
    (hok : ∀ f, ok f → ∀ w, L (f w) e = L w e) (steps : List (Step α W)) (w : W) (h : EditsIn ok steps) :
    Fixes L e w steps := by
  induction steps generalizing w with
  | nil => trivial
  | cons s r ih =>
    cases s with
    | write e' => exact ih w h
    | edit f => exact ⟨hok f h.1 w, ih (f w) h.2⟩

theorem render_congr (w w' : World) (e : Expr0) (h : ∀ i ∈ e.chans, w'.name i = w.name i) : render w' e = render w e := by
  have ho : w'.name e.owner = w.name e.owner := h _ (by simp [Expr0.chans])
  have hops : ∀ o ∈ e.ops, (match o with | .chan i => Operand.chan i (w'.name i) | .raw t s r => Operand.raw t s r) =
      (match o with | .chan i => Operand.chan i (w.name i) | .raw t s r => Operand.raw t s r) := by
    intro o ho'
    cases o with
    | chan i =>
      have : w'.name i = w.name i := h i (by
        simp only [Expr0.chans, List.mem_cons, List.mem_filterMap]
        exact Or.inr ⟨.chan i, ho', rfl⟩)
      simp [this]
    | raw t s r => rfl
  simp only [render, ho]
  congr 1
  exact List.map_congr_left hops

end PwVerif.Inject
