import PwVerif.Model.ExecNest
import PwVerif.Proofs.Exec
import PwVerif.Proofs.ExecFin
import PwVerif.Proofs.ExecFine
/-!
Lemmas for the nested executor: the flat invariant `Exec.Inv` holds at every level of the tree (for the
effective wiring `effDag`), plus the links between a composite child's status in its parent and the
state of its own run.
-/
namespace PwVerif.ExecNest
open PwVerif PwVerif.Exec

variable {E E' : Type}

theorem wf_eff {d : Dag} (kids : Nat → Tree E) (h : WF d) : WF (effDag d kids) :=
  ⟨h.downSpec, h.downNodup, h.noSelf, h.startNodup, h.startRoots, h.rootsStart⟩

/-- the invariant only talks about `fails` at children whose job is over -/
theorem inv_fails_agree (cfg : Cfg) (d : Dag) (f' : Nat → Bool) (s : S) (h : Inv cfg d s)
    (hf : ∀ i, s.st i = .done ∨ s.st i = .failed → f' i = d.fails i) :
    Inv cfg { d with fails := f' } s := by
  obtain ⟨hc, hp, he⟩ := h
  refine ⟨⟨hc.calls1, hc.order, hc.tokens, hc.notYet, hc.hotIdle, hc.running, hc.runNodup, hc.valDone,
    hc.valNot, hc.valOut, ?_, hc.errsFailed, ?_⟩, ⟨hp.rest, hp.exited⟩, ⟨he.outExec, he.failedSeen, he.abortedCfg⟩⟩
  · intro i hi
    show f' i = true
    rw [hf i (Or.inr hi)]; exact hc.failedFails i hi
  · intro i hi
    show f' i = false
    rw [hf i (Or.inl hi)]; exact hc.doneOk i hi

/-- how `run` of child `i` moves statuses: only `i`, only out of `idle`, to `out` iff handed away -/
theorem runNode_st (d : Dag) (s : S) (i j : Nat) :
    (runNode d s i).1.st j = s.st j ∨
    (j = i ∧ s.st i = .idle ∧ d.onExec i = true ∧ (runNode d s i).1.st j = .out) ∨
    (j = i ∧ s.st i = .idle ∧ d.onExec i = false ∧
      ((runNode d s i).1.st j = .done ∨ (runNode d s i).1.st j = .failed)) := by
  by_cases hc : s.st i ≠ .idle ∨ (fetchArgs d s.out i).any Val.isNd = true
  · left; unfold runNode; dsimp only; rw [if_pos hc]
  · have hidle : s.st i = .idle := by
      apply Classical.byContradiction; intro hn; exact hc (Or.inl hn)
    unfold runNode; dsimp only; rw [if_neg hc]
    by_cases hji : j = i
    · subst hji
      cases hx : d.onExec j
      · right; right
        refine ⟨rfl, hidle, rfl, ?_⟩
        cases hf : d.fails j <;> simp
      · right; left
        refine ⟨rfl, hidle, rfl, ?_⟩
        simp
    · left
      cases hx : d.onExec i <;> cases hf : d.fails i <;> simp [updF, hji]

theorem step_st (cfg : Cfg) (d : Dag) (s s' : S) (a : Act) (h : step cfg d s a = some s') (j : Nat) :
    s'.st j = s.st j ∨
    (s.st j = .idle ∧ d.onExec j = true ∧ s'.st j = .out) ∨
    (s.st j = .idle ∧ d.onExec j = false ∧ (s'.st j = .done ∨ s'.st j = .failed)) ∨
    (a = .complete j ∧ s.st j = .out ∧ (s'.st j = .done ∨ s'.st j = .failed)) := by
  cases a with
  | start =>
    simp only [step] at h
    split at h
    · rename_i i rest hph
      have hr := runNode_st d s i j
      split at h
      · rename_i s1 heq
        simp only [Option.some.injEq] at h; subst h
        rw [heq] at hr
        rcases hr with hr | ⟨rfl, h1, h2, h3⟩ | ⟨rfl, h1, h2, h3⟩
        · left; exact hr
        · right; left; exact ⟨h1, h2, h3⟩
        · right; right; left; exact ⟨h1, h2, h3⟩
      · rename_i s1 heq
        rw [heq] at hr
        split at h <;> (simp only [Option.some.injEq] at h; subst h) <;>
        · rcases hr with hr | ⟨rfl, h1, h2, h3⟩ | ⟨rfl, h1, h2, h3⟩
          · left; exact hr
          · right; left; exact ⟨h1, h2, h3⟩
          · right; right; left; exact ⟨h1, h2, h3⟩
    · cases h
  | deliver =>
    simp only [step] at h
    split at h
    · rename_i jj i q hph hq
      split at h
      · have hr := runNode_st d { s with queue := q, received := updF s.received i [] } i j
        split at h
        · rename_i s1 heq
          simp only [Option.some.injEq] at h; subst h
          rw [heq] at hr
          rcases hr with hr | ⟨rfl, h1, h2, h3⟩ | ⟨rfl, h1, h2, h3⟩
          · left; exact hr
          · right; left; exact ⟨h1, h2, h3⟩
          · right; right; left; exact ⟨h1, h2, h3⟩
        · rename_i s1 heq
          simp only [Option.some.injEq] at h; subst h
          rw [heq] at hr
          rcases hr with hr | ⟨rfl, h1, h2, h3⟩ | ⟨rfl, h1, h2, h3⟩
          · left; exact hr
          · right; left; exact ⟨h1, h2, h3⟩
          · right; right; left; exact ⟨h1, h2, h3⟩
      · simp only [Option.some.injEq] at h; subst h
        left; rfl
    · cases h
  | complete k =>
    simp only [step] at h
    split at h
    · split at h
      · rename_i hk
        by_cases hjk : j = k
        · subst hjk
          right; right; right
          refine ⟨rfl, hk, ?_⟩
          split at h <;> (simp only [Option.some.injEq] at h; subst h) <;> simp
        · left
          split at h <;> (simp only [Option.some.injEq] at h; subst h) <;> simp [updF, hjk]
      · cases h
    · cases h
  | exit =>
    simp only [step] at h
    split at h
    · simp only [Option.some.injEq] at h; subst h; left; rfl
    · cases h

/-- every composite of the tree is properly wired -/
def NWF : Tree E → Prop
  | .leaf => True
  | .comp d _ _ kids => WF d ∧ ∀ k, NWF (kids k)

/-- a child's status in its parent vs. the state of its own run: not started → untouched;
job over → its loop has ended -/
def Link (s : S) (k : Nat) (t : Tree E) : Prop :=
  (s.st k = .idle → Fresh t) ∧ ((s.st k = .done ∨ s.st k = .failed) → t.over = true)

/-- the flat invariant at every level, for the effective wiring -/
def NInv (cfg : Cfg) : Tree E → Prop
  | .leaf => True
  | .comp d _ s kids => Inv cfg (effDag d kids) s ∧ (∀ k, NInv cfg (kids k)) ∧ (∀ k, Link s k (kids k))

theorem fresh_ninv (cfg : Cfg) (t : Tree E) (wf : NWF t) (hf : Fresh t) : NInv cfg t := by
  induction t with
  | leaf => trivial
  | comp d exc s kids ih =>
    obtain ⟨hs, hk⟩ := hf
    obtain ⟨wd, wk⟩ := wf
    refine ⟨?_, fun k => ih k (wk k) (hk k), ?_⟩
    · subst hs
      exact init_inv cfg (effDag d kids) (wf_eff kids wd)
    · intro k
      exact ⟨fun _ => hk k, by subst hs; simp [init]⟩

theorem nstep_nil (cfg : Cfg) (d : Dag) (exc : Nat → E) (s : S) (kids : Nat → Tree E) (a : Act) (t' : Tree E) :
    nstep cfg (.comp d exc s kids) [] a = some t' ↔
      okAct kids a = true ∧ ∃ s', step cfg (effDag d kids) s a = some s' ∧ t' = .comp d exc s' kids := by
  simp only [nstep]
  by_cases hok : okAct kids a = true
  · rw [if_pos hok]
    cases hs : step cfg (effDag d kids) s a with
    | none => simp
    | some s1 =>
      simp only [Option.map_some, Option.some.injEq, hok, true_and]
      constructor
      · intro h; exact ⟨s1, rfl, h.symm⟩
      · rintro ⟨s', h1, h2⟩; cases h1; exact h2.symm
  · rw [if_neg hok]; simp [hok]

theorem nstep_cons (cfg : Cfg) (d : Dag) (exc : Nat → E) (s : S) (kids : Nat → Tree E) (k : Nat) (p : List Nat)
    (a : Act) (t' : Tree E) :
    nstep cfg (.comp d exc s kids) (k :: p) a = some t' ↔
      s.st k = .out ∧ ∃ tk, nstep cfg (kids k) p a = some tk ∧ t' = .comp d exc s (updF kids k tk) := by
  simp only [nstep]
  by_cases hout : s.st k = .out
  · rw [if_pos hout]
    cases hs : nstep cfg (kids k) p a with
    | none => simp
    | some t1 =>
      simp only [Option.map_some, Option.some.injEq, hout, true_and]
      constructor
      · intro h; exact ⟨t1, rfl, h.symm⟩
      · rintro ⟨tk, h1, h2⟩; cases h1; exact h2.symm
  · rw [if_neg hout]; simp [hout]

/-- a step keeps the shape of the tree: same wiring, same exception table -/
theorem nstep_shape (cfg : Cfg) (t t' : Tree E) (p : List Nat) (a : Act) (h : nstep cfg t p a = some t') :
    ∃ d exc s kids s' kids', t = .comp d exc s kids ∧ t' = .comp d exc s' kids' := by
  cases t with
  | leaf => simp [nstep] at h
  | comp d exc s kids =>
    cases p with
    | nil =>
      obtain ⟨_, s', _, rfl⟩ := (nstep_nil ..).mp h
      exact ⟨d, exc, s, kids, s', kids, rfl, rfl⟩
    | cons k p =>
      obtain ⟨_, tk, _, rfl⟩ := (nstep_cons ..).mp h
      exact ⟨d, exc, s, kids, s, _, rfl, rfl⟩

theorem effDag_upd (d : Dag) (kids : Nat → Tree E) (k : Nat) (dk : Dag) (ek : Nat → E) (sk sk' : S)
    (kk kk' : Nat → Tree E) (hk : kids k = .comp dk ek sk kk) :
    effDag d (updF kids k (.comp dk ek sk' kk')) =
      { effDag d kids with fails := fun i => if i = k then compFailed sk' else (effDag d kids).fails i } := by
  unfold effDag
  congr 1 <;>
  · funext i
    by_cases hi : i = k
    · subst hi; simp [updF, hk]
    · simp [updF, hi]

theorem nstep_inv (cfg : Cfg) (t : Tree E) : ∀ (p : List Nat) (a : Act) (t' : Tree E),
    NWF t → NInv cfg t → nstep cfg t p a = some t' → NInv cfg t' ∧ NWF t' := by
  induction t with
  | leaf => intro p a t' _ _ h; simp [nstep] at h
  | comp d exc s kids ih =>
    intro p a t' wf hinv h
    obtain ⟨wd, wk⟩ := wf
    obtain ⟨hI, hK, hL⟩ := hinv
    cases p with
    | nil =>
      obtain ⟨hok, s', hs', rfl⟩ := (nstep_nil ..).mp h
      refine ⟨⟨step_inv cfg _ (wf_eff kids wd) s s' a hI hs', hK, ?_⟩, wd, wk⟩
      intro k
      obtain ⟨l1, l2⟩ := hL k
      rcases step_st cfg _ s s' a hs' k with e | ⟨h1, _, h3⟩ | ⟨h1, h2, h3⟩ | ⟨rfl, h2, h3⟩
      · exact ⟨fun hi => l1 (e ▸ hi), fun hi => l2 (e ▸ hi)⟩
      · exact ⟨fun hi => by simp [h3] at hi, fun hi => by simp [h3] at hi⟩
      · have hleaf : (kids k).over = true := by
          cases hkk : kids k with
          | leaf => rfl
          | comp _ _ _ _ => simp [effDag, hkk] at h2
        refine ⟨fun hi => ?_, fun _ => hleaf⟩
        rcases h3 with h3 | h3 <;> simp [h3] at hi
      · refine ⟨fun hi => ?_, fun _ => by simpa [okAct] using hok⟩
        rcases h3 with h3 | h3 <;> simp [h3] at hi
    | cons k p =>
      obtain ⟨hout, tk, htk, rfl⟩ := (nstep_cons ..).mp h
      obtain ⟨ik, wk'⟩ := ih k p a tk (wk k) (hK k) htk
      obtain ⟨dk, ek, sk, kk, sk', kk', e1, e2⟩ := nstep_shape cfg _ _ p a htk
      refine ⟨⟨?_, ?_, ?_⟩, wd, ?_⟩
      · rw [e2, effDag_upd d kids k dk ek sk sk' kk kk' e1]
        apply inv_fails_agree cfg _ _ s hI
        intro i hi
        have : i ≠ k := by
          rintro rfl
          rcases hi with hi | hi <;> simp [hout] at hi
        simp [this]
      · intro j
        by_cases hj : j = k
        · subst hj; simpa [updF] using ik
        · simpa [updF, hj] using hK j
      · intro j
        by_cases hj : j = k
        · subst hj
          exact ⟨fun hi => by simp [hout] at hi, fun hi => by rcases hi with hi | hi <;> simp [hout] at hi⟩
        · simpa [updF, hj] using hL j
      · intro j
        by_cases hj : j = k
        · subst hj; simpa [updF] using wk'
        · simpa [updF, hj] using wk j

theorem nrun_inv (cfg : Cfg) (acts : List (List Nat × Act)) : ∀ (t t' : Tree E),
    NWF t → NInv cfg t → nrun cfg t acts = some t' → NInv cfg t' ∧ NWF t' := by
  induction acts with
  | nil => intro t t' wf hi h; simp [nrun] at h; subst h; exact ⟨hi, wf⟩
  | cons pa rest ih =>
    intro t t' wf hi h
    obtain ⟨p, a⟩ := pa
    simp only [nrun] at h
    split at h
    · rename_i t1 h1
      obtain ⟨i1, w1⟩ := nstep_inv cfg t p a t1 wf hi h1
      exact ih t1 t' w1 i1 h
    · cases h

@[simp] theorem sub_nil (t : Tree E) : t.sub [] = t := by cases t <;> rfl
@[simp] theorem sub_leaf (p : List Nat) : (Tree.leaf : Tree E).sub p = .leaf := by cases p <;> rfl
@[simp] theorem sub_cons (d : Dag) (exc : Nat → E) (s : S) (kids : Nat → Tree E) (k : Nat) (p : List Nat) :
    (Tree.comp d exc s kids).sub (k :: p) = (kids k).sub p := rfl

theorem ninv_sub (cfg : Cfg) (t : Tree E) : ∀ p, NInv cfg t → NInv cfg (t.sub p) := by
  induction t with
  | leaf => intro p _; simp [NInv]
  | comp d exc s kids ih =>
    intro p h
    cases p with
    | nil => simpa using h
    | cons k p => exact ih k p (h.2.1 k)

theorem nwf_sub (t : Tree E) : ∀ p, NWF t → NWF (t.sub p) := by
  induction t with
  | leaf => intro p _; simp [NWF]
  | comp d exc s kids ih =>
    intro p h
    cases p with
    | nil => simpa using h
    | cons k p => exact ih k p (h.2 k)

theorem fresh_sub (t : Tree E) : ∀ p, Fresh t → Fresh (t.sub p) := by
  induction t with
  | leaf => intro p _; simp [Fresh]
  | comp d exc s kids ih =>
    intro p h
    cases p with
    | nil => simpa using h
    | cons k p => exact ih k p (h.2 k)

/-- some function node ended `failed`: at composite `p`, child `i` -/
def FailedLeafAt (t : Tree E) (p : List Nat) (i : Nat) : Prop :=
  ∃ d exc s kids, t.sub p = .comp d exc s kids ∧ kids i = .leaf ∧ s.st i = .failed

theorem failedLeafAt_nil (d : Dag) (exc : Nat → E) (s : S) (kids : Nat → Tree E) (i : Nat) :
    FailedLeafAt (.comp d exc s kids) [] i ↔ kids i = .leaf ∧ s.st i = .failed := by
  constructor
  · rintro ⟨d', exc', s', kids', h, h1, h2⟩
    simp only [sub_nil, Tree.comp.injEq] at h
    obtain ⟨rfl, rfl, rfl, rfl⟩ := h
    exact ⟨h1, h2⟩
  · rintro ⟨h1, h2⟩
    exact ⟨d, exc, s, kids, by simp, h1, h2⟩

theorem failedLeafAt_cons (d : Dag) (exc : Nat → E) (s : S) (kids : Nat → Tree E) (k : Nat) (p : List Nat) (i : Nat) :
    FailedLeafAt (.comp d exc s kids) (k :: p) i ↔ FailedLeafAt (kids k) p i := by
  simp [FailedLeafAt]

theorem fresh_no_failed (t : Tree E) (hf : Fresh t) (p : List Nat) (i : Nat) : ¬ FailedLeafAt t p i := by
  rintro ⟨d, exc, s, kids, h, _, h2⟩
  have := fresh_sub t p hf
  rw [h] at this
  obtain ⟨rfl, _⟩ := this
  simp [init] at h2

/-- everything is at rest: nobody out, every composite either never started or through with its loop -/
def Settled : Tree E → Prop
  | .leaf => True
  | .comp d _ s kids =>
    s.running = [] ∧ (∀ i, s.st i ≠ .out) ∧ (phaseOver s.phase = true ∨ s = init d) ∧ ∀ k, Settled (kids k)

theorem fresh_settled (t : Tree E) (hf : Fresh t) : Settled t := by
  induction t with
  | leaf => trivial
  | comp d exc s kids ih =>
    obtain ⟨rfl, hk⟩ := hf
    exact ⟨rfl, by simp [init], Or.inr rfl, fun k => ih k (hk k)⟩

theorem settled_sub (t : Tree E) : ∀ p, Settled t → Settled (t.sub p) := by
  induction t with
  | leaf => intro p _; simp [Settled]
  | comp d exc s kids ih =>
    intro p h
    cases p with
    | nil => simpa using h
    | cons k p => exact ih k p (h.2.2.2 k)

/-- an ended loop (repaired code: it never aborts) is an exited loop -/
theorem over_exited (cfg : Cfg) (hc : cfg.startAborts = false) (d : Dag) (s : S) (h : Inv cfg d s)
    (ho : phaseOver s.phase = true) : s.phase = .exited := by
  cases hp : s.phase with
  | run r => simp [hp, phaseOver] at ho
  | exited => rfl
  | aborted => have := h.err.abortedCfg hp; simp [hc] at this

theorem over_settled (cfg : Cfg) (hc : cfg.startAborts = false) (t : Tree E) (h : NInv cfg t)
    (ho : t.over = true) : Settled t := by
  induction t with
  | leaf => trivial
  | comp d exc s kids ih =>
    obtain ⟨hI, hK, hL⟩ := h
    have hex := over_exited cfg hc _ s hI ho
    obtain ⟨_, hr, _⟩ := hI.phase.exited hex
    have hno : ∀ i, s.st i ≠ .out := by
      intro i hi
      have := (hI.core.running i).mpr hi
      rw [hr] at this; cases this
    refine ⟨hr, hno, Or.inl ho, ?_⟩
    intro k
    obtain ⟨l1, l2⟩ := hL k
    cases hst : s.st k with
    | idle => exact fresh_settled _ (l1 hst)
    | out => exact absurd hst (hno k)
    | done => exact ih k (hK k) (l2 (Or.inl hst))
    | failed => exact ih k (hK k) (l2 (Or.inr hst))

/-- repaired code: the collected errors are exactly the failed children -/
theorem errs_iff_failed (cfg : Cfg) (hc : cfg.startAborts = false) (hr : cfg.reportExecFailure = true)
    (d : Dag) (s : S) (h : Inv cfg d s) : compFailed s = true ↔ ∃ i, s.st i = .failed := by
  have hna : s.phase ≠ .aborted := by
    intro hab; have := h.err.abortedCfg hab; simp [hc] at this
  constructor
  · intro hf
    simp only [compFailed, Bool.or_eq_true, Bool.not_eq_true', beq_iff_eq] at hf
    rcases hf with hf | hf
    · cases hl : s.errs with
      | nil => simp [hl] at hf
      | cons x xs => exact ⟨x, h.core.errsFailed x (by simp [hl])⟩
    · exact absurd hf hna
  · rintro ⟨i, hi⟩
    rcases h.err.failedSeen i hi with h1 | h1 | h1
    · simp only [compFailed, Bool.or_eq_true, Bool.not_eq_true', beq_iff_eq]
      left
      cases hl : s.errs with
      | nil => rw [hl] at h1; cases h1
      | cons x xs => rfl
    · exact absurd h1 hna
    · simp [hr] at h1

/-- REPORTED / MARKED, every depth: once a composite's loop has ended, (1) it has failed iff some function
node somewhere below it failed, and (2) each of its composite children is marked failed iff some function
node below THAT child failed -/
theorem over_failed_iff (cfg : Cfg) (hc : cfg.startAborts = false) (hr : cfg.reportExecFailure = true)
    (t : Tree E) : ∀ d exc s kids, t = .comp d exc s kids → NInv cfg t → phaseOver s.phase = true →
      (compFailed s = true ↔ ∃ p i, FailedLeafAt t p i) ∧
      (∀ k, kids k ≠ .leaf → (s.st k = .failed ↔ ∃ q i, FailedLeafAt (kids k) q i)) := by
  induction t with
  | leaf => intro d exc s kids h; cases h
  | comp d0 exc0 s0 kids0 ih =>
    intro d exc s kids heq hinv ho
    simp only [Tree.comp.injEq] at heq
    obtain ⟨rfl, rfl, rfl, rfl⟩ := heq
    obtain ⟨hI, hK, hL⟩ := hinv
    have hex := over_exited cfg hc _ s0 hI ho
    obtain ⟨_, hrun, _⟩ := hI.phase.exited hex
    have hno : ∀ i, s0.st i ≠ .out := by
      intro i hi
      have := (hI.core.running i).mpr hi
      rw [hrun] at this; cases this
    have child : ∀ k, kids0 k ≠ .leaf → (s0.st k = .failed ↔ ∃ q i, FailedLeafAt (kids0 k) q i) := by
      intro k hk
      cases hkk : kids0 k with
      | leaf => exact absurd hkk hk
      | comp dk ek sk kk =>
        obtain ⟨l1, l2⟩ := hL k
        have hIk := hK k
        have hfk : (effDag d0 kids0).fails k = compFailed sk := by simp [effDag, hkk]
        constructor
        · intro hf
          have hov : phaseOver sk.phase = true := by
            have := l2 (Or.inr hf); rw [hkk] at this; exact this
          have := hI.core.failedFails k hf
          rw [hfk] at this
          rw [← hkk]
          exact ((ih k dk ek sk kk hkk hIk hov).1).mp this
        · rintro ⟨q, i, hq⟩
          cases hst : s0.st k with
          | idle => rw [← hkk] at hq; exact absurd hq (fresh_no_failed _ (l1 hst) q i)
          | out => exact absurd hst (hno k)
          | failed => rfl
          | done =>
            exfalso
            have hov : phaseOver sk.phase = true := by
              have := l2 (Or.inl hst); rw [hkk] at this; exact this
            have hcf := ((ih k dk ek sk kk hkk hIk hov).1).mpr ⟨q, i, hkk ▸ hq⟩
            have := hI.core.doneOk k hst
            rw [hfk, hcf] at this; cases this
    refine ⟨?_, child⟩
    rw [errs_iff_failed cfg hc hr _ s0 hI]
    constructor
    · rintro ⟨i, hi⟩
      cases hki : kids0 i with
      | leaf => exact ⟨[], i, (failedLeafAt_nil ..).mpr ⟨hki, hi⟩⟩
      | comp dk ek sk kk =>
        obtain ⟨q, j, hq⟩ := (child i (by simp [hki])).mp hi
        exact ⟨i :: q, j, (failedLeafAt_cons ..).mpr hq⟩
    · rintro ⟨p, i, hp⟩
      cases p with
      | nil => exact ⟨i, ((failedLeafAt_nil ..).mp hp).2⟩
      | cons k q =>
        have hq := (failedLeafAt_cons ..).mp hp
        have hk : kids0 k ≠ .leaf := by
          intro hl
          rw [hl] at hq
          obtain ⟨_, _, _, _, h, _⟩ := hq
          simp at h
        exact ⟨k, (child k hk).mpr ⟨q, i, hq⟩⟩

theorem all_eq_of_forall (l : List Nat) (k : Nat) (h : ∀ x ∈ l, x = k) : l.all (· == k) = true := by
  simp only [List.all_eq_true, beq_iff_eq]; exact h

/-- CAUSE, every depth: if exactly one function node failed — at composite `p`, child `i` — the
exception the ended run raises is a chain of `FailedChildError`s, one per composite on the path, whose
bottom is the exception that node raised -/
theorem raised_unique (cfg : Cfg) (hc : cfg.startAborts = false) (hr : cfg.reportExecFailure = true)
    (t : Tree E) : ∀ (p : List Nat) (i : Nat), NInv cfg t → t.over = true → FailedLeafAt t p i →
      (∀ p' i', FailedLeafAt t p' i' → p' = p ∧ i' = i) →
      ∃ e d exc s kids, raised t = some e ∧ t.sub p = .comp d exc s kids ∧ e.root = some (exc i) ∧
        e.depth = p.length + 1 := by
  induction t with
  | leaf =>
    intro p i _ _ h
    obtain ⟨_, _, _, _, h, _⟩ := h
    simp at h
  | comp d0 exc0 s0 kids0 ih =>
    intro p i hinv ho hfl huniq
    have hall := over_failed_iff cfg hc hr _ d0 exc0 s0 kids0 rfl hinv ho
    obtain ⟨hI, hK, hL⟩ := hinv
    -- every failed child of this composite is the one on the path
    cases p with
    | nil =>
      obtain ⟨hleaf, hfi⟩ := (failedLeafAt_nil ..).mp hfl
      have honly : ∀ x ∈ s0.errs, x = i := by
        intro x hx
        have hxf := hI.core.errsFailed x hx
        cases hkx : kids0 x with
        | leaf => exact (huniq [] x ((failedLeafAt_nil ..).mpr ⟨hkx, hxf⟩)).2
        | comp _ _ _ _ =>
          obtain ⟨q, j, hq⟩ := (hall.2 x (by simp [hkx])).mp hxf
          have := (huniq (x :: q) j ((failedLeafAt_cons ..).mpr hq)).1
          cases this
      have hne : s0.errs ≠ [] := by
        have := (errs_iff_failed cfg hc hr _ s0 hI).mpr ⟨i, hfi⟩
        intro he; simp [compFailed, he] at this
        have hna := over_exited cfg hc _ s0 hI ho
        simp [hna] at this
      cases hl : s0.errs with
      | nil => exact absurd hl hne
      | cons k rest =>
        have hk : k = i := honly k (by simp [hl])
        subst hk
        have hrest : rest.all (· == k) = true :=
          all_eq_of_forall rest k (fun x hx => honly x (by simp [hl, hx]))
        refine ⟨.failedChild (some (.orig (exc0 k))), d0, exc0, s0, kids0, ?_, by simp, rfl, rfl⟩
        simp [raised, hl, hrest, hleaf]
    | cons k q =>
      have hq := (failedLeafAt_cons ..).mp hfl
      have hkc : kids0 k ≠ .leaf := by
        intro hlf
        rw [hlf] at hq
        obtain ⟨_, _, _, _, h, _⟩ := hq
        simp at h
      have hkf : s0.st k = .failed := (hall.2 k hkc).mpr ⟨q, i, hq⟩
      have hov : (kids0 k).over = true := (hL k).2 (Or.inr hkf)
      have honly : ∀ x ∈ s0.errs, x = k := by
        intro x hx
        have hxf := hI.core.errsFailed x hx
        cases hkx : kids0 x with
        | leaf =>
          have := (huniq [] x ((failedLeafAt_nil ..).mpr ⟨hkx, hxf⟩)).1
          cases this
        | comp _ _ _ _ =>
          obtain ⟨q', j, hq'⟩ := (hall.2 x (by simp [hkx])).mp hxf
          have := (huniq (x :: q') j ((failedLeafAt_cons ..).mpr hq')).1
          simp only [List.cons.injEq] at this
          exact this.1
      obtain ⟨e, dk, ek, sk, kk, he, hsub, hroot, hdep⟩ := ih k q i (hK k) hov hq (by
        intro p' i' h'
        have := huniq (k :: p') i' ((failedLeafAt_cons ..).mpr h')
        simp only [List.cons.injEq, true_and] at this
        exact this)
      have hne : s0.errs ≠ [] := by
        have := (errs_iff_failed cfg hc hr _ s0 hI).mpr ⟨k, hkf⟩
        intro he'; simp [compFailed, he'] at this
        have hna := over_exited cfg hc _ s0 hI ho
        simp [hna] at this
      cases hl : s0.errs with
      | nil => exact absurd hl hne
      | cons k' rest =>
        have hk' : k' = k := honly k' (by simp [hl])
        subst hk'
        have hrest : rest.all (· == k') = true :=
          all_eq_of_forall rest k' (fun x hx => honly x (by simp [hl, hx]))
        refine ⟨.failedChild (some e), dk, ek, sk, kk, ?_, by simpa using hsub, by simpa [Err.root] using hroot,
          by simp [Err.depth, hdep]⟩
        cases hkk : kids0 k' with
        | leaf => exact absurd hkk hkc
        | comp _ _ _ _ =>
          rw [hkk] at he
          simp [raised, hl, hrest, hkk, he]

/-! ### the machine does not look at exception classes -/

theorem effDag_mapExc (f : E → E') (d : Dag) (kids : Nat → Tree E) :
    effDag d (fun k => (kids k).mapExc f) = effDag d kids := by
  unfold effDag
  congr 1 <;>
  · funext i
    cases hk : kids i <;> simp [Tree.mapExc, hk]

theorem over_mapExc (f : E → E') (t : Tree E) : (t.mapExc f).over = t.over := by
  cases t <;> simp [Tree.mapExc, Tree.over]

theorem okAct_mapExc (f : E → E') (kids : Nat → Tree E) (a : Act) :
    okAct (fun k => (kids k).mapExc f) a = okAct kids a := by
  cases a <;> simp [okAct, over_mapExc]

theorem updF_mapExc (f : E → E') (kids : Nat → Tree E) (k : Nat) (t : Tree E) :
    (fun j => (updF kids k t j).mapExc f) = updF (fun j => (kids j).mapExc f) k (t.mapExc f) := by
  funext j
  by_cases hj : j = k <;> simp [updF, hj]

theorem nstep_mapExc (cfg : Cfg) (f : E → E') (t : Tree E) : ∀ (p : List Nat) (a : Act),
    nstep cfg (t.mapExc f) p a = (nstep cfg t p a).map (Tree.mapExc f) := by
  induction t with
  | leaf => intro p a; simp [Tree.mapExc, nstep]
  | comp d exc s kids ih =>
    intro p a
    cases p with
    | nil =>
      simp only [Tree.mapExc, nstep, effDag_mapExc, okAct_mapExc]
      split
      · cases step cfg (effDag d kids) s a <;> simp [Tree.mapExc]
      · rfl
    | cons k p =>
      simp only [Tree.mapExc, nstep, ih k p a]
      split
      · cases nstep cfg (kids k) p a with
        | none => rfl
        | some t1 => simp [Tree.mapExc, updF_mapExc]
      · rfl

theorem nrun_mapExc (cfg : Cfg) (f : E → E') (acts : List (List Nat × Act)) : ∀ (t : Tree E),
    nrun cfg (t.mapExc f) acts = (nrun cfg t acts).map (Tree.mapExc f) := by
  induction acts with
  | nil => intro t; simp [nrun]
  | cons pa rest ih =>
    intro t
    obtain ⟨p, a⟩ := pa
    simp only [nrun, nstep_mapExc]
    cases nstep cfg t p a with
    | none => rfl
    | some t1 => simpa using ih t1

theorem raised_mapExc (f : E → E') (t : Tree E) : raised (t.mapExc f) = (raised t).map (Err.map f) := by
  induction t with
  | leaf => simp [Tree.mapExc, raised]
  | comp d exc s kids ih =>
    simp only [Tree.mapExc, raised]
    cases s.errs with
    | nil => rfl
    | cons k rest =>
      simp only
      split
      · rw [ih k]
        cases hk : kids k with
        | leaf => simp [Tree.mapExc, Err.map]
        | comp dk ek sk kk =>
          simp only [Tree.mapExc, Option.map_some]
          cases raised (Tree.comp dk ek sk kk) <;> simp [Err.map]
      · simp [Err.map]

/-! ### the flat machine is the depth-0 case -/

theorem effDag_flat (d : Dag) : effDag d (fun _ => (Tree.leaf : Tree E)) = d := by
  cases d; rfl

theorem nstep_flat (cfg : Cfg) (d : Dag) (exc : Nat → E) (s : S) (a : Act) :
    nstep cfg (.comp d exc s (fun _ => .leaf)) [] a =
      (step cfg d s a).map (fun s' => .comp d exc s' (fun _ => .leaf)) := by
  simp only [nstep, effDag_flat]
  have : okAct (fun _ => (Tree.leaf : Tree E)) a = true := by cases a <;> simp [okAct, Tree.over]
  simp [this]

/-! ### progress: the guard "a composite child finishes when its loop has ended" never blocks -/

theorem nprogress (cfg : Cfg) (t : Tree E) (h : NInv cfg t) (hno : t.over = false) :
    ∃ p a t', nstep cfg t p a = some t' := by
  induction t with
  | leaf => simp [Tree.over] at hno
  | comp d exc s kids ih =>
    obtain ⟨hI, hK, hL⟩ := h
    cases hp : s.phase with
    | exited => simp [Tree.over, hp, phaseOver] at hno
    | aborted => simp [Tree.over, hp, phaseOver] at hno
    | run r =>
      obtain ⟨a, s', hs⟩ := progress cfg _ s hI r hp
      by_cases hok : okAct kids a = true
      · exact ⟨[], a, _, (nstep_nil ..).mpr ⟨hok, s', hs, rfl⟩⟩
      · cases a with
        | complete k =>
          have hko : (kids k).over = false := by simpa [okAct] using hok
          have hout : s.st k = .out := by
            simp only [step, hp] at hs
            by_cases hk : s.st k = .out
            · exact hk
            · simp [hk] at hs
          obtain ⟨p, a', tk, htk⟩ := ih k (hK k) hko
          exact ⟨k :: p, a', _, (nstep_cons ..).mpr ⟨hout, tk, htk, rfl⟩⟩
        | start => simp [okAct] at hok
        | deliver => simp [okAct] at hok
        | exit => simp [okAct] at hok

/-! ### termination of the nested machine

`nl p` lists the children of the composite at path `p` (a finite cover of its members). The potential of a tree is the
flat potential of its outermost composite plus the potentials of its listed children; every nested action decreases it. -/

/-- node lists of the composites below child `k` -/
def below (nl : List Nat → List Nat) (k : Nat) : List Nat → List Nat := fun p => nl (k :: p)

def Covered : Tree E → (List Nat → List Nat) → Prop
  | .leaf, _ => True
  | .comp d _ _ kids, nl =>
    (nl []).Nodup ∧ (∀ i, d.member i → i ∈ nl []) ∧ ∀ k, Covered (kids k) (below nl k)

def npot : Tree E → (List Nat → List Nat) → Nat
  | .leaf, _ => 0
  | .comp d _ s kids, nl => potential d (nl []) s + ((nl []).map (fun k => npot (kids k) (below nl k))).sum

/-- the bound: what `npot` is on a fresh tree — a function of wiring and shape only -/
def nbound : Tree E → (List Nat → List Nat) → Nat
  | .leaf, _ => 0
  | .comp d _ _ kids, nl =>
    1 + ((nl []).map (fun i => 2 + (d.down i).length)).sum +
      ((nl []).map (fun k => nbound (kids k) (below nl k))).sum

/-- only members ever leave `idle`, at every level -/
def NMem : Tree E → Prop
  | .leaf => True
  | .comp d _ s kids => MemInv d s ∧ ∀ k, NMem (kids k)

theorem fresh_nmem (t : Tree E) (hf : Fresh t) : NMem t := by
  induction t with
  | leaf => trivial
  | comp d exc s kids ih =>
    obtain ⟨rfl, hk⟩ := hf
    exact ⟨by intro i hi; simp [init] at hi, fun k => ih k (hk k)⟩

theorem fresh_npot (t : Tree E) (hf : Fresh t) (nl : List Nat → List Nat) : npot t nl = nbound t nl := by
  induction t generalizing nl with
  | leaf => rfl
  | comp d exc s kids ih =>
    obtain ⟨rfl, hk⟩ := hf
    simp only [npot, nbound]
    have hw : weight d (init d) = fun i => 2 + (d.down i).length := by
      funext i; simp [weight, init]
    have h0 : potential d (nl []) (init d) = 1 + ((nl []).map (fun i => 2 + (d.down i).length)).sum := by
      simp only [potential, hw]
      simp [init]; omega
    rw [h0]
    have hfun : (fun k => npot (kids k) (below nl k)) = (fun k => nbound (kids k) (below nl k)) := by
      funext k
      exact ih k (hk k) (below nl k)
    rw [hfun]

theorem nstep_decreases (cfg : Cfg) (t : Tree E) : ∀ (p : List Nat) (a : Act) (t' : Tree E)
    (nl : List Nat → List Nat), NWF t → NInv cfg t → NMem t → Covered t nl → nstep cfg t p a = some t' →
    npot t' nl < npot t nl ∧ NMem t' ∧ Covered t' nl := by
  induction t with
  | leaf => intro p a t' nl _ _ _ _ h; simp [nstep] at h
  | comp d exc s kids ih =>
    intro p a t' nl wf hinv hmem hcov h
    obtain ⟨wd, wk⟩ := wf
    obtain ⟨hI, hK, hL⟩ := hinv
    obtain ⟨hm, hmk⟩ := hmem
    obtain ⟨hnd, hcv, hck⟩ := hcov
    cases p with
    | nil =>
      obtain ⟨_, s', hs', rfl⟩ := (nstep_nil ..).mp h
      have hdec := step_decreases cfg (effDag d kids) (wf_eff kids wd) (nl []) hnd hcv s s' a hI hm hs'
      have hm' := step_memInv cfg (effDag d kids) (wf_eff kids wd) s s' a hI hm hs'
      refine ⟨?_, ⟨hm', hmk⟩, hnd, hcv, hck⟩
      simp only [npot]
      have e1 : potential (effDag d kids) (nl []) s' = potential d (nl []) s' := rfl
      have e2 : potential (effDag d kids) (nl []) s = potential d (nl []) s := rfl
      omega
    | cons k p =>
      obtain ⟨hout, tk, htk, rfl⟩ := (nstep_cons ..).mp h
      obtain ⟨hlt, hmk', hck'⟩ := ih k p a tk (below nl k) (wk k) (hK k) (hmk k) (hck k) htk
      have hkin : k ∈ nl [] := hcv k (hm k (by simp [hout]))
      refine ⟨?_, ⟨hm, ?_⟩, hnd, hcv, ?_⟩
      · simp only [npot]
        have := sum_map_update (nl []) hnd (fun j => npot (kids j) (below nl j))
          (fun j => npot (updF kids k tk j) (below nl j)) k hkin (by
            intro x hx; simp [updF, hx])
        simp only [updF, if_true] at this
        simp only [updF] at *
        omega
      · intro j
        by_cases hj : j = k
        · subst hj; simpa [updF] using hmk'
        · simpa [updF, hj] using hmk j
      · intro j
        by_cases hj : j = k
        · subst hj; simpa [updF] using hck'
        · simpa [updF, hj] using hck j

theorem nrun_bounded (cfg : Cfg) (acts : List (List Nat × Act)) : ∀ (t t' : Tree E) (nl : List Nat → List Nat),
    NWF t → NInv cfg t → NMem t → Covered t nl → nrun cfg t acts = some t' →
    acts.length + npot t' nl ≤ npot t nl := by
  induction acts with
  | nil => intro t t' nl _ _ _ _ h; simp [nrun] at h; subst h; simp
  | cons pa rest ih =>
    intro t t' nl wf hi hm hc h
    obtain ⟨p, a⟩ := pa
    simp only [nrun] at h
    split at h
    · rename_i t1 h1
      obtain ⟨i1, w1⟩ := nstep_inv cfg t p a t1 wf hi h1
      obtain ⟨hlt, m1, c1⟩ := nstep_decreases cfg t p a t1 nl wf hi hm hc h1
      have := ih t1 t' nl w1 i1 m1 c1 h
      simp only [List.length_cons]
      omega
    · cases h

theorem FinDag.member_lt (f : FinDag) (h : f.check = true) (i : Nat) (hm : f.toDag.member i) : i < f.n := by
  unfold FinDag.check at h
  simp only [Bool.and_eq_true, decide_eq_true_eq] at h
  obtain ⟨⟨⟨⟨⟨⟨⟨⟨⟨⟨hsl, _⟩, _⟩, hslt⟩, _⟩, _⟩, _⟩, _⟩, _⟩, _⟩, _⟩ := h
  rcases hm with hm | hm
  · exact allLt_mem hslt hm
  · apply Classical.byContradiction
    intro hn
    exact hm (f.deps_ge hsl i (by omega))

/-! ### finite presentations -/

theorem kidsOf_all (P : Tree E → Prop) (hl : P .leaf) (l : List (Nat × Tree E)) (h : ∀ x ∈ l, P x.2) :
    ∀ k, P (kidsOf l k) := by
  intro k
  unfold kidsOf
  cases hf : l.find? (fun p => p.1 == k) with
  | none => exact hl
  | some x => exact h x (List.mem_of_find?_eq_some hf)

theorem nwf_mkComp (d : Dag) (exc : Nat → E) (l : List (Nat × Tree E)) (wd : WF d) (h : ∀ x ∈ l, NWF x.2) :
    NWF (mkComp d exc l) :=
  ⟨wd, kidsOf_all NWF trivial l h⟩

theorem fresh_mkComp (d : Dag) (exc : Nat → E) (l : List (Nat × Tree E)) (h : ∀ x ∈ l, Fresh x.2) :
    Fresh (mkComp d exc l) :=
  ⟨rfl, kidsOf_all Fresh trivial l h⟩

theorem covered_kidsOf (l : List (Nat × Tree E)) (nlk : Nat → List Nat → List Nat)
    (h : ∀ x ∈ l, Covered x.2 (nlk x.1)) : ∀ k, Covered (kidsOf l k) (nlk k) := by
  intro k
  unfold kidsOf
  cases hf : l.find? (fun p => p.1 == k) with
  | none => trivial
  | some x =>
    have hx := List.find?_some hf
    simp only [beq_iff_eq] at hx
    subst hx
    exact h x (List.mem_of_find?_eq_some hf)

/-- a composite presented by a checked `FinDag`: its children are `0 .. n-1` -/
theorem covered_mkComp (f : FinDag) (hc : f.check = true) (exc : Nat → E) (l : List (Nat × Tree E))
    (nl : List Nat → List Nat) (h0 : nl [] = List.range f.n) (h : ∀ x ∈ l, Covered x.2 (below nl x.1)) :
    Covered (mkComp f.toDag exc l) nl := by
  refine ⟨by rw [h0]; exact List.nodup_range, ?_, covered_kidsOf l (below nl) h⟩
  intro i hm
  rw [h0]
  exact List.mem_range.mpr (FinDag.member_lt f hc i hm)

/-! ### kinds of raised objects -/

/-- the raised object is still on its way (collected or raw), original kind `k` -/
def Hand.carries (k : Kind) : Hand → Prop
  | .collect k' _ => k' = k
  | .raw k' _ => k' = k
  | .gone => False

theorem curKind_handled (c : KCfg) (k : Kind) (w : Nat) (hl : c.local k = true) (hc : c.callback k = true) :
    c.local (curKind k w) = true ∧ c.callback (curKind k w) = true := by
  unfold curKind
  split
  · exact ⟨hl, hc⟩
  · exact ⟨rfl, rfl⟩

theorem nodeOut_handled (c : KCfg) (e : Bool) (k : Kind) (w : Nat) (hl : c.local k = true) (hc : c.callback k = true) :
    (nodeOut c e k w).1 = .failed ∧ (nodeOut c e k w).2.carries k := by
  obtain ⟨h1, h2⟩ := curKind_handled c k w hl hc
  unfold nodeOut
  cases e
  · by_cases hx : curKind k w = .exception
    · simp [hx, Hand.carries]
    · simp [hx, h1, Hand.carries]
  · simp [h2, Hand.carries]

theorem compOut_handled (c : KCfg) (e : Bool) (k : Kind) (h : Hand) (hl : c.local k = true) (hc : c.callback k = true)
    (hh : h.carries k) : (compOut c e h).1 = .failed ∧ (compOut c e h).2.2.carries k := by
  cases h with
  | collect k' w => cases hh; exact nodeOut_handled c e k (w + 1) hl hc
  | raw k' w => cases hh; exact nodeOut_handled c e k w hl hc
  | gone => cases hh

theorem climb_handled (c : KCfg) (k : Kind) (hl : c.local k = true) (hc : c.callback k = true) (execs : List Bool) :
    ∀ o : KOut, (∀ s ∈ o.stats, s = .failed) → o.hand.carries k →
      (∀ s ∈ (climb c execs o).stats, s = .failed) ∧ (climb c execs o).hand.carries k ∧
      (climb c execs o).stats.length = o.stats.length + execs.length := by
  induction execs with
  | nil => intro o h1 h2; exact ⟨h1, h2, by simp [climb]⟩
  | cons e rest ih =>
    intro o h1 h2
    obtain ⟨hs, hh⟩ := compOut_handled c e k o.hand hl hc h2
    simp only [climb]
    have := ih { stats := o.stats ++ [(compOut c e o.hand).1], aborted := o.aborted ++ [(compOut c e o.hand).2.1],
                 hand := (compOut c e o.hand).2.2 } (by
      intro s hs'
      rcases List.mem_append.mp hs' with h | h
      · exact h1 s h
      · simp at h; rw [h]; exact hs) hh
    refine ⟨this.1, this.2.1, ?_⟩
    rw [this.2.2]; simp; omega

/-- a kind both paths process: every node on the path ends failed, and the object reaches the caller -/
theorem propagate_handled (c : KCfg) (k : Kind) (hl : c.local k = true) (hc : c.callback k = true) (execs : List Bool)
    (hne : execs ≠ []) :
    (∀ s ∈ (propagate c k execs).stats, s = .failed) ∧ (propagate c k execs).hand.carries k ∧
    (propagate c k execs).stats.length = execs.length := by
  cases execs with
  | nil => exact absurd rfl hne
  | cons e rest =>
    obtain ⟨hs, hh⟩ := nodeOut_handled c e k 0 hl hc
    have := climb_handled c k hl hc rest { stats := [(nodeOut c e k 0).1], aborted := [], hand := (nodeOut c e k 0).2 }
      (by intro s h; simp at h; rw [h]; exact hs) hh
    simp only [propagate]
    refine ⟨this.1, this.2.1, ?_⟩
    rw [this.2.2]; simp; omega

theorem carries_caller (k : Kind) (h : Hand) (hh : h.carries k) : h.caller = .raw k ∨ ∃ n, h.caller = .chain k n := by
  cases h with
  | collect k' w => cases hh; cases w <;> simp [Hand.caller]
  | raw k' w => cases hh; cases w <;> simp [Hand.caller]
  | gone => cases hh

/-! ### re-run histories -/

theorem wf_rerunDag {d : Dag} (wf : WF d) (s : S) (f e : Nat → Bool) : WF (rerunDag d s f e) :=
  ⟨wf.downSpec, wf.downNodup, wf.noSelf, wf.startNodup, wf.startRoots, wf.rootsStart⟩

/-- every level resets: the restarted tree is properly wired and fresh, whatever state the last run left -/
theorem nrestart_fresh (t : Tree E) : ∀ ed : List Nat → Edit E, NWF t → (∀ p, (ed p).reset = true) →
    NWF (nrestart t ed) ∧ Fresh (nrestart t ed) := by
  induction t with
  | leaf => intro ed _ _; exact ⟨trivial, trivial⟩
  | comp d exc s kids ih =>
    intro ed wf hr
    obtain ⟨wd, wk⟩ := wf
    simp only [nrestart]
    refine ⟨⟨wf_rerunDag wd s _ _, fun k => (ih k _ (wk k) (fun p => hr (k :: p))).1⟩, ?_, fun k =>
      (ih k _ (wk k) (fun p => hr (k :: p))).2⟩
    rw [hr []]; rfl

/-! ### the fine interleaving at every level -/

open PwVerif.ExecFine

/-- one fine action of the tree order is exactly the coarse action `coarseOf` names (or none) on the core -/
theorem stepF_sim' (cfg : Cfg) (d : Dag) (f f' : F) (a : ActF) (h : stepF cfg FCfg.repaired d f a = some f') :
    match coarseOf a with
    | none => f'.core = f.core
    | some a' => step cfg d f.core a' = some f'.core := by
  cases a with
  | start =>
    simp only [stepF, Option.map_eq_some_iff] at h
    obtain ⟨c, hc, rfl⟩ := h
    exact hc
  | deliver =>
    simp only [stepF, Option.map_eq_some_iff] at h
    obtain ⟨c, hc, rfl⟩ := h
    exact hc
  | exit =>
    simp only [stepF] at h
    split at h
    · rename_i hp hq hr
      simp only [Option.some.injEq] at h
      subst h
      have hr' : f.core.running = [] := by
        simp [visRunning, FCfg.repaired] at hr
        exact hr.1
      simp [coarseOf, step, hp, hq, hr']
    · simp at h
  | cbFirst k =>
    simp only [stepF, FCfg.repaired, if_true, Option.map_eq_some_iff] at h
    obtain ⟨c, hc, rfl⟩ := h
    exact hc
  | cbSecond k =>
    simp only [stepF, FCfg.repaired, if_true] at h
    split at h
    · simp only [Option.some.injEq] at h
      subst h
      rfl
    · simp at h

@[simp] theorem core_fine (t : Tree E) : t.fine.core = t := by
  induction t with
  | leaf => rfl
  | comp d exc s kids ih => simp only [Tree.fine, TreeF.core]; congr 1; funext k; exact ih k

theorem core_updF (kids : Nat → TreeF E) (k : Nat) (t' : TreeF E) :
    (fun j => (updF kids k t' j).core) = updF (fun j => (kids j).core) k t'.core := by
  funext j; by_cases hj : j = k <;> simp [updF, hj]

theorem okAct_core (kids : Nat → TreeF E) (a : ActF) (a' : Act) (h : coarseOf a = some a') :
    okAct (fun k => (kids k).core) a' = okActF kids a := by
  cases a <;> simp [coarseOf] at h <;> subst h <;> rfl

/-- SIMULATION, every depth: a fine action anywhere in the tree is the coarse action `coarseOf` names at the same
path of the coarse tree — or nothing, for the second half of a callback -/
theorem nstepF_sim (cfg : Cfg) (t : TreeF E) : ∀ (p : List Nat) (a : ActF) (t' : TreeF E),
    nstepF cfg t p a = some t' →
    match coarseOf a with
    | none => t'.core = t.core
    | some a' => nstep cfg t.core p a' = some t'.core := by
  induction t with
  | leaf => intro p a t' h; simp [nstepF] at h
  | comp d exc f kids ih =>
    intro p a t' h
    cases p with
    | nil =>
      simp only [nstepF] at h
      split at h
      · rename_i hok
        simp only [Option.map_eq_some_iff] at h
        obtain ⟨f', hf, rfl⟩ := h
        have hs := stepF_sim' cfg _ f f' a hf
        cases hc : coarseOf a with
        | none => simp only [hc] at hs ⊢; simp only [TreeF.core, hs]
        | some a' =>
          simp only [hc] at hs ⊢
          simp only [TreeF.core, nstep, okAct_core kids a a' hc, hok, if_true, hs, Option.map_some]
      · cases h
    | cons k q =>
      simp only [nstepF] at h
      split at h
      · rename_i hout
        simp only [Option.map_eq_some_iff] at h
        obtain ⟨tk, htk, rfl⟩ := h
        have hk := ih k q a tk htk
        cases hc : coarseOf a with
        | none =>
          simp only [hc] at hk ⊢
          simp only [TreeF.core, core_updF, hk]
          congr 1
          funext j; by_cases hj : j = k <;> simp [updF, hj]
        | some a' =>
          simp only [hc] at hk ⊢
          simp only [TreeF.core, nstep, hout, if_true, hk, Option.map_some, core_updF]
      · cases h

theorem nrun_append (cfg : Cfg) (t : Tree E) (as bs : List (List Nat × Act)) :
    nrun cfg t (as ++ bs) = (nrun cfg t as).bind (fun t' => nrun cfg t' bs) := by
  induction as generalizing t with
  | nil => simp [nrun]
  | cons pa rest ih =>
    obtain ⟨p, a⟩ := pa
    simp only [List.cons_append, nrun]
    cases nstep cfg t p a with
    | none => simp
    | some t1 => exact ih t1

/-- REFINEMENT, every depth: the core of every fine-reachable tree is coarse-reachable -/
theorem nrunF_sim (cfg : Cfg) (acts : List (List Nat × ActF)) : ∀ (tf tf' : TreeF E) (t₀ : Tree E)
    (acts0 : List (List Nat × Act)), nrun cfg t₀ acts0 = some tf.core → nrunF cfg tf acts = some tf' →
    ∃ acts', nrun cfg t₀ acts' = some tf'.core := by
  induction acts with
  | nil => intro tf tf' t₀ acts0 h0 h; simp only [nrunF, Option.some.injEq] at h; subst h; exact ⟨acts0, h0⟩
  | cons pa rest ih =>
    intro tf tf' t₀ acts0 h0 h
    obtain ⟨p, a⟩ := pa
    simp only [nrunF] at h
    cases hs : nstepF cfg tf p a with
    | none => simp [hs] at h
    | some t1 =>
      simp only [hs] at h
      have hsim := nstepF_sim cfg tf p a t1 hs
      cases hc : coarseOf a with
      | none =>
        simp only [hc] at hsim
        exact ih t1 tf' t₀ acts0 (by rw [hsim]; exact h0) h
      | some a' =>
        simp only [hc] at hsim
        refine ih t1 tf' t₀ (acts0 ++ [(p, a')]) ?_ h
        rw [nrun_append, h0]
        simp [nrun, hsim]


/-- at every level: once a composite's loop has been left, none of its children's callbacks is half-way -/
def MidInvN : TreeF E → Prop
  | .leaf => True
  | .comp _ _ f kids => MidInv f ∧ ∀ k, MidInvN (kids k)

theorem fine_midInvN (t : Tree E) : MidInvN t.fine := by
  induction t with
  | leaf => trivial
  | comp d exc s kids ih => exact ⟨fun _ => rfl, ih⟩

theorem nstepF_midInvN (cfg : Cfg) (t : TreeF E) : ∀ (p : List Nat) (a : ActF) (t' : TreeF E),
    MidInvN t → nstepF cfg t p a = some t' → MidInvN t' := by
  induction t with
  | leaf => intro p a t' _ h; simp [nstepF] at h
  | comp d exc f kids ih =>
    intro p a t' hm h
    cases p with
    | nil =>
      simp only [nstepF] at h
      split at h
      · simp only [Option.map_eq_some_iff] at h
        obtain ⟨f', hf, rfl⟩ := h
        exact ⟨stepF_midInv cfg _ f f' a hm.1 hf, hm.2⟩
      · cases h
    | cons k q =>
      simp only [nstepF] at h
      split at h
      · simp only [Option.map_eq_some_iff] at h
        obtain ⟨tk, htk, rfl⟩ := h
        refine ⟨hm.1, ?_⟩
        intro j
        by_cases hj : j = k
        · subst hj; simpa [updF] using ih j q a tk (hm.2 j) htk
        · simpa [updF, hj] using hm.2 j
      · cases h

theorem nrunF_midInvN (cfg : Cfg) (acts : List (List Nat × ActF)) : ∀ (t t' : TreeF E),
    MidInvN t → nrunF cfg t acts = some t' → MidInvN t' := by
  induction acts with
  | nil => intro t t' hm h; simp only [nrunF, Option.some.injEq] at h; subst h; exact hm
  | cons pa rest ih =>
    intro t t' hm h
    obtain ⟨p, a⟩ := pa
    simp only [nrunF] at h
    cases hs : nstepF cfg t p a with
    | none => simp [hs] at h
    | some t1 => simp only [hs] at h; exact ih t1 t' (nstepF_midInvN cfg t p a t1 hm hs) h

end PwVerif.ExecNest
