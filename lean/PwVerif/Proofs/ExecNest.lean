import PwVerif.Model.ExecNest
import PwVerif.Proofs.Exec
/-!
Lemmas for the nested executor: the flat invariant `Exec.Inv` holds at every level of the tree (for the
effective wiring `effDag`), plus the links between a composite child's status in its parent and the
state of its own run.
-/
namespace PwVerif.ExecNest
open PwVerif PwVerif.Exec

variable {E : Type}

theorem wf_eff {d : Dag} (kids : Nat → Tree E) (h : WF d) : WF (effDag d kids) :=
  ⟨h.downSpec, h.downNodup, h.noSelf, h.startNodup, h.startRoots, h.rootsStart⟩

/-- the invariant only talks about `fails` at children whose job is over -/
theorem inv_fails_agree (cfg : Cfg) (d : Dag) (f' : Nat → Bool) (s : S) (h : Inv cfg d s)
    (hf : ∀ i, s.st i = .done ∨ s.st i = .failed → f' i = d.fails i) :
    Inv cfg { d with fails := f' } s := by
  obtain ⟨hc, hp, he⟩ := h
  refine ⟨⟨hc.calls1, hc.order, hc.tokens, hc.notYet, hc.hotIdle, hc.running, hc.runNodup, hc.valDone,
    hc.valNot, hc.valOut, ?_, hc.errsFailed, ?_⟩, ⟨hp.rest, hp.exited⟩, ⟨he.outExec, he.failedSeen, he.abortedCfg⟩⟩
  · intro i hi
    show f' i = true
    rw [hf i (Or.inr hi)]; exact hc.failedFails i hi
  · intro i hi
    show f' i = false
    rw [hf i (Or.inl hi)]; exact hc.doneOk i hi

/-- how `run` of child `i` moves statuses: only `i`, only out of `idle`, to `out` iff handed away -/
theorem runNode_st (d : Dag) (s : S) (i j : Nat) :
    (runNode d s i).1.st j = s.st j ∨
    (j = i ∧ s.st i = .idle ∧ d.onExec i = true ∧ (runNode d s i).1.st j = .out) ∨
    (j = i ∧ s.st i = .idle ∧ d.onExec i = false ∧
      ((runNode d s i).1.st j = .done ∨ (runNode d s i).1.st j = .failed)) := by
  by_cases hc : s.st i ≠ .idle ∨ (fetchArgs d s.out i).any Val.isNd = true
  · left; unfold runNode; dsimp only; rw [if_pos hc]
  · have hidle : s.st i = .idle := by
      apply Classical.byContradiction; intro hn; exact hc (Or.inl hn)
    unfold runNode; dsimp only; rw [if_neg hc]
    by_cases hji : j = i
    · subst hji
      cases hx : d.onExec j
      · right; right
        refine ⟨rfl, hidle, rfl, ?_⟩
        cases hf : d.fails j <;> simp
      · right; left
        refine ⟨rfl, hidle, rfl, ?_⟩
        simp
    · left
      cases hx : d.onExec i <;> cases hf : d.fails i <;> simp [updF, hji]

theorem step_st (cfg : Cfg) (d : Dag) (s s' : S) (a : Act) (h : step cfg d s a = some s') (j : Nat) :
    s'.st j = s.st j ∨
    (s.st j = .idle ∧ d.onExec j = true ∧ s'.st j = .out) ∨
    (s.st j = .idle ∧ d.onExec j = false ∧ (s'.st j = .done ∨ s'.st j = .failed)) ∨
    (a = .complete j ∧ s.st j = .out ∧ (s'.st j = .done ∨ s'.st j = .failed)) := by
  cases a with
  | start =>
    simp only [step] at h
    split at h
    · rename_i i rest hph
      have hr := runNode_st d s i j
      split at h
      · rename_i s1 heq
        simp only [Option.some.injEq] at h; subst h
        rw [heq] at hr
        rcases hr with hr | ⟨rfl, h1, h2, h3⟩ | ⟨rfl, h1, h2, h3⟩
        · left; exact hr
        · right; left; exact ⟨h1, h2, h3⟩
        · right; right; left; exact ⟨h1, h2, h3⟩
      · rename_i s1 heq
        rw [heq] at hr
        split at h <;> (simp only [Option.some.injEq] at h; subst h) <;>
        · rcases hr with hr | ⟨rfl, h1, h2, h3⟩ | ⟨rfl, h1, h2, h3⟩
          · left; exact hr
          · right; left; exact ⟨h1, h2, h3⟩
          · right; right; left; exact ⟨h1, h2, h3⟩
    · cases h
  | deliver =>
    simp only [step] at h
    split at h
    · rename_i jj i q hph hq
      split at h
      · have hr := runNode_st d { s with queue := q, received := updF s.received i [] } i j
        split at h
        · rename_i s1 heq
          simp only [Option.some.injEq] at h; subst h
          rw [heq] at hr
          rcases hr with hr | ⟨rfl, h1, h2, h3⟩ | ⟨rfl, h1, h2, h3⟩
          · left; exact hr
          · right; left; exact ⟨h1, h2, h3⟩
          · right; right; left; exact ⟨h1, h2, h3⟩
        · rename_i s1 heq
          simp only [Option.some.injEq] at h; subst h
          rw [heq] at hr
          rcases hr with hr | ⟨rfl, h1, h2, h3⟩ | ⟨rfl, h1, h2, h3⟩
          · left; exact hr
          · right; left; exact ⟨h1, h2, h3⟩
          · right; right; left; exact ⟨h1, h2, h3⟩
      · simp only [Option.some.injEq] at h; subst h
        left; rfl
    · cases h
  | complete k =>
    simp only [step] at h
    split at h
    · split at h
      · rename_i hk
        by_cases hjk : j = k
        · subst hjk
          right; right; right
          refine ⟨rfl, hk, ?_⟩
          split at h <;> (simp only [Option.some.injEq] at h; subst h) <;> simp
        · left
          split at h <;> (simp only [Option.some.injEq] at h; subst h) <;> simp [updF, hjk]
      · cases h
    · cases h
  | exit =>
    simp only [step] at h
    split at h
    · simp only [Option.some.injEq] at h; subst h; left; rfl
    · cases h

end PwVerif.ExecNest
