import PwVerif.Model.CacheTree
namespace PwVerif.CacheTree

mutual
theorem K.beq_sound : ∀ (a b : K), K.beq a b = true → a = b
  | .mk a s, .mk b t, h => by
    simp only [K.beq, Bool.and_eq_true, decide_eq_true_eq] at h
    rw [h.1, K.beqL_sound s t h.2]
theorem K.beqL_sound : ∀ (s t : List K), K.beqL s t = true → s = t
  | [], [], _ => rfl
  | x :: xs, y :: ys, h => by
    simp only [K.beqL, Bool.and_eq_true] at h
    rw [K.beq_sound x y h.1, K.beqL_sound xs ys h.2]
  | [], _ :: _, h => by simp [K.beqL] at h
  | _ :: _, [], h => by simp [K.beqL] at h
end

mutual
theorem K.beq_refl : ∀ (a : K), K.beq a a = true
  | .mk a s => by simp [K.beq, K.beqL_refl s]
theorem K.beqL_refl : ∀ (s : List K), K.beqL s s = true
  | [] => rfl
  | x :: xs => by simp [K.beqL, K.beq_refl x, K.beqL_refl xs]
end

/-- what equal (proposed) keys say about the child found under a label -/
def SameKid (a b : Option T) : Prop :=
  match a, b with
  | none, none => True
  | some (.leaf c i), some (.leaf c' i') => c = c' ∧ i = i'
  | some (.comp r i ks), some (.comp r' i' ks') =>
      r = r' ∧ i = i' ∧ keyKids KCfg.proposed ks = keyKids KCfg.proposed ks'
  | _, _ => False

theorem lookup_key (l : Nat) : ∀ (k1 k2 : List (Nat × T)),
    keyKids KCfg.proposed k1 = keyKids KCfg.proposed k2 → SameKid (lookup l k1) (lookup l k2)
  | [], [], _ => by simp [lookup, SameKid]
  | [], (l2, t2) :: r2, h => by cases t2 <;> simp [keyKids, keyPair, keyNode] at h
  | (l1, t1) :: r1, [], h => by cases t1 <;> simp [keyKids, keyPair, keyNode] at h
  | (l1, t1) :: r1, (l2, t2) :: r2, h => by
    cases t1 <;> cases t2 <;> simp [keyKids, keyPair, keyNode, KCfg.proposed] at h
    · obtain ⟨⟨⟨hl, hc, hi⟩, hr1⟩, hr2⟩ := h
      have ih := lookup_key l r1 r2 (Prod.ext hr1 hr2)
      subst hl
      by_cases hq : l1 = l <;> simp_all [lookup, SameKid]
    · obtain ⟨⟨⟨hl, hret, hi⟩, hr1⟩, ⟨hk1, hk2⟩, hr2⟩ := h
      have ih := lookup_key l r1 r2 (Prod.ext hr1 hr2)
      subst hl
      by_cases hq : l1 = l <;> simp_all [lookup, SameKid]
      exact Prod.ext hk1 hk2

/-- SOUNDNESS OF THE KEY, every nesting depth: children lists with the same key give every child the
same output, whatever the composite's own inputs hold -/
theorem key_sound {ρ} (S : Sem ρ) : ∀ (fuel : Nat) (vals : List ρ) (k1 k2 : List (Nat × T)) (l : Nat),
    keyKids KCfg.proposed k1 = keyKids KCfg.proposed k2 →
    evalKid S fuel vals k1 l = evalKid S fuel vals k2 l
  | 0, _, _, _, _, _ => rfl
  | fuel + 1, vals, k1, k2, l, h => by
    have hev : (fun sib => evalKid S fuel vals k1 sib) = (fun sib => evalKid S fuel vals k2 sib) :=
      funext (fun sib => key_sound S fuel vals k1 k2 sib h)
    have hk := lookup_key l k1 k2 h
    simp only [evalKid, hev]
    generalize lookup l k1 = a at hk
    generalize lookup l k2 = b at hk
    cases a with
    | none => cases b with
      | none => rfl
      | some t => cases t <;> simp [SameKid] at hk
    | some t => cases b with
      | none => cases t <;> simp [SameKid] at hk
      | some t' =>
        cases t <;> cases t' <;> simp only [SameKid] at hk
        · rw [hk.1, hk.2]
        · obtain ⟨hr, hi, hks⟩ := hk
          subst hr hi
          exact key_sound S fuel _ _ _ _ hks

theorem labels_key : ∀ (k1 k2 : List (Nat × T)),
    keyKids KCfg.proposed k1 = keyKids KCfg.proposed k2 → k1.map (·.1) = k2.map (·.1)
  | [], [], _ => rfl
  | [], (l2, t2) :: r2, h => by cases t2 <;> simp [keyKids, keyPair, keyNode] at h
  | (l1, t1) :: r1, [], h => by cases t1 <;> simp [keyKids, keyPair, keyNode] at h
  | (l1, t1) :: r1, (l2, t2) :: r2, h => by
    cases t1 <;> cases t2 <;> simp [keyKids, keyPair, keyNode, KCfg.proposed] at h
    · have ih := labels_key r1 r2 (Prod.ext h.1.2 h.2)
      simp [h.1.1.1, ih]
    · have ih := labels_key r1 r2 (Prod.ext h.1.2 h.2.2)
      simp [h.1.1.1, ih]

/-- … hence the same run result -/
theorem key_sound_all {ρ} (S : Sem ρ) (fuel : Nat) (vals : List ρ) (k1 k2 : List (Nat × T))
    (h : key KCfg.proposed k1 = key KCfg.proposed k2) :
    evalAll S fuel vals k1 = evalAll S fuel vals k2 := by
  have hk : keyKids KCfg.proposed k1 = keyKids KCfg.proposed k2 := by
    simp only [key, K.mk.injEq] at h
    exact Prod.ext h.1 h.2
  have hl := labels_key k1 k2 hk
  unfold evalAll
  have : ∀ (ls : List Nat), ls.map (fun l => (l, evalKid S fuel vals k1 l)) =
      ls.map (fun l => (l, evalKid S fuel vals k2 l)) := by
    intro ls
    apply List.map_congr_left
    intro l _
    rw [key_sound S fuel vals k1 k2 l hk]
  have e1 : k1.map (fun p => (p.1, evalKid S fuel vals k1 p.1)) =
      (k1.map (·.1)).map (fun l => (l, evalKid S fuel vals k1 l)) := by simp [List.map_map]
  have e2 : k2.map (fun p => (p.1, evalKid S fuel vals k2 p.1)) =
      (k2.map (·.1)).map (fun l => (l, evalKid S fuel vals k2 l)) := by simp [List.map_map]
  rw [e1, e2, hl, this]

/-! ## the key of the tree as it is: sound as long as no function node changed its class -/

mutual
/-- position by position the function nodes have the same class (shapes are forced by the key) -/
def ClsAgree : List (Nat × T) → List (Nat × T) → Prop
  | (_, .leaf c _) :: r, (_, .leaf c' _) :: r' => c = c' ∧ ClsAgree r r'
  | (_, .comp _ _ ks) :: r, (_, .comp _ _ ks') :: r' => ClsAgree ks ks' ∧ ClsAgree r r'
  | _, _ => True
end

theorem key_upgrade : ∀ (k1 k2 : List (Nat × T)),
    keyKids KCfg.current k1 = keyKids KCfg.current k2 → ClsAgree k1 k2 →
    keyKids KCfg.proposed k1 = keyKids KCfg.proposed k2
  | [], [], _, _ => rfl
  | [], (l2, t2) :: r2, h, _ => by cases t2 <;> simp [keyKids, keyPair, keyNode] at h
  | (l1, t1) :: r1, [], h, _ => by cases t1 <;> simp [keyKids, keyPair, keyNode] at h
  | (l1, .leaf c1 i1) :: r1, (l2, .leaf c2 i2) :: r2, h, hc => by
    simp [keyKids, keyPair, keyNode, KCfg.current] at h
    simp only [ClsAgree] at hc
    have ih := key_upgrade r1 r2 (Prod.ext h.1.2 h.2) hc.2
    simp [keyKids, keyPair, keyNode, KCfg.proposed, h.1.1, hc.1]
    exact ⟨congrArg Prod.fst ih, congrArg Prod.snd ih⟩
  | (l1, .comp x1 i1 ks1) :: r1, (l2, .comp x2 i2 ks2) :: r2, h, hc => by
    simp [keyKids, keyPair, keyNode, KCfg.current] at h
    simp only [ClsAgree] at hc
    have ih := key_upgrade r1 r2 (Prod.ext h.1.2 h.2.2) hc.2
    have ihk := key_upgrade ks1 ks2 (Prod.ext h.2.1.1 h.2.1.2) hc.1
    simp [keyKids, keyPair, keyNode, KCfg.proposed, h.1.1]
    exact ⟨congrArg Prod.fst ih, ⟨congrArg Prod.fst ihk, congrArg Prod.snd ihk⟩, congrArg Prod.snd ih⟩
  | (l1, .leaf c1 i1) :: r1, (l2, .comp x2 i2 ks2) :: r2, h, _ => by simp [keyKids, keyPair, keyNode] at h
  | (l1, .comp x1 i1 ks1) :: r1, (l2, .leaf c2 i2) :: r2, h, _ => by simp [keyKids, keyPair, keyNode] at h

/-! ## histories -/

/-- the twins agree on inputs, children and outputs; a cache entry vouches for the current outputs
for EVERY children list that has its key -/
structure Sim {ρ} (S : Sem ρ) (fuel : Nat) (a b : St ρ) : Prop where
  vals : a.vals = b.vals
  kids : a.kids = b.kids
  outs : a.outs = b.outs
  valid : ∀ e, a.cache = some e → ∀ kids', key KCfg.proposed kids' = e.k →
    evalAll S fuel e.vals kids' = a.outs

theorem step_sim {ρ} [DecidableEq ρ] (S : Sem ρ) (fuel : Nat) (a b : St ρ) (op : Op ρ)
    (h : Sim S fuel a b) :
    Sim S fuel (step S KCfg.proposed fuel true a op).1 (step S KCfg.proposed fuel false b op).1 ∧
    (step S KCfg.proposed fuel true a op).2 = (step S KCfg.proposed fuel false b op).2 := by
  obtain ⟨hv, hk, ho, hval⟩ := h
  obtain ⟨av, ak, ao, ac⟩ := a
  obtain ⟨bv, bk, bo, bc⟩ := b
  simp only at hv hk ho hval
  subst hv hk ho
  cases op with
  | setVals vs => exact ⟨⟨rfl, rfl, rfl, hval⟩, rfl⟩
  | edit kids => exact ⟨⟨rfl, rfl, rfl, hval⟩, rfl⟩
  | structural kids => exact ⟨⟨rfl, rfl, rfl, by simp [step]⟩, rfl⟩
  | run =>
    by_cases hh : hit KCfg.proposed { vals := av, kids := ak, outs := ao, cache := ac } = true
    · -- served from the cache: the twin's real run produces what the outputs already hold
      have hh' := hh
      unfold hit at hh'
      cases ac with
      | none => simp at hh'
      | some e =>
        simp only [Bool.and_eq_true, decide_eq_true_eq] at hh'
        have hkey := K.beq_sound _ _ hh'.2
        have hout := hval e rfl ak hkey.symm
        rw [hh'.1] at hout
        simp only [step, hh, Bool.true_and, ↓reduceIte, Bool.false_and, Bool.false_eq_true, hout]
        exact ⟨⟨rfl, rfl, rfl, by simpa [hout] using hval⟩, by first | rfl | trivial⟩
    · simp only [step, hh, Bool.true_and, ↓reduceIte, Bool.false_and, Bool.false_eq_true]
      refine ⟨⟨rfl, rfl, rfl, ?_⟩, by first | rfl | trivial⟩
      intro e he kids' hk'
      simp only [Option.some.injEq] at he
      subst he
      exact key_sound_all S fuel _ _ _ hk'

theorem runOps_sim {ρ} [DecidableEq ρ] (S : Sem ρ) (fuel : Nat) (ops : List (Op ρ)) (a b : St ρ)
    (h : Sim S fuel a b) :
    (runOps S KCfg.proposed fuel true a ops).2 = (runOps S KCfg.proposed fuel false b ops).2 ∧
    Sim S fuel (runOps S KCfg.proposed fuel true a ops).1 (runOps S KCfg.proposed fuel false b ops).1 := by
  induction ops generalizing a b with
  | nil => exact ⟨rfl, h⟩
  | cons o os ih =>
    obtain ⟨hs, hr⟩ := step_sim S fuel a b o h
    obtain ⟨ih1, ih2⟩ := ih _ _ hs
    simp only [runOps]
    exact ⟨by rw [hr, ih1], ih2⟩

end PwVerif.CacheTree
