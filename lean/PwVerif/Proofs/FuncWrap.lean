import PwVerif.Model.FuncWrap
import Std.Data.String.ToNat
/-! Lemmas for C17: `set_input_values` (as coded) against Python's argument binding. -/
namespace PwVerif.FuncWrap

/-! ### the binding without its refusals, and the refusals without the binding -/

/-- what gets bound when nothing is refused: positional first, then the keyword of that name -/
def bindRec : List String → List Val → List (String × Val) → List (String × Option Val)
  | [], _, _ => []
  | n :: ns, a :: as, kw => (n, some a) :: bindRec ns as kw
  | n :: ns, [], kw => (n, kw.lookup n) :: bindRec ns [] kw

/-- the skeleton of `pyBindPartial`: is the split accepted? -/
def okRec : List String → List Val → List (String × Val) → Bool
  | [], [], kw => kw.isEmpty
  | [], _ :: _, _ => false
  | n :: ns, _ :: as, kw => !hasKey kw n && okRec ns as kw
  | n :: ns, [], kw => okRec ns [] (eraseKey kw n)

/-- later binding wins, else keep the channel's value -/
def override : Panel → List (String × Option Val) → Panel
  | p :: ps, x :: xs => (p.1, x.2.getD p.2) :: override ps xs
  | ps, _ => ps

theorem lookup_eraseKey (kw : List (String × Val)) (n m : String) (h : m ≠ n) :
    (eraseKey kw n).lookup m = kw.lookup m := by
  induction kw with
  | nil => simp [eraseKey]
  | cons q r ih =>
    obtain ⟨k, v⟩ := q
    simp only [eraseKey, List.filter_cons] at ih ⊢
    by_cases hk : k = n
    · subst hk
      have : (m == k) = false := by simp [h]
      simp [List.lookup_cons, this, ih]
    · have hk' : (k != n) = true := by simp [hk]
      simp only [hk', if_true, List.lookup_cons]
      split <;> simp_all

theorem bindRec_eraseKey (ns : List String) (kw : List (String × Val)) (n : String) (h : n ∉ ns) :
    bindRec ns [] (eraseKey kw n) = bindRec ns [] kw := by
  induction ns with
  | nil => simp [bindRec]
  | cons m ms ih =>
    have hm : m ≠ n := by intro e; subst e; simp at h
    have hms : n ∉ ms := by intro e; exact h (List.mem_cons_of_mem _ e)
    simp [bindRec, lookup_eraseKey kw n m hm, ih hms]

/-- `pyBindPartial` = its skeleton + the unrefused binding -/
theorem pyBindPartial_eq (names : List String) (args : List Val) (kw : List (String × Val))
    (hnd : names.Nodup) :
    pyBindPartial names args kw =
      if okRec names args kw then .ok (bindRec names args kw)
      else .error (match pyBindPartial names args kw with | .error e => e | .ok _ => .missing) := by
  induction names generalizing args kw with
  | nil =>
    cases args with
    | nil => by_cases h : kw.isEmpty <;> simp [pyBindPartial, okRec, bindRec, h]
    | cons a as => simp [pyBindPartial, okRec]
  | cons n ns ih =>
    have hn : n ∉ ns := (List.nodup_cons.mp hnd).1
    have hns : ns.Nodup := (List.nodup_cons.mp hnd).2
    cases args with
    | nil =>
      have := ih [] (eraseKey kw n) hns
      simp only [pyBindPartial, okRec, bindRec]
      by_cases h : okRec ns [] (eraseKey kw n)
      · rw [this]; simp [h, Except.map, bindRec_eraseKey ns kw n hn]
      · rw [this]; simp [h, Except.map]
    | cons a as =>
      have := ih as kw hns
      simp only [pyBindPartial, okRec, bindRec]
      by_cases hk : hasKey kw n
      · simp [hk]
      · by_cases h : okRec ns as kw
        · rw [this]; simp [hk, h, Except.map]
        · rw [this]; simp [hk, h, Except.map]

theorem pyBindPartial_ok (names : List String) (args : List Val) (kw : List (String × Val))
    (hnd : names.Nodup) (h : okRec names args kw = true) :
    pyBindPartial names args kw = .ok (bindRec names args kw) := by
  rw [pyBindPartial_eq names args kw hnd]; simp [h]

theorem pyBindPartial_err (names : List String) (args : List Val) (kw : List (String × Val))
    (hnd : names.Nodup) (h : okRec names args kw = false) :
    ∃ e, pyBindPartial names args kw = .error e := by
  rw [pyBindPartial_eq names args kw hnd]; simp [h]

theorem bindRec_of_ok (names : List String) (args : List Val) (kw : List (String × Val))
    (b : List (String × Option Val)) (hnd : names.Nodup) (h : pyBindPartial names args kw = .ok b) :
    okRec names args kw = true ∧ b = bindRec names args kw := by
  cases hq : okRec names args kw with
  | true =>
    have := pyBindPartial_ok names args kw hnd hq
    rw [this] at h; cases h; exact ⟨rfl, rfl⟩
  | false =>
    obtain ⟨e, he⟩ := pyBindPartial_err names args kw hnd hq
    rw [he] at h; cases h

/-! ### the checks of `set_input_values` are that skeleton -/

/-- the condition under which `setInputValues` does not raise -/
def chk (st : Panel) (args : List Val) (kw : List (String × Val)) : Bool :=
  !(decide (args.length > st.length)) &&
  !(((labels st).zip args).any fun p => hasKey kw p.1) &&
  !((kw ++ (labels st).zip args).any fun p => !(labels st).contains p.1)

theorem setInputValues_eq (st : Panel) (args : List Val) (kw : List (String × Val)) :
    setInputValues st args kw =
      if chk st args kw then .ok (assignAll st (kw ++ (labels st).zip args))
      else .error (match setInputValues st args kw with | .error e => e | .ok _ => .unknown) := by
  simp only [setInputValues, chk]
  generalize (((labels st).zip args).any fun p => hasKey kw p.1) = b2
  generalize ((kw ++ (labels st).zip args).any fun p => !(labels st).contains p.1) = b3
  by_cases h1 : args.length > st.length <;> cases b2 <;> cases b3 <;> simp [h1]

theorem zip_key_mem (ls : List String) (as : List Val) (q : String × Val) (h : q ∈ ls.zip as) : q.1 ∈ ls := by
  induction ls generalizing as with
  | nil => simp at h
  | cons l r ih =>
    cases as with
    | nil => simp at h
    | cons a as =>
      simp only [List.zip_cons_cons, List.mem_cons] at h
      rcases h with h | h
      · simp [h]
      · exact List.mem_cons_of_mem _ (ih as h)

theorem any_congr' {α} {l : List α} {f g : α → Bool} (h : ∀ x ∈ l, f x = g x) : l.any f = l.any g := by
  induction l with
  | nil => rfl
  | cons x xs ih =>
    simp only [List.any_cons, h x (by simp), ih (fun y hy => h y (List.mem_cons_of_mem _ hy))]

theorem zip_keys_known (ls : List String) (args : List Val) (all : List String) (h : ∀ l ∈ ls, l ∈ all) :
    ((ls.zip args).any fun p => !all.contains p.1) = false := by
  rw [List.any_eq_false]
  intro p hp
  simp [h p.1 (zip_key_mem _ _ p hp)]

theorem chk_eq_okRec (st : Panel) (args : List Val) (kw : List (String × Val)) :
    chk st args kw = okRec (labels st) args kw := by
  induction st generalizing args kw with
  | nil =>
    cases args with
    | nil =>
      simp only [chk, labels, okRec, List.map_nil, List.zip_nil_left, List.append_nil, List.any_nil]
      cases kw <;> simp
    | cons a as => simp [chk, okRec, labels]
  | cons c r ih =>
    obtain ⟨l, v⟩ := c
    cases args with
    | nil =>
      have h := ih [] (eraseKey kw l)
      simp only [labels, List.map_cons, okRec] at h ⊢
      rw [← h]
      have e1 : ((eraseKey kw l).any fun p => !(List.map (·.1) r).contains p.1)
          = (kw.any fun p => !(l :: List.map (·.1) r).contains p.1) := by
        simp only [eraseKey, List.any_filter]
        apply any_congr'
        intro q _
        by_cases hq : q.1 = l <;> simp [hq, List.contains_cons, bne]
      simp only [chk, labels, List.map_cons, List.zip_nil_right, List.append_nil, List.any_nil,
        List.length_nil, List.length_cons, e1]
      simp
    | cons a as =>
      have h := ih as kw
      simp only [labels, List.map_cons, okRec] at h ⊢
      rw [← h]
      have hz := zip_keys_known (List.map (·.1) r) as (List.map (·.1) r) (fun _ h => h)
      have hz' := zip_keys_known (List.map (·.1) r) as (l :: List.map (·.1) r)
        (fun _ h => List.mem_cons_of_mem _ h)
      simp only [chk, labels, List.map_cons, List.zip_cons_cons, List.any_cons, List.any_append,
        List.length_cons, hz, hz']
      by_cases hk : hasKey kw l
      · simp [hk]
      · have hk' : ∀ q ∈ kw, q.1 ≠ l := by
          intro q hq e
          apply hk
          simp only [hasKey, List.any_eq_true]
          exact ⟨q, hq, by simp [e]⟩
        have hkw : (kw.any fun p => !(l :: List.map (·.1) r).contains p.1)
            = (kw.any fun p => !(List.map (·.1) r).contains p.1) := by
          apply any_congr'
          intro q hq
          simp [List.contains_cons, hk' q hq]
        have hl : (l :: List.map (·.1) r).contains l = true := by simp
        simp only [hk, hkw, hl]
        simp [Nat.succ_lt_succ_iff]

/-! ### the assignments -/

theorem assign_labels (st : Panel) (k : String) (v : Val) : labels (assign st k v) = labels st := by
  induction st with
  | nil => rfl
  | cons c r ih =>
    simp only [assign, labels, List.map_cons] at ih ⊢
    split <;> simp [ih]

theorem assign_notin (st : Panel) (k : String) (v : Val) (h : k ∉ labels st) : assign st k v = st := by
  induction st with
  | nil => rfl
  | cons c r ih =>
    have hc : c.1 ≠ k := by intro e; apply h; simp [labels, e]
    have hr : k ∉ labels r := by intro e; apply h; simp only [labels, List.map_cons]; exact List.mem_cons_of_mem _ e
    simp only [assign, List.map_cons, hc, if_false]
    have := ih hr
    simp only [assign] at this
    rw [this]

theorem assignAll_head (c : String × Val) (r : Panel) (kvs : List (String × Val))
    (h : ∀ q ∈ kvs, q.1 ≠ c.1) : assignAll (c :: r) kvs = c :: assignAll r kvs := by
  induction kvs generalizing r with
  | nil => rfl
  | cons q qs ih =>
    have hq : c.1 ≠ q.1 := fun e => h q (by simp) e.symm
    simp only [assignAll, List.foldl_cons]
    have : assign (c :: r) q.1 q.2 = c :: assign r q.1 q.2 := by simp [assign, hq]
    rw [this]
    exact ih (assign r q.1 q.2) (fun x hx => h x (List.mem_cons_of_mem _ hx))

theorem assignAll_zip (st : Panel) (args : List Val) (hnd : (labels st).Nodup) :
    assignAll st ((labels st).zip args) = zipOut st args := by
  induction st generalizing args with
  | nil => simp [assignAll, labels, zipOut]
  | cons c r ih =>
    obtain ⟨l, v⟩ := c
    have hl : l ∉ labels r := by
      simp only [labels, List.map_cons, List.nodup_cons] at hnd; exact hnd.1
    have hr : (labels r).Nodup := by
      simp only [labels, List.map_cons, List.nodup_cons] at hnd; exact hnd.2
    cases args with
    | nil => simp [assignAll, zipOut]
    | cons a as =>
      simp only [labels, List.map_cons, List.zip_cons_cons, assignAll, List.foldl_cons, zipOut]
      have h1 : assign ((l, v) :: r) l a = (l, a) :: r := by
        have := assign_notin r l a hl
        simp only [assign] at this
        simp [assign, this]
      rw [h1]
      have h2 := assignAll_head (l, a) r ((labels r).zip as) (by
        intro q hq e
        apply hl
        have := zip_key_mem _ _ q hq
        simpa [e] using this)
      simp only [assignAll, labels] at h2 ih
      rw [h2, ih as hr]

theorem assignAll_append (st : Panel) (a b : List (String × Val)) :
    assignAll st (a ++ b) = assignAll (assignAll st a) b := by
  simp [assignAll, List.foldl_append]

theorem assignAll_labels (st : Panel) (kvs : List (String × Val)) : labels (assignAll st kvs) = labels st := by
  induction kvs generalizing st with
  | nil => rfl
  | cons q qs ih =>
    simp only [assignAll, List.foldl_cons] at ih ⊢
    rw [ih, assign_labels]

theorem assignAll_kw (st : Panel) (kw : List (String × Val)) (hkw : (kw.map (·.1)).Nodup) :
    assignAll st kw = st.map fun p => (p.1, (kw.lookup p.1).getD p.2) := by
  induction kw generalizing st with
  | nil => simp [assignAll]
  | cons q qs ih =>
    obtain ⟨k, v⟩ := q
    have hk : k ∉ qs.map (·.1) := (List.nodup_cons.mp hkw).1
    have hq : (qs.map (·.1)).Nodup := (List.nodup_cons.mp hkw).2
    simp only [assignAll, List.foldl_cons] at ih ⊢
    rw [ih _ hq]
    simp only [assign, List.map_map]
    apply List.map_congr_left
    intro p _
    simp only [Function.comp, List.lookup_cons]
    by_cases hp : p.1 = k
    · have hnone : qs.lookup k = none := by
        rw [List.lookup_eq_none_iff]
        intro q hq'
        simp only [bne_iff_ne, ne_eq]
        intro e
        apply hk
        rw [e]
        exact List.mem_map_of_mem hq'
      simp [hp, hnone]
    · have : (p.1 == k) = false := by simp [hp]
      simp [hp, this]

theorem zipOut_map_override (st : Panel) (args : List Val) (kw : List (String × Val)) :
    zipOut (st.map fun p => (p.1, (kw.lookup p.1).getD p.2)) args
      = override st (bindRec (labels st) args kw) := by
  induction st generalizing args with
  | nil => simp [zipOut, override, bindRec, labels]
  | cons c r ih =>
    obtain ⟨l, v⟩ := c
    cases args with
    | nil =>
      have := ih []
      simp only [labels, List.map_cons, bindRec, override, zipOut] at this ⊢
      cases hr : r.map fun p => (p.1, (kw.lookup p.1).getD p.2) with
      | nil => rw [hr] at this; simp [zipOut] at this ⊢; simp [← this]
      | cons x xs => rw [hr] at this; simp [zipOut] at this ⊢; simp [← this]
    | cons a as =>
      have := ih as
      simp only [labels, List.map_cons, bindRec, override, zipOut] at this ⊢
      simp [this]

/-- `set_input_values`, when it does not raise, leaves exactly Python's binding laid over the old values -/
theorem assignAll_eq_override (st : Panel) (args : List Val) (kw : List (String × Val))
    (hnd : (labels st).Nodup) (hkw : (kw.map (·.1)).Nodup) :
    assignAll st (kw ++ (labels st).zip args) = override st (bindRec (labels st) args kw) := by
  rw [assignAll_append]
  have hl := assignAll_labels st kw
  have h := assignAll_zip (assignAll st kw) args (by rw [hl]; exact hnd)
  rw [hl] at h
  rw [h, assignAll_kw st kw hkw, zipOut_map_override]

/-- **the correspondence lemma**: accepted by the node iff accepted by Python, and then the panel is
the old one overlaid with Python's binding -/
theorem setInputValues_spec (st : Panel) (args : List Val) (kw : List (String × Val))
    (hnd : (labels st).Nodup) (hkw : (kw.map (·.1)).Nodup) :
    (∀ b, pyBindPartial (labels st) args kw = .ok b → setInputValues st args kw = .ok (override st b)) ∧
    (∀ e, pyBindPartial (labels st) args kw = .error e → ∃ e', setInputValues st args kw = .error e') := by
  have hc := chk_eq_okRec st args kw
  by_cases h : okRec (labels st) args kw = true
  · have hp := pyBindPartial_ok _ args kw hnd h
    constructor
    · intro b hb
      rw [hp] at hb
      cases hb
      rw [setInputValues_eq, hc, h]
      simp [assignAll_eq_override st args kw hnd hkw]
    · intro e he; rw [hp] at he; cases he
  · have h' : okRec (labels st) args kw = false := by simpa using h
    obtain ⟨e, he⟩ := pyBindPartial_err _ args kw hnd h'
    constructor
    · intro b hb; rw [he] at hb; cases hb
    · intro _ _
      rw [setInputValues_eq, hc, h']
      exact ⟨_, rfl⟩


/-! ### two stages: construction, then call -/

theorem pyBindPartial_ne_missing (names : List String) (args : List Val) (kw : List (String × Val)) :
    pyBindPartial names args kw ≠ .error .missing := by
  induction names generalizing args kw with
  | nil =>
    cases args with
    | nil => simp only [pyBindPartial]; split <;> simp
    | cons a as => simp [pyBindPartial]
  | cons n ns ih =>
    cases args with
    | nil =>
      simp only [pyBindPartial]
      have := ih [] (eraseKey kw n)
      cases h : pyBindPartial ns [] (eraseKey kw n) with
      | error e => simp [Except.map]; intro he; exact this (by rw [h, he])
      | ok b => simp [Except.map]
    | cons a as =>
      simp only [pyBindPartial]
      split
      · simp
      · have := ih as kw
        cases h : pyBindPartial ns as kw with
        | error e => simp [Except.map]; intro he; exact this (by rw [h, he])
        | ok b => simp [Except.map]

theorem bindRec_length (names : List String) (args : List Val) (kw : List (String × Val)) :
    (bindRec names args kw).length = names.length := by
  induction names generalizing args with
  | nil => simp [bindRec]
  | cons n ns ih => cases args <;> simp [bindRec, ih]

theorem override_labels (st : Panel) (b : List (String × Option Val)) : labels (override st b) = labels st := by
  induction st generalizing b with
  | nil => cases b <;> simp [override, labels]
  | cons c r ih =>
    cases b with
    | nil => simp [override]
    | cons x xs =>
      have := ih xs
      simp only [labels, override, List.map_cons] at this ⊢
      rw [this]

theorem mem_of_lookup (kw : List (String × Val)) (n : String) (v : Val) (h : kw.lookup n = some v) :
    (n, v) ∈ kw := by
  induction kw with
  | nil => simp at h
  | cons q qs ih =>
    obtain ⟨k, w⟩ := q
    simp only [List.lookup_cons] at h
    by_cases hk : n = k
    · subst hk; simp at h; simp [h]
    · have : (n == k) = false := by simp [hk]
      rw [this] at h
      exact List.mem_cons_of_mem _ (ih h)

/-- the values supplied by the caller are data (nobody passes `NOT_DATA` on purpose) -/
def DataVals (args : List Val) (kw : List (String × Val)) : Prop :=
  (∀ a ∈ args, a.isData = true) ∧ (∀ q ∈ kw, q.2.isData = true)

def DataSig (sig : Sig) : Prop := ∀ p ∈ sig, ∀ v, p.dflt = some v → v.isData = true

def DataBind (b : List (String × Option Val)) : Prop := ∀ x ∈ b, ∀ v, x.2 = some v → v.isData = true

theorem bindRec_data (names : List String) (args : List Val) (kw : List (String × Val))
    (h : DataVals args kw) : DataBind (bindRec names args kw) := by
  induction names generalizing args with
  | nil => intro x hx; simp [bindRec] at hx
  | cons n ns ih =>
    cases args with
    | nil =>
      intro x hx v hv
      simp only [bindRec, List.mem_cons] at hx
      rcases hx with hx | hx
      · subst hx
        exact h.2 (n, v) (mem_of_lookup kw n v hv)
      · exact ih [] ⟨by simp, h.2⟩ x hx v hv
    | cons a as =>
      intro x hx v hv
      simp only [bindRec, List.mem_cons] at hx
      rcases hx with hx | hx
      · subst hx
        simp at hv; subst hv
        exact h.1 a (by simp)
      · exact ih as ⟨fun y hy => h.1 y (List.mem_cons_of_mem _ hy), h.2⟩ x hx v hv

def ins0 (sig : Sig) : Panel := sig.map fun p => (p.name, p.dflt.getD .nd)

theorem ins0_labels (sig : Sig) : labels (ins0 sig) = sig.map (·.name) := by
  simp [ins0, labels, Function.comp_def]

theorem merge_spec (sig : Sig) (b1 b2 : List (String × Option Val))
    (h1 : b1.length = sig.length) (h2 : b2.length = sig.length)
    (hs : DataSig sig) (hb1 : DataBind b1) (hb2 : DataBind b2) :
    (allSome (mergeBind sig b1 b2) = none → ready (override (override (ins0 sig) b1) b2) = false) ∧
    (∀ vs, allSome (mergeBind sig b1 b2) = some vs →
      ready (override (override (ins0 sig) b1) b2) = true ∧
      values (override (override (ins0 sig) b1) b2) = vs) := by
  induction sig generalizing b1 b2 with
  | nil => simp [mergeBind, allSome, ins0, override, ready, values]
  | cons p ps ih =>
    cases b1 with
    | nil => simp at h1
    | cons x xs =>
      cases b2 with
      | nil => simp at h2
      | cons y ys =>
        have ih' := ih xs ys (by simpa using h1) (by simpa using h2)
          (fun q hq => hs q (List.mem_cons_of_mem _ hq))
          (fun q hq => hb1 q (List.mem_cons_of_mem _ hq))
          (fun q hq => hb2 q (List.mem_cons_of_mem _ hq))
        have hp := hs p (by simp)
        have hx := hb1 x (by simp)
        have hy := hb2 y (by simp)
        simp only [ins0] at ih'
        simp only [mergeBind, ins0, List.map_cons, override, ready, values, List.all_cons] at ih' ⊢
        obtain ⟨xn, xv⟩ := x
        obtain ⟨yn, yv⟩ := y
        cases yv with
        | some w =>
          have hw := hy w rfl
          cases hm : allSome (mergeBind ps xs ys) with
          | none => simp [allSome, hm, ih'.1 hm]
          | some vs => simp [allSome, hm, hw, (ih'.2 vs hm).1, (ih'.2 vs hm).2]
        | none =>
          cases xv with
          | some w =>
            have hw := hx w rfl
            cases hm : allSome (mergeBind ps xs ys) with
            | none => simp [allSome, hm, ih'.1 hm]
            | some vs => simp [allSome, hm, hw, (ih'.2 vs hm).1, (ih'.2 vs hm).2]
          | none =>
            cases hd : p.dflt with
            | some w =>
              have hw := hp w hd
              cases hm : allSome (mergeBind ps xs ys) with
              | none => simp [allSome, hm, ih'.1 hm]
              | some vs => simp [allSome, hm, hw, (ih'.2 vs hm).1, (ih'.2 vs hm).2]
            | none => simp [allSome, Val.isData]

theorem allSome_length (l : List (Option Val)) (vs : List Val) (h : allSome l = some vs) : vs.length = l.length := by
  induction l generalizing vs with
  | nil => simp [allSome] at h; subst h; rfl
  | cons x xs ih =>
    cases x with
    | none => simp [allSome] at h
    | some v =>
      simp only [allSome, Option.map_eq_some_iff] at h
      obtain ⟨w, hw, rfl⟩ := h
      simp [ih w hw]

theorem mergeBind_length (sig : Sig) (b1 b2 : List (String × Option Val))
    (h1 : b1.length = sig.length) (h2 : b2.length = sig.length) : (mergeBind sig b1 b2).length = sig.length := by
  induction sig generalizing b1 b2 with
  | nil => simp [mergeBind]
  | cons p ps ih =>
    cases b1 with
    | nil => simp at h1
    | cons x xs =>
      cases b2 with
      | nil => simp at h2
      | cons y ys => simp [mergeBind, ih xs ys (by simpa using h1) (by simpa using h2)]

/-- **binding, two stages**: the node built with `(a1,k1)` and called with `(a2,k2)` hands its body
exactly the values Python binds, refuses what Python's binder refuses, and turns a missing argument
into a readiness refusal. -/
theorem bind_spec (n0 : Node) (sig : Sig) (hins : n0.ins = ins0 sig)
    (a1 : List Val) (k1 : List (String × Val)) (a2 : List Val) (k2 : List (String × Val))
    (hnd : (sig.map (·.name)).Nodup) (hk1 : (k1.map (·.1)).Nodup) (hk2 : (k2.map (·.1)).Nodup)
    (hs : DataSig sig) (hd1 : DataVals a1 k1) (hd2 : DataVals a2 k2) :
    (∀ vs, pyArgs sig a1 k1 a2 k2 = .ok vs →
      ∃ n1, construct n0 a1 k1 = .ok n1 ∧ (gate n1 a2 k2).2 = .ok vs ∧ values (gate n1 a2 k2).1.ins = vs
        ∧ labels (gate n1 a2 k2).1.ins = sig.map (·.name) ∧ (gate n1 a2 k2).1.outs = n0.outs) ∧
    (pyArgs sig a1 k1 a2 k2 = .error .missing →
      ∃ n1, construct n0 a1 k1 = .ok n1 ∧ (gate n1 a2 k2).2 = .error .readiness) ∧
    (∀ e, e ≠ .missing → pyArgs sig a1 k1 a2 k2 = .error e →
      (∃ e', construct n0 a1 k1 = .error e') ∨
      (∃ n1, construct n0 a1 k1 = .ok n1 ∧ gate n1 a2 k2 = (n1, .error .valueError))) := by
  have hl0 : labels n0.ins = sig.map (·.name) := by rw [hins, ins0_labels]
  have sp1 := setInputValues_spec n0.ins a1 k1 (by rw [hl0]; exact hnd) hk1
  rw [hl0] at sp1
  cases hb1 : pyBindPartial (sig.map (·.name)) a1 k1 with
  | error e1 =>
    obtain ⟨e', he'⟩ := sp1.2 e1 hb1
    have hc : construct n0 a1 k1 = .error e' := by simp [construct, he', Except.map]
    have hne := pyBindPartial_ne_missing (sig.map (·.name)) a1 k1
    refine ⟨?_, ?_, ?_⟩
    · intro vs h; simp [pyArgs, hb1] at h
    · intro h; simp only [pyArgs, hb1] at h; cases h; exact absurd hb1 hne
    · intro e _ _; exact Or.inl ⟨e', hc⟩
  | ok b1 =>
    have hs1 := sp1.1 b1 hb1
    have hc : construct n0 a1 k1 = .ok { n0 with ins := override n0.ins b1 } := by
      simp [construct, hs1, Except.map]
    have hl1 : labels (override n0.ins b1) = sig.map (·.name) := by rw [override_labels, hl0]
    have sp2 := setInputValues_spec (override n0.ins b1) a2 k2 (by rw [hl1]; exact hnd) hk2
    rw [hl1] at sp2
    cases hb2 : pyBindPartial (sig.map (·.name)) a2 k2 with
    | error e2 =>
      obtain ⟨e', he'⟩ := sp2.2 e2 hb2
      have hne := pyBindPartial_ne_missing (sig.map (·.name)) a2 k2
      refine ⟨?_, ?_, ?_⟩
      · intro vs h; simp [pyArgs, hb1, hb2] at h
      · intro h; simp only [pyArgs, hb1, hb2] at h; cases h; exact absurd hb2 hne
      · intro e _ _
        exact Or.inr ⟨_, hc, by simp [gate, he']⟩
    | ok b2 =>
      have hs2 := sp2.1 b2 hb2
      have e1 : b1 = bindRec (sig.map (·.name)) a1 k1 := (bindRec_of_ok _ a1 k1 b1 hnd hb1).2
      have e2 : b2 = bindRec (sig.map (·.name)) a2 k2 := (bindRec_of_ok _ a2 k2 b2 hnd hb2).2
      have m := merge_spec sig b1 b2 (by rw [e1, bindRec_length]; simp) (by rw [e2, bindRec_length]; simp) hs
        (by rw [e1]; exact bindRec_data _ _ _ hd1) (by rw [e2]; exact bindRec_data _ _ _ hd2)
      rw [← hins] at m
      have hl2 : labels (override (override n0.ins b1) b2) = sig.map (·.name) := by
        rw [override_labels, hl1]
      refine ⟨?_, ?_, ?_⟩
      · intro vs h
        simp only [pyArgs, hb1, hb2] at h
        cases hm : allSome (mergeBind sig b1 b2) with
        | none => simp [hm] at h
        | some ws =>
          simp only [hm] at h; cases h
          obtain ⟨hr, hv⟩ := m.2 _ hm
          exact ⟨_, hc, by simp [gate, hs2, hr, hv], by simp [gate, hs2, hr, hv], by simp [gate, hs2, hr, hl2],
            by simp [gate, hs2, hr]⟩
      · intro h
        simp only [pyArgs, hb1, hb2] at h
        cases hm : allSome (mergeBind sig b1 b2) with
        | none => exact ⟨_, hc, by simp [gate, hs2, m.1 hm]⟩
        | some ws => simp [hm] at h
      · intro e hne h
        simp only [pyArgs, hb1, hb2] at h
        cases hm : allSome (mergeBind sig b1 b2) with
        | none => simp only [hm] at h; cases h; exact absurd rfl hne
        | some ws => simp [hm] at h


/-- the success case of `bind_spec` with the gate's result named -/
theorem bind_ok (n0 : Node) (sig : Sig) (hins : n0.ins = ins0 sig)
    (a1 : List Val) (k1 : List (String × Val)) (a2 : List Val) (k2 : List (String × Val))
    (hnd : (sig.map (·.name)).Nodup) (hk1 : (k1.map (·.1)).Nodup) (hk2 : (k2.map (·.1)).Nodup)
    (hs : DataSig sig) (hd1 : DataVals a1 k1) (hd2 : DataVals a2 k2)
    (vs : List Val) (hp : pyArgs sig a1 k1 a2 k2 = .ok vs) :
    ∃ n1 g, construct n0 a1 k1 = .ok n1 ∧ gate n1 a2 k2 = (g, .ok vs) ∧ values g.ins = vs ∧
      labels g.ins = sig.map (·.name) ∧ g.outs = n0.outs := by
  obtain ⟨n1, hc, hg, hv, hl, ho⟩ := (bind_spec n0 sig hins a1 k1 a2 k2 hnd hk1 hk2 hs hd1 hd2).1 vs hp
  exact ⟨n1, (gate n1 a2 k2).1, hc, by rw [← hg], hv, hl, ho⟩

theorem bind_missing (n0 : Node) (sig : Sig) (hins : n0.ins = ins0 sig)
    (a1 : List Val) (k1 : List (String × Val)) (a2 : List Val) (k2 : List (String × Val))
    (hnd : (sig.map (·.name)).Nodup) (hk1 : (k1.map (·.1)).Nodup) (hk2 : (k2.map (·.1)).Nodup)
    (hs : DataSig sig) (hd1 : DataVals a1 k1) (hd2 : DataVals a2 k2)
    (hp : pyArgs sig a1 k1 a2 k2 = .error .missing) :
    ∃ n1 g, construct n0 a1 k1 = .ok n1 ∧ gate n1 a2 k2 = (g, .error .readiness) := by
  obtain ⟨n1, hc, hg⟩ := (bind_spec n0 sig hins a1 k1 a2 k2 hnd hk1 hk2 hs hd1 hd2).2.1 hp
  exact ⟨n1, (gate n1 a2 k2).1, hc, by rw [← hg]⟩

/-! ### outputs -/

theorem zipOut_labels (outs : Panel) (vs : List Val) : labels (zipOut outs vs) = labels outs := by
  induction outs generalizing vs with
  | nil => cases vs <;> simp [zipOut]
  | cons c r ih =>
    obtain ⟨l, x⟩ := c
    cases vs with
    | nil => simp [zipOut]
    | cons v vs =>
      have := ih vs
      simp only [labels, zipOut, List.map_cons] at this ⊢
      rw [this]

theorem zipOut_values (outs : Panel) (vs : List Val) (h : vs.length = outs.length) :
    values (zipOut outs vs) = vs := by
  induction outs generalizing vs with
  | nil => cases vs <;> simp_all [zipOut, values]
  | cons c r ih =>
    obtain ⟨l, x⟩ := c
    cases vs with
    | nil => simp at h
    | cons v vs =>
      have := ih vs (by simpa using h)
      simp only [values, zipOut, List.map_cons] at this ⊢
      rw [this]

theorem zipOut_eq_zip (outs : Panel) (vs : List Val) (h : vs.length = outs.length) :
    zipOut outs vs = (labels outs).zip vs := by
  induction outs generalizing vs with
  | nil => cases vs <;> simp_all [zipOut, labels]
  | cons c r ih =>
    obtain ⟨l, x⟩ := c
    cases vs with
    | nil => simp at h
    | cons v vs =>
      have := ih vs (by simpa using h)
      simp only [labels, zipOut, List.map_cons, List.zip_cons_cons] at this ⊢
      rw [this]

theorem runReturn_multi (outs : Panel) (h : outs.length ≠ 1) : runReturn outs = Val.tuple (values outs) := by
  unfold runReturn
  match hv : values outs with
  | [] => rfl
  | [v] => exfalso; apply h; have := congrArg List.length hv; simpa [values] using this
  | _ :: _ :: _ => rfl

/-! ### transformers -/

theorem nodup_map_of_inj {f : Nat → String} (hf : ∀ a b, f a = f b → a = b) (l : List Nat) (h : l.Nodup) :
    (l.map f).Nodup := by
  induction l with
  | nil => simp
  | cons x xs ih =>
    have hx := List.nodup_cons.mp h
    simp only [List.map_cons, List.nodup_cons, List.mem_map, not_exists, not_and]
    refine ⟨?_, ih hx.2⟩
    intro y hy e
    have := hf _ _ e
    subst this
    exact hx.1 hy

theorem itemLabels_nodup (pre : String) (n : Nat) : (itemLabels pre n).Nodup := by
  unfold itemLabels
  apply nodup_map_of_inj _ _ List.nodup_range
  intro a b h
  have := (String.append_right_inj pre).mp h
  exact Nat.repr_inj.mp this

theorem zip_prefix {α β} (a b : List α) (vs : List β) (h : vs.length ≤ a.length) : (a ++ b).zip vs = a.zip vs := by
  induction a generalizing vs with
  | nil => cases vs <;> simp_all
  | cons x xs ih =>
    cases vs with
    | nil => simp
    | cons v vs => simp [ih vs (by simpa using h)]

theorem zip_fst_snd {α β} (l : List (α × β)) : (l.map (·.1)).zip (l.map (·.2)) = l := by
  induction l with
  | nil => rfl
  | cons x xs ih => simp [ih]

theorem noDefault_names (ls : List String) : (noDefault ls).map (·.name) = ls := by
  simp [noDefault, Function.comp_def]

theorem noDefault_data (ls : List String) : DataSig (noDefault ls) := by
  intro p hp v hv
  simp only [noDefault, List.mem_map] at hp
  obtain ⟨l, _, rfl⟩ := hp
  simp at hv

theorem mkNode_ins (sig : Sig) (outs : List String) : (mkNode sig outs).ins = ins0 sig := rfl

theorem xfCall_ok (k : XfKind) (n n1 : Node) (args : List Val) (kw : List (String × Val)) (vs : List Val)
    (h : gate n args kw = (n1, .ok vs)) :
    xfCall k n args kw = match xfBody k n1.ins with
      | none => (n1, .runError)
      | some v => ({ n1 with outs := n1.outs.map fun o => (o.1, v) }, .ret v) := by
  unfold xfCall
  rw [h]
  rfl

theorem dcCall_ok (n n1 : Node) (args : List Val) (kw : List (String × Val)) (vs : List Val)
    (h : gate n args kw = (n1, .ok vs)) :
    dcCall n args kw = ({ n1 with outs := n1.outs.map fun o => (o.1, Val.dc n1.ins) }, .ret (Val.dc n1.ins)) := by
  simp [dcCall, h]

/-- items `item_i, item_{i+1}, …` stored one by one = the positional zip, as long as the labels exist -/
theorem storeItems_ok (outs : Panel) (i : Nat) (vs : List Val)
    (h : ∀ j, i ≤ j → j < i + vs.length → ("item_" ++ toString j) ∈ labels outs) :
    storeItems outs i vs =
      (assignAll outs (((List.range' i vs.length).map fun j => "item_" ++ toString j).zip vs), true) := by
  induction vs generalizing outs i with
  | nil => simp [storeItems, assignAll]
  | cons v vs ih =>
    have hi : ("item_" ++ toString i) ∈ labels outs := h i (Nat.le_refl _) (by simp)
    have hc : (labels outs).contains ("item_" ++ toString i) = true := by simpa using hi
    simp only [storeItems, hc, if_true, List.length_cons, List.range'_succ, List.map_cons,
      List.zip_cons_cons, assignAll, List.foldl_cons]
    have := ih (assign outs ("item_" ++ toString i) v) (i + 1) (by
      intro j h1 h2
      rw [assign_labels]
      exact h j (by omega) (by simp only [List.length_cons]; omega))
    simp only [assignAll] at this
    rw [this]

theorem storeItems_fail (outs : Panel) (i : Nat) (v : Val) (vs : List Val)
    (h : ("item_" ++ toString i) ∉ labels outs) : storeItems outs i (v :: vs) = (outs, false) := by
  have hc : (labels outs).contains ("item_" ++ toString i) = false := by simpa using h
  simp only [storeItems, hc, Bool.false_eq_true, if_false]

theorem itemLabels_zip_prefix (pre : String) (n : Nat) (vs : List Val) (h : vs.length ≤ n) :
    (itemLabels pre n).zip vs = ((List.range' 0 vs.length).map fun j => pre ++ toString j).zip vs := by
  unfold itemLabels
  have hn : n = vs.length + (n - vs.length) := by omega
  rw [hn, List.range_eq_range', List.range'_append_1 |>.symm, List.map_append]
  rw [zip_prefix]
  simp

/-! ### the table transformer -/

/-- the columns of a table given by rows over the common keys `ks` -/
def colsOf : List String → List (List Val) → List (String × List Val)
  | [], _ => []
  | k :: ks, rows => (k, rows.map fun r => r.headD .nd) :: colsOf ks (rows.map List.tail)

theorem asDict_dict (kvs : List (String × Val)) : asDict (Val.dict kvs) = some kvs := by
  simp [asDict, Val.dict, zip_fst_snd]

theorem allDicts_dicts (rows : List (List (String × Val))) :
    allDicts (rows.map Val.dict) = some rows := by
  induction rows with
  | nil => rfl
  | cons r rs ih => simp [allDicts, asDict_dict, ih]

theorem colsOf_keys (ks : List String) (rows : List (List Val)) : (colsOf ks rows).map (·.1) = ks := by
  induction ks generalizing rows with
  | nil => rfl
  | cons k ks ih => simp [colsOf, ih]

theorem map_notin {α} (A : List (String × α)) (k : String) (f : α → α)
    (h : k ∉ A.map (·.1)) : (A.map fun c => if c.1 = k then (c.1, f c.2) else c) = A := by
  induction A with
  | nil => rfl
  | cons c r ih =>
    have hc : c.1 ≠ k := by intro e; apply h; simp [e]
    have hr : k ∉ r.map (·.1) := by intro e; apply h; simp only [List.map_cons]; exact List.mem_cons_of_mem _ e
    simp [hc, ih hr]

theorem appendRow_cols (A : List (String × List Val)) (ks : List String) (P : List (List Val)) (r : List Val)
    (hnd : ks.Nodup) (hA : ∀ k ∈ ks, k ∉ A.map (·.1)) (hr : r.length = ks.length) :
    appendRow (A ++ colsOf ks P) (ks.zip r) = some (A ++ colsOf ks (P ++ [r])) := by
  induction ks generalizing A P r with
  | nil => simp [appendRow, colsOf]
  | cons k ks ih =>
    cases r with
    | nil => simp at hr
    | cons v r =>
      have hk : k ∉ ks := (List.nodup_cons.mp hnd).1
      have hks : ks.Nodup := (List.nodup_cons.mp hnd).2
      have hkA : k ∉ A.map (·.1) := hA k (by simp)
      have hkC : k ∉ (colsOf ks (P.map List.tail)).map (·.1) := by rw [colsOf_keys]; exact hk
      simp only [List.zip_cons_cons, appendRow, colsOf]
      have hany : ((A ++ (k, P.map fun r => r.headD .nd) :: colsOf ks (P.map List.tail)).any fun c => c.1 == k) = true := by
        simp
      rw [hany]
      simp only [if_true, List.map_append, List.map_cons]
      rw [map_notin A k (· ++ [v]) hkA, map_notin _ k (· ++ [v]) hkC]
      have := ih (A ++ [(k, (P.map fun r => r.headD .nd) ++ [v])]) (P.map List.tail) r hks (by
        intro k' hk' hmem
        simp only [List.map_append, List.map_cons, List.map_nil, List.mem_append, List.mem_singleton] at hmem
        rcases hmem with hmem | hmem
        · exact hA k' (List.mem_cons_of_mem _ hk') hmem
        · subst hmem; exact hk hk') (by simpa using hr)
      simp only [List.append_assoc, List.singleton_append] at this
      rw [this]
      simp [colsOf]

theorem appendRows_cols (ks : List String) (P rest : List (List Val)) (hnd : ks.Nodup)
    (hr : ∀ r ∈ rest, r.length = ks.length) :
    appendRows (colsOf ks P) (rest.map fun r => ks.zip r) = some (colsOf ks (P ++ rest)) := by
  induction rest generalizing P with
  | nil => simp [appendRows]
  | cons r rs ih =>
    have h1 := appendRow_cols [] ks P r hnd (by simp) (hr r (by simp))
    simp only [List.nil_append] at h1
    simp only [List.map_cons, appendRows, h1, Option.bind_some]
    rw [ih (P ++ [r]) (fun x hx => hr x (List.mem_cons_of_mem _ hx))]
    simp

theorem colsOf_single (ks : List String) (r : List Val) (hr : r.length = ks.length) :
    (ks.zip r).map (fun kv => (kv.1, [kv.2])) = colsOf ks [r] := by
  induction ks generalizing r with
  | nil => simp [colsOf]
  | cons k ks ih =>
    cases r with
    | nil => simp at hr
    | cons v r => simp [colsOf, ih r (by simpa using hr)]

theorem colsOf_lengths (ks : List String) (rows : List (List Val)) :
    ∀ c ∈ colsOf ks rows, c.2.length = rows.length := by
  induction ks generalizing rows with
  | nil => simp [colsOf]
  | cons k ks ih =>
    intro c hc
    simp only [colsOf, List.mem_cons] at hc
    rcases hc with hc | hc
    · subst hc; simp
    · have := ih (rows.map List.tail) c hc; simpa using this

/-- rows over common keys ⇒ the table whose column `k` lists the rows' `k` entries in row order -/
theorem dfBuild_rows (ks : List String) (r0 : List Val) (rest : List (List Val)) (hnd : ks.Nodup)
    (h0 : r0.length = ks.length) (hr : ∀ r ∈ rest, r.length = ks.length) :
    dfBuild ((r0 :: rest).map fun r => Val.dict (ks.zip r)) = some (Val.df (colsOf ks (r0 :: rest))) := by
  have hd : allDicts ((r0 :: rest).map fun r => Val.dict (ks.zip r)) = some ((r0 :: rest).map fun r => ks.zip r) := by
    have := allDicts_dicts ((r0 :: rest).map fun r => ks.zip r)
    simpa [List.map_map, Function.comp_def] using this
  unfold dfBuild
  rw [hd]
  simp only [List.map_cons]
  rw [colsOf_single ks r0 h0, appendRows_cols ks [r0] rest hnd hr]
  have hl := colsOf_lengths ks ([r0] ++ rest)
  have : sameLen (colsOf ks ([r0] ++ rest)) = true := by
    cases hc : colsOf ks ([r0] ++ rest) with
    | nil => rfl
    | cons c cs =>
      simp only [sameLen, List.all_eq_true]
      intro d hd
      have h1 := hl c (by rw [hc]; simp)
      have h2 := hl d (by rw [hc]; exact List.mem_cons_of_mem _ hd)
      simp [h1, h2]
  simp only [this, if_true]
  simp

/-! ### dataclass nodes -/

theorem dcNode_ins (fs : List Field) : (dcNode fs).ins = ins0 (dcSig fs) := by
  simp only [dcNode, ins0, dcSig, List.map_map]
  apply List.map_congr_left
  intro f _
  cases h : f.dflt <;> simp [h]

theorem dcSig_names (fs : List Field) : (dcSig fs).map (·.name) = fs.map (·.name) := by
  simp [dcSig, Function.comp_def]

/-- `nodeFields` is the identity unless an already-converted dataclass is converted again -/
theorem nodeFields_id (cfg : Cfg) (already : Bool) (fs : List Field)
    (h : cfg.recast = false ∨ already = false ∨ ∀ f ∈ fs, ∀ v, f.dflt ≠ .factory v) :
    nodeFields cfg already fs = some fs ∨ (nodeFields cfg already fs = none ∧ orderOk fs = false) := by
  unfold nodeFields
  rcases h with h | h | h
  · simp [h]
  · simp [h]
  · have hm : fs.map recastField = fs := by
      conv => rhs; rw [← List.map_id fs]
      apply List.map_congr_left
      intro f hf
      have := h f hf
      unfold recastField
      cases hd : f.dflt with
      | factory v => exact absurd hd (this v)
      | none => simp
      | value v => simp
    rw [hm]
    by_cases hc : (cfg.recast && already) = true
    · cases ho : orderOk fs <;> simp [hc, ho]
    · simp [hc]

/-! ## the definition layer -/

/-- the input preview the signature should give -/
def expectedIns (ps : List FParam) : List InPrev :=
  ps.map fun p => { label := p.name, hint := p.ann.hint, dflt := p.dflt.getD .nd }

theorem previewInputs_ok (ps : List FParam) (h : ∀ p ∈ ps, initKeywords.contains p.name = false) :
    previewInputs ps = .ok (expectedIns ps) := by
  induction ps with
  | nil => rfl
  | cons p ps ih =>
    have hp := h p (by simp)
    have ih' := ih (fun q hq => h q (by simp [hq]))
    simp only [previewInputs, hp, ih', expectedIns, Except.map, List.map_cons]
    rfl

theorem previewInputs_reserved (ps : List FParam) (p : FParam) (hm : p ∈ ps)
    (hp : initKeywords.contains p.name = true) : previewInputs ps = .error .reservedName := by
  induction ps with
  | nil => cases hm
  | cons q ps ih =>
    unfold previewInputs
    by_cases hq : initKeywords.contains q.name = true
    · rw [if_pos hq]
    · rw [if_neg hq]
      rcases List.mem_cons.mp hm with rfl | hm'
      · exact absurd hp hq
      · rw [ih hm']; rfl

theorem previewInputs_inv (ps : List FParam) (pin : List InPrev) (h : previewInputs ps = .ok pin) :
    pin = expectedIns ps ∧ ∀ p ∈ ps, initKeywords.contains p.name = false := by
  induction ps generalizing pin with
  | nil =>
    simp only [previewInputs, Except.ok.injEq] at h
    subst h
    exact ⟨rfl, fun p hp => by cases hp⟩
  | cons p ps ih =>
    unfold previewInputs at h
    by_cases hp : initKeywords.contains p.name = true
    · rw [if_pos hp] at h; cases h
    · rw [if_neg hp] at h
      cases hr : previewInputs ps with
      | error e => rw [hr] at h; cases h
      | ok r =>
        rw [hr] at h
        simp only [Except.map, Except.ok.injEq] at h
        obtain ⟨e1, e2⟩ := ih r hr
        subst e1
        subst h
        refine ⟨rfl, ?_⟩
        intro q hq
        rcases List.mem_cons.mp hq with rfl | hq'
        · cases hb : initKeywords.contains q.name with
          | false => rfl
          | true => exact absurd hb hp
        · exact e2 q hq'

theorem hasDup_false (ls : List String) : hasDup ls = false ↔ ls.Nodup := by
  induction ls with
  | nil => simp [hasDup]
  | cons x r ih =>
    simp only [hasDup, Bool.or_eq_false_iff, List.nodup_cons, ih]
    constructor
    · rintro ⟨h1, h2⟩
      exact ⟨by simpa using h1, h2⟩
    · rintro ⟨h1, h2⟩
      exact ⟨by simpa using h1, h2⟩

theorem outHints_length (ra : RetAnn) (n : Nat) (hs : List Hint) (h : outHints ra n = .ok hs) (hn : 1 ≤ n) :
    hs.length = n := by
  unfold outHints at h
  cases ra with
  | empty => simp at h; subst h; simp
  | none_ =>
    by_cases h1 : n > 1
    · simp [h1] at h
    · simp [h1] at h; subst h; simp; omega
  | obj x args =>
    by_cases h1 : n > 1
    · simp only [h1, if_true] at h
      by_cases h2 : args.length = n
      · simp [h2] at h; subst h; simpa using h2
      · simp [h2] at h
    · simp [h1] at h; subst h; simp; omega

theorem zipLH_labels (ls : List String) (hs : List Hint) (h : hs.length = ls.length) :
    (zipLH ls hs).map (·.1) = ls := by
  induction ls generalizing hs with
  | nil => cases hs <;> simp [zipLH]
  | cons l ls ih =>
    cases hs with
    | nil => simp at h
    | cons x hs => simp [zipLH, ih hs (by simpa using h)]

theorem zipLH_nil_left (hs : List Hint) : zipLH [] hs = [] := by
  cases hs <;> rfl

theorem zipLH_isEmpty (ls : List String) (hs : List Hint) (h : hs.length = ls.length) (hne : ls ≠ []) :
    (zipLH ls hs).isEmpty = false := by
  cases ls with
  | nil => exact absurd rfl hne
  | cons l ls =>
    cases hs with
    | nil => simp at h
    | cons x hs => simp [zipLH]

theorem foldl_dictInsert (l acc : List (String × Hint)) (h : ((acc ++ l).map (·.1)).Nodup) :
    l.foldl dictInsert acc = acc ++ l := by
  induction l generalizing acc with
  | nil => simp
  | cons kv l ih =>
    have hno : acc.any (fun p => p.1 == kv.1) = false := by
      rw [List.any_eq_false]
      intro p hp hc
      have hc' : p.1 = kv.1 := by simpa using hc
      simp only [List.map_append, List.map_cons] at h
      have := (List.nodup_append.mp h).2.2 p.1 (List.mem_map.mpr ⟨p, hp, rfl⟩) kv.1 (by simp)
      exact this hc'
    have hstep : dictInsert acc kv = acc ++ [kv] := by simp [dictInsert, hno]
    simp only [List.foldl_cons, hstep]
    rw [ih (acc ++ [kv]) (by simpa using h)]
    simp

theorem asDict'_nodup (l : List (String × Hint)) (h : (l.map (·.1)).Nodup) : asDict' l = l := by
  unfold asDict'
  rw [foldl_dictInsert l [] (by simpa using h)]
  simp

theorem chanPanel_setupIns (pin : List InPrev) :
    chanPanel (setupIns pin) = pin.map fun p => (p.label, p.dflt) := by
  simp [chanPanel, setupIns, Function.comp_def]

theorem chanPanel_setupOuts (pout : List (String × Hint)) :
    chanPanel (setupOuts pout) = pout.map fun o => (o.1, Val.nd) := by
  simp [chanPanel, setupOuts, Function.comp_def]

/-- the instance made from the preview of a definition is the node the run-time theorems speak about -/
theorem setupNode_eq_mkNode (ps : List FParam) (pout : List (String × Hint)) :
    setupNode (expectedIns ps) pout
      = mkNode (ps.map fun p => { name := p.name, dflt := p.dflt }) (pout.map (·.1)) := by
  simp [setupNode, mkNode, chanPanel_setupIns, chanPanel_setupOuts, expectedIns, Function.comp_def]

/-! ### which value lands at which position -/

theorem bindRec_nil (names : List String) (kw : List (String × Val)) :
    bindRec names [] kw = names.map fun n => (n, kw.lookup n) := by
  induction names with
  | nil => rfl
  | cons n ns ih => simp [bindRec, ih]

theorem bindRec_get (names : List String) (args : List Val) (kw : List (String × Val)) (i : Nat)
    (h2 : i < names.length) :
    ((bindRec names args kw)[i]?).bind (·.2) = if i < args.length then args[i]? else kw.lookup names[i] := by
  induction names generalizing args i with
  | nil => simp at h2
  | cons n ns ih =>
    cases args with
    | nil =>
      rw [bindRec_nil]
      rw [List.getElem?_map, List.getElem?_eq_getElem h2]
      simp
    | cons a as =>
      cases i with
      | zero => simp [bindRec]
      | succ j =>
        have := ih as j (by simpa using h2)
        simpa [bindRec] using this

theorem mergeBind_get (sig : Sig) (b1 b2 : List (String × Option Val))
    (h1 : b1.length = sig.length) (h2 : b2.length = sig.length) (i : Nat) (hi : i < sig.length) :
    (mergeBind sig b1 b2)[i]? =
      some (((b2[i]?).bind (·.2)) <|> ((b1[i]?).bind (·.2)) <|> sig[i].dflt) := by
  induction sig generalizing b1 b2 i with
  | nil => simp at hi
  | cons p ps ih =>
    cases b1 with
    | nil => simp at h1
    | cons x xs =>
      cases b2 with
      | nil => simp at h2
      | cons y ys =>
        cases i with
        | zero => simp [mergeBind]
        | succ j =>
          have := ih xs ys (by simpa using h1) (by simpa using h2) j (by simpa using hi)
          simpa [mergeBind] using this

theorem allSome_get (l : List (Option Val)) (vs : List Val) (h : allSome l = some vs) (i : Nat) (hi : i < l.length) :
    l[i]? = some vs[i]? := by
  induction l generalizing vs i with
  | nil => simp at hi
  | cons x xs ih =>
    cases x with
    | none => simp [allSome] at h
    | some v =>
      simp only [allSome, Option.map_eq_some_iff] at h
      obtain ⟨w, hw, rfl⟩ := h
      cases i with
      | zero => simp
      | succ j => simpa using ih w hw j (by simpa using hi)

/-- **positions**: when Python binds `vs`, the value at position `i` is, in this order of precedence: the
`i`-th positional value of the call, the call's keyword value named like parameter `i`, the `i`-th
positional value of the construction, the construction's keyword value of that name, the default of
parameter `i` — the object itself -/
theorem pyArgs_get (sig : Sig) (a1 : List Val) (k1 : List (String × Val)) (a2 : List Val)
    (k2 : List (String × Val)) (hnd : (sig.map (·.name)).Nodup) (vs : List Val)
    (hp : pyArgs sig a1 k1 a2 k2 = .ok vs) :
    vs.length = sig.length ∧
    ∀ i (hi : i < sig.length), vs[i]? =
      ((if i < a2.length then a2[i]? else k2.lookup sig[i].name) <|>
       (if i < a1.length then a1[i]? else k1.lookup sig[i].name) <|> sig[i].dflt) := by
  unfold pyArgs at hp
  cases hb1 : pyBindPartial (sig.map (·.name)) a1 k1 with
  | error e => simp [hb1] at hp
  | ok b1 =>
    cases hb2 : pyBindPartial (sig.map (·.name)) a2 k2 with
    | error e => simp [hb1, hb2] at hp
    | ok b2 =>
      simp only [hb1, hb2] at hp
      cases hm : allSome (mergeBind sig b1 b2) with
      | none => simp [hm] at hp
      | some ws =>
        simp only [hm, Except.ok.injEq] at hp
        subst hp
        have e1 := (bindRec_of_ok _ a1 k1 b1 hnd hb1).2
        have e2 := (bindRec_of_ok _ a2 k2 b2 hnd hb2).2
        have l1 : b1.length = sig.length := by rw [e1, bindRec_length]; simp
        have l2 : b2.length = sig.length := by rw [e2, bindRec_length]; simp
        refine ⟨by rw [allSome_length _ _ hm, mergeBind_length sig b1 b2 l1 l2], ?_⟩
        intro i hi
        have hg := allSome_get _ _ hm i (by rw [mergeBind_length sig b1 b2 l1 l2]; exact hi)
        rw [mergeBind_get sig b1 b2 l1 l2 i hi] at hg
        have hn : i < (sig.map (·.name)).length := by simpa using hi
        have g1 := bindRec_get (sig.map (·.name)) a1 k1 i hn
        have g2 := bindRec_get (sig.map (·.name)) a2 k2 i hn
        rw [← e1] at g1
        rw [← e2] at g2
        simp only [List.getElem_map] at g1 g2
        rw [g1, g2] at hg
        exact (Option.some.inj hg).symm

/-! ### item labels, index order -/

theorem itemLabels_length (pre : String) (n : Nat) : (itemLabels pre n).length = n := by
  simp [itemLabels]

theorem itemLabels_get (pre : String) (n i : Nat) (h : i < n) :
    (itemLabels pre n)[i]'(by rw [itemLabels_length]; exact h) = pre ++ toString i := by
  simp [itemLabels]

theorem noDefault_get (ls : List String) (i : Nat) (h : i < ls.length) :
    ((noDefault ls)[i]'(by simpa [noDefault] using h)).name = ls[i] ∧
    ((noDefault ls)[i]'(by simpa [noDefault] using h)).dflt = none := by
  simp [noDefault]

/-- the copying `_setup_node` keeps labels, hints and what the defaults look like — only identity is lost -/
theorem setupInsCopied_labels (fresh : Nat → Nat) (i : Nat) (pin : List InPrev) :
    (setupInsCopied fresh i pin).map (·.label) = pin.map (·.label) := by
  induction pin generalizing i with
  | nil => rfl
  | cons p ps ih => simp [setupInsCopied, ih]

end PwVerif.FuncWrap
