import PwVerif.Model.FlowExecQ
import PwVerif.Proofs.Signal
/-! The flow machine with executors refines the plain queue interpreter with completions, for every interleaving. -/
namespace PwVerif.FlowExec
open PwVerif PwVerif.Signal PwVerif.FlowFail

variable {E : Type}

structure RelX (g : Graph) (x : X E) (q : QX E) : Prop where
  rel : Rel g x.s q.s []
  phase : x.phase = q.phase
  rest : x.rest = q.rest

theorem relX_init (g : Graph) (st : Store) : RelX g (X.init st : X E) (QX.init st) :=
  ⟨⟨rfl, rfl, rfl, by simp [QX.init, X.init, S.init, lift], by simp [QX.init, X.init, S.init],
    by simp [QX.init], by simp [X.init, S.init]⟩, rfl, rfl⟩

theorem xstep_sim (nodes : Nat → Node) (onExec : Nat → Bool) (exc : Nat → Nat → E) (refusal : Nat → E) (g : Graph)
    (wf : WF g) (x x' : X E) (q : QX E) (a : XAct) (h : RelX g x q)
    (hx : xstep nodes onExec exc refusal g x a = some x') :
    ∃ q', qstep nodes onExec exc refusal g q a = some q' ∧ RelX g x' q' := by
  obtain ⟨hr, hp, hrest⟩ := h
  have hst : x.s.store = q.s.store := hr.store
  have hfifo : q.s.fifo = lift x.s.queue := by simpa using hr.fifo
  cases a with
  | «begin» =>
    simp only [xstep] at hx
    split at hx
    · rename_i h0
      cases hx
      have h0q : q.phase = 0 := hp ▸ h0
      refine ⟨{ s := { q.s with seen := fun _ => [] }, phase := 1, rest := g.starters }, by simp [qstep, h0q], ?_⟩
      exact ⟨⟨hr.store, hr.errs, hr.fired, by simpa using hr.fifo, by simp, by simp, hr.qOk⟩, rfl, rfl⟩
    · cases hx
  | start =>
    simp only [xstep] at hx
    split at hx
    · rename_i h1
      have h1q : q.phase = 1 := hp ▸ h1
      split at hx
      · rename_i i r hi
        cases hx
        have hiq : q.rest = i :: r := hrest ▸ hi
        refine ⟨{ q with s := Spec.run (xsem nodes onExec exc refusal) g q.s i, rest := r }, by simp [qstep, h1q, hiq], ?_⟩
        exact ⟨callRun_rel (xsem nodes onExec exc refusal) g x.s q.s [] i hr, hp, rfl⟩
      · cases hx
    · cases hx
  | deliver =>
    simp only [xstep] at hx
    split at hx
    · rename_i h1
      have h1q : q.phase = 1 ∧ q.rest = [] := ⟨hp ▸ h1.1, hrest ▸ h1.2⟩
      split at hx
      · rename_i e r qq hq
        cases hx
        have hf : q.s.fifo = (some e, r) :: lift qq := by rw [hfifo, hq]; rfl
        have he : r ∈ g.conns e := hr.qOk (e, r) (by rw [hq]; exact List.mem_cons_self)
        have hr' : Rel g { x.s with queue := qq } { q.s with fifo := lift qq } [] :=
          ⟨hr.store, hr.errs, hr.fired, by simp, hr.recv, hr.seenOk,
            fun p hp' => hr.qOk p (by rw [hq]; exact List.mem_cons_of_mem _ hp')⟩
        refine ⟨{ q with s := Spec.serve (xsem nodes onExec exc refusal) g { q.s with fifo := lift qq } (some e) r },
          by simp [qstep, h1q, hf], ?_⟩
        exact ⟨deliver_rel (xsem nodes onExec exc refusal) g wf _ _ e r he hr', hp, hrest⟩
      · cases hx
    · cases hx
  | complete k =>
    simp only [xstep] at hx
    split at hx
    · rename_i h1
      cases hx
      have h1q : q.phase = 1 ∧ q.s.store.inflight.contains k = true := ⟨hp ▸ h1.1, hst ▸ h1.2⟩
      let xs := q.s.store
      let ld := landStore nodes xs.fs.st k (xs.pend k).1 (xs.pend k).2
      let sigs := emitting nodes ld.1 k
      refine ⟨{ q with s := { q.s with
          store := { xs with fs := { xs.fs with st := ld.1 }, inflight := xs.inflight.erase k,
                             landed := xs.landed ++ [{ child := k, raised := ld.2, sigs := sigs }] },
          fifo := q.s.fifo ++ (pairs g sigs).map (fun p => (some p.1, p.2)) } },
        by simp only [qstep]; rw [if_pos h1q], ?_⟩
      refine ⟨⟨?_, hr.errs, hr.fired, ?_, hr.recv, hr.seenOk, ?_⟩, hp, hrest⟩
      · show _ = _
        simp only [hst]; rfl
      · show _ = _
        simp only [hfifo, lift, List.map_append, List.nil_append, List.map_nil, hst]; rfl
      · intro p hp'
        simp only [List.mem_append] at hp'
        rcases hp' with hp' | hp'
        · exact hr.qOk p hp'
        · exact mem_pairs hp'
    · cases hx
  | finish =>
    simp only [xstep] at hx
    split at hx
    · rename_i h1
      cases hx
      have hq0 : q.s.fifo = [] := by rw [hfifo, h1.2.2.1]; rfl
      have h1q : q.phase = 1 ∧ q.rest = [] ∧ q.s.fifo = [] ∧ q.s.store.inflight = [] :=
        ⟨hp ▸ h1.1, hrest ▸ h1.2.1, hq0, hst ▸ h1.2.2.2⟩
      let xs := q.s.store
      refine ⟨{ s := { q.s with store := { xs with fs := { xs.fs with
                  book := sweep exc xs (xs.fs.st.doneLog.drop xs.doneFrom) xs.fs.book } } }, phase := 2, rest := [] },
        by simp only [qstep]; rw [if_pos h1q], ?_⟩
      refine ⟨⟨?_, hr.errs, hr.fired, ?_, hr.recv, hr.seenOk, hr.qOk⟩, rfl, rfl⟩
      · show _ = _
        simp only [hst]; rfl
      · show _ = _
        simp [hq0, h1.2.2.1, lift]
    · cases hx

theorem xrun_sim (nodes : Nat → Node) (onExec : Nat → Bool) (exc : Nat → Nat → E) (refusal : Nat → E) (g : Graph)
    (wf : WF g) (acts : List XAct) : ∀ (x x' : X E) (q : QX E), RelX g x q →
    xrun nodes onExec exc refusal g x acts = some x' →
    ∃ q', qrun nodes onExec exc refusal g q acts = some q' ∧ RelX g x' q' := by
  induction acts with
  | nil => intro x x' q h hx; simp only [xrun] at hx; cases hx; exact ⟨q, rfl, h⟩
  | cons a rest ih =>
    intro x x' q h hx
    simp only [xrun] at hx
    split at hx
    · rename_i x1 h1
      obtain ⟨q1, hq1, hrel1⟩ := xstep_sim nodes onExec exc refusal g wf x x1 q a h h1
      obtain ⟨q', hq', hrel'⟩ := ih x1 x' q1 hrel1 hx
      exact ⟨q', by simp [qrun, hq1, hq'], hrel'⟩
    · cases hx

end PwVerif.FlowExec
