import PwVerif.Model.ExecFin
import PwVerif.Proofs.Exec
namespace PwVerif.Exec

theorem getD_nil_of_ge {α} (l : List α) (i : Nat) (d : α) (h : l.length ≤ i) : l.getD i d = d := by
  simp [List.getD, List.getElem?_eq_none h]

theorem FinDag.deps_ge (f : FinDag) (hs : f.slots.length ≤ f.n) (i : Nat) (hi : f.n ≤ i) :
    f.toDag.deps i = [] := by
  have : f.slots.getD i [] = [] := getD_nil_of_ge _ _ _ (Nat.le_trans hs hi)
  show (f.slots.getD i []).flatten = []
  rw [this]; rfl

theorem FinDag.down_ge (f : FinDag) (hs : f.down.length ≤ f.n) (i : Nat) (hi : f.n ≤ i) :
    f.toDag.down i = [] := by
  exact getD_nil_of_ge _ _ _ (Nat.le_trans hs hi)

theorem allLt_mem {n : Nat} {l : List Nat} (h : allLt n l = true) {x : Nat} (hx : x ∈ l) : x < n := by
  have := List.all_eq_true.mp h x hx
  simpa using this

theorem range_all {n : Nat} {p : Nat → Bool} (h : (List.range n).all p = true) {i : Nat} (hi : i < n) :
    p i = true := List.all_eq_true.mp h i (List.mem_range.mpr hi)

theorem FinDag.check_sound (f : FinDag) (h : f.check = true) :
    WF f.toDag ∧ ∀ i j, j ∈ f.toDag.deps i → f.rankF j < f.rankF i := by
  unfold FinDag.check at h
  simp only [Bool.and_eq_true, decide_eq_true_eq] at h
  obtain ⟨⟨⟨⟨⟨⟨⟨⟨⟨⟨hsl, hdl⟩, hlt⟩, hslt⟩, hspec⟩, hnd⟩, hns⟩, hsn⟩, hsr⟩, hrs⟩, hrk⟩ := h
  have hdeps0 := f.deps_ge hsl
  have hdown0 := f.down_ge hdl
  have hdepsLt : ∀ i j, j ∈ f.toDag.deps i → i < f.n ∧ j < f.n := by
    intro i j hj
    by_cases hi : i < f.n
    · have := range_all hlt hi
      simp only [Bool.and_eq_true] at this
      exact ⟨hi, allLt_mem this.1 hj⟩
    · rw [hdeps0 i (by omega)] at hj; cases hj
  have hdownLt : ∀ j i, i ∈ f.toDag.down j → i < f.n ∧ j < f.n := by
    intro j i hi
    by_cases hj : j < f.n
    · have := range_all hlt hj
      simp only [Bool.and_eq_true] at this
      exact ⟨allLt_mem this.2 hi, hj⟩
    · rw [hdown0 j (by omega)] at hi; cases hi
  refine ⟨⟨?_, ?_, ?_, hsn, ?_, ?_⟩, ?_⟩
  · intro i j
    constructor
    · intro hm
      obtain ⟨hi, hj⟩ := hdownLt j i hm
      have := range_all (range_all hspec hi) hj
      simp only [beq_iff_eq] at this
      have h2 : (f.toDag.down j).contains i = true := by simpa using hm
      rw [h2] at this
      simpa using this.symm
    · intro hm
      obtain ⟨hi, hj⟩ := hdepsLt i j hm
      have := range_all (range_all hspec hi) hj
      simp only [beq_iff_eq] at this
      have h2 : (f.toDag.deps i).contains j = true := by simpa using hm
      rw [h2] at this
      simpa using this
  · intro j
    by_cases hj : j < f.n
    · have := range_all hnd hj; simpa using this
    · rw [hdown0 j (by omega)]; simp
  · intro i hm
    obtain ⟨hi, _⟩ := hdepsLt i i hm
    have := range_all hns hi
    simp at this
    exact this hm
  · intro i hi
    have := List.all_eq_true.mp hsr i hi
    simpa using this
  · intro i j hj hd
    obtain ⟨hi, _⟩ := hdepsLt i j hj
    have := List.all_eq_true.mp (range_all hrs hi) j hj
    simp [hd] at this
    exact this
  · intro i j hj
    obtain ⟨hi, _⟩ := hdepsLt i j hj
    have := List.all_eq_true.mp (range_all hrk hi) j hj
    simpa using this

end PwVerif.Exec
