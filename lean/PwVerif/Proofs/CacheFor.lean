import PwVerif.Model.CacheFor
import PwVerif.Proofs.CacheTree
namespace PwVerif.CacheFor
open PwVerif.CacheTree (T K KCfg Sem key evalAll Entry key_sound_all K.beq_sound)
variable {ρ : Type}

/-- the twins have the same inputs; an entry vouches that its key evaluates, on its inputs, to what a rebuilt
body gives — which is what the outputs hold.  (The bodies themselves differ after a hand edit + hit: the twin
rebuilt, the cached loop did not run.) -/
structure Sim (S : Sem ρ) (fuel : Nat) (build : List ρ → List (Nat × T)) (a b : St ρ) : Prop where
  vals : a.vals = b.vals
  valid : ∀ e, a.cache = some e → a.outs = evalAll S fuel e.vals (build e.vals) ∧
    ∀ kids', key KCfg.proposed kids' = e.k → evalAll S fuel e.vals kids' = evalAll S fuel e.vals (build e.vals)

theorem step_sim [DecidableEq ρ] (S : Sem ρ) (fuel : Nat) (build : List ρ → List (Nat × T)) (a b : St ρ) (op : Op ρ)
    (h : Sim S fuel build a b) :
    Sim S fuel build (step S KCfg.proposed fuel build true true a op).1 (step S KCfg.proposed fuel build true false b op).1 ∧
    (step S KCfg.proposed fuel build true true a op).2 = (step S KCfg.proposed fuel build true false b op).2 := by
  obtain ⟨hv, hval⟩ := h
  obtain ⟨av, ak, ao, ac⟩ := a
  obtain ⟨bv, bk, bo, bc⟩ := b
  simp only at hv hval
  subst hv
  cases op with
  | setVals vs => exact ⟨⟨rfl, hval⟩, rfl⟩
  | edit kids => exact ⟨⟨rfl, hval⟩, rfl⟩
  | run =>
    by_cases hh : hit KCfg.proposed { vals := av, kids := ak, outs := ao, cache := ac } = true
    · have hh' := hh
      unfold hit at hh'
      cases ac with
      | none => simp at hh'
      | some e =>
        simp only [Bool.and_eq_true, decide_eq_true_eq] at hh'
        obtain ⟨h1, _⟩ := hval e rfl
        have ha : step S KCfg.proposed fuel build true true { vals := av, kids := ak, outs := ao, cache := some e } .run
            = ({ vals := av, kids := ak, outs := ao, cache := some e }, some ao) := by simp [step, hh]
        have hb : (step S KCfg.proposed fuel build true false { vals := av, kids := bk, outs := bo, cache := bc } .run).2
            = some (evalAll S fuel av (build av)) := by simp [step]
        have hb1 : (step S KCfg.proposed fuel build true false { vals := av, kids := bk, outs := bo, cache := bc } .run).1.vals
            = av := by simp [step]
        rw [ha]
        refine ⟨⟨hb1.symm, hval⟩, ?_⟩
        rw [hb, h1, hh'.1]
    · simp only [step, hh, Bool.true_and, Bool.false_and, Bool.false_eq_true, if_false, if_true, Bool.true_or,
        Bool.or_true, Bool.not_false, Bool.not_true]
      refine ⟨⟨rfl, ?_⟩, by first | rfl | trivial⟩
      intro e he
      simp only [Option.some.injEq] at he
      subst he
      exact ⟨rfl, fun kids' hk => key_sound_all S fuel av kids' (build av) hk⟩

theorem runOps_sim [DecidableEq ρ] (S : Sem ρ) (fuel : Nat) (build : List ρ → List (Nat × T)) (ops : List (Op ρ))
    (a b : St ρ) (h : Sim S fuel build a b) :
    (runOps S KCfg.proposed fuel build true true a ops).2 = (runOps S KCfg.proposed fuel build true false b ops).2 := by
  induction ops generalizing a b with
  | nil => rfl
  | cons o os ih =>
    obtain ⟨h1, h2⟩ := step_sim S fuel build a b o h
    simp only [runOps]
    rw [h2, ih _ _ h1]

end PwVerif.CacheFor
