import PwVerif.Model.MapHeap
import PwVerif.Proofs.WfIO
/-! Lemmas for the heap of map objects (C15, aliasing). -/
namespace PwVerif.WfIO
open PwVerif

/-- an object is well-formed: distinct keys, markers under their own key, and — for a bidict —
distinct values -/
structure ObjOK (o : MObj) : Prop where
  keys : (o.items.map Prod.fst).Nodup
  own  : ∀ k k', (k, Target.disabled k') ∈ o.items → k = k'
  vals : o.bidict = true → (o.items.map Prod.snd).Nodup

theorem ObjOK.mapInv {o : MObj} (h : ObjOK o) (hb : o.bidict = true) : MapInv o.items :=
  ⟨h.keys, h.vals hb, h.own⟩

theorem ObjOK.ofMapInv {m : KeyMap} (h : MapInv m) (b : Bool) : ObjOK ⟨b, m⟩ :=
  ⟨h.keys, h.own, fun _ => h.vals⟩

structure HInv (h : HS) : Prop where
  objs : ∀ o ∈ h.heap, ObjOK o
  stored : ∀ s r, h.slot s = some r → ∃ o, h.obj r = some o ∧ o.bidict = true
  noAlias : ∀ s s' r, h.slot s = some r → h.slot s' = some r → s = s'

theorem obj_lt {h : HS} {r : Nat} {o : MObj} (ho : h.obj r = some o) : r < h.heap.length := by
  unfold HS.obj at ho
  obtain ⟨hl, _⟩ := List.getElem?_eq_some_iff.mp ho
  exact hl

theorem HInv.setObj {h : HS} (hi : HInv h) (r : Nat) (o x : MObj) (ho : h.obj r = some o)
    (hb : x.bidict = o.bidict) (hx : ObjOK x) : HInv { h with heap := h.heap.set r x } := by
  refine ⟨?_, ?_, hi.noAlias⟩
  · intro y hy
    rcases List.mem_or_eq_of_mem_set hy with h1 | h1
    · exact hi.objs y h1
    · exact h1 ▸ hx
  · intro s r' hs
    obtain ⟨o', ho', hb'⟩ := hi.stored s r' hs
    by_cases e : r = r'
    · subst e
      refine ⟨x, ?_, ?_⟩
      · simp only [HS.obj]; rw [List.getElem?_set_self (obj_lt ho)]
      · rw [ho] at ho'; cases ho'; rw [hb, hb']
    · refine ⟨o', ?_, hb'⟩
      simp only [HS.obj]; rw [List.getElem?_set_ne e]; exact ho'

theorem HInv.alloc {h : HS} (hi : HInv h) (x : MObj) (hx : ObjOK x) :
    HInv { h with heap := h.heap ++ [x] } := by
  refine ⟨?_, ?_, hi.noAlias⟩
  · intro y hy
    rcases List.mem_append.mp hy with h1 | h1
    · exact hi.objs y h1
    · simp at h1; exact h1 ▸ hx
  · intro s r hs
    obtain ⟨o, ho, hb⟩ := hi.stored s r hs
    refine ⟨o, ?_, hb⟩
    simp only [HS.obj]; rw [List.getElem?_append_left (obj_lt ho)]; exact ho

theorem HInv.store {h : HS} (hi : HInv h) (s : Slot) (r : Nat) (o : MObj) (ho : h.obj r = some o)
    (hb : o.bidict = true) (hfresh : ∀ s', h.slot s' ≠ some r) :
    HInv { h with slot := updSlot h.slot s (some r) } := by
  refine ⟨hi.objs, ?_, ?_⟩
  · intro s' r' hs
    by_cases e : s' = s
    · subst e; simp [updSlot] at hs; subst hs; exact ⟨o, ho, hb⟩
    · simp [updSlot, e] at hs; exact hi.stored s' r' hs
  · intro s1 s2 r' h1 h2
    by_cases e1 : s1 = s <;> by_cases e2 : s2 = s
    · rw [e1, e2]
    · simp [updSlot, e1, e2] at h1 h2; subst h1; exact absurd h2 (hfresh s2)
    · simp [updSlot, e1, e2] at h1 h2; subst h2; exact absurd h1 (hfresh s1)
    · simp [updSlot, e1, e2] at h1 h2; exact hi.noAlias s1 s2 r' h1 h2

theorem HInv.clearSlot {h : HS} (hi : HInv h) (s : Slot) :
    HInv { h with slot := updSlot h.slot s none } := by
  refine ⟨hi.objs, ?_, ?_⟩
  · intro s' r' hs
    by_cases e : s' = s
    · subst e; simp [updSlot] at hs
    · simp [updSlot, e] at hs; exact hi.stored s' r' hs
  · intro s1 s2 r' h1 h2
    by_cases e1 : s1 = s <;> by_cases e2 : s2 = s
    · rw [e1, e2]
    · simp [updSlot, e1] at h1
    · simp [updSlot, e2] at h2
    · simp [updSlot, e1, e2] at h1 h2; exact hi.noAlias s1 s2 r' h1 h2

/-- allocate a bidict and store it: the new reference is nobody else's -/
theorem HInv.allocStore {h : HS} (hi : HInv h) (s : Slot) (m : KeyMap) (hm : MapInv m) :
    HInv { h with heap := h.heap ++ [⟨true, m⟩], slot := updSlot h.slot s (some h.heap.length) } := by
  have h1 := hi.alloc ⟨true, m⟩ (ObjOK.ofMapInv hm true)
  refine HInv.store (h := { h with heap := h.heap ++ [⟨true, m⟩] }) h1 s h.heap.length ⟨true, m⟩ ?_ rfl ?_
  · simp [HS.obj]
  · intro s' hs'
    obtain ⟨o, ho, _⟩ := hi.stored s' _ hs'
    exact absurd (obj_lt ho) (Nat.lt_irrefl _)

/-! #### plain dicts -/

theorem cleanDict_keys (m : KeyMap) : (cleanDict m).map Prod.fst = m.map Prod.fst := by
  unfold cleanDict; rw [List.map_map]; rfl

theorem cleanDict_ok {o : MObj} (h : ObjOK o) (b : Bool) (hv : b = true → ((cleanDict o.items).map Prod.snd).Nodup) :
    ObjOK ⟨b, cleanDict o.items⟩ := by
  refine ⟨by rw [cleanDict_keys]; exact h.keys, ?_, hv⟩
  intro k k' hm
  obtain ⟨⟨a, t⟩, hat, he⟩ := List.mem_map.mp hm
  cases t with
  | name n => simp at he
  | disabled n => simp at he; obtain ⟨rfl, rfl⟩ := he; exact h.own _ _ hat
  | rawNone => simp at he; rw [← he.1, ← he.2]

theorem ofUser_items_ok (m : UserMap) (hk : (m.map Prod.fst).Nodup) (b : Bool)
    (hv : b = true → ((m.map fun kv => (kv.1, Target.ofUser kv.2)).map Prod.snd).Nodup) :
    ObjOK ⟨b, m.map fun kv => (kv.1, Target.ofUser kv.2)⟩ := by
  refine ⟨by rw [List.map_map]; exact hk, ?_, hv⟩
  intro k k' hm
  obtain ⟨⟨a, v⟩, _, he⟩ := List.mem_map.mp hm
  cases v <;> simp [Target.ofUser] at he

/-- distinct keys and markers under their own key (what a plain dict keeps) -/
def DictOK (m : KeyMap) : Prop := (m.map Prod.fst).Nodup ∧ ∀ k k', (k, Target.disabled k') ∈ m → k = k'

theorem dput_ok {m : KeyMap} (h : DictOK m) (k : String) (t : Target) (ho : Owned k t) : DictOK (dput m k t) := by
  unfold dput
  split
  · refine ⟨by rw [setAt_keys]; exact h.1, ?_⟩
    intro a k' hm
    rcases mem_setAt m k t a _ hm with ⟨h1, _⟩ | ⟨h1, h2⟩
    · exact h.2 a k' h1
    · rw [h1]; exact (ho k' h2.symm).symm
  · rename_i hn
    have hk : k ∉ m.map Prod.fst := (lookup_none_iff m k).mp (by cases hl : m.lookup k <;> simp_all)
    refine ⟨?_, ?_⟩
    · rw [List.map_append, List.nodup_append]
      refine ⟨h.1, by simp, ?_⟩
      intro a ha b hb
      simp at hb; subst hb
      intro e; subst e; exact hk ha
    · intro a k' hm
      rcases List.mem_append.mp hm with h1 | h1
      · exact h.2 a k' h1
      · simp at h1; rw [h1.1]; exact (ho k' h1.2.symm).symm

theorem dputAll_ok (kvs : List (String × Target)) (hkv : ∀ kv ∈ kvs, Owned kv.1 kv.2) :
    ∀ {m : KeyMap}, DictOK m → DictOK (dputAll m kvs) := by
  induction kvs with
  | nil => intro m h; exact h
  | cons kv rest ih =>
    intro m h
    exact ih (fun kv hk => hkv kv (by simp [hk])) (dput_ok h kv.1 kv.2 (hkv kv (by simp)))

theorem DictOK.sublist {m m' : KeyMap} (h : DictOK m) (hs : m'.Sublist m) : DictOK m' :=
  ⟨(hs.map _).nodup h.1, fun k k' hm => h.2 k k' (hs.subset hm)⟩

theorem editDict_ok {m : KeyMap} (h : DictOK m) (e : Edit) : DictOK (editDict m e).1 := by
  cases e with
  | put k v => exact dput_ok h k _ (owned_ofUser k v)
  | del k => simp only [editDict]; split <;> (first | exact h.sublist List.filter_sublist | exact h)
  | pop k => simp only [editDict]; split <;> (first | exact h.sublist List.filter_sublist | exact h)
  | popd k => exact h.sublist List.filter_sublist
  | update kvs =>
    refine dputAll_ok _ ?_ h
    intro kv hkv
    obtain ⟨e, _, rfl⟩ := List.mem_map.mp hkv
    exact owned_ofUser _ _
  | force k v => exact h
  | invPut v k => exact h
  | invDel v => exact h
  | clear => exact ⟨by simp [editDict], by simp [editDict]⟩
  | popitem => simp only [editDict]; split <;> (first | exact h | exact h.sublist (List.dropLast_sublist m))
  | setdefault k v => simp only [editDict]; split <;> (first | exact h | exact dput_ok h k _ (owned_ofUser k v))

theorem editObj_ok {o : MObj} (h : ObjOK o) (e : Edit) : ObjOK (editObj o e).1 ∧ (editObj o e).1.bidict = o.bidict := by
  refine ⟨?_, rfl⟩
  unfold editObj
  cases hb : o.bidict with
  | true =>
    have := editMap_inv (h.mapInv hb) e
    exact ⟨this.keys, this.own, fun _ => this.vals⟩
  | false =>
    have := editDict_ok (m := o.items) ⟨h.keys, h.own⟩ e
    exact ⟨this.1, this.2, fun hx => by simp at hx⟩

/-! #### every heap operation keeps the invariant -/

def HOp.WF : HOp → Prop
  | .new _ m => (m.map Prod.fst).Nodup
  | _ => True

theorem hnew_inv {h : HS} (hi : HInv h) (b : Bool) (m : UserMap) (hk : (m.map Prod.fst).Nodup) :
    HInv (hnew h b m).1 := by
  unfold hnew
  simp only
  split
  · exact hi
  · rename_i hc
    refine hi.alloc _ (ofUser_items_ok m hk b ?_)
    intro hb
    subst hb
    simpa [bidictOk] using hc

theorem hassign_inv {h : HS} (hi : HInv h) (s : Slot) (r : Option Nat) : HInv (hassign h s r).1 := by
  unfold hassign
  cases r with
  | none => exact hi.clearSlot s
  | some r =>
    simp only
    cases ho : h.obj r with
    | none => exact hi
    | some o =>
      have hok := hi.objs o (List.mem_of_getElem? ho)
      simp only
      cases hb : o.bidict with
      | true =>
        simp only [if_true]
        have hm := hok.mapInv hb
        have : bidictOk o.items = true := by simpa [bidictOk] using hm.vals
        simp only [this, if_true]
        exact hi.allocStore s o.items hm
      | false =>
        simp only [Bool.false_eq_true, if_false]
        have hset : HInv { h with heap := h.heap.set r { bidict := false, items := cleanDict o.items } } := by
          refine hi.setObj r o _ ho hb.symm ?_
          exact cleanDict_ok hok false (by simp)
        split
        · rename_i hv
          have hm : MapInv (cleanDict o.items) := by
            have := cleanDict_ok hok true (fun _ => by simpa [bidictOk] using hv)
            exact this.mapInv rfl
          have := hset.allocStore s (cleanDict o.items) hm
          simpa [List.length_set] using this
        · exact hset

theorem hget_inv {h : HS} (hi : HInv h) (s : Slot) : HInv (hget h s).1 := by
  unfold hget
  cases hs : h.slot s with
  | none => exact hi
  | some r =>
    simp only
    obtain ⟨o, ho, hb⟩ := hi.stored s r hs
    simp only [ho]
    have hok := hi.objs o (List.mem_of_getElem? ho)
    have hn := (normalize_spec (hok.mapInv hb)).2.1
    exact hi.setObj r o _ ho rfl ⟨hn.keys, hn.own, fun _ => hn.vals⟩

theorem hedit_inv {h : HS} (hi : HInv h) (r : Nat) (e : Edit) : HInv (hedit h r e).1 := by
  unfold hedit
  cases ho : h.obj r with
  | none => exact hi
  | some o =>
    have hok := hi.objs o (List.mem_of_getElem? ho)
    obtain ⟨h1, h2⟩ := editObj_ok hok e
    exact hi.setObj r o _ ho h2 h1

theorem deref_mapInv {h : HS} (hi : HInv h) (s : Slot) (m : KeyMap) (hm : h.deref s = some m) : MapInv m := by
  unfold HS.deref at hm
  cases hs : h.slot s with
  | none => simp [hs] at hm
  | some r =>
    obtain ⟨o, ho, hb⟩ := hi.stored s r hs
    simp [hs, ho] at hm
    subst hm
    exact (hi.objs o (List.mem_of_getElem? ho)).mapInv hb

theorem copySlot_inv {h : HS} (hi : HInv h) (s : Slot) : HInv (copySlot h s) := by
  unfold copySlot
  cases hm : h.deref s with
  | none => exact hi
  | some m => exact hi.allocStore s m (deref_mapInv hi s m hm)

theorem hstep_inv {h : HS} (hi : HInv h) (op : HOp) (hwf : op.WF) : HInv (hstep h op).1 := by
  cases op with
  | new b m => exact hnew_inv hi b m hwf
  | assign s r => exact hassign_inv hi s r
  | get s => exact hget_inv hi s
  | edit r e => exact hedit_inv hi r e
  | reload =>
    have := copySlot_inv (copySlot_inv hi .wfIn) .wfOut
    exact ⟨this.objs, this.stored, this.noAlias⟩
  | base op =>
    simp only [hstep]
    split
    · exact hi
    · exact ⟨hi.objs, hi.stored, hi.noAlias⟩

theorem hrun_inv (ops : List HOp) (hwf : ∀ op ∈ ops, op.WF) : ∀ (h : HS), HInv h → HInv (hrun h ops) := by
  induction ops with
  | nil => intro h hi; exact hi
  | cons op rest ih =>
    intro h hi
    have : hrun h (op :: rest) = hrun (hstep h op).1 rest := rfl
    rw [this]
    exact ih (fun o ho => hwf o (by simp [ho])) _ (hstep_inv hi op (hwf op (by simp)))

theorem hempty_inv (admits : Nat → Val → Bool) (valid : Nat → Nat → Bool) : HInv (hempty admits valid) :=
  ⟨fun o ho => by simp [hempty] at ho, fun s r hs => by simp [hempty] at hs,
    fun s s' r hs => by simp [hempty] at hs⟩

theorem world_inv {h : HS} (hi : HInv h) : WInv h.world := by
  constructor
  · show MapOK (h.deref .wfIn)
    cases hm : h.deref .wfIn with
    | none => trivial
    | some m => exact deref_mapInv hi _ m hm
  · show MapOK (h.deref .wfOut)
    cases hm : h.deref .wfOut with
    | none => trivial
    | some m => exact deref_mapInv hi _ m hm

/-! #### frame: an edit reaches only those who hold that very reference -/

theorem hedit_deref_other (h : HS) (r : Nat) (e : Edit) (s : Slot) (hs : h.slot s ≠ some r) :
    (hedit h r e).1.deref s = h.deref s := by
  unfold hedit
  cases ho : h.obj r with
  | none => rfl
  | some o =>
    simp only [HS.deref, HS.obj]
    cases hsl : h.slot s with
    | none => rfl
    | some r' =>
      have : r ≠ r' := fun e => hs (e ▸ hsl)
      simp [List.getElem?_set_ne this]

theorem hedit_base (h : HS) (r : Nat) (e : Edit) : (hedit h r e).1.base = h.base ∧ (hedit h r e).1.slot = h.slot := by
  unfold hedit
  cases h.obj r <;> simp

theorem world_ext (h h' : HS) (hb : h'.base = h.base) (hi : h'.deref .wfIn = h.deref .wfIn)
    (ho : h'.deref .wfOut = h.deref .wfOut) : h'.world = h.world := by
  simp [HS.world, hb, hi, ho]

theorem deref_append (h : HS) (x : MObj) (s : Slot) (hs : ∀ r, h.slot s = some r → r < h.heap.length) :
    ({ h with heap := h.heap ++ [x] } : HS).deref s = h.deref s := by
  simp only [HS.deref, HS.obj]
  cases hsl : h.slot s with
  | none => rfl
  | some r => simp [List.getElem?_append_left (hs r hsl)]

theorem stored_lt {h : HS} (hi : HInv h) (s : Slot) (r : Nat) (hs : h.slot s = some r) : r < h.heap.length := by
  obtain ⟨o, ho, _⟩ := hi.stored s r hs
  exact obj_lt ho

theorem copySlot_deref {h : HS} (hi : HInv h) (s s' : Slot) : (copySlot h s).deref s' = h.deref s' := by
  unfold copySlot
  cases hm : h.deref s with
  | none => rfl
  | some m =>
    by_cases e : s' = s
    · subst e
      have : ({ h with heap := h.heap ++ [⟨true, m⟩], slot := updSlot h.slot s' (some h.heap.length) } : HS).deref s'
          = some m := by simp [HS.deref, HS.obj, updSlot]
      rw [this, hm]
    · have := deref_append h ⟨true, m⟩ s' (fun r hr => stored_lt hi s' r hr)
      simp only [HS.deref, HS.obj, updSlot, e, if_false] at this ⊢
      exact this

theorem copySlot_slot_other (h : HS) (s s' : Slot) (hne : s' ≠ s) : (copySlot h s).slot s' = h.slot s' := by
  unfold copySlot; cases h.deref s <;> simp [updSlot, hne]

theorem copySlot_slot_self (h : HS) (s : Slot) (m : KeyMap) (hm : h.deref s = some m) :
    (copySlot h s).slot s = some h.heap.length := by
  unfold copySlot; rw [hm]; simp [updSlot]

theorem copySlot_len (h : HS) (s : Slot) : h.heap.length ≤ (copySlot h s).heap.length := by
  unfold copySlot; cases h.deref s <;> simp

theorem copySlot_base (h : HS) (s : Slot) : (copySlot h s).base = h.base := by
  unfold copySlot; cases h.deref s <;> rfl

end PwVerif.WfIO
