import PwVerif.Model.Exec
/-!
Invariant of the composite executor (token conservation) and its preservation by every action,
for every DAG, every executor assignment, every fault set and every interleaving of completions.
-/
namespace PwVerif.Exec
open PwVerif

structure WF (d : Dag) : Prop where
  downSpec   : ∀ i j, i ∈ d.down j ↔ j ∈ d.deps i
  downNodup  : ∀ j, (d.down j).Nodup
  noSelf     : ∀ i, i ∉ d.deps i
  startNodup : d.starters.Nodup
  startRoots : ∀ i ∈ d.starters, d.deps i = []
  /-- every upstream node without upstream of its own is a starting node (toposort layer 0) -/
  rootsStart : ∀ i j, j ∈ d.deps i → d.deps j = [] → j ∈ d.starters

def tok (s : S) (j i : Nat) : Nat := s.queue.count (j, i) + (s.received i).count j

/-- `hot = some i`: node `i`'s trigger has just fired (token popped, `received` reset) and `i` is
about to be run; `hot = none` is the ordinary invariant. -/
structure Core (d : Dag) (s : S) (hot : Option Nat) : Prop where
  calls1  : ∀ i, s.calls i = if s.st i = .idle then 0 else 1
  order   : ∀ i j, s.st i ≠ .idle → j ∈ d.deps i → s.st j = .done
  tokens  : ∀ i j, tok s j i =
              if hot ≠ some i ∧ j ∈ d.deps i ∧ s.st j = .done ∧ s.st i = .idle then 1 else 0
  notYet  : ∀ i, hot ≠ some i → s.st i = .idle → d.deps i ≠ [] → ∃ j ∈ d.deps i, j ∉ s.received i
  hotIdle : ∀ i, hot = some i → s.st i = .idle ∧ ∀ j ∈ d.deps i, s.st j = .done
  running : ∀ i, i ∈ s.running ↔ s.st i = .out
  runNodup : s.running.Nodup
  valDone : ∀ i, s.st i = .done → s.out i = .app i (fetchArgs d s.out i)
  valNot  : ∀ i, s.st i ≠ .done → s.out i = d.out0 i
  valOut  : ∀ i, s.st i = .out → s.args i = fetchArgs d s.out i
  failedFails : ∀ i, s.st i = .failed → d.fails i = true
  errsFailed  : ∀ i ∈ s.errs, s.st i = .failed
  doneOk      : ∀ i, s.st i = .done → d.fails i = false

theorem count_map_pair (k : Nat) (l : List Nat) (j i : Nat) :
    (l.map (fun r => (k, r))).count (j, i) = if j = k then l.count i else 0 := by
  induction l with
  | nil => simp
  | cons a l ih =>
    simp only [List.map_cons, List.count_cons, ih]
    by_cases hjk : j = k <;> by_cases hai : a = i <;> simp_all <;> grind

theorem count_emit (d : Dag) (wf : WF d) (k j i : Nat) :
    (emit d k).count (j, i) = if j = k ∧ k ∈ d.deps i then 1 else 0 := by
  unfold emit
  rw [count_map_pair, (wf.downNodup k).count]
  have := wf.downSpec i k
  by_cases hjk : j = k <;> simp_all

theorem fetchSlot_congr (o o' : Nat → Val) (own : Val) (cs : List Nat)
    (h : ∀ c ∈ cs, o' c = o c) : fetchSlot o' own cs = fetchSlot o own cs := by
  induction cs with
  | nil => rfl
  | cons c cs ih =>
    simp only [fetchSlot]
    rw [h c (by simp), ih (fun x hx => h x (by simp [hx]))]

theorem mem_deps_of_slot (d : Dag) (i : Nat) (cs : List Nat) (c : Nat)
    (hcs : cs ∈ d.slots i) (hc : c ∈ cs) : c ∈ d.deps i := by
  unfold Dag.deps
  exact List.mem_flatten.mpr ⟨cs, hcs, hc⟩

theorem fetchArgs_congr (d : Dag) (o o' : Nat → Val) (i : Nat)
    (h : ∀ c ∈ d.deps i, o' c = o c) : fetchArgs d o' i = fetchArgs d o i := by
  unfold fetchArgs
  apply List.map_congr_left
  intro cs hcs
  exact fetchSlot_congr o o' .d cs (fun c hc => h c (mem_deps_of_slot d i cs c hcs hc))

theorem fetchSlot_not_nd (o : Nat → Val) (cs : List Nat) (h : ∀ c ∈ cs, (o c).isNd = false) :
    (fetchSlot o .d cs).isNd = false := by
  induction cs with
  | nil => rfl
  | cons c cs ih =>
    have hc := h c (by simp)
    simp [fetchSlot, hc]

/-- with every upstream holding data each slot takes the value of its FIRST connection -/
theorem fetchSlot_head (o : Nat → Val) (c : Nat) (cs : List Nat) (h : (o c).isNd = false) :
    fetchSlot o .d (c :: cs) = o c := by
  simp [fetchSlot, h]

theorem fetchArgs_not_nd (d : Dag) (o : Nat → Val) (i : Nat)
    (h : ∀ c ∈ d.deps i, (o c).isNd = false) : (fetchArgs d o i).any Val.isNd = false := by
  unfold fetchArgs
  rw [List.any_eq_false]
  intro v hv
  obtain ⟨cs, hcs, rfl⟩ := List.mem_map.mp hv
  have := fetchSlot_not_nd o cs (fun c hc => h c (mem_deps_of_slot d i cs c hcs hc))
  simp [this]

/-! ### facts read off the invariant -/

theorem head_facts (d : Dag) (s : S) (h : Core d s none) (j i : Nat) (q : List (Nat × Nat))
    (hq : s.queue = (j, i) :: q) :
    j ∈ d.deps i ∧ s.st j = .done ∧ s.st i = .idle ∧ q.count (j, i) = 0 ∧ (s.received i).count j = 0 := by
  have ht := h.tokens i j
  simp only [tok, hq, List.count_cons_self] at ht
  by_cases hc : (j ∈ d.deps i ∧ s.st j = .done ∧ s.st i = .idle)
  · simp [hc] at ht; exact ⟨hc.1, hc.2.1, hc.2.2, by omega, by omega⟩
  · simp [hc] at ht

theorem mem_received_done (d : Dag) (s : S) (h : Core d s none) (i j : Nat) (hm : j ∈ s.received i) :
    j ∈ d.deps i ∧ s.st j = .done ∧ s.st i = .idle ∧ s.queue.count (j, i) = 0 ∧ (s.received i).count j = 1 := by
  have ht := h.tokens i j
  have hpos : 0 < (s.received i).count j := List.count_pos_iff.mpr hm
  simp only [tok] at ht
  by_cases hc : (j ∈ d.deps i ∧ s.st j = .done ∧ s.st i = .idle)
  · simp [hc] at ht; exact ⟨hc.1, hc.2.1, hc.2.2, by omega, by omega⟩
  · simp [hc] at ht; omega

theorem done_not_nd (d : Dag) (s : S) (hot) (h : Core d s hot) (j : Nat) (hj : s.st j = .done) :
    (s.out j).isNd = false := by
  rw [h.valDone j hj]; rfl

end PwVerif.Exec

namespace PwVerif.Exec
open PwVerif

/-- the effect of a successful completion of node `k` (executor callback, or the tail of a local
run) on the fields the invariant talks about -/
def finishOk (d : Dag) (s : S) (k : Nat) : S :=
  { s with running := s.running.erase k, doneLog := s.doneLog ++ [k],
           st := updF s.st k .done, out := updF s.out k (.app k (s.args k)),
           queue := s.queue ++ emit d k }

def finishFail (s : S) (k : Nat) (errs : List Nat) : S :=
  { s with running := s.running.erase k, doneLog := s.doneLog ++ [k],
           st := updF s.st k .failed, errs := errs }

theorem downIdle (d : Dag) (s : S) (hot) (h : Core d s hot) (k : Nat) (hk : s.st k ≠ .done)
    (r : Nat) (hr : k ∈ d.deps r) : s.st r = .idle := by
  apply Classical.byContradiction
  intro hn
  exact hk (h.order r k hn hr)

theorem finishOk_core (d : Dag) (wf : WF d) (s : S) (k : Nat) (h : Core d s none)
    (hk : s.st k = .out) (hnf : d.fails k = false) : Core d (finishOk d s k) none := by
  have hdown := downIdle d s none h k (by simp [hk])
  have hkdeps : ∀ j ∈ d.deps k, s.st j = .done := fun j hj => h.order k j (by simp [hk]) hj
  have hargs := h.valOut k hk
  -- outputs of `k` are read by nobody who is not idle
  have hcongr : ∀ x, s.st x ≠ .idle → fetchArgs d (updF s.out k (.app k (s.args k))) x = fetchArgs d s.out x := by
    intro x hx
    apply fetchArgs_congr
    intro c hc
    have : c ≠ k := by
      intro e; subst e
      exact hx (hdown x hc)
    simp [updF, this]
  unfold finishOk
  refine ⟨?_, ?_, ?_, ?_, ?_, ?_, ?_, ?_, ?_, ?_, ?_, ?_, ?_⟩
  · intro i
    have := h.calls1 i
    by_cases hik : i = k <;> simp_all [updF]
  · intro i j hi hj
    have := h.order i j
    by_cases hik : i = k <;> by_cases hjk : j = k <;> simp_all [updF]
  · intro i j
    have ht := h.tokens i j
    simp only [tok, List.count_append, count_emit d wf] at ht ⊢
    have := hdown i
    by_cases hik : i = k <;> by_cases hjk : j = k <;> simp_all [updF] <;> grind [wf.noSelf]
  · intro i _ hi hne
    have := h.notYet i (by simp)
    by_cases hik : i = k <;> simp_all [updF]
  · intro i hi; cases hi
  · intro i
    have := h.running i
    have hn := h.runNodup
    by_cases hik : i = k
    · subst hik; simp [updF, List.Nodup.mem_erase_iff hn]
    · simp [updF, hik, List.Nodup.mem_erase_iff hn, this]
  · exact List.Nodup.erase _ h.runNodup
  · intro i hi
    by_cases hik : i = k
    · subst hik
      simp only [updF_same]
      rw [hcongr i (by simp [hk]), ← hargs]
    · have hi' : s.st i = .done := by simpa [updF, hik] using hi
      rw [hcongr i (by simp [hi'])]
      simp only [updF, hik, if_false]
      exact h.valDone i hi'
  · intro i hi
    by_cases hik : i = k
    · subst hik; simp [updF] at hi
    · have := h.valNot i (by simpa [updF, hik] using hi)
      simp [updF, hik, this]
  · intro i hi
    by_cases hik : i = k
    · subst hik; simp [updF] at hi
    · have hi' : s.st i = .out := by simpa [updF, hik] using hi
      rw [hcongr i (by simp [hi'])]
      exact h.valOut i hi'
  · intro i hi
    by_cases hik : i = k
    · subst hik; simp [updF] at hi
    · exact h.failedFails i (by simpa [updF, hik] using hi)
  · intro i hi
    have := h.errsFailed i hi
    by_cases hik : i = k
    · subst hik; simp [hk] at this
    · simp [updF, hik, this]
  · intro i hi
    by_cases hik : i = k
    · subst hik; exact hnf
    · exact h.doneOk i (by simpa [updF, hik] using hi)

theorem finishFail_core (d : Dag) (s : S) (k : Nat) (errs : List Nat) (h : Core d s none)
    (hk : s.st k = .out) (hf : d.fails k = true) (he : ∀ i ∈ errs, i = k ∨ i ∈ s.errs) :
    Core d (finishFail s k errs) none := by
  have hdown := downIdle d s none h k (by simp [hk])
  unfold finishFail
  refine ⟨?_, ?_, ?_, ?_, ?_, ?_, ?_, ?_, ?_, ?_, ?_, ?_, ?_⟩
  · intro i
    have := h.calls1 i
    by_cases hik : i = k <;> simp_all [updF]
  · intro i j hi hj
    have := h.order i j
    have := hdown i
    by_cases hik : i = k <;> by_cases hjk : j = k <;> simp_all [updF]
  · intro i j
    have ht := h.tokens i j
    simp only [tok] at ht ⊢
    by_cases hik : i = k <;> by_cases hjk : j = k <;> simp_all [updF]
  · intro i _ hi hne
    have := h.notYet i (by simp)
    by_cases hik : i = k <;> simp_all [updF]
  · intro i hi; cases hi
  · intro i
    have := h.running i
    have hn := h.runNodup
    by_cases hik : i = k
    · subst hik; simp [updF, List.Nodup.mem_erase_iff hn]
    · simp [updF, hik, List.Nodup.mem_erase_iff hn, this]
  · exact List.Nodup.erase _ h.runNodup
  · intro i hi
    by_cases hik : i = k
    · subst hik; simp [updF] at hi
    · exact h.valDone i (by simpa [updF, hik] using hi)
  · intro i hi
    by_cases hik : i = k
    · subst hik; exact h.valNot i (by simp [hk])
    · exact h.valNot i (by simpa [updF, hik] using hi)
  · intro i hi
    by_cases hik : i = k
    · subst hik; simp [updF] at hi
    · exact h.valOut i (by simpa [updF, hik] using hi)
  · intro i hi
    by_cases hik : i = k
    · subst hik; exact hf
    · exact h.failedFails i (by simpa [updF, hik] using hi)
  · intro i hi
    rcases he i hi with rfl | hm
    · simp [updF]
    · have := h.errsFailed i hm
      by_cases hik : i = k
      · subst hik; simp [updF]
      · simp [updF, hik, this]
  · intro i hi
    by_cases hik : i = k
    · subst hik; simp [updF] at hi
    · exact h.doneOk i (by simpa [updF, hik] using hi)

end PwVerif.Exec

namespace PwVerif.Exec
open PwVerif

/-- the node leaves `idle`: function invoked (locally now, or by the executor) -/
def submit (d : Dag) (s : S) (i : Nat) : S :=
  { s with calls := updF s.calls i (s.calls i + 1), args := updF s.args i (fetchArgs d s.out i),
           execLog := s.execLog ++ [i], st := updF s.st i .out, running := s.running ++ [i] }

theorem submit_core (d : Dag) (s : S) (i : Nat) (h : Core d s (some i)) :
    Core d (submit d s i) none := by
  obtain ⟨hidle, hdeps⟩ := h.hotIdle i rfl
  have hdown := downIdle d s _ h i (by simp [hidle])
  have hnr : i ∉ s.running := by
    intro hm; have := (h.running i).mp hm; simp [hidle] at this
  unfold submit
  refine ⟨?_, ?_, ?_, ?_, ?_, ?_, ?_, ?_, ?_, ?_, ?_, ?_, ?_⟩
  · intro x
    have := h.calls1 x
    by_cases hx : x = i <;> simp_all [updF]
  · intro x j hx hj
    have := h.order x j
    have := hdown x
    by_cases hxi : x = i <;> by_cases hji : j = i <;> simp_all [updF]
  · intro x j
    have ht := h.tokens x j
    simp only [tok] at ht ⊢
    have hix : x ≠ i → ¬ i = x := fun a b => a b.symm
    by_cases hxi : x = i <;> by_cases hji : j = i <;> simp_all [updF]
  · intro x _ hx hne
    by_cases hxi : x = i
    · subst hxi; simp [updF] at hx
    · have := h.notYet x (by simp; exact fun e => hxi e.symm) (by simpa [updF, hxi] using hx) hne
      exact this
  · intro x hx; cases hx
  · intro x
    have := h.running x
    by_cases hxi : x = i
    · subst hxi; simp [updF]
    · simp [updF, hxi, this]
  · refine List.nodup_append.mpr ⟨h.runNodup, by simp, ?_⟩
    intro a ha b hb
    simp at hb; subst hb
    intro e; subst e; exact hnr ha
  · intro x hx
    by_cases hxi : x = i
    · subst hxi; simp [updF] at hx
    · exact h.valDone x (by simpa [updF, hxi] using hx)
  · intro x hx
    by_cases hxi : x = i
    · subst hxi; exact h.valNot x (by simp [hidle])
    · exact h.valNot x (by simpa [updF, hxi] using hx)
  · intro x hx
    by_cases hxi : x = i
    · subst hxi; simp [updF]
    · have := h.valOut x (by simpa [updF, hxi] using hx)
      simp [updF, hxi, this]
  · intro x hx
    by_cases hxi : x = i
    · subst hxi; simp [updF] at hx
    · exact h.failedFails x (by simpa [updF, hxi] using hx)
  · intro x hx
    have := h.errsFailed x hx
    by_cases hxi : x = i
    · subst hxi; simp [hidle] at this
    · simp [updF, hxi, this]
  · intro x hx
    by_cases hxi : x = i
    · subst hxi; simp [updF] at hx
    · exact h.doneOk x (by simpa [updF, hxi] using hx)

theorem erase_append_self (l : List Nat) (i : Nat) (h : i ∉ l) : (l ++ [i]).erase i = l := by
  rw [List.erase_append_right _ h]; simp

theorem updF_updF {α} (f : Nat → α) (a : Nat) (v w : α) : updF (updF f a v) a w = updF f a w := by
  funext x; by_cases hx : x = a <;> simp [updF, hx]

/-- what `runNode` does when the node is hot (trigger fired / starter): the three outcomes in terms
of `submit`, `finishOk`, `finishFail` -/
theorem runNode_hot (d : Dag) (s : S) (i : Nat) (h : Core d s (some i)) :
    runNode d s i =
      if d.onExec i then (submit d s i, .ok)
      else if d.fails i then (finishFail (submit d s i) i s.errs, .raised)
      else (finishOk d (submit d s i) i, .ok) := by
  obtain ⟨hidle, hdeps⟩ := h.hotIdle i rfl
  have hnr : i ∉ s.running := by
    intro hm; have := (h.running i).mp hm; simp [hidle] at this
  have hargs : (fetchArgs d s.out i).any Val.isNd = false :=
    fetchArgs_not_nd d s.out i (fun c hc => done_not_nd d s _ h c (hdeps c hc))
  unfold runNode
  simp only [hidle, ne_eq, not_true_eq_false, hargs, Bool.false_eq_true, or_self, if_false]
  split
  · simp [submit]
  · split
    · simp [finishFail, submit, updF_updF, erase_append_self _ _ hnr]
    · simp [finishOk, submit, updF_updF, erase_append_self _ _ hnr]

theorem core_errs (d : Dag) (s : S) (i : Nat) (h : Core d s none) (hi : s.st i = .failed) :
    Core d { s with errs := s.errs ++ [i] } none :=
  ⟨h.calls1, h.order, h.tokens, h.notYet, h.hotIdle, h.running, h.runNodup, h.valDone, h.valNot,
   h.valOut, h.failedFails, by
      intro x hx
      rcases List.mem_append.mp hx with hx | hx
      · exact h.errsFailed x hx
      · simp at hx; subst hx; exact hi, h.doneOk⟩

theorem core_phase (d : Dag) (s : S) (p : Phase) (hot) (h : Core d s hot) :
    Core d { s with phase := p } hot :=
  ⟨h.calls1, h.order, h.tokens, h.notYet, h.hotIdle, h.running, h.runNodup, h.valDone, h.valNot,
   h.valOut, h.failedFails, h.errsFailed, h.doneOk⟩

/-- running a hot node re-establishes the invariant, whatever the outcome -/
theorem runNode_core (d : Dag) (wf : WF d) (s : S) (i : Nat) (h : Core d s (some i)) :
    Core d (runNode d s i).1 none ∧
    ((runNode d s i).2 = .raised → (runNode d s i).1.st i = .failed) ∧
    ((runNode d s i).1.st i ≠ .idle) ∧ (∀ x, x ≠ i → (runNode d s i).1.st x = s.st x) ∧
    (runNode d s i).1.phase = s.phase := by
  have hsub := submit_core d s i h
  have hout : (submit d s i).st i = .out := by simp [submit]
  rw [runNode_hot d s i h]
  split
  · refine ⟨hsub, by simp, by simp [submit], ?_, by simp [submit]⟩
    intro x hx; simp [submit, updF, hx]
  · split
    · rename_i hf
      refine ⟨finishFail_core d _ i _ hsub hout hf (by intro x hx; right; simpa [submit] using hx),
        by simp [finishFail], by simp [finishFail], ?_, by simp [finishFail, submit]⟩
      intro x hx; simp [finishFail, submit, updF, hx]
    · rename_i hnf
      refine ⟨finishOk_core d wf _ i hsub hout (by simpa using hnf), by simp, by simp [finishOk], ?_, by simp [finishOk, submit]⟩
      intro x hx; simp [finishOk, submit, updF, hx]

end PwVerif.Exec

namespace PwVerif.Exec
open PwVerif

structure PhaseInv (d : Dag) (s : S) : Prop where
  rest : ∀ r, s.phase = .run r →
    r.Nodup ∧ (∀ i ∈ r, s.st i = .idle ∧ i ∈ d.starters) ∧ (∀ i ∈ d.starters, s.st i = .idle → i ∈ r)
  exited : s.phase = .exited → s.queue = [] ∧ s.running = [] ∧ ∀ i ∈ d.starters, s.st i ≠ .idle

structure ErrInv (cfg : Cfg) (d : Dag) (s : S) : Prop where
  outExec : ∀ i, s.st i = .out → d.onExec i = true
  failedSeen : ∀ i, s.st i = .failed →
    i ∈ s.errs ∨ s.phase = .aborted ∨ (cfg.reportExecFailure = false ∧ d.onExec i = true)
  abortedCfg : s.phase = .aborted → cfg.startAborts = true

structure Inv (cfg : Cfg) (d : Dag) (s : S) : Prop where
  core : Core d s none
  phase : PhaseInv d s
  err : ErrInv cfg d s

theorem init_inv (cfg : Cfg) (d : Dag) (wf : WF d) : Inv cfg d (init d) := by
  refine ⟨⟨?_, ?_, ?_, ?_, ?_, ?_, ?_, ?_, ?_, ?_, ?_, ?_, ?_⟩, ⟨?_, ?_⟩, ⟨?_, ?_, ?_⟩⟩ <;>
    (try simp [init, tok]) <;>
    first
      | exact wf.startNodup
      | (intro i hi; exact List.exists_mem_of_ne_nil _ hi)

theorem core_hot_root (d : Dag) (s : S) (i : Nat) (h : Core d s none) (hi : s.st i = .idle)
    (hd : d.deps i = []) : Core d s (some i) := by
  refine ⟨h.calls1, h.order, ?_, ?_, ?_, h.running, h.runNodup, h.valDone, h.valNot, h.valOut,
    h.failedFails, h.errsFailed, h.doneOk⟩
  · intro x j
    have := h.tokens x j
    by_cases hx : x = i
    · subst hx; simp_all
    · have : ¬ i = x := fun e => hx e.symm
      simp_all
  · intro x hx; exact h.notYet x (by simp)
  · intro x hx; cases hx; exact ⟨hi, by simp [hd]⟩

/-- popping the head token `(j, i)` when it completes `i`'s set: the state with the token removed and
`received i` reset is hot for `i` -/
theorem pop_fire_core (d : Dag) (wf : WF d) (s : S) (j i : Nat) (q : List (Nat × Nat))
    (h : Core d s none) (hq : s.queue = (j, i) :: q)
    (hall : (d.deps i).all (fun x => (j :: s.received i).contains x) = true) :
    Core d { s with queue := q, received := updF s.received i [] } (some i) := by
  obtain ⟨hji, hjd, hii, hqc, hrc⟩ := head_facts d s h j i q hq
  have hall' : ∀ x ∈ d.deps i, x = j ∨ x ∈ s.received i := by
    intro x hx
    have := (List.all_eq_true.mp hall) x hx
    simpa using this
  have hdeps : ∀ x ∈ d.deps i, s.st x = .done ∧ q.count (x, i) = 0 := by
    intro x hx
    rcases hall' x hx with rfl | hm
    · exact ⟨hjd, hqc⟩
    · obtain ⟨_, hxd, _, hxq, _⟩ := mem_received_done d s h i x hm
      refine ⟨hxd, ?_⟩
      have : x ≠ j := by
        intro e; subst e
        have := List.count_pos_iff.mpr hm; omega
      have hh : List.count (x, i) ((j, i) :: q) = 0 := by rw [← hq]; exact hxq
      have hxi : (j, i) ≠ (x, i) := by intro e; simp at e; exact this e.symm
      rw [List.count_cons_of_ne hxi] at hh; exact hh
  have hqi : ∀ x, q.count (x, i) = 0 := by
    intro x
    by_cases hx : x ∈ d.deps i
    · exact (hdeps x hx).2
    · have ht := h.tokens i x
      simp only [tok, hq, hx, false_and, and_false, if_false] at ht
      have : (List.count (x, i) ((j, i) :: q)) = 0 := by omega
      have hxj : x ≠ j := fun e => hx (e ▸ hji)
      have hxi : (j, i) ≠ (x, i) := by intro e; simp at e; exact hxj e.symm
      rw [List.count_cons_of_ne hxi] at this; exact this
  refine ⟨h.calls1, h.order, ?_, ?_, ?_, h.running, h.runNodup, h.valDone, h.valNot, h.valOut,
    h.failedFails, h.errsFailed, h.doneOk⟩
  · intro a b
    have ht := h.tokens a b
    simp only [tok, hq] at ht ⊢
    by_cases hai : a = i
    · subst hai
      simp [updF, hqi b]
    · have hne : (j, i) ≠ (b, a) := by intro e; simp at e; exact hai e.2.symm
      have hia : ¬ i = a := fun e => hai e.symm
      rw [List.count_cons_of_ne hne] at ht
      simp_all [updF]
  · intro a ha hst hne
    have hai : a ≠ i := by intro e; subst e; simp at ha
    have := h.notYet a (by simp) hst hne
    simpa [updF, hai] using this
  · intro a ha; cases ha; exact ⟨hii, fun x hx => (hdeps x hx).1⟩

theorem pop_wait_core (d : Dag) (s : S) (j i : Nat) (q : List (Nat × Nat))
    (h : Core d s none) (hq : s.queue = (j, i) :: q)
    (hall : ¬ (d.deps i).all (fun x => (j :: s.received i).contains x) = true) :
    Core d { s with queue := q, received := updF s.received i (j :: s.received i) } none := by
  obtain ⟨hji, hjd, hii, hqc, hrc⟩ := head_facts d s h j i q hq
  have hmiss : ∃ x ∈ d.deps i, x ≠ j ∧ x ∉ s.received i := by
    have : ¬ ∀ x ∈ d.deps i, (j :: s.received i).contains x = true := by
      intro hh; exact hall (List.all_eq_true.mpr hh)
    apply Classical.byContradiction
    intro hno
    apply this
    intro x hx
    apply Classical.byContradiction
    intro hxn
    apply hno
    refine ⟨x, hx, ?_⟩
    simpa using hxn
  refine ⟨h.calls1, h.order, ?_, ?_, h.hotIdle, h.running, h.runNodup, h.valDone, h.valNot, h.valOut,
    h.failedFails, h.errsFailed, h.doneOk⟩
  · intro a b
    have ht := h.tokens a b
    simp only [tok, hq] at ht ⊢
    by_cases hai : a = i <;> by_cases hbj : b = j <;> simp_all [updF, List.count_cons] <;> grind
  · intro a _ ha hne'
    by_cases hai : a = i
    · subst hai
      obtain ⟨x, hx, hxj, hxr⟩ := hmiss
      exact ⟨x, hx, by simp [updF, hxj, hxr]⟩
    · have := h.notYet a (by simp) ha hne'
      simpa [updF, hai] using this

theorem step_inv (cfg : Cfg) (d : Dag) (wf : WF d) (s s' : S) (a : Act) (h : Inv cfg d s)
    (hs : step cfg d s a = some s') : Inv cfg d s' := by
  cases a with
  | start =>
    simp only [step] at hs
    split at hs
    · rename_i i rest hph
      obtain ⟨hnd, hrest, hstart⟩ := h.phase.rest _ hph
      have hi := hrest i (by simp)
      have hhot := core_hot_root d s i h.core hi.1 (wf.startRoots i hi.2)
      obtain ⟨hc, hraised, hni, hoth, hphase⟩ := runNode_core d wf s i hhot
      have hrest' : ∀ x ∈ rest, (runNode d s i).1.st x = .idle ∧ x ∈ d.starters := by
        intro x hx
        have hxi : x ≠ i := by
          intro e; subst e; exact (List.nodup_cons.mp hnd).1 hx
        rw [hoth x hxi]; exact hrest x (by simp [hx])
      have hstart' : ∀ x ∈ d.starters, (runNode d s i).1.st x = .idle → x ∈ rest := by
        intro x hx hxs
        have hxi : x ≠ i := by intro e; subst e; exact hni hxs
        rw [hoth x hxi] at hxs
        have := hstart x hx hxs
        simpa [hxi] using this
      have houtE : ∀ x, (runNode d s i).1.st x = .out → d.onExec x = true := by
        intro x hx
        by_cases hxi : x = i
        · subst hxi
          rw [runNode_hot d s x hhot] at hx
          by_cases hex : d.onExec x
          · exact hex
          · by_cases hf : d.fails x <;> simp [hex, hf, finishFail, finishOk, submit] at hx
        · rw [hoth x hxi] at hx; exact h.err.outExec x hx
      have hfailOld : ∀ x, x ≠ i → (runNode d s i).1.st x = .failed →
          x ∈ (runNode d s i).1.errs ∨ (cfg.reportExecFailure = false ∧ d.onExec x = true) := by
        intro x hxi hx
        rw [hoth x hxi] at hx
        have herrs : (runNode d s i).1.errs = s.errs := by
          rw [runNode_hot d s i hhot]
          by_cases hex : d.onExec i <;> by_cases hf : d.fails i <;> simp [hex, hf, finishFail, finishOk, submit]
        rcases h.err.failedSeen x hx with h1 | h1 | h1
        · left; rw [herrs]; exact h1
        · rw [hph] at h1; cases h1
        · right; exact h1
      split at hs
      · rename_i s1 heq
        simp only [Option.some.injEq] at hs; subst hs
        have e1 : s1 = (runNode d s i).1 := by rw [heq]
        have e2 : (runNode d s i).2 = .ok := by rw [heq]
        subst e1
        refine ⟨core_phase d _ _ _ hc, ⟨?_, by simp⟩, ⟨houtE, ?_, by simp⟩⟩
        · intro r hr
          simp at hr; subst hr
          exact ⟨(List.nodup_cons.mp hnd).2, hrest', hstart'⟩
        · intro x hx
          by_cases hxi : x = i
          · subst hxi
            exfalso
            rw [runNode_hot d s x hhot] at hx e2
            by_cases hex : d.onExec x <;> by_cases hf : d.fails x <;>
              simp [hex, hf, finishFail, finishOk, submit] at hx e2
          · rcases hfailOld x hxi hx with h1 | h1
            · exact Or.inl h1
            · exact Or.inr (Or.inr h1)
      · rename_i s1 heq
        have e1 : s1 = (runNode d s i).1 := by rw [heq]
        have e2 : (runNode d s i).2 = .raised := by rw [heq]
        subst e1
        have hfi := hraised e2
        split at hs
        · rename_i hab
          simp only [Option.some.injEq] at hs; subst hs
          refine ⟨core_phase d _ _ _ hc, ⟨by simp, by simp⟩, ⟨houtE, ?_, by simp [hab]⟩⟩
          intro x hx; right; left; rfl
        · simp only [Option.some.injEq] at hs; subst hs
          refine ⟨core_phase d _ _ _ (core_errs d _ i hc hfi), ⟨?_, by simp⟩, ⟨houtE, ?_, by simp⟩⟩
          · intro r hr
            simp at hr; subst hr
            exact ⟨(List.nodup_cons.mp hnd).2, hrest', hstart'⟩
          · intro x hx
            by_cases hxi : x = i
            · subst hxi; left; simp
            · rcases hfailOld x hxi hx with h1 | h1
              · left; simp [h1]
              · exact Or.inr (Or.inr h1)
    · simp at hs
  | deliver =>
    simp only [step] at hs
    split at hs
    · rename_i j i q hph hq
      obtain ⟨_, _, hstart⟩ := h.phase.rest _ hph
      split at hs
      · rename_i hall
        have hhot := pop_fire_core d wf s j i q h.core hq hall
        obtain ⟨hc, hraised, hni, hoth, hphase⟩ := runNode_core d wf _ i hhot
        have hphase' : (runNode d { s with queue := q, received := updF s.received i [] } i).1.phase = .run [] := by
          rw [hphase]; exact hph
        have hPh : ∀ (t : S), t.phase = .run [] → t.st i ≠ .idle → (∀ x, x ≠ i → t.st x = s.st x) →
            PhaseInv d t := by
          intro t htp hti hto
          refine ⟨?_, by simp [htp]⟩
          intro r hr
          rw [htp] at hr; simp at hr; subst hr
          refine ⟨by simp, by simp, ?_⟩
          intro x hx hxs
          have hxi : x ≠ i := by intro e; subst e; exact hti hxs
          rw [hto x hxi] at hxs
          exact hstart x hx hxs
        have houtE : ∀ x, (runNode d { s with queue := q, received := updF s.received i [] } i).1.st x = .out →
            d.onExec x = true := by
          intro x hx
          by_cases hxi : x = i
          · subst hxi
            rw [runNode_hot d _ x hhot] at hx
            by_cases hex : d.onExec x
            · exact hex
            · by_cases hf : d.fails x <;> simp [hex, hf, finishFail, finishOk, submit] at hx
          · rw [hoth x hxi] at hx; exact h.err.outExec x hx
        have herrs : (runNode d { s with queue := q, received := updF s.received i [] } i).1.errs = s.errs := by
          rw [runNode_hot d _ i hhot]
          by_cases hex : d.onExec i <;> by_cases hf : d.fails i <;> simp [hex, hf, finishFail, finishOk, submit]
        have hfailOld : ∀ x, x ≠ i →
            (runNode d { s with queue := q, received := updF s.received i [] } i).1.st x = .failed →
            x ∈ s.errs ∨ (cfg.reportExecFailure = false ∧ d.onExec x = true) := by
          intro x hxi hx
          rw [hoth x hxi] at hx
          rcases h.err.failedSeen x hx with h1 | h1 | h1
          · exact Or.inl h1
          · rw [hph] at h1; cases h1
          · exact Or.inr h1
        split at hs
        · rename_i s1 heq
          simp only [Option.some.injEq] at hs; subst hs
          have e1 : s1 = (runNode d { s with queue := q, received := updF s.received i [] } i).1 := by rw [heq]
          have e2 : (runNode d { s with queue := q, received := updF s.received i [] } i).2 = .ok := by rw [heq]
          subst e1
          refine ⟨hc, hPh _ hphase' hni hoth, ⟨houtE, ?_, by simp [hphase']⟩⟩
          intro x hx
          by_cases hxi : x = i
          · subst hxi
            exfalso
            rw [runNode_hot d _ x hhot] at hx e2
            by_cases hex : d.onExec x <;> by_cases hf : d.fails x <;>
              simp [hex, hf, finishFail, finishOk, submit] at hx e2
          · rcases hfailOld x hxi hx with h1 | h1
            · left; rw [herrs]; exact h1
            · exact Or.inr (Or.inr h1)
        · rename_i s1 heq
          simp only [Option.some.injEq] at hs; subst hs
          have e1 : s1 = (runNode d { s with queue := q, received := updF s.received i [] } i).1 := by rw [heq]
          have e2 : (runNode d { s with queue := q, received := updF s.received i [] } i).2 = .raised := by rw [heq]
          subst e1
          have hfi := hraised e2
          refine ⟨core_errs d _ i hc hfi, hPh _ hphase' hni hoth, ⟨houtE, ?_, by simp [hphase']⟩⟩
          intro x hx
          by_cases hxi : x = i
          · subst hxi; left; simp
          · rcases hfailOld x hxi hx with h1 | h1
            · left; simp [herrs, h1]
            · exact Or.inr (Or.inr h1)
      · rename_i hall
        simp only [Option.some.injEq] at hs; subst hs
        refine ⟨pop_wait_core d s j i q h.core hq hall, ⟨?_, by simp [hph]⟩, ⟨h.err.outExec, ?_, by simp [hph]⟩⟩
        · intro r hr; exact h.phase.rest r hr
        · intro x hx; exact h.err.failedSeen x hx
    · simp at hs
  | complete k =>
    simp only [step] at hs
    split at hs
    · rename_i r hph
      split at hs
      · rename_i hk
        have hPh : ∀ (t : S), t.phase = s.phase → (∀ x, x ≠ k → t.st x = s.st x) → t.st k ≠ .idle →
            PhaseInv d t := by
          intro t htp hto htk
          refine ⟨?_, by simp [htp, hph]⟩
          intro r' hr'
          rw [htp] at hr'
          obtain ⟨hnd, hrest, hstart⟩ := h.phase.rest r' hr'
          refine ⟨hnd, ?_, ?_⟩
          · intro x hx
            have hxk : x ≠ k := by intro e; subst e; have := (hrest x hx).1; simp [hk] at this
            rw [hto x hxk]; exact hrest x hx
          · intro x hx hxs
            have hxk : x ≠ k := by intro e; subst e; exact htk hxs
            rw [hto x hxk] at hxs; exact hstart x hx hxs
        split at hs
        · rename_i hf
          simp only [Option.some.injEq] at hs; subst hs
          have hcore := finishFail_core d s k (if cfg.reportExecFailure then s.errs ++ [k] else s.errs)
            h.core hk hf (by
              intro x hx
              split at hx
              · rcases List.mem_append.mp hx with hx | hx
                · exact Or.inr hx
                · simp at hx; exact Or.inl hx
              · exact Or.inr hx)
          refine ⟨hcore, hPh _ rfl (by intro x hx; simp [updF, hx]) (by simp [updF]), ⟨?_, ?_, by simp [hph]⟩⟩
          · intro x hx
            by_cases hxk : x = k
            · subst hxk; simp [updF] at hx
            · exact h.err.outExec x (by simpa [updF, hxk] using hx)
          · intro x hx
            by_cases hxk : x = k
            · subst hxk
              by_cases hrep : cfg.reportExecFailure
              · left; simp [hrep]
              · right; right; exact ⟨by simpa using hrep, h.err.outExec x hk⟩
            · have hx' : s.st x = .failed := by simpa [updF, hxk] using hx
              rcases h.err.failedSeen x hx' with h1 | h1 | h1
              · left
                show x ∈ (if cfg.reportExecFailure then s.errs ++ [k] else s.errs)
                split
                · simp [h1]
                · exact h1
              · rw [hph] at h1; cases h1
              · exact Or.inr (Or.inr h1)
        · simp only [Option.some.injEq] at hs; subst hs
          have hcore := finishOk_core d wf s k h.core hk (by rename_i hnf; simpa using hnf)
          refine ⟨hcore, hPh _ rfl (by intro x hx; simp [updF, hx]) (by simp [updF]), ⟨?_, ?_, by simp [hph]⟩⟩
          · intro x hx
            by_cases hxk : x = k
            · subst hxk; simp [updF] at hx
            · exact h.err.outExec x (by simpa [updF, hxk] using hx)
          · intro x hx
            by_cases hxk : x = k
            · subst hxk; simp [updF] at hx
            · have hx' : s.st x = .failed := by simpa [updF, hxk] using hx
              rcases h.err.failedSeen x hx' with h1 | h1 | h1
              · exact Or.inl h1
              · rw [hph] at h1; cases h1
              · exact Or.inr (Or.inr h1)
      · simp at hs
    · simp at hs
  | exit =>
    simp only [step] at hs
    split at hs
    · rename_i hph hq hr
      simp only [Option.some.injEq] at hs; subst hs
      obtain ⟨_, _, hstart⟩ := h.phase.rest _ hph
      refine ⟨core_phase d _ _ _ h.core, ⟨by simp, ?_⟩, ⟨h.err.outExec, ?_, by simp⟩⟩
      · intro _
        refine ⟨hq, hr, ?_⟩
        intro x hx hxs
        have := hstart x hx hxs
        cases this
      · intro x hx
        rcases h.err.failedSeen x hx with h1 | h1 | h1
        · exact Or.inl h1
        · rw [hph] at h1; cases h1
        · exact Or.inr (Or.inr h1)
    · simp at hs

theorem runActs_inv (cfg : Cfg) (d : Dag) (wf : WF d) (acts : List Act) (s s' : S) (h : Inv cfg d s)
    (hr : runActs cfg d s acts = some s') : Inv cfg d s' := by
  induction acts generalizing s with
  | nil => simp [runActs] at hr; subst hr; exact h
  | cons a as ih =>
    simp only [runActs] at hr
    split at hr
    · rename_i s1 hs1
      exact ih s1 (step_inv cfg d wf s s1 a h hs1) hr
    · simp at hr

end PwVerif.Exec

namespace PwVerif.Exec
open PwVerif

/-- a child of the composite: a starting node or a node with data upstream -/
def Dag.member (d : Dag) (i : Nat) : Prop := i ∈ d.starters ∨ d.deps i ≠ []

/-- when the loop has exited and nothing failed, every child is done -/
theorem exit_all_done (cfg : Cfg) (d : Dag) (wf : WF d) (s : S) (h : Inv cfg d s)
    (rank : Nat → Nat) (hrank : ∀ i j, j ∈ d.deps i → rank j < rank i)
    (hex : s.phase = .exited) (hnf : ∀ i, s.st i ≠ .failed) :
    ∀ i, d.member i → s.st i = .done := by
  obtain ⟨hq, hrun, hroots⟩ := h.phase.exited hex
  have key : ∀ n i, rank i < n → d.member i → s.st i = .done := by
    intro n
    induction n with
    | zero => intro i hi; omega
    | succ n ih =>
      intro i hi hm
      have hdeps : ∀ j ∈ d.deps i, s.st j = .done := by
        intro j hj
        apply ih j (by have := hrank i j hj; omega)
        by_cases hd : d.deps j = []
        · exact Or.inl (wf.rootsStart i j hj hd)
        · exact Or.inr hd
      cases hst : s.st i with
      | done => rfl
      | failed => exact absurd hst (hnf i)
      | out =>
        have := (h.core.running i).mpr hst
        rw [hrun] at this; cases this
      | idle =>
        exfalso
        by_cases hnil : d.deps i = []
        · rcases hm with hm | hm
          · exact hroots i hm hst
          · exact hm hnil
        · obtain ⟨j, hj, hjr⟩ := h.core.notYet i (by simp) hst hnil
          have ht := h.core.tokens i j
          simp only [tok, hq, List.count_nil, Nat.zero_add, hj, hdeps j hj, hst] at ht
          have : 0 < (s.received i).count j := by simp at ht; omega
          exact hjr (List.count_pos_iff.mp this)
  intro i
  exact key (rank i + 1) i (by omega)

theorem no_faults_no_failed (cfg : Cfg) (d : Dag) (s : S) (h : Inv cfg d s)
    (hnf : ∀ i, d.fails i = false) : ∀ i, s.st i ≠ .failed := by
  intro i hi
  have := h.core.failedFails i hi
  simp [hnf i] at this

/-- some action is always enabled until the run has ended -/
theorem progress (cfg : Cfg) (d : Dag) (s : S) (h : Inv cfg d s) (r : List Nat)
    (hph : s.phase = .run r) : ∃ a s', step cfg d s a = some s' := by
  cases r with
  | cons i rest =>
    refine ⟨.start, ?_⟩
    simp only [step, hph]
    split
    · exact ⟨_, rfl⟩
    · split <;> exact ⟨_, rfl⟩
  | nil =>
    cases hq : s.queue with
    | cons p q =>
      obtain ⟨j, i⟩ := p
      refine ⟨.deliver, ?_⟩
      simp only [step, hph, hq]
      split
      · split <;> exact ⟨_, rfl⟩
      · exact ⟨_, rfl⟩
    | nil =>
      cases hr : s.running with
      | cons k ks =>
        refine ⟨.complete k, ?_⟩
        have hk : s.st k = .out := (h.core.running k).mp (by simp [hr])
        simp only [step, hph, hk, if_true]
        split <;> exact ⟨_, rfl⟩
      | nil =>
        exact ⟨.exit, { s with phase := .exited }, by simp [step, hph, hq, hr]⟩

/-- the value equations at a done node: the function applied to the value of the FIRST connection
of every slot (own default for an unconnected slot) -/
def headArgs (d : Dag) (out : Nat → Val) (i : Nat) : List Val :=
  (d.slots i).map (fun cs => match cs with | [] => .d | c :: _ => out c)

theorem fetchArgs_eq_head (d : Dag) (o : Nat → Val) (i : Nat)
    (h : ∀ c ∈ d.deps i, (o c).isNd = false) : fetchArgs d o i = headArgs d o i := by
  unfold fetchArgs headArgs
  apply List.map_congr_left
  intro cs hcs
  cases cs with
  | nil => rfl
  | cons c cs' => exact fetchSlot_head o c cs' (h c (mem_deps_of_slot d i _ c hcs (by simp)))

theorem done_value (cfg : Cfg) (d : Dag) (s : S) (h : Inv cfg d s) (i : Nat) (hi : s.st i = .done) :
    s.out i = .app i (headArgs d s.out i) := by
  rw [h.core.valDone i hi]
  congr 1
  apply fetchArgs_eq_head
  intro c hc
  exact done_not_nd d s _ h.core c (h.core.order i c (by simp [hi]) hc)

end PwVerif.Exec

namespace PwVerif.Exec
open PwVerif

theorem runNode_phase (d : Dag) (s : S) (i : Nat) : (runNode d s i).1.phase = s.phase := by
  unfold runNode
  dsimp only
  split
  · rfl
  · split
    · rfl
    · split <;> rfl

/-- an abort is always caused by a starting node that failed -/
def AbInv (s : S) : Prop := s.phase = .aborted → ∃ i, s.st i = .failed

theorem step_abInv (cfg : Cfg) (d : Dag) (wf : WF d) (s s' : S) (a : Act) (h : Inv cfg d s)
    (hs : step cfg d s a = some s') : AbInv s' := by
  intro hp
  cases a with
  | start =>
    simp only [step] at hs
    split at hs
    · rename_i i rest hph
      obtain ⟨_, hrest, _⟩ := h.phase.rest _ hph
      have hi := hrest i (by simp)
      have hhot := core_hot_root d s i h.core hi.1 (wf.startRoots i hi.2)
      obtain ⟨_, hraised, _, _, _⟩ := runNode_core d wf s i hhot
      split at hs
      · simp only [Option.some.injEq] at hs; subst hs; simp at hp
      · rename_i s1 heq
        have e1 : s1 = (runNode d s i).1 := by rw [heq]
        have e2 : (runNode d s i).2 = .raised := by rw [heq]
        split at hs
        · simp only [Option.some.injEq] at hs; subst hs
          exact ⟨i, by simpa [e1] using hraised e2⟩
        · simp only [Option.some.injEq] at hs; subst hs; simp at hp
    · simp at hs
  | deliver =>
    exfalso
    simp only [step] at hs
    split at hs
    · rename_i j i q hph hq
      split at hs
      · have hphase := runNode_phase d { s with queue := q, received := updF s.received i [] } i
        split at hs
        · rename_i s1 heq
          have e1 : s1 = (runNode d { s with queue := q, received := updF s.received i [] } i).1 := by rw [heq]
          simp only [Option.some.injEq] at hs; subst hs
          rw [e1, hphase] at hp; simp [hph] at hp
        · rename_i s1 heq
          have e1 : s1 = (runNode d { s with queue := q, received := updF s.received i [] } i).1 := by rw [heq]
          simp only [Option.some.injEq] at hs; subst hs
          simp only at hp
          rw [e1, hphase] at hp; simp [hph] at hp
      · simp only [Option.some.injEq] at hs; subst hs; simp [hph] at hp
    · simp at hs
  | complete k =>
    exfalso
    simp only [step] at hs
    split at hs
    · rename_i r hph
      split at hs
      · split at hs <;> (simp only [Option.some.injEq] at hs; subst hs; simp [hph] at hp)
      · simp at hs
    · simp at hs
  | exit =>
    exfalso
    simp only [step] at hs
    split at hs
    · simp only [Option.some.injEq] at hs; subst hs; simp at hp
    · simp at hs

theorem runActs_abInv (cfg : Cfg) (d : Dag) (wf : WF d) (acts : List Act) (s s' : S) (h : Inv cfg d s)
    (hab : AbInv s) (hr : runActs cfg d s acts = some s') : AbInv s' := by
  induction acts generalizing s with
  | nil => simp [runActs] at hr; subst hr; exact hab
  | cons a as ih =>
    simp only [runActs] at hr
    split at hr
    · rename_i s1 hs1
      exact ih s1 (step_inv cfg d wf s s1 a h hs1) (step_abInv cfg d wf s s1 a h hs1) hr
    · simp at hr

end PwVerif.Exec

namespace PwVerif.Exec
open PwVerif

/-- only children of the composite ever leave `idle` -/
def MemInv (d : Dag) (s : S) : Prop := ∀ i, s.st i ≠ .idle → d.member i

theorem step_memInv (cfg : Cfg) (d : Dag) (wf : WF d) (s s' : S) (a : Act) (h : Inv cfg d s)
    (hm : MemInv d s) (hs : step cfg d s a = some s') : MemInv d s' := by
  intro x hx
  cases a with
  | start =>
    simp only [step] at hs
    split at hs
    · rename_i i rest hph
      obtain ⟨_, hrest, _⟩ := h.phase.rest _ hph
      have hi := hrest i (by simp)
      have hhot := core_hot_root d s i h.core hi.1 (wf.startRoots i hi.2)
      obtain ⟨_, _, _, hoth, _⟩ := runNode_core d wf s i hhot
      have key : (runNode d s i).1.st x ≠ .idle → d.member x := by
        intro hx'
        by_cases hxi : x = i
        · subst hxi; exact Or.inl hi.2
        · rw [hoth x hxi] at hx'; exact hm x hx'
      split at hs
      · rename_i s1 heq
        have e1 : s1 = (runNode d s i).1 := by rw [heq]
        simp only [Option.some.injEq] at hs; subst hs
        exact key (by simpa [e1] using hx)
      · rename_i s1 heq
        have e1 : s1 = (runNode d s i).1 := by rw [heq]
        split at hs <;> (simp only [Option.some.injEq] at hs; subst hs; exact key (by simpa [e1] using hx))
    · simp at hs
  | deliver =>
    simp only [step] at hs
    split at hs
    · rename_i j i q hph hq
      obtain ⟨hji, _, _, _, _⟩ := head_facts d s h.core j i q hq
      split at hs
      · rename_i hall
        have hhot := pop_fire_core d wf s j i q h.core hq hall
        obtain ⟨_, _, _, hoth, _⟩ := runNode_core d wf _ i hhot
        have key : (runNode d { s with queue := q, received := updF s.received i [] } i).1.st x ≠ .idle →
            d.member x := by
          intro hx'
          by_cases hxi : x = i
          · subst hxi; right; intro he; rw [he] at hji; cases hji
          · rw [hoth x hxi] at hx'; exact hm x hx'
        split at hs
        · rename_i s1 heq
          have e1 : s1 = (runNode d { s with queue := q, received := updF s.received i [] } i).1 := by rw [heq]
          simp only [Option.some.injEq] at hs; subst hs
          exact key (by simpa [e1] using hx)
        · rename_i s1 heq
          have e1 : s1 = (runNode d { s with queue := q, received := updF s.received i [] } i).1 := by rw [heq]
          simp only [Option.some.injEq] at hs; subst hs
          exact key (by simpa [e1] using hx)
      · simp only [Option.some.injEq] at hs; subst hs
        exact hm x hx
    · simp at hs
  | complete k =>
    simp only [step] at hs
    split at hs
    · split at hs
      · rename_i hk
        have hkm : d.member k := hm k (by simp [hk])
        split at hs <;>
          (simp only [Option.some.injEq] at hs; subst hs
           by_cases hxk : x = k
           · subst hxk; exact hkm
           · exact hm x (by simpa [updF, hxk] using hx))
      · simp at hs
    · simp at hs
  | exit =>
    simp only [step] at hs
    split at hs
    · simp only [Option.some.injEq] at hs; subst hs; exact hm x hx
    · simp at hs

/-! ### termination: a potential that every action strictly decreases -/

def weight (d : Dag) (s : S) (i : Nat) : Nat :=
  match s.st i with
  | .idle => 2 + (d.down i).length
  | .out => 1 + (d.down i).length
  | _ => 0

def potential (d : Dag) (nodes : List Nat) (s : S) : Nat :=
  s.queue.length + (nodes.map (weight d s)).sum + (match s.phase with | .run _ => 1 | _ => 0)

theorem sum_map_congr_except (nodes : List Nat) (f g : Nat → Nat) (k : Nat) (hk : k ∉ nodes)
    (h : ∀ x, x ≠ k → f x = g x) : (nodes.map f).sum = (nodes.map g).sum := by
  induction nodes with
  | nil => rfl
  | cons a as ih =>
    have hak : a ≠ k := fun e => hk (by simp [e])
    simp only [List.map_cons, List.sum_cons, h a hak]
    rw [ih (fun hm => hk (by simp [hm]))]

/-- changing the weight of exactly one listed node changes the sum by the difference -/
theorem sum_map_update (nodes : List Nat) (hn : nodes.Nodup) (f g : Nat → Nat) (k : Nat) (hk : k ∈ nodes)
    (h : ∀ x, x ≠ k → f x = g x) : (nodes.map f).sum + g k = (nodes.map g).sum + f k := by
  induction nodes with
  | nil => cases hk
  | cons a as ih =>
    obtain ⟨ha, has⟩ := List.nodup_cons.mp hn
    simp only [List.map_cons, List.sum_cons]
    by_cases hak : a = k
    · subst hak
      rw [sum_map_congr_except as f g a ha h]
      omega
    · have hk' : k ∈ as := by
        rcases List.mem_cons.mp hk with e | e
        · exact absurd e.symm hak
        · exact e
      have := ih has hk'
      rw [h a hak]
      omega

end PwVerif.Exec

namespace PwVerif.Exec
open PwVerif

def P0 (d : Dag) (nodes : List Nat) (s : S) : Nat := s.queue.length + (nodes.map (weight d s)).sum

theorem weight_change (d : Dag) (nodes : List Nat) (hn : nodes.Nodup) (s s' : S) (k : Nat) (hk : k ∈ nodes)
    (hoth : ∀ x, x ≠ k → s'.st x = s.st x) :
    (nodes.map (weight d s')).sum + weight d s k = (nodes.map (weight d s)).sum + weight d s' k := by
  apply sum_map_update nodes hn _ _ k hk
  intro x hx
  simp [weight, hoth x hx]

theorem emit_length (d : Dag) (k : Nat) : (emit d k).length = (d.down k).length := by simp [emit]

/-- running a hot node (member of `nodes`) lowers the potential -/
theorem runNode_P0 (d : Dag) (nodes : List Nat) (hn : nodes.Nodup) (s : S) (i : Nat)
    (h : Core d s (some i)) (hi : i ∈ nodes) : P0 d nodes (runNode d s i).1 + 1 ≤ P0 d nodes s := by
  obtain ⟨hidle, _⟩ := h.hotIdle i rfl
  have hw : weight d s i = 2 + (d.down i).length := by simp [weight, hidle]
  rw [runNode_hot d s i h]
  split
  · have := weight_change d nodes hn s (submit d s i) i hi (by intro x hx; simp [submit, updF, hx])
    have hw' : weight d (submit d s i) i = 1 + (d.down i).length := by simp [weight, submit]
    simp only [P0]
    have hq : (submit d s i).queue = s.queue := rfl
    rw [hq]; omega
  · split
    · have := weight_change d nodes hn s (finishFail (submit d s i) i s.errs) i hi
        (by intro x hx; simp [finishFail, submit, updF, hx])
      have hw' : weight d (finishFail (submit d s i) i s.errs) i = 0 := by simp [weight, finishFail]
      simp only [P0]
      have hq : (finishFail (submit d s i) i s.errs).queue = s.queue := rfl
      rw [hq]; omega
    · have := weight_change d nodes hn s (finishOk d (submit d s i) i) i hi
        (by intro x hx; simp [finishOk, submit, updF, hx])
      have hw' : weight d (finishOk d (submit d s i) i) i = 0 := by simp [weight, finishOk]
      simp only [P0]
      have hq : (finishOk d (submit d s i) i).queue = s.queue ++ emit d i := rfl
      rw [hq, List.length_append, emit_length]; omega

def phaseBit : Phase → Nat
  | .run _ => 1
  | _ => 0

theorem potential_eq (d : Dag) (nodes : List Nat) (t : S) :
    potential d nodes t = P0 d nodes t + phaseBit t.phase := by
  simp only [potential, P0, phaseBit]

theorem P0_congr (d : Dag) (nodes : List Nat) (t t' : S) (hst : t'.st = t.st) (hq : t'.queue = t.queue) :
    P0 d nodes t' = P0 d nodes t := by
  have : weight d t' = weight d t := by funext x; simp [weight, hst]
  simp [P0, this, hq]

theorem step_decreases (cfg : Cfg) (d : Dag) (wf : WF d) (nodes : List Nat) (hn : nodes.Nodup)
    (hcover : ∀ i, d.member i → i ∈ nodes) (s s' : S) (a : Act) (h : Inv cfg d s) (hm : MemInv d s)
    (hs : step cfg d s a = some s') : potential d nodes s' < potential d nodes s := by
  rw [potential_eq, potential_eq]
  cases a with
  | start =>
    simp only [step] at hs
    split at hs
    · rename_i i rest hph
      obtain ⟨_, hrest, _⟩ := h.phase.rest _ hph
      have hi := hrest i (by simp)
      have hhot := core_hot_root d s i h.core hi.1 (wf.startRoots i hi.2)
      have hdec := runNode_P0 d nodes hn s i hhot (hcover i (Or.inl hi.2))
      split at hs
      · rename_i s1 heq
        have e1 : s1 = (runNode d s i).1 := by rw [heq]
        simp only [Option.some.injEq] at hs; subst hs
        have e : P0 d nodes { s1 with phase := Phase.run rest } = P0 d nodes s1 := P0_congr d nodes _ _ rfl rfl
        rw [e, hph, e1]; simp only [phaseBit]; omega
      · rename_i s1 heq
        have e1 : s1 = (runNode d s i).1 := by rw [heq]
        split at hs
        · simp only [Option.some.injEq] at hs; subst hs
          have e : P0 d nodes { s1 with phase := Phase.aborted } = P0 d nodes s1 := P0_congr d nodes _ _ rfl rfl
          rw [e, hph, e1]; simp only [phaseBit]; omega
        · simp only [Option.some.injEq] at hs; subst hs
          have e : P0 d nodes { s1 with phase := Phase.run rest, errs := s1.errs ++ [i] } = P0 d nodes s1 :=
            P0_congr d nodes _ _ rfl rfl
          rw [e, hph, e1]; simp only [phaseBit]; omega
    · simp at hs
  | deliver =>
    simp only [step] at hs
    split at hs
    · rename_i j i q hph hq
      obtain ⟨hji, _, _, _, _⟩ := head_facts d s h.core j i q hq
      have himem : i ∈ nodes := hcover i (Or.inr (by intro he; rw [he] at hji; cases hji))
      have hqlen : s.queue.length = q.length + 1 := by rw [hq]; simp
      split at hs
      · rename_i hall
        have hhot := pop_fire_core d wf s j i q h.core hq hall
        have hdec := runNode_P0 d nodes hn _ i hhot himem
        have hphase := runNode_phase d { s with queue := q, received := updF s.received i [] } i
        have hpop : P0 d nodes { s with queue := q, received := updF s.received i [] } + 1 = P0 d nodes s := by
          have : weight d { s with queue := q, received := updF s.received i [] } = weight d s := by
            funext x; simp [weight]
          simp only [P0, this, hqlen]; omega
        split at hs
        · rename_i s1 heq
          have e1 : s1 = (runNode d { s with queue := q, received := updF s.received i [] } i).1 := by rw [heq]
          simp only [Option.some.injEq] at hs; subst hs
          have hp1 : s1.phase = .run [] := by rw [e1, hphase]; exact hph
          rw [hp1, hph]; simp only [phaseBit]
          rw [e1]; omega
        · rename_i s1 heq
          have e1 : s1 = (runNode d { s with queue := q, received := updF s.received i [] } i).1 := by rw [heq]
          simp only [Option.some.injEq] at hs; subst hs
          have e : P0 d nodes { s1 with errs := s1.errs ++ [i] } = P0 d nodes s1 := P0_congr d nodes _ _ rfl rfl
          have hp1 : s1.phase = .run [] := by rw [e1, hphase]; exact hph
          rw [e]
          show P0 d nodes s1 + phaseBit s1.phase < _
          rw [hp1, hph]; simp only [phaseBit]
          rw [e1]; omega
      · simp only [Option.some.injEq] at hs; subst hs
        have e : P0 d nodes { s with queue := q, received := updF s.received i (j :: s.received i) } + 1 =
            P0 d nodes s := by
          have : weight d { s with queue := q, received := updF s.received i (j :: s.received i) } = weight d s := by
            funext x; simp [weight]
          simp only [P0, this, hqlen]; omega
        show P0 d nodes { s with queue := q, received := updF s.received i (j :: s.received i) } +
          phaseBit s.phase < _
        omega
    · simp at hs
  | complete k =>
    simp only [step] at hs
    split at hs
    · rename_i r hph
      split at hs
      · rename_i hk
        have hkm : k ∈ nodes := hcover k (hm k (by simp [hk]))
        have hw : weight d s k = 1 + (d.down k).length := by simp [weight, hk]
        split at hs
        · simp only [Option.some.injEq] at hs; subst hs
          have hwc := weight_change d nodes hn s (finishFail s k (if cfg.reportExecFailure then s.errs ++ [k] else s.errs))
            k hkm (by intro x hx; simp [finishFail, updF, hx])
          have hw' : weight d (finishFail s k (if cfg.reportExecFailure then s.errs ++ [k] else s.errs)) k = 0 := by
            simp [weight, finishFail]
          show P0 d nodes (finishFail s k (if cfg.reportExecFailure then s.errs ++ [k] else s.errs)) +
            phaseBit s.phase < _
          have hq : (finishFail s k (if cfg.reportExecFailure then s.errs ++ [k] else s.errs)).queue = s.queue := rfl
          simp only [P0, hq]
          omega
        · simp only [Option.some.injEq] at hs; subst hs
          have hwc := weight_change d nodes hn s (finishOk d s k) k hkm (by intro x hx; simp [finishOk, updF, hx])
          have hw' : weight d (finishOk d s k) k = 0 := by simp [weight, finishOk]
          show P0 d nodes (finishOk d s k) + phaseBit s.phase < _
          have hq : (finishOk d s k).queue = s.queue ++ emit d k := rfl
          simp only [P0, hq, List.length_append, emit_length]
          omega
      · simp at hs
    · simp at hs
  | exit =>
    simp only [step] at hs
    split at hs
    · rename_i hph _ _
      simp only [Option.some.injEq] at hs; subst hs
      have e : P0 d nodes { s with phase := Phase.exited } = P0 d nodes s := P0_congr d nodes _ _ rfl rfl
      rw [e, hph]; simp [phaseBit]
    · simp at hs

/-- every schedule is finite: the number of actions performed is bounded by the initial potential -/
theorem runActs_bounded (cfg : Cfg) (d : Dag) (wf : WF d) (nodes : List Nat) (hn : nodes.Nodup)
    (hcover : ∀ i, d.member i → i ∈ nodes) (acts : List Act) (s s' : S) (h : Inv cfg d s) (hm : MemInv d s)
    (hr : runActs cfg d s acts = some s') : acts.length + potential d nodes s' ≤ potential d nodes s := by
  induction acts generalizing s with
  | nil => simp [runActs] at hr; subst hr; simp
  | cons a as ih =>
    simp only [runActs] at hr
    split at hr
    · rename_i s1 hs1
      have h1 := step_inv cfg d wf s s1 a h hs1
      have hm1 := step_memInv cfg d wf s s1 a h hm hs1
      have hd := step_decreases cfg d wf nodes hn hcover s s1 a h hm hs1
      have := ih s1 h1 hm1 hr
      simp only [List.length_cons]
      omega
    · simp at hr

end PwVerif.Exec
