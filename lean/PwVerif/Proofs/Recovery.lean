import PwVerif.Model.Recovery
import PwVerif.Proofs.Exec
/-!
Invariant of the RESUMED run (the scheduler of `Exec` started from a restored graph: loaded outputs,
loaded caches, stale `received` sets) and its preservation by every action, for every DAG, every
executor assignment, every cut of the first run and every schedule of the resumed run.

Compared with `Exec.Core` the token accounting has to live with tokens that were delivered in the
FIRST run (`R i` = the loaded `received` set of `i`): such a trigger can fire before the (cached)
upstream node has been re-run, and the re-run of that node later sends a token nobody waits for.
-/
namespace PwVerif.Recovery
open PwVerif PwVerif.Exec

/-! ### an extra invariant of the first run: a done node's output is its function applied to the
inputs it was admitted with (= what `_cached_inputs` holds) -/

def ArgsInv (s : S) : Prop := ∀ i, s.st i = .done → s.out i = .app i (s.args i)

theorem runNode_argsInv (d : Dag) (s : S) (i : Nat) (h : ArgsInv s) : ArgsInv (runNode d s i).1 := by
  unfold runNode
  dsimp only
  split
  · exact h
  · rename_i hcond
    have hidle : s.st i = .idle := by
      apply Classical.byContradiction
      intro hn; exact hcond (Or.inl hn)
    split
    · intro x hx
      by_cases hxi : x = i
      · subst hxi; simp [updF] at hx
      · simp only [updF, hxi, if_false] at hx ⊢; exact h x hx
    · split
      · intro x hx
        by_cases hxi : x = i
        · subst hxi; simp [updF] at hx
        · simp only [updF, hxi, if_false] at hx ⊢; exact h x hx
      · intro x hx
        by_cases hxi : x = i
        · subst hxi; simp [updF]
        · simp only [updF, hxi, if_false] at hx ⊢; exact h x hx

theorem step_argsInv (cfg : Cfg) (d : Dag) (s s' : S) (a : Act) (h : ArgsInv s)
    (hs : step cfg d s a = some s') : ArgsInv s' := by
  cases a with
  | start =>
    simp only [step] at hs
    split at hs
    · rename_i i rest hph
      have := runNode_argsInv d s i h
      split at hs
      · rename_i s1 heq
        simp only [Option.some.injEq] at hs; subst hs
        have e1 : s1 = (runNode d s i).1 := by rw [heq]
        subst e1; exact this
      · rename_i s1 heq
        have e1 : s1 = (runNode d s i).1 := by rw [heq]
        subst e1
        split at hs <;> (simp only [Option.some.injEq] at hs; subst hs; exact this)
    · simp at hs
  | deliver =>
    simp only [step] at hs
    split at hs
    · rename_i j i q hph hq
      split at hs
      · have := runNode_argsInv d { s with queue := q, received := updF s.received i [] } i h
        split at hs
        · rename_i s1 heq
          simp only [Option.some.injEq] at hs; subst hs
          have e1 : s1 = (runNode d { s with queue := q, received := updF s.received i [] } i).1 := by rw [heq]
          subst e1; exact this
        · rename_i s1 heq
          simp only [Option.some.injEq] at hs; subst hs
          have e1 : s1 = (runNode d { s with queue := q, received := updF s.received i [] } i).1 := by rw [heq]
          subst e1; exact this
      · simp only [Option.some.injEq] at hs; subst hs; exact h
    · simp at hs
  | complete k =>
    simp only [step] at hs
    split at hs
    · split at hs
      · rename_i hk
        split at hs
        · simp only [Option.some.injEq] at hs; subst hs
          intro x hx
          by_cases hxk : x = k
          · subst hxk; simp [updF] at hx
          · simp only [updF, hxk, if_false] at hx ⊢; exact h x hx
        · simp only [Option.some.injEq] at hs; subst hs
          intro x hx
          by_cases hxk : x = k
          · subst hxk; simp [updF]
          · simp only [updF, hxk, if_false] at hx ⊢; exact h x hx
      · simp at hs
    · simp at hs
  | exit =>
    simp only [step] at hs
    split at hs
    · simp only [Option.some.injEq] at hs; subst hs; exact h
    · simp at hs

theorem runActs_argsInv (cfg : Cfg) (d : Dag) (acts : List Act) (s s' : S) (h : ArgsInv s)
    (hr : runActs cfg d s acts = some s') : ArgsInv s' := by
  induction acts generalizing s with
  | nil => simp [runActs] at hr; subst hr; exact h
  | cons a as ih =>
    simp only [runActs] at hr
    split at hr
    · rename_i s1 hs1
      exact ih s1 (step_argsInv cfg d s s1 a h hs1) hr
    · simp at hr

theorem init_argsInv (d : Dag) : ArgsInv (init d) := by
  intro i hi; simp [init] at hi

/-! ### the invariant of the resumed run -/

/-- static facts about the file: `R i` = the loaded `received` set of `i`'s trigger, `G i` = node `i`
had completed before the cut and nothing upstream of it (itself included) got new input values.  All of them follow from the invariant of the first run. -/
structure SnapOK (fx : Fix) (d : Dag) (R : Nat → List Nat) (G : Nat → Bool) : Prop where
  Rdeps   : ∀ i j, j ∈ R i → j ∈ d.deps i
  Rmiss   : ∀ i, d.deps i ≠ [] → ∃ j ∈ d.deps i, j ∉ R i
  RG      : ∀ i j, j ∈ R i → G j = true
  Gclosed : ∀ i j, G i = true → j ∈ d.deps i → G j = true
  Gclean  : ∀ i, G i = true → fx.dirty i = false

theorem SnapOK.sym_eq {fx d R G} (ok : SnapOK fx d R G) (i : Nat) (h : G i = true) : fx.sym i = i := by
  simp [Fix.sym, ok.Gclean i h]

/-- the effect of a successful completion of node `k` in the resumed run -/
def rfinish (fx : Fix) (d : Dag) (s : S) (k : Nat) : S :=
  { s with running := s.running.erase k, doneLog := s.doneLog ++ [k],
           st := updF s.st k .done, out := updF s.out k (.app (fx.sym k) (s.args k)),
           queue := s.queue ++ emit d k }

structure RCore (fx : Fix) (d : Dag) (R : Nat → List Nat) (G : Nat → Bool) (s : S) (hot : Option Nat) : Prop where
  calls1  : ∀ i, s.calls i = if s.st i = .idle then 0 else 1
  avail   : ∀ i j, s.st i ≠ .idle → j ∈ d.deps i → (s.st j = .done ∨ G j = true)
  tokNo   : ∀ i j, j ∉ d.deps i → tok s j i = 0
  tokIdle : ∀ i j, hot ≠ some i → s.st i = .idle → j ∈ d.deps i →
              tok s j i = (if s.st j = .done then 1 else 0) + (R i).count j
  tokBusy : ∀ i j, (hot = some i ∨ s.st i ≠ .idle) → j ∈ d.deps i → j ∉ R i →
              tok s j i = 0 ∧ s.st j = .done
  notYet  : ∀ i, hot ≠ some i → s.st i = .idle → d.deps i ≠ [] → ∃ j ∈ d.deps i, j ∉ s.received i
  hotIdle : ∀ i, hot = some i → s.st i = .idle
  running : ∀ i, i ∈ s.running ↔ s.st i = .out
  runNodup : s.running.Nodup
  val     : ∀ i, (s.st i = .done ∨ G i = true) → s.out i = .app (fx.sym i) (fetchArgs d s.out i)
  valOut  : ∀ i, s.st i = .out → s.args i = fetchArgs d s.out i
  noFail  : ∀ i, s.st i ≠ .failed
  noErr   : s.errs = []

/-- every upstream of a node that is hot or has left `idle` holds its final data -/
theorem busy_avail {fx d R G s hot} (ok : SnapOK fx d R G) (h : RCore fx d R G s hot) (i : Nat)
    (hb : hot = some i ∨ s.st i ≠ .idle) (j : Nat) (hj : j ∈ d.deps i) :
    s.st j = .done ∨ G j = true := by
  by_cases hr : j ∈ R i
  · exact Or.inr (ok.RG i j hr)
  · exact Or.inl (h.tokBusy i j hb hj hr).2

theorem good_not_nd {fx d R G s hot} (h : RCore fx d R G s hot) (j : Nat)
    (hj : s.st j = .done ∨ G j = true) : (s.out j).isNd = false := by
  rw [h.val j hj]; rfl

/-- a node's output is only ever overwritten with the value it must have -/
theorem out_stable {fx d R G s hot} (_ok : SnapOK fx d R G) (h : RCore fx d R G s hot) (k : Nat)
    (hk : s.st k = .out) (hG : G k = true) : updF s.out k (.app (fx.sym k) (s.args k)) = s.out := by
  funext x
  by_cases hx : x = k
  · subst hx
    simp only [updF_same]
    rw [h.valOut x hk]; exact (h.val x (Or.inr hG)).symm
  · simp [updF, hx]

/-- the effect of finishing `k` on what OTHER nodes fetch: none, for every node that has left idle or
had completed before the cut -/
theorem finish_congr {fx d R G s hot} (ok : SnapOK fx d R G) (_wf : WF d) (h : RCore fx d R G s hot) (k : Nat)
    (hk : s.st k = .out) (x : Nat) (hx : s.st x ≠ .idle ∨ G x = true) :
    fetchArgs d (updF s.out k (.app (fx.sym k) (s.args k))) x = fetchArgs d s.out x := by
  by_cases hG : G k = true
  · rw [out_stable ok h k hk hG]
  · apply fetchArgs_congr
    intro c hc
    have : c ≠ k := by
      intro e; subst e
      rcases hx with hx | hx
      · rcases h.avail x c hx hc with h1 | h1
        · simp [hk] at h1
        · exact hG h1
      · exact hG (ok.Gclosed x c hx hc)
    simp [updF, this]

theorem rfinish_rcore {fx d R G} (ok : SnapOK fx d R G) (wf : WF d) (s : S) (k : Nat)
    (h : RCore fx d R G s none) (hk : s.st k = .out) : RCore fx d R G (rfinish fx d s k) none := by
  have hargs := h.valOut k hk
  have hcongr := finish_congr ok wf h k hk
  unfold rfinish
  refine ⟨?_, ?_, ?_, ?_, ?_, ?_, ?_, ?_, ?_, ?_, ?_, ?_, ?_⟩
  · intro i
    have := h.calls1 i
    by_cases hik : i = k <;> simp_all [updF]
  · intro i j hi hj
    have := h.avail i j
    by_cases hik : i = k <;> by_cases hjk : j = k <;> simp_all [updF]
  · intro i j hj
    have ht := h.tokNo i j hj
    simp only [tok, List.count_append, count_emit d wf] at ht ⊢
    have : ¬ (j = k ∧ k ∈ d.deps i) := by
      intro ⟨e, hkd⟩; subst e; exact hj hkd
    simp [this]; omega
  · intro i j _ hi hj
    have hik : i ≠ k := by intro e; subst e; simp [updF] at hi
    have hi' : s.st i = .idle := by simpa [updF, hik] using hi
    have ht := h.tokIdle i j (by simp) hi' hj
    simp only [tok, List.count_append, count_emit d wf] at ht ⊢
    by_cases hjk : j = k
    · subst hjk
      simp [updF, hk, hj] at ht ⊢; omega
    · simp [updF, hjk] at ht ⊢; omega
  · intro i j hb hj hr
    have hb' : s.st i ≠ .idle := by
      rcases hb with hb | hb
      · cases hb
      · by_cases hik : i = k
        · subst hik; simp [hk]
        · simpa [updF, hik] using hb
    obtain ⟨ht, hd⟩ := h.tokBusy i j (Or.inr hb') hj hr
    have hjk : j ≠ k := by intro e; subst e; simp [hk] at hd
    simp only [tok, List.count_append, count_emit d wf] at ht ⊢
    simp [updF, hjk, hd]; omega
  · intro i _ hi hne
    have hik : i ≠ k := by intro e; subst e; simp [updF] at hi
    exact h.notYet i (by simp) (by simpa [updF, hik] using hi) hne
  · intro i hi; cases hi
  · intro i
    have := h.running i
    have hn := h.runNodup
    by_cases hik : i = k
    · subst hik; simp [updF, List.Nodup.mem_erase_iff hn]
    · simp [updF, hik, List.Nodup.mem_erase_iff hn, this]
  · exact List.Nodup.erase _ h.runNodup
  · intro i hi
    by_cases hik : i = k
    · subst hik
      simp only [updF_same]
      rw [hcongr i (Or.inl (by simp [hk])), ← hargs]
    · have hi' : s.st i = .done ∨ G i = true := by simpa [updF, hik] using hi
      have hx : s.st i ≠ .idle ∨ G i = true := by
        rcases hi' with h1 | h1
        · left; simp [h1]
        · right; exact h1
      rw [hcongr i hx]
      simp only [updF, hik, if_false]
      exact h.val i hi'
  · intro i hi
    by_cases hik : i = k
    · subst hik; simp [updF] at hi
    · have hi' : s.st i = .out := by simpa [updF, hik] using hi
      rw [hcongr i (Or.inl (by simp [hi']))]
      exact h.valOut i hi'
  · intro i hi
    by_cases hik : i = k
    · subst hik; simp [updF] at hi
    · exact h.noFail i (by simpa [updF, hik] using hi)
  · exact h.noErr

theorem submit_rcore {fx d R G} (ok : SnapOK fx d R G) (s : S) (i : Nat) (h : RCore fx d R G s (some i)) :
    RCore fx d R G (submit d s i) none := by
  have hidle := h.hotIdle i rfl
  have hnr : i ∉ s.running := by
    intro hm; have := (h.running i).mp hm; simp [hidle] at this
  unfold submit
  refine ⟨?_, ?_, ?_, ?_, ?_, ?_, ?_, ?_, ?_, ?_, ?_, ?_, ?_⟩
  · intro x
    have := h.calls1 x
    by_cases hx : x = i <;> simp_all [updF]
  · intro x j hx hj
    by_cases hxi : x = i
    · subst hxi
      have := busy_avail ok h x (Or.inl rfl) j hj
      by_cases hjx : j = x
      · subst hjx; simp [hidle] at this; exact Or.inr this
      · simpa [updF, hjx] using this
    · have := h.avail x j (by simpa [updF, hxi] using hx) hj
      by_cases hji : j = i
      · subst hji; simp [hidle] at this; exact Or.inr this
      · simpa [updF, hji] using this
  · intro x j hj
    have := h.tokNo x j hj
    simpa [tok] using this
  · intro x j _ hx hj
    have hxi : x ≠ i := by intro e; subst e; simp [updF] at hx
    have ht := h.tokIdle x j (by simp; exact fun e => hxi e.symm) (by simpa [updF, hxi] using hx) hj
    simp only [tok] at ht ⊢
    by_cases hji : j = i
    · subst hji; simp [updF, hidle] at ht ⊢; exact ht
    · simpa [updF, hji] using ht
  · intro x j hb hj hr
    have hb' : some i = some x ∨ s.st x ≠ .idle := by
      by_cases hxi : x = i
      · left; rw [hxi]
      · right
        rcases hb with hb | hb
        · cases hb
        · simpa [updF, hxi] using hb
    obtain ⟨ht, hd⟩ := h.tokBusy x j hb' hj hr
    have hji : j ≠ i := by intro e; subst e; simp [hidle] at hd
    refine ⟨by simpa [tok] using ht, by simpa [updF, hji] using hd⟩
  · intro x _ hx hne
    have hxi : x ≠ i := by intro e; subst e; simp [updF] at hx
    exact h.notYet x (by simp; exact fun e => hxi e.symm) (by simpa [updF, hxi] using hx) hne
  · intro x hx; cases hx
  · intro x
    have := h.running x
    by_cases hxi : x = i
    · subst hxi; simp [updF]
    · simp [updF, hxi, this]
  · refine List.nodup_append.mpr ⟨h.runNodup, by simp, ?_⟩
    intro a ha b hb
    simp at hb; subst hb
    intro e; subst e; exact hnr ha
  · intro x hx
    have hx' : s.st x = .done ∨ G x = true := by
      by_cases hxi : x = i
      · subst hxi; right; simpa [updF] using hx
      · simpa [updF, hxi] using hx
    exact h.val x hx'
  · intro x hx
    by_cases hxi : x = i
    · subst hxi; simp [updF]
    · have := h.valOut x (by simpa [updF, hxi] using hx)
      simp [updF, hxi, this]
  · intro x hx
    by_cases hxi : x = i
    · subst hxi; simp [updF] at hx
    · exact h.noFail x (by simpa [updF, hxi] using hx)
  · exact h.noErr

/-- the head token of the queue always belongs to a data edge -/
theorem head_dep {fx d R G s} (h : RCore fx d R G s none) (j i : Nat) (q : List (Nat × Nat))
    (hq : s.queue = (j, i) :: q) : j ∈ d.deps i := by
  apply Classical.byContradiction
  intro hn
  have := h.tokNo i j hn
  simp [tok, hq] at this

/-- a trigger whose node has already left `idle` never fires again -/
theorem busy_no_fire {fx d R G s} (ok : SnapOK fx d R G) (h : RCore fx d R G s none) (j i : Nat)
    (q : List (Nat × Nat)) (hq : s.queue = (j, i) :: q) (hb : s.st i ≠ .idle) :
    ¬ (d.deps i).all (fun x => (j :: s.received i).contains x) = true := by
  intro hall
  have hji := head_dep h j i q hq
  have hne : d.deps i ≠ [] := by intro e; rw [e] at hji; cases hji
  obtain ⟨x, hx, hxr⟩ := ok.Rmiss i hne
  obtain ⟨ht, _⟩ := h.tokBusy i x (Or.inr hb) hx hxr
  have := (List.all_eq_true.mp hall) x hx
  simp only [List.contains_cons, Bool.or_eq_true, beq_iff_eq] at this
  simp only [tok, hq] at ht
  rcases this with e | hm
  · subst e; simp at ht
  · have hm' : x ∈ s.received i := by simpa using hm
    have := List.count_pos_iff.mpr hm'
    omega

theorem pop_fire_rcore {fx d R G} (ok : SnapOK fx d R G) (s : S) (j i : Nat) (q : List (Nat × Nat))
    (h : RCore fx d R G s none) (hq : s.queue = (j, i) :: q)
    (hall : (d.deps i).all (fun x => (j :: s.received i).contains x) = true) :
    RCore fx d R G { s with queue := q, received := updF s.received i [] } (some i) := by
  have hii : s.st i = .idle := by
    apply Classical.byContradiction
    intro hn; exact busy_no_fire ok h j i q hq hn hall
  have hji := head_dep h j i q hq
  have hall' : ∀ x ∈ d.deps i, x = j ∨ x ∈ s.received i := by
    intro x hx
    have := (List.all_eq_true.mp hall) x hx
    simpa using this
  -- counts in the tail of the queue
  have hqtail : ∀ a b, (b, a) ≠ (j, i) → q.count (b, a) = s.queue.count (b, a) := by
    intro a b hne
    rw [hq, List.count_cons_of_ne (Ne.symm hne)]
  have hqle : ∀ a b, q.count (b, a) ≤ s.queue.count (b, a) := by
    intro a b; rw [hq]; exact List.count_le_count_cons
  refine ⟨h.calls1, h.avail, ?_, ?_, ?_, ?_, ?_, h.running, h.runNodup, h.val, h.valOut, h.noFail, h.noErr⟩
  · intro a b hb
    have ht := h.tokNo a b hb
    simp only [tok] at ht ⊢
    have := hqle a b
    by_cases hai : a = i
    · subst hai; simp [updF]; omega
    · simp [updF, hai]; omega
  · intro a b ha hst hb
    have hai : a ≠ i := by intro e; subst e; simp at ha
    have ht := h.tokIdle a b (by simp) hst hb
    have hne : (b, a) ≠ (j, i) := by intro e; simp at e; exact hai e.2
    simp only [tok] at ht ⊢
    rw [hqtail a b hne]
    simpa [updF, hai] using ht
  · intro a b hb hd hr
    by_cases hai : a = i
    · subst hai
      have ht := h.tokIdle a b (by simp) hii hd
      simp only [List.count_eq_zero_of_not_mem hr, Nat.add_zero] at ht
      have hpos : 0 < tok s b a := by
        simp only [tok]
        rcases hall' b hd with e | hm
        · subst e; rw [hq]; simp; omega
        · have := List.count_pos_iff.mpr hm; omega
      have hdone : s.st b = .done := by
        apply Classical.byContradiction
        intro hn; simp [hn] at ht; omega
      refine ⟨?_, hdone⟩
      simp only [hdone, if_true] at ht
      simp only [tok, updF_same, List.count_nil, Nat.add_zero] at ht ⊢
      rcases hall' b hd with e | hm
      · subst e
        rw [hq, List.count_cons_self] at ht; omega
      · have := List.count_pos_iff.mpr hm
        have := hqle a b
        omega
    · have hb' : s.st a ≠ .idle := by
        rcases hb with hb | hb
        · exfalso; simp at hb; exact hai hb.symm
        · exact hb
      obtain ⟨ht, hdone⟩ := h.tokBusy a b (Or.inr hb') hd hr
      have hne : (b, a) ≠ (j, i) := by intro e; simp at e; exact hai e.2
      refine ⟨?_, hdone⟩
      simp only [tok] at ht ⊢
      rw [hqtail a b hne]
      simpa [updF, hai] using ht
  · intro a ha hst hne
    have hai : a ≠ i := by intro e; subst e; simp at ha
    have := h.notYet a (by simp) hst hne
    simpa [updF, hai] using this
  · intro a ha; cases ha; exact hii

theorem pop_wait_rcore {fx d R G} (s : S) (j i : Nat) (q : List (Nat × Nat))
    (h : RCore fx d R G s none) (hq : s.queue = (j, i) :: q)
    (hall : ¬ (d.deps i).all (fun x => (j :: s.received i).contains x) = true) :
    RCore fx d R G { s with queue := q, received := updF s.received i (j :: s.received i) } none := by
  have htok : ∀ a b, tok { s with queue := q, received := updF s.received i (j :: s.received i) } b a
      = tok s b a := by
    intro a b
    simp only [tok, hq]
    by_cases hai : a = i <;> by_cases hbj : b = j <;> simp_all [updF, List.count_cons] <;> omega
  have hmiss : ∃ x ∈ d.deps i, x ≠ j ∧ x ∉ s.received i := by
    have : ¬ ∀ x ∈ d.deps i, (j :: s.received i).contains x = true := by
      intro hh; exact hall (List.all_eq_true.mpr hh)
    apply Classical.byContradiction
    intro hno
    apply this
    intro x hx
    apply Classical.byContradiction
    intro hxn
    apply hno
    refine ⟨x, hx, ?_⟩
    simpa using hxn
  refine ⟨h.calls1, h.avail, ?_, ?_, ?_, ?_, h.hotIdle, h.running, h.runNodup, h.val, h.valOut, h.noFail, h.noErr⟩
  · intro a b hb; rw [htok]; exact h.tokNo a b hb
  · intro a b ha hst hb; rw [htok]; exact h.tokIdle a b ha hst hb
  · intro a b hb hd hr; rw [htok]; exact h.tokBusy a b hb hd hr
  · intro a _ ha hne'
    by_cases hai : a = i
    · subst hai
      obtain ⟨x, hx, hxj, hxr⟩ := hmiss
      exact ⟨x, hx, by simp [updF, hxj, hxr]⟩
    · have := h.notYet a (by simp) ha hne'
      simpa [updF, hai] using this

theorem rcore_hot_root {fx d R G} (s : S) (i : Nat) (h : RCore fx d R G s none) (hi : s.st i = .idle)
    (hd : d.deps i = []) : RCore fx d R G s (some i) := by
  refine ⟨h.calls1, h.avail, h.tokNo, ?_, ?_, ?_, ?_, h.running, h.runNodup, h.val, h.valOut, h.noFail, h.noErr⟩
  · intro a b _ hst hb; exact h.tokIdle a b (by simp) hst hb
  · intro a b hb hdep hr
    by_cases hai : a = i
    · subst hai; rw [hd] at hdep; cases hdep
    · have hb' : s.st a ≠ .idle := by
        rcases hb with hb | hb
        · exfalso; simp at hb; exact hai hb.symm
        · exact hb
      exact h.tokBusy a b (Or.inr hb') hdep hr
  · intro a _ hst hne; exact h.notYet a (by simp) hst hne
  · intro a ha; cases ha; exact hi

theorem rcore_phase {fx d R G} (s : S) (p : Phase) (hot) (h : RCore fx d R G s hot) :
    RCore fx d R G { s with phase := p } hot :=
  ⟨h.calls1, h.avail, h.tokNo, h.tokIdle, h.tokBusy, h.notYet, h.hotIdle, h.running, h.runNodup,
   h.val, h.valOut, h.noFail, h.noErr⟩

/-! ### the cache book-keeping on top of the scheduler invariant -/

/-- `H i`: node `i` had completed before the cut (`G ⊆ H`; `H ∖ G` = completed, but some input
upstream of it — or its own — was changed when the cause was removed); `T i`: child `i` is a
composite (comes back from the file without a cache of its own, so it is always run again) -/
structure RBook (fx : Fix) (d : Dag) (G H T : Nat → Bool) (rs : RS) : Prop where
  fc0    : ∀ i, rs.s.st i = .idle → rs.fcalls i = 0
  fcG    : ∀ i, G i = true → T i = false → rs.fcalls i = 0
  fcN    : ∀ i, H i = false → rs.s.st i ≠ .idle → rs.fcalls i = 1
  fcD    : ∀ i, fx.dirty i = true → rs.s.st i ≠ .idle → rs.fcalls i = 1
  fcT    : ∀ i, T i = true → rs.s.st i ≠ .idle → rs.fcalls i = 1
  fcLe   : ∀ i, rs.fcalls i ≤ 1
  cacheG : ∀ i, rs.s.st i = .idle → G i = true → T i = false → rs.cache i = some (fetchArgs d rs.s.out i)
  cacheN : ∀ i, rs.s.st i = .idle → (H i = false ∨ T i = true) → rs.cache i = none
  cacheU : ∀ i c, rs.s.st i = .idle → rs.cache i = some c → rs.s.out i = .app i c

/-- what `rrunNode` does to a hot node -/
theorem rrunNode_hot {fx d R G H T} (ok : SnapOK fx d R G) (rs : RS) (i : Nat)
    (h : RCore fx d R G rs.s (some i)) (hb : RBook fx d G H T rs) :
    rrunNode fx d rs i =
      if rs.cache i = some (fetchArgs d rs.s.out i) ∧ fx.dirty i = false then
        ({ rs with s := rfinish fx d (submit d rs.s i) i }, .ok)
      else if d.onExec i then
        ({ s := submit d rs.s i, cache := updF rs.cache i (some (fetchArgs d rs.s.out i)),
           fcalls := updF rs.fcalls i (rs.fcalls i + 1) }, .ok)
      else
        ({ s := rfinish fx d (submit d rs.s i) i, cache := updF rs.cache i (some (fetchArgs d rs.s.out i)),
           fcalls := updF rs.fcalls i (rs.fcalls i + 1) }, .ok) := by
  have hidle := h.hotIdle i rfl
  have hnr : i ∉ rs.s.running := by
    intro hm; have := (h.running i).mp hm; simp [hidle] at this
  have hargs : (fetchArgs d rs.s.out i).any Val.isNd = false :=
    fetchArgs_not_nd d rs.s.out i (fun c hc => good_not_nd h c (busy_avail ok h i (Or.inl rfl) c hc))
  unfold rrunNode
  simp only [hidle, ne_eq, not_true_eq_false, hargs, Bool.false_eq_true, or_self, if_false]
  by_cases hhit : rs.cache i = some (fetchArgs d rs.s.out i) ∧ fx.dirty i = false
  · rw [if_pos hhit, if_pos hhit]
    have hsym : fx.sym i = i := by simp [Fix.sym, hhit.2]
    have hout : updF rs.s.out i (Val.app i (fetchArgs d rs.s.out i)) = rs.s.out := by
      funext x
      by_cases hx : x = i
      · subst hx; simp only [updF_same]; exact (hb.cacheU x _ hidle hhit.1).symm
      · simp [updF, hx]
    simp [rfinish, submit, updF_updF, erase_append_self _ _ hnr, hout, hsym]
  · rw [if_neg hhit, if_neg hhit]
    by_cases hex : d.onExec i = true
    · rw [if_pos hex, if_pos hex]; simp [submit]
    · rw [if_neg hex, if_neg hex]; simp [rfinish, submit, updF_updF, erase_append_self _ _ hnr]

theorem rbook_congr {fx d G H T} (rs rs' : RS) (hb : RBook fx d G H T rs) (hst : rs'.s.st = rs.s.st)
    (hout : rs'.s.out = rs.s.out) (hc : rs'.cache = rs.cache) (hf : rs'.fcalls = rs.fcalls) :
    RBook fx d G H T rs' := by
  refine ⟨?_, ?_, ?_, ?_, ?_, ?_, ?_, ?_, ?_⟩
  · intro i; rw [hf, hst]; exact hb.fc0 i
  · intro i; rw [hf]; exact hb.fcG i
  · intro i; rw [hf, hst]; exact hb.fcN i
  · intro i; rw [hf, hst]; exact hb.fcD i
  · intro i; rw [hf, hst]; exact hb.fcT i
  · intro i; rw [hf]; exact hb.fcLe i
  · intro i; rw [hc, hst, hout]; exact hb.cacheG i
  · intro i; rw [hc, hst]; exact hb.cacheN i
  · intro i c; rw [hc, hst, hout]; exact hb.cacheU i c

/-- finishing `k` (a completion callback, or the tail of a local run / a cache hit) keeps the books -/
theorem rfinish_rbook {fx d R G H T} (ok : SnapOK fx d R G) (wf : WF d) (rs : RS) (k : Nat)
    (h : RCore fx d R G rs.s none) (hb : RBook fx d G H T rs) (hk : rs.s.st k = .out) :
    RBook fx d G H T { rs with s := rfinish fx d rs.s k } := by
  have hcongr := finish_congr ok wf h k hk
  have hidle : ∀ i, (rfinish fx d rs.s k).st i = .idle → i ≠ k ∧ rs.s.st i = .idle := by
    intro i hi
    have hik : i ≠ k := by intro e; subst e; simp [rfinish, updF] at hi
    exact ⟨hik, by simpa [rfinish, updF, hik] using hi⟩
  have hbusy : ∀ i, (rfinish fx d rs.s k).st i ≠ .idle → rs.s.st i ≠ .idle := by
    intro i hi
    by_cases hik : i = k
    · subst hik; simp [hk]
    · simpa [rfinish, updF, hik] using hi
  refine ⟨?_, ?_, ?_, ?_, ?_, ?_, ?_, ?_, ?_⟩
  · intro i hi; exact hb.fc0 i (hidle i hi).2
  · intro i hG hT; exact hb.fcG i hG hT
  · intro i hH hi; exact hb.fcN i hH (hbusy i hi)
  · intro i hD hi; exact hb.fcD i hD (hbusy i hi)
  · intro i hT hi; exact hb.fcT i hT (hbusy i hi)
  · intro i; exact hb.fcLe i
  · intro i hi hG hT
    have := hb.cacheG i (hidle i hi).2 hG hT
    simp only [rfinish]
    rw [hcongr i (Or.inr hG)]; exact this
  · intro i hi hH; exact hb.cacheN i (hidle i hi).2 hH
  · intro i c hi hc
    obtain ⟨hik, hi'⟩ := hidle i hi
    have := hb.cacheU i c hi' hc
    simpa [rfinish, updF, hik] using this

/-- running a hot node re-establishes both invariants and never raises -/
theorem rrunNode_core {fx d R G H T} (ok : SnapOK fx d R G) (wf : WF d) (rs : RS) (i : Nat)
    (h : RCore fx d R G rs.s (some i)) (hb : RBook fx d G H T rs) :
    (rrunNode fx d rs i).2 = .ok ∧ RCore fx d R G (rrunNode fx d rs i).1.s none ∧
    RBook fx d G H T (rrunNode fx d rs i).1 ∧
    ((rrunNode fx d rs i).1.s.st i ≠ .idle) ∧ (∀ x, x ≠ i → (rrunNode fx d rs i).1.s.st x = rs.s.st x) ∧
    (rrunNode fx d rs i).1.s.phase = rs.s.phase := by
  have hidle := h.hotIdle i rfl
  have hsub := submit_rcore ok rs.s i h
  have hout : (submit d rs.s i).st i = .out := by simp [submit]
  have hfin := rfinish_rcore ok wf _ i hsub hout
  have hfc0 : rs.fcalls i = 0 := hb.fc0 i hidle
  -- the books after the node has left `idle`, with the cache / call counter possibly touched at `i`
  have hbsub : ∀ (c : Nat → Option (List Val)) (f : Nat → Nat),
      (∀ x, x ≠ i → c x = rs.cache x) → (∀ x, x ≠ i → f x = rs.fcalls x) →
      (f i ≤ 1) → (G i = true → T i = false → f i = 0) → (H i = false → f i = 1) →
      (fx.dirty i = true → f i = 1) → (T i = true → f i = 1) →
      RBook fx d G H T { s := submit d rs.s i, cache := c, fcalls := f } := by
    intro c f hc hf hle hfG hfN hfD hfT
    have hidle' : ∀ x, (submit d rs.s i).st x = .idle → x ≠ i ∧ rs.s.st x = .idle := by
      intro x hx
      have hxi : x ≠ i := by intro e; subst e; simp [submit, updF] at hx
      exact ⟨hxi, by simpa [submit, updF, hxi] using hx⟩
    refine ⟨?_, ?_, ?_, ?_, ?_, ?_, ?_, ?_, ?_⟩
    · intro x hx
      obtain ⟨hxi, hx'⟩ := hidle' x hx
      show f x = 0
      rw [hf x hxi]; exact hb.fc0 x hx'
    · intro x hG hT
      show f x = 0
      by_cases hxi : x = i
      · subst hxi; exact hfG hG hT
      · rw [hf x hxi]; exact hb.fcG x hG hT
    · intro x hH hx
      show f x = 1
      by_cases hxi : x = i
      · subst hxi; exact hfN hH
      · rw [hf x hxi]; exact hb.fcN x hH (by simpa [submit, updF, hxi] using hx)
    · intro x hD hx
      show f x = 1
      by_cases hxi : x = i
      · subst hxi; exact hfD hD
      · rw [hf x hxi]; exact hb.fcD x hD (by simpa [submit, updF, hxi] using hx)
    · intro x hT hx
      show f x = 1
      by_cases hxi : x = i
      · subst hxi; exact hfT hT
      · rw [hf x hxi]; exact hb.fcT x hT (by simpa [submit, updF, hxi] using hx)
    · intro x
      show f x ≤ 1
      by_cases hxi : x = i
      · subst hxi; exact hle
      · rw [hf x hxi]; exact hb.fcLe x
    · intro x hx hG hT
      obtain ⟨hxi, hx'⟩ := hidle' x hx
      show c x = _
      rw [hc x hxi]
      simpa [submit] using hb.cacheG x hx' hG hT
    · intro x hx hH
      obtain ⟨hxi, hx'⟩ := hidle' x hx
      show c x = none
      rw [hc x hxi]; exact hb.cacheN x hx' hH
    · intro x c' hx hc'
      obtain ⟨hxi, hx'⟩ := hidle' x hx
      have hc'' : rs.cache x = some c' := by rw [← hc x hxi]; exact hc'
      simpa [submit] using hb.cacheU x c' hx' hc''
  have key := rrunNode_hot ok rs i h hb
  by_cases hhit : rs.cache i = some (fetchArgs d rs.s.out i) ∧ fx.dirty i = false
  · rw [if_pos hhit] at key
    have hH : H i = true := by
      cases hh : H i with
      | true => rfl
      | false => have := hb.cacheN i hidle (Or.inl hh); rw [this] at hhit; simp at hhit
    have hT : T i = false := by
      cases hh : T i with
      | false => rfl
      | true => have := hb.cacheN i hidle (Or.inr hh); rw [this] at hhit; simp at hhit
    have hb1 : RBook fx d G H T { s := submit d rs.s i, cache := rs.cache, fcalls := rs.fcalls } :=
      hbsub rs.cache rs.fcalls (fun _ _ => rfl) (fun _ _ => rfl) (by omega) (fun _ _ => hfc0)
        (fun hn => by rw [hH] at hn; cases hn) (fun hd => by rw [hhit.2] at hd; cases hd)
        (fun ht => by rw [hT] at ht; cases ht)
    have hb2 := rfinish_rbook ok wf { s := submit d rs.s i, cache := rs.cache, fcalls := rs.fcalls } i hsub hb1 hout
    rw [key]
    refine ⟨rfl, hfin, hb2, by simp [rfinish], ?_, by simp [rfinish, submit]⟩
    intro x hx; simp [rfinish, submit, updF, hx]
  · rw [if_neg hhit] at key
    have hnotG : G i = true → T i = false → False := by
      intro hG hT
      exact hhit ⟨hb.cacheG i hidle hG hT, ok.Gclean i hG⟩
    have hb1 : RBook fx d G H T
        { s := submit d rs.s i, cache := updF rs.cache i (some (fetchArgs d rs.s.out i)),
          fcalls := updF rs.fcalls i (rs.fcalls i + 1) } :=
      hbsub _ _ (fun x hx => by simp [updF, hx]) (fun x hx => by simp [updF, hx]) (by simp [hfc0])
        (fun hG hT => (hnotG hG hT).elim) (fun _ => by simp [hfc0]) (fun _ => by simp [hfc0])
        (fun _ => by simp [hfc0])
    by_cases hex : d.onExec i = true
    · rw [if_pos hex] at key
      rw [key]
      refine ⟨rfl, hsub, hb1, by simp [submit], ?_, by simp [submit]⟩
      intro x hx; simp [submit, updF, hx]
    · rw [if_neg hex] at key
      have hb2 := rfinish_rbook ok wf _ i hsub hb1 hout
      rw [key]
      refine ⟨rfl, hfin, hb2, by simp [rfinish], ?_, by simp [rfinish, submit]⟩
      intro x hx; simp [rfinish, submit, updF, hx]

/-! ### every action of the resumed run preserves the invariant -/

structure RInv (fx : Fix) (d : Dag) (R : Nat → List Nat) (G H T : Nat → Bool) (rs : RS) : Prop where
  core : RCore fx d R G rs.s none
  phase : PhaseInv d rs.s
  book : RBook fx d G H T rs
  notAborted : rs.s.phase ≠ .aborted

theorem rstep_inv {fx d R G H T} (cfg : Cfg) (ok : SnapOK fx d R G) (wf : WF d) (rs rs' : RS) (a : Act)
    (h : RInv fx d R G H T rs) (hs : rstep fx cfg d rs a = some rs') : RInv fx d R G H T rs' := by
  cases a with
  | start =>
    simp only [rstep] at hs
    split at hs
    · rename_i i rest hph
      obtain ⟨hnd, hrest, hstart⟩ := h.phase.rest _ hph
      have hi := hrest i (by simp)
      have hhot := rcore_hot_root rs.s i h.core hi.1 (wf.startRoots i hi.2)
      obtain ⟨hok, hc, hbk, hni, hoth, hphase⟩ := rrunNode_core ok wf rs i hhot h.book
      have hrest' : ∀ x ∈ rest, (rrunNode fx d rs i).1.s.st x = .idle ∧ x ∈ d.starters := by
        intro x hx
        have hxi : x ≠ i := by
          intro e; subst e; exact (List.nodup_cons.mp hnd).1 hx
        rw [hoth x hxi]; exact hrest x (by simp [hx])
      have hstart' : ∀ x ∈ d.starters, (rrunNode fx d rs i).1.s.st x = .idle → x ∈ rest := by
        intro x hx hxs
        have hxi : x ≠ i := by intro e; subst e; exact hni hxs
        rw [hoth x hxi] at hxs
        have := hstart x hx hxs
        simpa [hxi] using this
      split at hs
      · rename_i r1 heq
        simp only [Option.some.injEq] at hs; subst hs
        have e1 : r1 = (rrunNode fx d rs i).1 := by rw [heq]
        subst e1
        refine ⟨rcore_phase _ _ _ hc, ⟨?_, by simp⟩, rbook_congr _ _ hbk rfl rfl rfl rfl, by simp⟩
        intro r hr
        simp at hr; subst hr
        exact ⟨(List.nodup_cons.mp hnd).2, hrest', hstart'⟩
      · rename_i r1 heq
        have e2 : (rrunNode fx d rs i).2 = .raised := by rw [heq]
        rw [hok] at e2; cases e2
    · simp at hs
  | deliver =>
    simp only [rstep] at hs
    split at hs
    · rename_i j i q hph hq
      obtain ⟨_, _, hstart⟩ := h.phase.rest _ hph
      split at hs
      · rename_i hall
        have hhot := pop_fire_rcore ok rs.s j i q h.core hq hall
        have hb0 : RBook fx d G H T { rs with s := { rs.s with queue := q, received := updF rs.s.received i [] } } :=
          rbook_congr rs _ h.book rfl rfl rfl rfl
        obtain ⟨hok, hc, hbk, hni, hoth, hphase⟩ :=
          rrunNode_core ok wf { rs with s := { rs.s with queue := q, received := updF rs.s.received i [] } } i hhot hb0
        split at hs
        · rename_i r1 heq
          simp only [Option.some.injEq] at hs; subst hs
          have e1 : r1 = (rrunNode fx d { rs with s := { rs.s with queue := q, received := updF rs.s.received i [] } } i).1 := by
            rw [heq]
          subst e1
          have hphase' : (rrunNode fx d { rs with s := { rs.s with queue := q, received := updF rs.s.received i [] } } i).1.s.phase
              = .run [] := by rw [hphase]; exact hph
          refine ⟨hc, ⟨?_, by simp [hphase']⟩, hbk, by simp [hphase']⟩
          intro r hr
          rw [hphase'] at hr; simp at hr; subst hr
          refine ⟨by simp, by simp, ?_⟩
          intro x hx hxs
          have hxi : x ≠ i := by intro e; subst e; exact hni hxs
          rw [hoth x hxi] at hxs
          exact hstart x hx hxs
        · rename_i r1 heq
          have e2 : (rrunNode fx d { rs with s := { rs.s with queue := q, received := updF rs.s.received i [] } } i).2
              = .raised := by rw [heq]
          rw [hok] at e2; cases e2
      · rename_i hall
        simp only [Option.some.injEq] at hs; subst hs
        refine ⟨pop_wait_rcore rs.s j i q h.core hq hall, ⟨?_, by simp [hph]⟩,
          rbook_congr rs _ h.book rfl rfl rfl rfl, by simp [hph]⟩
        intro r hr; exact h.phase.rest r hr
    · simp at hs
  | complete k =>
    simp only [rstep] at hs
    split at hs
    · rename_i r hph
      split at hs
      · rename_i hk
        simp only [Option.some.injEq] at hs; subst hs
        have hcore := rfinish_rcore ok wf rs.s k h.core hk
        have hbook := rfinish_rbook ok wf rs k h.core h.book hk
        refine ⟨hcore, ⟨?_, by simp [hph]⟩, hbook, by simp [hph]⟩
        intro r' hr'
        have hr'' : rs.s.phase = .run r' := hr'
        obtain ⟨hnd, hrest, hstart⟩ := h.phase.rest r' hr''
        refine ⟨hnd, ?_, ?_⟩
        · intro x hx
          have hxk : x ≠ k := by intro e; subst e; have := (hrest x hx).1; simp [hk] at this
          simp only [updF, hxk, if_false]; exact hrest x hx
        · intro x hx hxs
          have hxk : x ≠ k := by intro e; subst e; simp [updF] at hxs
          simp only [updF, hxk, if_false] at hxs; exact hstart x hx hxs
      · simp at hs
    · simp at hs
  | exit =>
    simp only [rstep] at hs
    split at hs
    · rename_i hph hq hr
      simp only [Option.some.injEq] at hs; subst hs
      obtain ⟨_, _, hstart⟩ := h.phase.rest _ hph
      refine ⟨rcore_phase _ _ _ h.core, ⟨by simp, ?_⟩, rbook_congr rs _ h.book rfl rfl rfl rfl, by simp⟩
      intro _
      refine ⟨hq, hr, ?_⟩
      intro x hx hxs
      have := hstart x hx hxs
      cases this
    · simp at hs

theorem rrunActs_inv {fx d R G H T} (cfg : Cfg) (ok : SnapOK fx d R G) (wf : WF d) (acts : List Act) (rs rs' : RS)
    (h : RInv fx d R G H T rs) (hr : rrunActs fx cfg d rs acts = some rs') : RInv fx d R G H T rs' := by
  induction acts generalizing rs with
  | nil => simp [rrunActs] at hr; subst hr; exact h
  | cons a as ih =>
    simp only [rrunActs] at hr
    split at hr
    · rename_i r1 hs1
      exact ih r1 (rstep_inv cfg ok wf rs r1 a h hs1) hr
    · simp at hr

/-! ### consequences at the end of the resumed run -/

theorem rexit_all_done {fx d R G H T} (wf : WF d) (rs : RS) (h : RInv fx d R G H T rs)
    (rank : Nat → Nat) (hrank : ∀ i j, j ∈ d.deps i → rank j < rank i)
    (hex : rs.s.phase = .exited) : ∀ i, d.member i → rs.s.st i = .done := by
  obtain ⟨hq, hrun, hroots⟩ := h.phase.exited hex
  have key : ∀ n i, rank i < n → d.member i → rs.s.st i = .done := by
    intro n
    induction n with
    | zero => intro i hi; omega
    | succ n ih =>
      intro i hi hm
      have hdeps : ∀ j ∈ d.deps i, rs.s.st j = .done := by
        intro j hj
        apply ih j (by have := hrank i j hj; omega)
        by_cases hd : d.deps j = []
        · exact Or.inl (wf.rootsStart i j hj hd)
        · exact Or.inr hd
      cases hst : rs.s.st i with
      | done => rfl
      | failed => exact absurd hst (h.core.noFail i)
      | out =>
        have := (h.core.running i).mpr hst
        rw [hrun] at this; cases this
      | idle =>
        exfalso
        by_cases hnil : d.deps i = []
        · rcases hm with hm | hm
          · exact hroots i hm hst
          · exact hm hnil
        · obtain ⟨j, hj, hjr⟩ := h.core.notYet i (by simp) hst hnil
          have ht := h.core.tokIdle i j (by simp) hst hj
          simp only [tok, hq, List.count_nil, Nat.zero_add, hdeps j hj, if_true] at ht
          have : 0 < (rs.s.received i).count j := by omega
          exact hjr (List.count_pos_iff.mp this)
  intro i
  exact key (rank i + 1) i (by omega)

/-- the value equation at every node that has run in the resumed run or had completed before the cut -/
theorem rgood_value {fx d R G H T} (ok : SnapOK fx d R G) (rs : RS) (h : RInv fx d R G H T rs) (i : Nat)
    (hi : rs.s.st i = .done ∨ G i = true) : rs.s.out i = .app (fx.sym i) (headArgs d rs.s.out i) := by
  rw [h.core.val i hi]
  congr 1
  apply fetchArgs_eq_head
  intro c hc
  apply good_not_nd h.core c
  rcases hi with hi | hi
  · exact h.core.avail i c (by simp [hi]) hc
  · exact Or.inr (ok.Gclosed i c hi hc)

/-- some action is enabled until the resumed run has ended -/
theorem rprogress {fx d R G H T} (cfg : Cfg) (rs : RS) (h : RInv fx d R G H T rs) (r : List Nat)
    (hph : rs.s.phase = .run r) : ∃ a rs', rstep fx cfg d rs a = some rs' := by
  cases r with
  | cons i rest =>
    refine ⟨.start, ?_⟩
    simp only [rstep, hph]
    split
    · exact ⟨_, rfl⟩
    · split <;> exact ⟨_, rfl⟩
  | nil =>
    cases hq : rs.s.queue with
    | cons p q =>
      obtain ⟨j, i⟩ := p
      refine ⟨.deliver, ?_⟩
      simp only [rstep, hph, hq]
      split
      · split <;> exact ⟨_, rfl⟩
      · exact ⟨_, rfl⟩
    | nil =>
      cases hr : rs.s.running with
      | cons k ks =>
        refine ⟨.complete k, ?_⟩
        have hk : rs.s.st k = .out := (h.core.running k).mp (by simp [hr])
        simp only [rstep, hph, hk, if_true]
        exact ⟨_, rfl⟩
      | nil =>
        exact ⟨.exit, { rs with s := { rs.s with phase := .exited } }, by simp [rstep, hph, hq, hr]⟩

/-! ### from a cut of the first run to the start of the resumed run -/

/-- nodes that had completed before the cut -/
def doneAt (s : S) (i : Nat) : Bool := s.st i == .done

/-- when the file does not vouch for outputs that do not exist: no `_cached_inputs` of a node that
was still running / had failed reaches the restored graph -/
def CacheOK (rc : RCfg) (s : S) : Prop :=
  (rc.dropInFlight = true ∨ ∀ i, s.st i ≠ .out) ∧ (rc.cache.clearOnFail = true ∨ ∀ i, s.st i ≠ .failed)

/-- `A` over-approximates the nodes that see a changed input: the nodes whose own inputs were
changed and everything that takes data from such a node, directly or not -/
structure Affected (fx : Fix) (d : Dag) (A : Nat → Bool) : Prop where
  dirty : ∀ i, fx.dirty i = true → A i = true
  up    : ∀ i j, j ∈ d.deps i → A j = true → A i = true

/-- when the triggers cannot carry a token of a node that will be executed again: they are emptied
at the start of the run, or no input was changed -/
def TriggersOK (rc : RCfg) (fx : Fix) : Prop := rc.resetReceived = true ∨ ∀ i, fx.dirty i = false

/-- completed before the cut and not affected by the fix: these keep their outputs for good -/
def kept (s : S) (A : Nat → Bool) (i : Nat) : Bool := doneAt s i && !A i

/-- the `received` sets the resumed run starts with -/
def startReceived (rc : RCfg) (s : S) : Nat → List Nat :=
  if rc.resetReceived then (fun _ => []) else s.received

theorem received_nil_of_busy {d s} (h : Core d s none) (i : Nat) (hi : s.st i ≠ .idle) :
    s.received i = [] := by
  cases hr : s.received i with
  | nil => rfl
  | cons j l =>
    exfalso
    have ht := h.tokens i j
    simp only [tok, hr, List.count_cons_self, hi, and_false, if_false] at ht
    omega

theorem snapOK_of_cut {rc fx d s A} (h : Core d s none) (hA : Affected fx d A) (ht : TriggersOK rc fx)
    (hA0 : (∀ i, fx.dirty i = false) → ∀ i, A i = false) :
    SnapOK fx d (startReceived rc s) (kept s A) := by
  have hkept : ∀ i, kept s A i = true → s.st i = .done ∧ A i = false := by
    intro i hi
    simpa [kept, doneAt] using hi
  refine ⟨?_, ?_, ?_, ?_, ?_⟩
  · intro i j hj
    unfold startReceived at hj
    split at hj
    · cases hj
    · exact (mem_received_done d s h i j hj).1
  · intro i hne
    unfold startReceived
    split
    · obtain ⟨j, hj⟩ := List.exists_mem_of_ne_nil _ hne
      exact ⟨j, hj, by simp⟩
    · by_cases hi : s.st i = .idle
      · exact h.notYet i (by simp) hi hne
      · obtain ⟨j, hj⟩ := List.exists_mem_of_ne_nil _ hne
        exact ⟨j, hj, by rw [received_nil_of_busy h i hi]; simp⟩
  · intro i j hj
    unfold startReceived at hj
    split at hj
    · cases hj
    · rename_i hreset
      have hd := (mem_received_done d s h i j hj).2.1
      have hnd : ∀ i, fx.dirty i = false := by
        rcases ht with h1 | h1
        · exact absurd h1 hreset
        · exact h1
      simp [kept, doneAt, hd, hA0 hnd j]
  · intro i j hi hj
    obtain ⟨hd, hna⟩ := hkept i hi
    have hjd := h.order i j (by simp [hd]) hj
    have hja : A j = false := by
      cases haj : A j with
      | false => rfl
      | true => have := hA.up i j hj haj; rw [hna] at this; cases this
    simp [kept, doneAt, hjd, hja]
  · intro i hi
    obtain ⟨_, hna⟩ := hkept i hi
    cases hd : fx.dirty i with
    | false => rfl
    | true => have := hA.dirty i hd; rw [hna] at this; cases this

theorem resume_inv {cfg d s} (rc : RCfg) (fx : Fix) (A T : Nat → Bool) (wf : WF d) (h : Inv cfg d s)
    (ha : ArgsInv s) (hc : CacheOK rc s) (hA : Affected fx d A) (ht : TriggersOK rc fx)
    (hA0 : (∀ i, fx.dirty i = false) → ∀ i, A i = false) :
    RInv fx d (startReceived rc s) (kept s A) (doneAt s) T (resumeFromC rc T d s) := by
  have hok := snapOK_of_cut (rc := rc) h.core hA ht hA0
  have hrec : (resumeFromC rc T d s).s.received = startReceived rc s := by
    simp only [resumeFromC, resumeInit, Snap.clearFlags, snapshot, startReceived]
  have hst : ∀ i, (resumeFromC rc T d s).s.st i = .idle := by
    intro i; simp [resumeFromC, resumeInit, Snap.clearFlags]
  have hq : (resumeFromC rc T d s).s.queue = [] := by simp [resumeFromC, resumeInit, init]
  have hout : (resumeFromC rc T d s).s.out = s.out := by simp [resumeFromC, resumeInit, Snap.clearFlags, snapshot]
  have hkept : ∀ i, kept s A i = true → s.st i = .done ∧ A i = false := by
    intro i hi
    simpa [kept, doneAt] using hi
  have hcache : ∀ i c, (resumeFromC rc T d s).cache i = some c → s.st i = .done ∧ c = s.args i := by
    intro i c hc'
    simp only [resumeFromC, resumeInit, Snap.clearFlags, snapshot] at hc'
    split at hc'
    · cases hc'
    cases hsti : s.st i with
    | done => simp [hsti] at hc'; exact ⟨rfl, hc'.symm⟩
    | idle => simp [hsti] at hc'
    | out =>
      rcases hc.1 with h1 | h1
      · simp [hsti, h1] at hc'
      · exact absurd hsti (h1 i)
    | failed =>
      rcases hc.2 with h1 | h1
      · simp [hsti, h1] at hc'
      · exact absurd hsti (h1 i)
  refine ⟨⟨?_, ?_, ?_, ?_, ?_, ?_, ?_, ?_, ?_, ?_, ?_, ?_, ?_⟩, ⟨?_, ?_⟩, ⟨?_, ?_, ?_, ?_, ?_, ?_, ?_, ?_, ?_⟩, ?_⟩
  · intro i; simp [resumeFromC, resumeInit, Snap.clearFlags, init]
  · intro i j hi; exact absurd (hst i) hi
  · intro i j hj
    have : j ∉ startReceived rc s i := fun hm => hj (hok.Rdeps i j hm)
    simp [tok, hq, hrec, List.count_eq_zero_of_not_mem this]
  · intro i j _ _ _
    simp [tok, hq, hrec, hst j]
  · intro i j hb
    rcases hb with hb | hb
    · cases hb
    · exact absurd (hst i) hb
  · intro i _ _ hne
    rw [hrec]; exact hok.Rmiss i hne
  · intro i hi; cases hi
  · intro i; simp [resumeFromC, resumeInit, Snap.clearFlags, init]
  · simp [resumeFromC, resumeInit, init]
  · intro i hi
    have hk : kept s A i = true := by
      rcases hi with hi | hi
      · rw [hst i] at hi; cases hi
      · exact hi
    obtain ⟨hd, _⟩ := hkept i hk
    rw [hout, hok.sym_eq i hk]
    exact h.core.valDone i hd
  · intro i hi; rw [hst i] at hi; cases hi
  · intro i; rw [hst i]; simp
  · simp [resumeFromC, resumeInit, init]
  · intro r hr
    have : r = d.starters := by
      simpa [resumeFromC, resumeInit, init] using hr.symm
    subst this
    refine ⟨wf.startNodup, ?_, ?_⟩
    · intro i hi; exact ⟨hst i, hi⟩
    · intro i hi _; exact hi
  · intro he; simp [resumeFromC, resumeInit, init] at he
  · intro i _; simp [resumeFromC, resumeInit]
  · intro i _ _; simp [resumeFromC, resumeInit]
  · intro i _ hi; exact absurd (hst i) hi
  · intro i _ hi; exact absurd (hst i) hi
  · intro i _ hi; exact absurd (hst i) hi
  · intro i; simp [resumeFromC, resumeInit]
  · intro i _ hG hT
    obtain ⟨hd, _⟩ := hkept i hG
    have h1 := ha i hd
    have h2 := h.core.valDone i hd
    have : s.args i = fetchArgs d s.out i := by
      rw [h1] at h2; injection h2
    rw [hout]
    simp [resumeFromC, resumeInit, Snap.clearFlags, snapshot, hd, this, hT]
  · intro i _ hH
    rcases hH with hH | hT
    · have hd : s.st i ≠ .done := by simpa [doneAt] using hH
      cases hci : (resumeFromC rc T d s).cache i with
      | none => rfl
      | some c => exact absurd (hcache i c hci).1 hd
    · simp [resumeFromC, resumeInit, hT]
  · intro i c _ hci
    obtain ⟨hd, hce⟩ := hcache i c hci
    rw [hout, hce]; exact ha i hd
  · simp [resumeFromC, resumeInit, init]

/-! ### who writes the recovery file -/

/-- the ownership tree is well founded: a depth that strictly decreases towards the root -/
def Forest.Ranked (f : Forest) (depth : Nat → Nat) : Prop :=
  ∀ n p, f.parent n = some p → depth p < depth n

theorem Forest.root_parent_none (f : Forest) (depth : Nat → Nat) (hr : f.Ranked depth) :
    ∀ fuel n, depth n ≤ fuel → f.parent (f.root fuel n) = none := by
  intro fuel
  induction fuel with
  | zero =>
    intro n hn
    simp only [Forest.root]
    cases hp : f.parent n with
    | none => rfl
    | some p => have := hr n p hp; omega
  | succ fuel ih =>
    intro n hn
    simp only [Forest.root]
    cases hp : f.parent n with
    | none => simpa using hp
    | some p =>
      have := hr n p hp
      exact ih p (by omega)

theorem Forest.root_mem_chain (f : Forest) : ∀ fuel n, f.root fuel n ∈ f.chain fuel n := by
  intro fuel
  induction fuel with
  | zero => intro n; simp [Forest.root, Forest.chain]
  | succ fuel ih =>
    intro n
    simp only [Forest.root, Forest.chain]
    cases hp : f.parent n with
    | none => simp
    | some p => simp [ih p]

/-- the only parentless node on the way up is the root -/
theorem Forest.chain_parentless (f : Forest) :
    ∀ fuel n m, m ∈ f.chain fuel n → f.parent m = none → m = f.root fuel n := by
  intro fuel
  induction fuel with
  | zero => intro n m hm _; simpa [Forest.root, Forest.chain] using hm
  | succ fuel ih =>
    intro n m hm hpm
    simp only [Forest.root, Forest.chain] at hm ⊢
    cases hp : f.parent n with
    | none => simpa [hp] using hm
    | some p =>
      simp only [hp, List.mem_cons] at hm
      rcases hm with e | hm
      · subst e; rw [hp] at hpm; cases hpm
      · exact ih p m hm hpm

theorem Forest.root_eq_self_iff (f : Forest) (depth : Nat → Nat) (hr : f.Ranked depth)
    (fuel n : Nat) (hn : depth n ≤ fuel) : f.root fuel n = n ↔ f.parent n = none := by
  constructor
  · intro h
    have := f.root_parent_none depth hr fuel n hn
    rwa [h] at this
  · intro h
    cases fuel with
    | zero => rfl
    | succ fuel => simp [Forest.root, h]

theorem filter_eq_singleton (l : List Nat) (p : Nat → Bool) (r : Nat) (hn : l.Nodup) (hr : r ∈ l)
    (hp : ∀ n ∈ l, p n = true ↔ n = r) : l.filter p = [r] := by
  induction l with
  | nil => cases hr
  | cons a l ih =>
    obtain ⟨hal, hnl⟩ := List.nodup_cons.mp hn
    by_cases har : a = r
    · subst har
      have hpa : p a = true := (hp a (by simp)).mpr rfl
      have hrest : l.filter p = [] := by
        apply List.filter_eq_nil_iff.mpr
        intro x hx hpx
        have := (hp x (by simp [hx])).mp hpx
        subst this; exact hal hx
      simp [List.filter, hpa, hrest]
    · have hpa : p a = false := by
        cases h : p a with
        | false => rfl
        | true => exact absurd ((hp a (by simp)).mp h) har
      have hr' : r ∈ l := by
        rcases List.mem_cons.mp hr with e | h
        · exact absurd e.symm har
        · exact h
      have := ih hnl hr' (fun n hn' => hp n (by simp [hn']))
      simp [List.filter, hpa, this]

end PwVerif.Recovery
