import PwVerif.Model.Pull
import PwVerif.Proofs.Conn
/-! Helper lemmas for C11 (pull): the upstream closure, the edge-set view of the temporary
rewiring, the linear run along the chain, restoration. -/
namespace PwVerif.Pull
open PwVerif PwVerif.Conn

/-! ## upstream closure -/

/-- `x` is `t` or upstream of `t` through data connections -/
inductive Reach (deps : Nat → List Nat) : Nat → Nat → Prop
  | refl (i : Nat) : Reach deps i i
  | step {i j k : Nat} : j ∈ deps i → Reach deps j k → Reach deps i k

theorem Reach.trans {deps : Nat → List Nat} {a b c : Nat} (h1 : Reach deps a b) (h2 : Reach deps b c) :
    Reach deps a c := by
  induction h1 with
  | refl => exact h2
  | step hj _ ih => exact .step hj (ih h2)

theorem Reach.tail {deps : Nat → List Nat} {a b c : Nat} (h1 : Reach deps a b) (h2 : c ∈ deps b) :
    Reach deps a c := h1.trans (.step h2 (.refl c))

theorem dfsAll_some (rec : Nat → Option (List Nat)) (js : List Nat) (l : List Nat)
    (h : dfsAll rec js = some l) :
    (∀ j ∈ js, ∃ a, rec j = some a ∧ ∀ x ∈ a, x ∈ l) ∧ (∀ x ∈ l, ∃ j ∈ js, ∃ a, rec j = some a ∧ x ∈ a) := by
  induction js generalizing l with
  | nil => simp [dfsAll] at h; subst h; simp
  | cons j js ih =>
    simp only [dfsAll] at h
    split at h
    · cases h
    · rename_i a ha
      cases hr : dfsAll rec js with
      | none => simp [hr] at h
      | some r =>
        simp [hr] at h
        subst h
        obtain ⟨ih1, ih2⟩ := ih r hr
        constructor
        · intro j' hj'
          rcases List.mem_cons.mp hj' with rfl | hj'
          · exact ⟨a, ha, fun x hx => List.mem_append_left _ hx⟩
          · obtain ⟨a', ha', hs⟩ := ih1 j' hj'
            exact ⟨a', ha', fun x hx => List.mem_append_right _ (hs x hx)⟩
        · intro x hx
          rcases List.mem_append.mp hx with hx | hx
          · exact ⟨j, List.mem_cons_self, a, ha, hx⟩
          · obtain ⟨j', hj', a', ha', hx'⟩ := ih2 x hx
            exact ⟨j', List.mem_cons_of_mem _ hj', a', ha', hx'⟩

theorem dfsAll_none (rec : Nat → Option (List Nat)) (js : List Nat)
    (h : dfsAll rec js = none) : ∃ j ∈ js, rec j = none := by
  induction js with
  | nil => simp [dfsAll] at h
  | cons j js ih =>
    simp only [dfsAll] at h
    split at h
    · rename_i hj; exact ⟨j, List.mem_cons_self, hj⟩
    · cases hr : dfsAll rec js with
      | none =>
        obtain ⟨j', hj', h'⟩ := ih hr
        exact ⟨j', List.mem_cons_of_mem _ hj', h'⟩
      | some r => simp [hr] at h

/-- members of the result are reachable -/
theorem dfs_sound (deps : Nat → List Nat) (f i : Nat) (l : List Nat) (h : dfs deps f i = some l) :
    ∀ x ∈ l, Reach deps i x := by
  induction f generalizing i l with
  | zero => simp [dfs] at h
  | succ f ih =>
    simp only [dfs] at h
    cases hr : dfsAll (dfs deps f) (deps i) with
    | none => simp [hr] at h
    | some r =>
      simp [hr] at h; subst h
      intro x hx
      rcases List.mem_cons.mp hx with rfl | hx
      · exact .refl _
      · obtain ⟨j, hj, a, ha, hxa⟩ := (dfsAll_some _ _ _ hr).2 x hx
        exact .step hj (ih j a ha x hxa)

/-- every reachable node is a member of the result -/
theorem dfs_complete (deps : Nat → List Nat) (i x : Nat) (hr : Reach deps i x) :
    ∀ f l, dfs deps f i = some l → x ∈ l := by
  induction hr with
  | refl i =>
    intro f l h
    cases f with
    | zero => simp [dfs] at h
    | succ f =>
      simp only [dfs] at h
      cases hr : dfsAll (dfs deps f) (deps i) with
      | none => simp [hr] at h
      | some r => simp [hr] at h; subst h; exact List.mem_cons_self
  | @step i j k hj _ ih =>
    intro f l h
    cases f with
    | zero => simp [dfs] at h
    | succ f =>
      simp only [dfs] at h
      cases hr : dfsAll (dfs deps f) (deps i) with
      | none => simp [hr] at h
      | some r =>
        simp [hr] at h; subst h
        obtain ⟨a, ha, hs⟩ := (dfsAll_some _ _ _ hr).1 j hj
        exact List.mem_cons_of_mem _ (hs k (ih f a ha))

/-- a node from which a cycle can be reached is refused with every amount of fuel -/
theorem dfs_cycle_none (deps : Nat → List Nat) (c : Nat) (hc : ∃ j ∈ deps c, Reach deps j c) :
    ∀ f i, Reach deps i c → dfs deps f i = none := by
  intro f
  induction f with
  | zero => intro i _; simp [dfs]
  | succ f ih =>
    intro i hi
    cases h : dfs deps (f + 1) i with
    | none => rfl
    | some l =>
      exfalso
      simp only [dfs] at h
      cases hr : dfsAll (dfs deps f) (deps i) with
      | none => simp [hr] at h
      | some r =>
        have hall := (dfsAll_some _ _ _ hr).1
        cases hi with
        | refl =>
          obtain ⟨j, hj, hjc⟩ := hc
          obtain ⟨a, ha, _⟩ := hall j hj
          rw [ih j hjc] at ha; cases ha
        | step hj hjc =>
          rename_i j
          obtain ⟨a, ha, _⟩ := hall j hj
          rw [ih j hjc] at ha; cases ha

/-- with a rank that decreases along data connections the recursion ends within `rank + 1` calls -/
theorem dfs_rank_some (deps : Nat → List Nat) (rank : Nat → Nat)
    (hrank : ∀ i j, j ∈ deps i → rank j < rank i) :
    ∀ f i, rank i < f → ∃ l, dfs deps f i = some l := by
  intro f
  induction f with
  | zero => intro i h; omega
  | succ f ih =>
    intro i hi
    simp only [dfs]
    cases hr : dfsAll (dfs deps f) (deps i) with
    | some r => exact ⟨_, rfl⟩
    | none =>
      exfalso
      obtain ⟨j, hj, hn⟩ := dfsAll_none _ _ hr
      obtain ⟨l, hl⟩ := ih j (by have := hrank i j hj; omega)
      rw [hn] at hl; cases hl


/-! ## the chain: a topological enumeration of the closure ends in the target -/

def Closed (deps : Nat → List Nat) (S : List Nat) : Prop := ∀ z ∈ S, ∀ d ∈ deps z, d ∈ S

theorem Closed.reach {deps : Nat → List Nat} {S : List Nat} (hS : Closed deps S) {a b : Nat}
    (h : Reach deps a b) (ha : a ∈ S) : b ∈ S := by
  induction h with
  | refl => exact ha
  | step hj _ ih => exact ih (hS _ ha _ hj)

theorem topoOk_split (deps : Nat → List Nat) (l1 l2 seen : List Nat)
    (h : topoOk deps seen (l1 ++ l2) = true) (hc : Closed deps seen) :
    Closed deps (l1.reverse ++ seen) ∧ topoOk deps (l1.reverse ++ seen) l2 = true := by
  induction l1 generalizing seen with
  | nil => simpa using ⟨hc, h⟩
  | cons x xs ih =>
    simp only [List.cons_append, topoOk, Bool.and_eq_true, List.all_eq_true, decide_eq_true_eq] at h
    have hc' : Closed deps (x :: seen) := by
      intro z hz d hd
      rcases List.mem_cons.mp hz with rfl | hz
      · exact List.mem_cons_of_mem _ (h.1 d hd)
      · exact List.mem_cons_of_mem _ (hc z hz d hd)
    have := ih (x :: seen) h.2 hc'
    simpa [List.reverse_cons, List.append_assoc] using this

/-- the data sources of every member of the chain come earlier in the chain -/
theorem topoOk_before (deps : Nat → List Nat) (l1 l2 : List Nat) (x : Nat)
    (h : topoOk deps [] (l1 ++ x :: l2) = true) : ∀ d ∈ deps x, d ∈ l1 := by
  have h2 := (topoOk_split deps l1 (x :: l2) [] h (by intro z hz; cases hz)).2
  simp only [topoOk, Bool.and_eq_true, List.all_eq_true, decide_eq_true_eq, List.append_nil] at h2
  intro d hd
  simpa using h2.1 d hd

theorem sameMembers_iff (a b : List Nat) : sameMembers a b = true ↔ ∀ x, x ∈ a ↔ x ∈ b := by
  simp only [sameMembers, Bool.and_eq_true, List.all_eq_true, decide_eq_true_eq]
  constructor
  · intro h x; exact ⟨h.1 x, h.2 x⟩
  · intro h; exact ⟨fun x hx => (h x).mp hx, fun x hx => (h x).mpr hx⟩

/-- the target closes every topological enumeration of its own closure -/
theorem chain_ends_in_target (deps : Nat → List Nat) (t : Nat) (chain : List Nat)
    (hnd : chain.Nodup) (hmem : ∀ x, x ∈ chain ↔ Reach deps t x) (htopo : topoOk deps [] chain = true) :
    ∃ pre, chain = pre ++ [t] := by
  have ht : t ∈ chain := (hmem t).mpr (.refl t)
  obtain ⟨l1, l2, rfl⟩ := List.append_of_mem ht
  cases l2 with
  | nil => exact ⟨l1, rfl⟩
  | cons y ys =>
    exfalso
    have hcl := (topoOk_split deps (l1 ++ [t]) (y :: ys) [] (by simpa using htopo)
      (by intro z hz; cases hz)).1
    have hy : Reach deps t y := (hmem y).mp (by simp)
    have : y ∈ (l1 ++ [t]).reverse ++ [] := hcl.reach hy (by simp)
    have hy' : y ∈ l1 ∨ y = t := by simpa [or_comm] using this
    have hnd' := hnd
    rw [List.nodup_append] at hnd'
    rcases hy' with hy' | hy'
    · exact hnd'.2.2 y hy' y (by simp) rfl
    · subst hy'
      have := hnd'.2.1
      simp at this


/-! ## edge-set view of the connection primitives (on a well-formed graph) -/

theorem mem_connect1 (g : G) (a b : Nat) (h : Inv g) (hk : (g.kind a).conj (g.kind b) = true)
    (hv : g.valid a b = true) (x y : Nat) :
    y ∈ (connect1 g a b).1.conns x ↔ y ∈ g.conns x ∨ (x = a ∧ y = b) ∨ (x = b ∧ y = a) := by
  have hab : a ≠ b := by
    intro e; subst e; simp [conj_irrefl] at hk
  unfold connect1
  split
  · rename_i hb
    have hb' := (h.symm a b).mp hb
    constructor
    · intro hy; exact Or.inl hy
    · rintro (hy | ⟨rfl, rfl⟩ | ⟨rfl, rfl⟩) <;> assumption
  · by_cases hxa : x = a <;> by_cases hxb : x = b <;> simp_all [updF] <;> grind

theorem mem_disconnect1 (g : G) (a b : Nat) (h : Inv g) (x y : Nat) :
    y ∈ (disconnect1 g a b).conns x ↔ y ∈ g.conns x ∧ ¬(x = a ∧ y = b) ∧ ¬(x = b ∧ y = a) := by
  unfold disconnect1
  split
  · rename_i hb
    have hab : a ≠ b := by
      intro e; subst e
      have := h.typed a a hb; simp [conj_irrefl] at this
    have hba : a ∈ g.conns b := (h.symm a b).mp hb
    have hmem : a ∈ (updF g.conns a ((g.conns a).erase b)) b := by
      simp [updF, Ne.symm hab, hba]
    simp only [hmem, if_true]
    have na := h.nodup a
    have nb := h.nodup b
    by_cases hxa : x = a <;> by_cases hxb : x = b <;>
      simp_all [updF, List.Nodup.mem_erase_iff] <;> grind
  · rename_i hb
    have hba : a ∉ g.conns b := fun hm => hb ((h.symm a b).mpr hm)
    constructor
    · intro hy
      refine ⟨hy, ?_, ?_⟩
      · rintro ⟨rfl, rfl⟩; exact hb hy
      · rintro ⟨rfl, rfl⟩; exact hba hy
    · intro hy; exact hy.1

theorem mem_disconnect (g : G) (a : Nat) (bs : List Nat) (h : Inv g) (x y : Nat) :
    y ∈ (disconnect g a bs).conns x ↔
      y ∈ g.conns x ∧ ¬(x = a ∧ y ∈ bs) ∧ ¬(y = a ∧ x ∈ bs) := by
  unfold disconnect
  induction bs generalizing g with
  | nil => simp
  | cons b bs ih =>
    simp only [List.foldl_cons]
    rw [ih _ (disconnect1_inv g a b h), mem_disconnect1 g a b h]
    simp only [List.mem_cons]
    constructor
    · rintro ⟨⟨h1, h2, h3⟩, h4, h5⟩
      refine ⟨h1, ?_, ?_⟩
      · rintro ⟨rfl, rfl | hy⟩
        · exact h2 ⟨rfl, rfl⟩
        · exact h4 ⟨rfl, hy⟩
      · rintro ⟨rfl, rfl | hx⟩
        · exact h3 ⟨rfl, rfl⟩
        · exact h5 ⟨rfl, hx⟩
    · rintro ⟨h1, h2, h3⟩
      refine ⟨⟨h1, ?_, ?_⟩, ?_, ?_⟩
      · rintro ⟨rfl, rfl⟩; exact h2 ⟨rfl, Or.inl rfl⟩
      · rintro ⟨rfl, rfl⟩; exact h3 ⟨rfl, Or.inl rfl⟩
      · rintro ⟨rfl, hy⟩; exact h2 ⟨rfl, Or.inr hy⟩
      · rintro ⟨rfl, hx⟩; exact h3 ⟨rfl, Or.inr hx⟩

theorem mem_disconnectAll (g : G) (a : Nat) (h : Inv g) (x y : Nat) :
    y ∈ (disconnectAll g a).conns x ↔ y ∈ g.conns x ∧ x ≠ a ∧ y ≠ a := by
  unfold disconnectAll
  rw [mem_disconnect g a _ h]
  constructor
  · rintro ⟨h1, h2, h3⟩
    refine ⟨h1, ?_, ?_⟩
    · rintro rfl; exact h2 ⟨rfl, h1⟩
    · rintro rfl; exact h3 ⟨rfl, (h.symm _ _).mp h1⟩
  · rintro ⟨h1, h2, h3⟩
    exact ⟨h1, fun e => h2 e.1, fun e => h3 e.1⟩

theorem mem_disconnectChans (g : G) (cs : List Nat) (h : Inv g) (x y : Nat) :
    y ∈ (disconnectChans g cs).conns x ↔ y ∈ g.conns x ∧ x ∉ cs ∧ y ∉ cs := by
  unfold disconnectChans
  induction cs generalizing g with
  | nil => simp
  | cons c cs ih =>
    simp only [List.foldl_cons]
    rw [ih _ (disconnectAll_inv g c h), mem_disconnectAll g c h]
    simp only [List.mem_cons, not_or]
    constructor
    · rintro ⟨⟨h1, h2, h3⟩, h4, h5⟩; exact ⟨h1, ⟨h2, h4⟩, ⟨h3, h5⟩⟩
    · rintro ⟨h1, ⟨h2, h4⟩, ⟨h3, h5⟩⟩; exact ⟨⟨h1, h2, h3⟩, h4, h5⟩

theorem cutRec_fst (g : G) (cs : List Nat) : (cutRec g cs).1 = disconnectChans g cs := by
  induction cs generalizing g with
  | nil => rfl
  | cons c cs ih => simp [cutRec, ih, disconnectChans]

/-- every recorded pair was a connection of a cut channel -/
theorem cutRec_pairs_sound (g : G) (cs : List Nat) (h : Inv g) (a b : Nat)
    (hp : (a, b) ∈ (cutRec g cs).2) : a ∈ cs ∧ b ∈ g.conns a := by
  induction cs generalizing g with
  | nil => simp [cutRec] at hp
  | cons c cs ih =>
    simp only [cutRec, List.mem_append, List.mem_map] at hp
    rcases hp with ⟨b', hb', he⟩ | hp
    · cases he; exact ⟨List.mem_cons_self, hb'⟩
    · obtain ⟨h1, h2⟩ := ih _ (disconnectAll_inv g c h) hp
      exact ⟨List.mem_cons_of_mem _ h1, ((mem_disconnectAll g c h a b).mp h2).1⟩

/-- every connection of a cut channel is recorded, in one orientation or the other -/
theorem cutRec_pairs_complete (g : G) (cs : List Nat) (h : Inv g) (a b : Nat)
    (ha : a ∈ cs) (hb : b ∈ g.conns a) : (a, b) ∈ (cutRec g cs).2 ∨ (b, a) ∈ (cutRec g cs).2 := by
  induction cs generalizing g with
  | nil => cases ha
  | cons c cs ih =>
    simp only [cutRec, List.mem_append, List.mem_map]
    by_cases hac : a = c
    · subst hac; exact Or.inl (Or.inl ⟨b, hb, rfl⟩)
    · by_cases hbc : b = c
      · subst hbc; exact Or.inr (Or.inl ⟨a, (h.symm _ _).mp hb, rfl⟩)
      · have ha' : a ∈ cs := by
          rcases List.mem_cons.mp ha with e | e
          · exact absurd e hac
          · exact e
        have hb' : b ∈ (disconnectAll g c).conns a := (mem_disconnectAll g c h a b).mpr ⟨hb, hac, hbc⟩
        rcases ih _ (disconnectAll_inv g c h) ha' hb' with e | e
        · exact Or.inl (Or.inr e)
        · exact Or.inr (Or.inr e)

theorem reconnect_static (g : G) (pairs : List (Nat × Nat)) : SameStatic g (reconnect g pairs) := by
  unfold reconnect
  induction pairs generalizing g with
  | nil => exact .refl g
  | cons p ps ih => exact (connect1_static g p.1 p.2).trans (ih _)

theorem reconnect_inv (g : G) (pairs : List (Nat × Nat)) (h : Inv g) : Inv (reconnect g pairs) := by
  unfold reconnect
  induction pairs generalizing g with
  | nil => exact h
  | cons p ps ih => exact ih _ (connect1_inv g p.1 p.2 h)

theorem mem_reconnect (g : G) (pairs : List (Nat × Nat)) (h : Inv g)
    (hk : ∀ p ∈ pairs, (g.kind p.1).conj (g.kind p.2) = true) (hv : ∀ a b, g.valid a b = true)
    (x y : Nat) :
    y ∈ (reconnect g pairs).conns x ↔ y ∈ g.conns x ∨ (x, y) ∈ pairs ∨ (y, x) ∈ pairs := by
  unfold reconnect
  induction pairs generalizing g with
  | nil => simp
  | cons p ps ih =>
    simp only [List.foldl_cons]
    have hst := connect1_static g p.1 p.2
    rw [ih _ (connect1_inv g p.1 p.2 h)
      (by intro q hq; rw [hst.kind]; exact hk q (List.mem_cons_of_mem _ hq))
      (by intro a b; rw [hst.valid]; exact hv a b),
      mem_connect1 g p.1 p.2 h (hk p List.mem_cons_self) (hv _ _)]
    simp only [List.mem_cons]
    constructor
    · rintro ((h1 | ⟨rfl, rfl⟩ | ⟨rfl, rfl⟩) | h2 | h3)
      · exact Or.inl h1
      · exact Or.inr (Or.inl (Or.inl rfl))
      · exact Or.inr (Or.inr (Or.inl rfl))
      · exact Or.inr (Or.inl (Or.inr h2))
      · exact Or.inr (Or.inr (Or.inr h3))
    · rintro (h1 | (e | h2) | (e | h3))
      · exact Or.inl (Or.inl h1)
      · exact Or.inl (Or.inr (Or.inl (by cases e; exact ⟨rfl, rfl⟩)))
      · exact Or.inr (Or.inl h2)
      · exact Or.inl (Or.inr (Or.inr (by cases e; exact ⟨rfl, rfl⟩)))
      · exact Or.inr (Or.inr h3)


/-! ## channels of the pull world -/

theorem ch_mod (i k : Nat) (hk : k < 6) : ch i k % 6 = k := by unfold ch; omega
theorem ch_div (i k : Nat) (hk : k < 6) : ch i k / 6 = i := by unfold ch; omega

/-- signal channels: `run`, `accumulate_and_run` are inputs, the others outputs -/
def SigKinds (g : G) : Prop := ∀ c, g.kind c = if c % 6 < 2 then Kind.sigIn else Kind.sigOut

theorem SigKinds.of_static {g g' : G} (h : SigKinds g) (hs : SameStatic g g') : SigKinds g' := by
  intro c; rw [hs.kind]; exact h c

theorem SigKinds.run_ran {g : G} (h : SigKinds g) (a b : Nat) :
    (g.kind (ch b 0)).conj (g.kind (ch a 2)) = true := by
  rw [h, h, ch_mod _ _ (by omega), ch_mod _ _ (by omega)]; rfl

/-- consecutive members of the execution order -/
def Adj : List Nat → Nat → Nat → Prop
  | a :: b :: r, x, y => (x = a ∧ y = b) ∨ Adj (b :: r) x y
  | _, _, _ => False

theorem Adj.mem {L : List Nat} {x y : Nat} (h : Adj L x y) : x ∈ L ∧ y ∈ L := by
  induction L with
  | nil => simp [Adj] at h
  | cons a r ih =>
    cases r with
    | nil => simp [Adj] at h
    | cons b r' =>
      simp only [Adj] at h
      rcases h with ⟨rfl, rfl⟩ | h
      · simp
      · have := ih h
        exact ⟨List.mem_cons_of_mem _ this.1, List.mem_cons_of_mem _ this.2⟩

theorem wire_static (g : G) (L : List Nat) : SameStatic g (wire g L) := by
  induction L generalizing g with
  | nil => exact .refl g
  | cons a r ih =>
    cases r with
    | nil => exact .refl g
    | cons b r' => simp only [wire]; exact (connect1_static g _ _).trans (ih _)

theorem wire_inv (g : G) (L : List Nat) (h : Inv g) : Inv (wire g L) := by
  induction L generalizing g with
  | nil => exact h
  | cons a r ih =>
    cases r with
    | nil => exact h
    | cons b r' => simp only [wire]; exact ih _ (connect1_inv g _ _ h)

/-- the wiring adds exactly the `ran → run` edges between consecutive members -/
theorem mem_wire (g : G) (L : List Nat) (h : Inv g) (hk : SigKinds g) (hv : ∀ a b, g.valid a b = true)
    (x y : Nat) :
    y ∈ (wire g L).conns x ↔
      y ∈ g.conns x ∨ ∃ a b, Adj L a b ∧ ((x = ch b 0 ∧ y = ch a 2) ∨ (x = ch a 2 ∧ y = ch b 0)) := by
  induction L generalizing g with
  | nil => simp [wire, Adj]
  | cons a r ih =>
    cases r with
    | nil => simp [wire, Adj]
    | cons b r' =>
      simp only [wire]
      have hst := connect1_static g (ch b 0) (ch a 2)
      rw [ih _ (connect1_inv g _ _ h) (hk.of_static hst) (by intro p q; rw [hst.valid]; exact hv p q),
        mem_connect1 g _ _ h (hk.run_ran a b) (hv _ _)]
      simp only [Adj]
      constructor
      · rintro ((h1 | h1 | h1) | ⟨p, q, hpq, h2⟩)
        · exact Or.inl h1
        · exact Or.inr ⟨a, b, Or.inl ⟨rfl, rfl⟩, Or.inl h1⟩
        · exact Or.inr ⟨a, b, Or.inl ⟨rfl, rfl⟩, Or.inr h1⟩
        · exact Or.inr ⟨p, q, Or.inr hpq, h2⟩
      · rintro (h1 | ⟨p, q, (⟨rfl, rfl⟩ | hpq), h2⟩)
        · exact Or.inl (Or.inl h1)
        · rcases h2 with h2 | h2
          · exact Or.inl (Or.inr (Or.inl h2))
          · exact Or.inl (Or.inr (Or.inr h2))
        · exact Or.inr ⟨p, q, hpq, h2⟩


/-! ## the graph is restored (as sets) by the `finally` block -/

/-- well-formed signal graph -/
structure GWF (g : G) : Prop where
  inv : Inv g
  kinds : SigKinds g
  valid : ∀ a b, g.valid a b = true

theorem GWF.of_static {g g' : G} (h : GWF g) (hs : SameStatic g g') (hi : Inv g') : GWF g' :=
  ⟨hi, h.kinds.of_static hs, by intro a b; rw [hs.valid]; exact h.valid a b⟩

theorem GWF.disconnectChans {g : G} (h : GWF g) (cs : List Nat) : GWF (disconnectChans g cs) :=
  h.of_static (disconnectChans_static g cs) (disconnectChans_inv g cs h.inv)

theorem GWF.wire {g : G} (h : GWF g) (L : List Nat) : GWF (wire g L) :=
  h.of_static (wire_static g L) (wire_inv g L h.inv)

theorem GWF.reconnect {g : G} (h : GWF g) (ps : List (Nat × Nat)) : GWF (reconnect g ps) :=
  h.of_static (reconnect_static g ps) (reconnect_inv g ps h.inv)

theorem disconnectChans_append (g : G) (a b : List Nat) :
    disconnectChans g (a ++ b) = disconnectChans (disconnectChans g a) b := by
  simp [disconnectChans, List.foldl_append]

theorem foldl_disconnectRun (g : G) (order : List Nat) :
    order.foldl disconnectRun g = disconnectChans g (order.flatMap runChans) := by
  induction order generalizing g with
  | nil => rfl
  | cons i is ih =>
    simp only [List.foldl_cons, List.flatMap_cons, disconnectChans_append]
    rw [ih]; rfl

theorem mem_cutChans (order : List Nat) (x : Nat) :
    x ∈ cutChans order ↔ ∃ i ∈ order, x = ch i 0 ∨ x = ch i 1 ∨ x = ch i 2 := by
  simp [cutChans, List.mem_flatMap]

theorem mem_runChansOf (order : List Nat) (x : Nat) :
    x ∈ order.flatMap runChans ↔ ∃ i ∈ order, x = ch i 0 ∨ x = ch i 1 := by
  simp [runChans, List.mem_flatMap]

theorem mem_otherOutChans (order : List Nat) (x : Nat) :
    x ∈ otherOutChans order ↔ ∃ i ∈ order, x = ch i 3 ∨ x = ch i 4 ∨ x = ch i 5 := by
  simp [otherOutChans, List.mem_flatMap]

/-- cut (remembering the pairs), then re-connect the pairs: the same edges as before -/
theorem mem_cut_reconnect (g : G) (cs : List Nat) (h : GWF g) (x y : Nat) :
    y ∈ (reconnect (cutRec g cs).1 (cutRec g cs).2).conns x ↔ y ∈ g.conns x := by
  have hsound := cutRec_pairs_sound g cs h.inv
  have hcomp := cutRec_pairs_complete g cs h.inv
  have hsymm := h.inv.symm
  have h1 := h.disconnectChans cs
  rw [cutRec_fst] at *
  rw [mem_reconnect _ _ h1.inv
      (by intro p hp
          rw [(disconnectChans_static g cs).kind]
          exact h.inv.typed _ _ (hsound p.1 p.2 hp).2)
      h1.valid,
    mem_disconnectChans g cs h.inv]
  constructor
  · rintro (⟨h0, _, _⟩ | hp | hp)
    · exact h0
    · exact (hsound _ _ hp).2
    · exact (hsymm _ _).mp (hsound _ _ hp).2
  · intro h0
    by_cases hx : x ∈ cs
    · rcases hcomp x y hx h0 with e | e
      · exact Or.inr (Or.inl e)
      · exact Or.inr (Or.inr e)
    · by_cases hy : y ∈ cs
      · rcases hcomp y x hy ((hsymm _ _).mp h0) with e | e
        · exact Or.inr (Or.inr e)
        · exact Or.inr (Or.inl e)
      · exact Or.inl ⟨h0, hx, hy⟩


theorem restore_core (g gP : G) (order : List Nat) (pairs : List (Nat × Nat))
    (h : GWF g) (hP : GWF gP) (hst : SameStatic g gP)
    (h1 : ∀ x y, y ∈ gP.conns x → x ∉ order.flatMap runChans → y ∉ order.flatMap runChans → y ∈ g.conns x)
    (h2 : ∀ x y, y ∈ g.conns x →
      (y ∈ gP.conns x ∧ x ∉ order.flatMap runChans ∧ y ∉ order.flatMap runChans) ∨
        (x, y) ∈ pairs ∨ (y, x) ∈ pairs)
    (h3 : ∀ a b, (a, b) ∈ pairs → b ∈ g.conns a) :
    GWF (restoreG gP order pairs) ∧
      ∀ x y, y ∈ (restoreG gP order pairs).conns x ↔ y ∈ g.conns x := by
  unfold restoreG
  rw [foldl_disconnectRun]
  have h4 := hP.disconnectChans (order.flatMap runChans)
  refine ⟨h4.reconnect pairs, ?_⟩
  intro x y
  rw [mem_reconnect _ _ h4.inv
      (by intro p hp
          rw [(disconnectChans_static gP _).kind, hst.kind]
          exact h.inv.typed _ _ (h3 p.1 p.2 hp))
      h4.valid,
    mem_disconnectChans gP _ hP.inv]
  constructor
  · rintro (⟨h0, hx, hy⟩ | hp | hp)
    · exact h1 x y h0 hx hy
    · exact h3 _ _ hp
    · exact (h.inv.symm _ _).mp (h3 _ _ hp)
  · intro h0; exact h2 x y h0

/-- the output channels cut by the repaired variant -/
def extraChans (cfg : Cfg) (order : List Nat) : List Nat :=
  if cfg.cutAllOutputs then otherOutChans order else []

/-- `prepare` without its local definitions -/
theorem prepare_eq (cfg : Cfg) (g : G) (t : Nat) (order chain : List Nat) :
    prepare cfg g t order chain =
      if chain.headD t = t then
        (wire (disconnectChans g (cutChans order)) chain, (cutRec g (cutChans order)).2)
      else
        (disconnectChans (disconnectChans (wire (disconnectChans g (cutChans order)) chain)
            (extraChans cfg order)) (runChans t),
          (cutRec g (cutChans order)).2 ++
            (cutRec (wire (disconnectChans g (cutChans order)) chain) (extraChans cfg order)).2) := by
  unfold prepare disconnectRun extraChans
  simp only [cutRec_fst]
  split
  · rfl
  · split <;> simp [cutRec_fst, cutRec, disconnectChans]

theorem prepare_static (cfg : Cfg) (g : G) (t : Nat) (order chain : List Nat) :
    SameStatic g (prepare cfg g t order chain).1 := by
  have s2 := (disconnectChans_static g (cutChans order)).trans
    (wire_static (disconnectChans g (cutChans order)) chain)
  rw [prepare_eq]
  split
  · exact s2
  · exact (s2.trans (disconnectChans_static _ _)).trans (disconnectChans_static _ _)

theorem prepare_gwf (cfg : Cfg) (g : G) (t : Nat) (order chain : List Nat) (h : GWF g) :
    GWF (prepare cfg g t order chain).1 := by
  have i2 := ((h.disconnectChans (cutChans order)).wire chain)
  rw [prepare_eq]
  split
  · exact i2
  · exact (i2.disconnectChans _).disconnectChans _

/-- whatever ran in between (running changes no connection): after the `finally` block every
channel has the same set of connections as before the pull -/
theorem restore_prepare (cfg : Cfg) (g : G) (t : Nat) (order chain : List Nat) (h : GWF g)
    (hch : ∀ x ∈ chain, x ∈ order) (ht : t ∈ order) :
    GWF (restoreG (prepare cfg g t order chain).1 order (prepare cfg g t order chain).2) ∧
      ∀ x y, y ∈ (restoreG (prepare cfg g t order chain).1 order (prepare cfg g t order chain).2).conns x ↔
        y ∈ g.conns x := by
  refine restore_core g _ order _ h (prepare_gwf cfg g t order chain h) (prepare_static cfg g t order chain)
    ?_ ?_ ?_
  all_goals
    have hsound := cutRec_pairs_sound g (cutChans order) h.inv
    have hcomp := cutRec_pairs_complete g (cutChans order) h.inv
    have hsymm := h.inv.symm
    have hg1 := h.disconnectChans (cutChans order)
    have m1 := mem_disconnectChans g (cutChans order) h.inv
    have m2 := mem_wire (disconnectChans g (cutChans order)) chain hg1.inv hg1.kinds hg1.valid
    have hg2 := hg1.wire chain
    have hRC : ∀ x, x ∈ order.flatMap runChans → x ∈ cutChans order := by
      intro x hx
      obtain ⟨i, hi, e⟩ := (mem_runChansOf order x).mp hx
      exact (mem_cutChans order x).mpr ⟨i, hi, by rcases e with e | e <;> simp [e]⟩
    have htRC : ∀ x, x ∈ runChans t → x ∈ order.flatMap runChans := by
      intro x hx
      exact (mem_runChansOf order x).mpr ⟨t, ht, by simpa [runChans] using hx⟩
    have hEC : ∀ x, x ∈ extraChans cfg order → x ∈ otherOutChans order := by
      intro x hx; unfold extraChans at hx; split at hx
      · exact hx
      · cases hx
    have hW : ∀ x y, (∃ a b, Adj chain a b ∧ ((x = ch b 0 ∧ y = ch a 2) ∨ (x = ch a 2 ∧ y = ch b 0))) →
        (x ∈ order.flatMap runChans ∨ y ∈ order.flatMap runChans) ∧
          x ∉ otherOutChans order ∧ y ∉ otherOutChans order := by
      rintro x y ⟨a, b, hab, e⟩
      have hb : b ∈ order := hch b hab.mem.2
      have hin : ch b 0 ∈ order.flatMap runChans := (mem_runChansOf order _).mpr ⟨b, hb, Or.inl rfl⟩
      have hno : ∀ i k, k = 0 ∨ k = 2 → ch i k ∉ otherOutChans order := by
        intro i k hk hm
        obtain ⟨j, _, e⟩ := (mem_otherOutChans order _).mp hm
        unfold ch at e; omega
      rcases e with ⟨rfl, rfl⟩ | ⟨rfl, rfl⟩
      · exact ⟨Or.inl hin, hno _ _ (Or.inl rfl), hno _ _ (Or.inr rfl)⟩
      · exact ⟨Or.inr hin, hno _ _ (Or.inr rfl), hno _ _ (Or.inl rfl)⟩
    rw [prepare_eq]
  · -- what is left outside the closure's run inputs is old
    intro x y hy hx' hy'
    have key : y ∈ (wire (disconnectChans g (cutChans order)) chain).conns x := by
      split at hy
      · exact hy
      · exact disconnectChans_subset _ _ _ _ (disconnectChans_subset _ _ _ _ hy)
    rcases (m2 x y).mp key with hk | hk
    · exact ((m1 x y).mp hk).1
    · rcases (hW x y hk).1 with e | e
      · exact absurd e hx'
      · exact absurd e hy'
  · -- every old edge survives or is remembered
    intro x y h0
    by_cases hx : x ∈ cutChans order
    · rcases hcomp x y hx h0 with e | e
      · split
        · exact Or.inr (Or.inl e)
        · exact Or.inr (Or.inl (List.mem_append_left _ e))
      · split
        · exact Or.inr (Or.inr e)
        · exact Or.inr (Or.inr (List.mem_append_left _ e))
    · by_cases hy : y ∈ cutChans order
      · rcases hcomp y x hy ((hsymm _ _).mp h0) with e | e
        · split
          · exact Or.inr (Or.inr e)
          · exact Or.inr (Or.inr (List.mem_append_left _ e))
        · split
          · exact Or.inr (Or.inl e)
          · exact Or.inr (Or.inl (List.mem_append_left _ e))
      · have k1 : y ∈ (disconnectChans g (cutChans order)).conns x := (m1 x y).mpr ⟨h0, hx, hy⟩
        have k2 : y ∈ (wire (disconnectChans g (cutChans order)) chain).conns x := (m2 x y).mpr (Or.inl k1)
        have hxr : x ∉ order.flatMap runChans := fun e => hx (hRC x e)
        have hyr : y ∉ order.flatMap runChans := fun e => hy (hRC y e)
        split
        · exact Or.inl ⟨k2, hxr, hyr⟩
        · by_cases hxo : x ∈ extraChans cfg order
          · rcases cutRec_pairs_complete _ (extraChans cfg order) hg2.inv x y hxo k2 with e | e
            · exact Or.inr (Or.inl (List.mem_append_right _ e))
            · exact Or.inr (Or.inr (List.mem_append_right _ e))
          · by_cases hyo : y ∈ extraChans cfg order
            · rcases cutRec_pairs_complete _ (extraChans cfg order) hg2.inv y x hyo
                ((hg2.inv.symm _ _).mp k2) with e | e
              · exact Or.inr (Or.inr (List.mem_append_right _ e))
              · exact Or.inr (Or.inl (List.mem_append_right _ e))
            · refine Or.inl ⟨?_, hxr, hyr⟩
              rw [mem_disconnectChans _ _ (disconnectChans_inv _ _ hg2.inv),
                mem_disconnectChans _ _ hg2.inv]
              exact ⟨⟨k2, hxo, hyo⟩, fun e => hxr (htRC x e), fun e => hyr (htRC y e)⟩
  · -- the remembered pairs were connections
    intro a b hp
    have from1 : (a, b) ∈ (cutRec g (cutChans order)).2 → b ∈ g.conns a := fun e => (hsound a b e).2
    split at hp
    · exact from1 hp
    · rcases List.mem_append.mp hp with e | e
      · exact from1 e
      · obtain ⟨ha, hb⟩ := cutRec_pairs_sound _ _ hg2.inv a b e
        rcases (m2 a b).mp hb with hk | hk
        · exact ((m1 a b).mp hk).1
        · exact absurd (hEC a ha) (hW a b hk).2.1

end PwVerif.Pull
